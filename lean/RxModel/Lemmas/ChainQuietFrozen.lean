import RxModel.Lemmas.ChainQuietKills
/-
  C02 / C17 over the chain model, part 19: the quiet world.  `Quiet w`: every
  task is cancelled or finished and no subject holds a slot of the chain.  It is
  what `unsub` establishes, it is kept by every event, and no event of a quiet
  world touches the log.
-/
namespace Rx.T
open Rx

structure Quiet (w : TW) : Prop where
  subscribed : w.subscribed = true
  dead : ∀ (k : Nat), DeadIn w.sched k
  det : Detached w

/-- `unsub` on a subscribed, not yet unsubscribed world. -/
theorem unsub_quiet {w : TW} (g : GoodW none w) (hs : w.subscribed = true) :
    Quiet { w.unsubFrom w.stages.length with unsubscribed := true } := by
  have ur := unsubFrom_urel w.stages.length w
  have hk : HK w := fun j st h hs hm => by
    obtain ⟨t, ht, hl, _⟩ := g.hk j st h hs hm
    exact ⟨t, ht, hl⟩
  obtain ⟨ka, kb, kc⟩ := kills w.stages.length w hk
  have rb_of : ∀ l, ReachedW none w l → RB w l w.stages.length := by
    intro l hr i st h hl _ hst e
    rcases hr i st h hl hst e with h1 | h1
    · exact h1
    · cases h1
  refine ⟨ur.subscribed.trans hs, ?_, ?_, ?_⟩
  · intro k t' ht'
    have hlt : k < w.sched.tasks.length := by rw [← ur.sched.len]; exact Sched.get_lt ht'
    obtain ⟨t, ht⟩ : ∃ t, w.sched.tasks[k]? = some t := ⟨_, List.getElem?_eq_getElem hlt⟩
    cases hl : t.live with
    | false =>
      exact ur.sched.dead (k := k) (fun t0 ht0 => by rw [ht] at ht0; cases ht0; exact hl) t' ht'
    | true =>
      have ho := g.own k t ht hl
      have hlev : t.body.level ≤ w.stages.length := by
        unfold Owned at ho
        cases hlv : t.body.level with
        | zero => exact Nat.zero_le _
        | succ i =>
          rw [hlv] at ho
          obtain ⟨st, hst, _⟩ := ho
          exact Sched.get_lt hst
      exact ka k t ht hlev (rb_of _ (g.reached_of_live ht hl)) hl ho t' ht'
  · intro _
    show (w.unsubFrom w.stages.length).srcAlive = false
    cases ha : w.srcAlive with
    | true => exact kb (rb_of 0 (g.reached_of_alive ha))
    | false =>
      cases hb : (w.unsubFrom w.stages.length).srcAlive with
      | false => rfl
      | true => rw [ur.alive hb] at ha; cases ha
  · intro i st' hs'
    show st'.naHot = false
    cases hn : st'.naHot with
    | false => rfl
    | true =>
      obtain ⟨st, hst, hna⟩ := ur.na i st' hs'
      have h1 : st.naOn = true := by
        cases hno : st.naOn with
        | true => rfl
        | false => rw [st.naHot_le hno] at hna; exact absurd (hna hn) (by simp)
      have := kc i st' (Sched.get_lt hst) (rb_of _ (g.reached_of_na hst h1)) hs'
      rw [st'.naHot_le this] at hn; cases hn

/-- Only the scheduler changes, and only in ways that keep tasks dead and handle values. -/
structure QRel (s s' : Sched) : Prop where
  len : s'.tasks.length = s.tasks.length
  rel : ∀ (k : Nat) (t : Task), s.tasks[k]? = some t →
    ∃ t', s'.tasks[k]? = some t' ∧ t'.hasValue = t.hasValue ∧ (t'.live = true → t.live = true)

theorem QRel.refl (s : Sched) : QRel s s := ⟨rfl, fun _ t h => ⟨t, h, rfl, id⟩⟩

theorem QRel.trans {a b c : Sched} (h1 : QRel a b) (h2 : QRel b c) : QRel a c := by
  refine ⟨h2.len.trans h1.len, ?_⟩
  intro k t ht
  obtain ⟨t', ht', hv', hl'⟩ := h1.rel k t ht
  obtain ⟨t'', ht'', hv'', hl''⟩ := h2.rel k t' ht'
  exact ⟨t'', ht'', hv''.trans hv', fun h => hl' (hl'' h)⟩

theorem QRel.of_tasks_eq {s s' : Sched} (h : s'.tasks = s.tasks) : QRel s s' :=
  ⟨by rw [h], fun k t ht => ⟨t, by rw [h]; exact ht, rfl, id⟩⟩

theorem QRel.of_set {s s' : Sched} {k : Nat} {t t' : Task} (ht : s.tasks[k]? = some t)
    (hs : s'.tasks = s.tasks.set k t') (hv : t'.hasValue = t.hasValue)
    (hl : t'.live = true → t.live = true) : QRel s s' := by
  refine ⟨by rw [hs]; simp, ?_⟩
  intro j u hu
  rw [hs]
  by_cases e : j = k
  · subst e
    rw [ht] at hu; cases hu
    exact ⟨t', set_get_self _ _ _ _ ht, hv, hl⟩
  · exact ⟨u, by rw [set_get_ne _ _ _ _ e]; exact hu, rfl, id⟩

theorem QRel.dead {s s' : Sched} (h : QRel s s') {k : Nat} (hd : DeadIn s k) : DeadIn s' k := by
  intro t' ht'
  have hk : k < s.tasks.length := by rw [← h.len]; exact Sched.get_lt ht'
  obtain ⟨t, hteq⟩ : ∃ t, s.tasks[k]? = some t := ⟨s.tasks[k], List.getElem?_eq_getElem hk⟩
  obtain ⟨t'', h1, _, h3⟩ := h.rel k t hteq
  rw [ht'] at h1; cases h1
  cases hl : t'.live with
  | false => rfl
  | true => rw [hd t hteq] at h3; exact (h3 hl).symm

theorem QRel.closed {s s' : Sched} (h : QRel s s') (k : Nat) :
    s'.handleClosed k = s.handleClosed k := by
  unfold Sched.handleClosed
  cases ht : s.tasks[k]? with
  | none =>
    have : s'.tasks[k]? = none := by
      apply List.getElem?_eq_none
      rw [h.len]
      exact Nat.le_of_not_lt (fun hlt => by rw [List.getElem?_eq_getElem hlt] at ht; cases ht)
    rw [this]
  | some t =>
    obtain ⟨t', ht', hv, _⟩ := h.rel k t ht
    rw [ht']; exact hv

theorem QRel.preRel {s s1 : Sched} {k : Nat} (h : PreRel k s s1) : QRel s s1 := by
  rcases h with h | ⟨t, t', ht, hs, hb, hk, hv, hd⟩
  · exact QRel.of_tasks_eq h
  · refine QRel.of_set ht hs hv ?_
    intro hl
    simp only [Task.live, Bool.and_eq_true, Bool.not_eq_true'] at hl ⊢
    refine ⟨?_, by rw [← hk]; exact hl.2⟩
    cases hdd : t.done with
    | false => rfl
    | true => rw [hd hdd] at hl; cases hl.1

theorem QRel.fire (s : Sched) (tm : TimerId) : QRel s (s.fire tm) := by
  unfold Sched.fire
  split
  · exact QRel.refl _
  · simp only
    split
    · split
      · rename_i tk htk
        simp only [Sched.setTimer_tasks] at htk
        exact QRel.of_set (t' := { tk with woken := true }) htk rfl rfl id
      · exact QRel.of_tasks_eq rfl
    · exact QRel.of_tasks_eq rfl

theorem QRel.fireAll (l : List TimerId) : ∀ s : Sched, QRel s (l.foldl Sched.fire s) := by
  induction l with
  | nil => intro s; exact QRel.refl s
  | cons tm l ih => intro s; exact (QRel.fire s tm).trans (ih _)

/-- `w'` is `w` with another scheduler. -/
def QW (w w' : TW) : Prop := w' = { w with sched := w'.sched } ∧ QRel w.sched w'.sched

theorem QW.refl (w : TW) : QW w w := ⟨rfl, QRel.refl _⟩
theorem QW.trans {a b c : TW} (h1 : QW a b) (h2 : QW b c) : QW a c := by
  refine ⟨?_, h1.2.trans h2.2⟩
  rw [h2.1, h1.1]
theorem QW.mk' (w : TW) (s : Sched) (h : QRel w.sched s) : QW w { w with sched := s } := ⟨rfl, h⟩

theorem Quiet.qw {w w' : TW} (q : Quiet w) (h : QW w w') : Quiet w' := by
  rw [h.1]
  exact ⟨q.subscribed, fun k => h.2.dead (q.dead k), q.det⟩

theorem pollTask_quiet {w : TW} (q : Quiet w) (k : Nat) : QW w (w.pollTask k) := by
  obtain ⟨hrel, h1, h2⟩ := pollPre_spec w.sched k
  have qr := QRel.preRel hrel
  have norun : ∀ b, ¬ PreRun k (w.sched.pollPre k).1 b := by
    intro b ⟨t1, ht1, hl1, _⟩
    have := qr.dead (q.dead k) t1 ht1
    rw [this] at hl1; cases hl1
  unfold TW.pollTask
  generalize w.sched.pollPre k = pp at qr h1 h2 norun ⊢
  obtain ⟨s1, p⟩ := pp
  simp only at qr h1 h2 norun ⊢
  cases p with
  | none => exact QW.mk' w s1 qr
  | runOnce b => exact (norun b (h1 b rfl)).elim
  | runTick b seq => exact (norun b (h2 b seq rfl)).elim

theorem pollAll_quiet (l : List TaskId) : ∀ w : TW, Quiet w → QW w (w.pollAll l) := by
  induction l with
  | nil => intro w _; exact QW.refl w
  | cons k l ih =>
    intro w q
    simp only [TW.pollAll]
    have key : ∀ c : Bool, QW w (if c = true then w.pollTask k else w) := by
      intro c; cases c
      · exact QW.refl w
      · exact pollTask_quiet q k
    exact (key _).trans (ih _ (q.qw (key _)))

theorem runLoop_quiet (fuel : Nat) : ∀ w : TW, Quiet w → QW w (TW.runLoop fuel w) := by
  induction fuel with
  | zero => intro w _; exact QW.refl w
  | succ fuel ih =>
    intro w q
    have h1 : QW w ({ w with sched := w.sched.dueTimers.foldl Sched.fire w.sched } : TW) :=
      QW.mk' w _ (QRel.fireAll _ _)
    simp only [TW.runLoop]
    split
    · exact h1
    · exact (h1.trans (pollAll_quiet _ _ (q.qw h1))).trans
        (ih _ (q.qw (h1.trans (pollAll_quiet _ _ (q.qw h1)))))

end Rx.T
