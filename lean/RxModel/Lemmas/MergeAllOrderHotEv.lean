import RxModel.Lemmas.MergeAllOrderHotStep
/-
  C05O — hot inner instances: `Eff` for each external event.
-/
namespace Rx.MergeAll

/-- An event that changes nothing and logs nothing. -/
theorem Eff.noop {j t : Nat} {s : St} {ev : Ev} (h : QPre j t s s.queue)
    (hh : heardNow j t s ev = []) (hd : subjTerm j ev = true → s.dead.contains j = true)
    (hu : ev ≠ .unsub) : Eff j t s ev (s, []) [] := by
  refine ⟨h, by simp [startsOf, nTag], by simp [startsOf, nTag], fun _ _ => by simp [startsOf, nTag],
    by simp [startsOf, arrivalsOf, nTag], by rw [hh]; rfl, ?_, TermEff.refl s, Nat.le_refl _,
    fun he => absurd he hu⟩
  cases hst : subjTerm j ev with
  | false => simp
  | true => rw [hd hst]; rfl

theorem eff_outerNext (f : Bool) (j t : Nat) (s : St) (k : Nat) (h : QPre j t s s.queue)
    (hkey : ∀ i ∈ arrivalsOf (outerNextL f s k), i.tag = t → s.inner i.k = .hot j) :
    Eff j t s (.outerNext k) (outerNext f s k) (outerNextL f s k) := by
  by_cases ho : (!s.outerOpen) = true
  · simp only [outerNext, outerNextL]
    rw [if_pos ho, if_pos ho]
    exact Eff.noop h rfl (by simp [subjTerm]) (by simp)
  · by_cases ha : (!s.alive) = true
    · simp only [outerNext, outerNextL]
      rw [if_neg ho, if_neg ho, if_pos ha, if_pos ha]
      refine ⟨⟨h.own, h.key, fun i hi => Nat.lt_succ_of_lt (h.qlt i hi),
        fun p hp => Nat.lt_succ_of_lt (h.slt p hp)⟩, by simp [startsOf, nTag], by simp [startsOf, nTag],
        fun _ _ => by simp [startsOf, nTag], by simp [startsOf, arrivalsOf, nTag], rfl,
        by simp [subjTerm], ⟨by simp, fun _ => rfl⟩, Nat.le_succ _, by simp⟩
    · have hk : s.arrivals = t → s.inner k = .hot j := by
        intro ht
        apply hkey ⟨s.arrivals, k⟩ ?_ ht
        simp only [outerNextL]
        rw [if_neg ho, if_neg ha]
        simp [arrivalsOf]
      by_cases hlt : s.subscribed < s.concurrent
      · simp only [outerNext, outerNextL]
        rw [if_neg ho, if_neg ho, if_neg ha, if_neg ha, if_pos hlt, if_pos hlt]
        have hp1 : QPre j t { s with arrivals := s.arrivals + 1, subscribed := s.subscribed + 1 }
            (⟨s.arrivals, k⟩ :: s.queue) := by
          refine ⟨h.own, ?_, ?_, fun p hp => Nat.lt_succ_of_lt (h.slt p hp)⟩
          · intro i hi hit
            simp only [List.mem_cons] at hi
            rcases hi with rfl | hi
            · exact hk hit
            · exact h.key i hi hit
          · intro i hi
            simp only [List.mem_cons] at hi
            rcases hi with rfl | hi
            · exact Nat.lt_succ_self _
            · exact Nat.lt_succ_of_lt (h.qlt i hi)
        have e := startTop_eff f j t
          { s with arrivals := s.arrivals + 1, subscribed := s.subscribed + 1 } ⟨s.arrivals, k⟩ hp1
        have hc := e.cnt
        have hq := e.que
        have hA : nTag (⟨s.arrivals, k⟩ :: s.queue) t = nTag s.queue t + nTag [⟨s.arrivals, k⟩] t := by
          rw [show (⟨s.arrivals, k⟩ :: s.queue : List Inst) = [⟨s.arrivals, k⟩] ++ s.queue from rfl,
            nTag_app]; omega
        simp only at hc hq
        refine ⟨e.pre hp1, ?_, ?_, fun _ _ => ?_, ?_, e.res, ?_, ?_, ?_, by simp⟩
        · simp only [startsOf]; omega
        · simp only [startsOf]; omega
        · simp only [startsOf]; omega
        · simp only [startsOf, arrivalsOf, arrivalsOf_startTopL]; omega
        · rw [e.dead]; simp [subjTerm]
        · have ht := e.term
          refine ⟨fun hh => ht.1 (by simpa [hasTerm_cons, Lab.isTerm] using hh), fun hh => ?_⟩
          exact ht.2 (by simpa [hasTerm_cons, Lab.isTerm] using hh)
        · rw [e.arr]; exact Nat.le_succ _
      · simp only [outerNext, outerNextL]
        rw [if_neg ho, if_neg ho, if_neg ha, if_neg ha, if_neg hlt, if_neg hlt]
        refine ⟨⟨h.own, ?_, ?_, fun p hp => Nat.lt_succ_of_lt (h.slt p hp)⟩, by simp [startsOf, nTag],
          by simp [startsOf, nTag], fun _ _ => by simp [startsOf, nTag], ?_, rfl,
          by simp [subjTerm], ⟨by simp [hasTerm_cons, Lab.isTerm], fun _ => rfl⟩, Nat.le_succ _, by simp⟩
        · intro i hi hit
          simp only [List.mem_append, List.mem_singleton] at hi
          rcases hi with hi | rfl
          · exact h.key i hi hit
          · exact hk hit
        · intro i hi
          simp only [List.mem_append, List.mem_singleton] at hi
          rcases hi with hi | rfl
          · exact Nat.lt_succ_of_lt (h.qlt i hi)
          · exact Nat.lt_succ_self _
        · simp only [startsOf, arrivalsOf, nTag_app]; simp [nTag]

theorem eff_outerError (j t : Nat) (s : St) (e : Err) (h : QPre j t s s.queue) :
    Eff j t s (.outerError e) (outerError s e) ((outerError s e).2.map .out) := by
  simp only [outerError]
  by_cases ho : (!s.outerOpen) = true
  · rw [if_pos ho]; exact Eff.noop h rfl (by simp [subjTerm]) (by simp)
  · rw [if_neg ho]
    by_cases ha : s.alive = true
    · rw [if_pos ha]
      exact ⟨⟨h.own, h.key, h.qlt, h.slt⟩, by simp [startsOf, nTag], by simp [startsOf, nTag],
        fun _ _ => by simp [startsOf, nTag], by simp [startsOf, arrivalsOf, nTag], rfl,
        by simp [subjTerm], ⟨fun _ => rfl, by simp [hasTerm_cons, Lab.isTerm]⟩, Nat.le_refl _, by simp⟩
    · rw [if_neg ha]
      exact ⟨⟨h.own, h.key, h.qlt, h.slt⟩, by simp [startsOf, nTag], by simp [startsOf, nTag],
        fun _ _ => by simp [startsOf, nTag], by simp [startsOf, arrivalsOf, nTag], rfl,
        by simp [subjTerm], ⟨by simp, fun _ => rfl⟩, Nat.le_refl _, by simp⟩

theorem eff_outerComplete (j t : Nat) (s : St) (h : QPre j t s s.queue) :
    Eff j t s .outerComplete (outerComplete s) ((outerComplete s).2.map .out) := by
  simp only [outerComplete]
  by_cases ho : (!s.outerOpen) = true
  · rw [if_pos ho]; exact Eff.noop h rfl (by simp [subjTerm]) (by simp)
  · rw [if_neg ho]
    by_cases ha : s.alive = true
    · rw [if_pos ha]
      by_cases hz : s.subscribed = 0 ∧ s.queue = []
      · rw [if_pos hz]
        exact ⟨⟨h.own, h.key, h.qlt, h.slt⟩, by simp [startsOf, nTag], by simp [startsOf, nTag],
          fun _ _ => by simp [startsOf, nTag], by simp [startsOf, arrivalsOf, nTag], rfl,
          by simp [subjTerm], ⟨fun _ => rfl, by simp [hasTerm_cons, Lab.isTerm]⟩, Nat.le_refl _,
          by simp⟩
      · rw [if_neg hz]
        exact ⟨⟨h.own, h.key, h.qlt, h.slt⟩, by simp [startsOf, nTag], by simp [startsOf, nTag],
          fun _ _ => by simp [startsOf, nTag], by simp [startsOf, arrivalsOf, nTag], rfl,
          by simp [subjTerm], ⟨by simp, fun _ => rfl⟩, Nat.le_refl _, by simp⟩
    · rw [if_neg ha]
      exact ⟨⟨h.own, h.key, h.qlt, h.slt⟩, by simp [startsOf, nTag], by simp [startsOf, nTag],
        fun _ _ => by simp [startsOf, nTag], by simp [startsOf, arrivalsOf, nTag], rfl,
        by simp [subjTerm], ⟨by simp, fun _ => rfl⟩, Nat.le_refl _, by simp⟩

theorem eff_innerNext (j t : Nat) (s : St) (j' : Nat) (v : Val) (h : QPre j t s s.queue) :
    Eff j t s (.innerNext j' v) (hotNext s j' v) ((hotNext s j' v).2.map .out) := by
  unfold hotNext
  by_cases hd : s.dead.contains j' = true
  · rw [if_pos hd]
    refine Eff.noop h ?_ (by simp [subjTerm]) (by simp)
    simp only [heardNow]
    apply if_neg
    rintro ⟨hj, _, h3⟩
    rw [← hj, hd] at h3; cases h3
  · rw [if_neg hd]
    have hres : restrict t (if s.alive = true then (targets s j').map (fun p => Out.item p.2 v) else [])
        = heardNow j t s (.innerNext j' v) := by
      simp only [heardNow]
      by_cases hj : j' = j
      · subst hj
        by_cases ha : s.alive = true
        · have hd' : s.dead.contains j' = false := by simpa using hd
          simp only [ha, hd', and_self, if_true]
          exact restrict_targets_count t j' v s.subs h.own
        · simp [ha, restrict]
      · have hne : ¬(j' = j ∧ s.alive = true ∧ s.dead.contains j = false) := fun hh => hj hh.1
        rw [if_neg hne]
        split
        · apply restrict_targets t v
          intro p hp hpt
          have hm := List.mem_filter.mp hp
          have := h.own p hm.1 hpt
          have hj' : p.1 = j' := by simpa using hm.2
          exact hj (hj'.symm.trans this)
        · rfl
    refine ⟨h, by simp [startsOf_map_out, nTag], by simp [startsOf_map_out, nTag],
      fun _ _ => by simp [startsOf_map_out, nTag],
      by simp [startsOf_map_out, arrivalsOf_map_out, nTag], hres, by simp [subjTerm], ?_,
      Nat.le_refl _, by simp⟩
    simp only
    split
    · exact ⟨by rw [hasTerm_map_items]; simp, fun _ => rfl⟩
    · exact ⟨by simp, fun _ => rfl⟩

theorem eff_innerError (j t : Nat) (s : St) (j' : Nat) (e : Err) (h : QPre j t s s.queue) :
    Eff j t s (.innerError j' e) (hotError s j' e) ((hotError s j' e).2.map .out) := by
  unfold hotError
  by_cases hd : s.dead.contains j' = true
  · rw [if_pos hd]
    refine Eff.noop h rfl ?_ (by simp)
    intro hst
    have : j' = j := by simpa [subjTerm] using hst
    rw [← this]; exact hd
  · rw [if_neg hd]
    have hf := errorAll_frame e (targets s j')
      { s with dead := j' :: s.dead, subs := s.subs.filter (fun p => !(p.1 == j')) }
    have hsub := errorAll_sub e (targets s j')
      { s with dead := j' :: s.dead, subs := s.subs.filter (fun p => !(p.1 == j')) }
    have ho := errorAll_out e (targets s j')
      { s with dead := j' :: s.dead, subs := s.subs.filter (fun p => !(p.1 == j')) }
    have hcnt := count_filter_ne s.subs j j' t
    refine ⟨⟨?_, ?_, ?_, ?_⟩, ?_, by simp [startsOf_map_out, nTag], ?_, ?_, ?_, ?_, ?_, ?_, by simp⟩
    · rw [hf.2.2.2.1]; intro p hp; exact h.own p (List.mem_filter.mp hp).1
    · rw [hf.2.2.1]; intro i hi hit; rw [inner_of_inners hf.1]; exact h.key i hi hit
    · rw [hf.2.2.1, hf.2.1]; exact h.qlt
    · rw [hf.2.2.2.1, hf.2.1]; intro p hp; exact h.slt p (List.mem_filter.mp hp).1
    · rw [hf.2.2.2.1]; simp only; rw [hcnt]; split <;> omega
    · intro hst _
      have hne : j ≠ j' := by
        intro hh; simp [subjTerm, hh] at hst
      rw [hf.2.2.2.1]; simp only; rw [hcnt, if_neg hne]; simp [startsOf_map_out, nTag]
    · rw [hf.2.2.1]; simp [startsOf_map_out, arrivalsOf_map_out]
    · exact restrict_noitems t _ hf.2.2.2.2
    · rw [hsub.2.2]
      simp only [subjTerm, List.contains_cons]
      rw [Bool.or_comm]
      congr 1
      exact Bool.eq_iff_iff.mpr ⟨fun h => by simpa using Eq.symm (by simpa using h),
        fun h => by simpa using Eq.symm (by simpa using h)⟩
    · rw [ho.1]
      simp only
      constructor
      · intro hh
        rw [ho.2.1]
        by_cases hc : s.alive = true ∧ targets s j' ≠ []
        · have : (targets s j').isEmpty = false := by
            cases htt : targets s j' with
            | nil => exact absurd htt hc.2
            | cons a b => rfl
          simp [this]
        · rw [if_neg hc] at hh; simp at hh
      · intro hh
        rw [ho.2.1]
        by_cases hc : s.alive = true ∧ targets s j' ≠ []
        · rw [if_pos hc] at hh; simp [hasTerm_cons, Lab.isTerm] at hh
        · by_cases ha : s.alive = true
          · have : targets s j' = [] := by
              cases htt : targets s j' with
              | nil => rfl
              | cons a b => exact absurd ⟨ha, by simp [htt]⟩ hc
            simp [this]
          · simp [ha]
    · rw [hf.2.1]; exact Nat.le_refl _

theorem eff_innerComplete (f : Bool) (j t : Nat) (s : St) (j' : Nat) (h : QPre j t s s.queue) :
    Eff j t s (.innerComplete j') (hotComplete f s j') (hotCompleteL f s j') := by
  unfold hotComplete hotCompleteL
  by_cases hd : s.dead.contains j' = true
  · rw [if_pos hd, if_pos hd]
    refine Eff.noop h rfl ?_ (by simp)
    intro hst
    have : j' = j := by simpa [subjTerm] using hst
    rw [← this]; exact hd
  · rw [if_neg hd, if_neg hd]
    have hp0 := h.filter j'
    have e := completeAll_eff f j t (targets s j') _ hp0
    have hcnt := count_filter_ne s.subs j j' t
    have hc := e.cnt
    have hq := e.que
    simp only at hc hq
    rw [hcnt] at hc
    refine ⟨e.pre hp0, ?_, ?_, ?_, ?_, e.res, ?_, e.term, ?_, by simp⟩
    · rw [hc]; split <;> omega
    · rw [hc]; omega
    · intro hst _
      have hne : j ≠ j' := by
        intro hh; simp [subjTerm, hh] at hst
      rw [hc, if_neg hne]
    · rw [arrivalsOf_completeAllL]; simp only [nTag_nil]; omega
    · rw [e.dead]
      simp only [subjTerm, List.contains_cons]
      rw [Bool.or_comm]
      congr 1
      exact Bool.eq_iff_iff.mpr ⟨fun h => by simpa using Eq.symm (by simpa using h),
        fun h => by simpa using Eq.symm (by simpa using h)⟩
    · rw [e.arr]; exact Nat.le_refl _

theorem eff_unsub (j t : Nat) (s : St) (h : QPre j t s s.queue) :
    Eff j t s .unsub (unsub s) [] := by
  unfold unsub
  exact ⟨⟨by simp, h.key, h.qlt, by simp⟩, by simp [startsOf, nTag], by simp [startsOf, nTag],
    fun _ hu => absurd rfl hu, by simp [startsOf, arrivalsOf, nTag], rfl, by simp [subjTerm],
    TermEff.refl _, Nat.le_refl _, fun _ => ⟨rfl, rfl⟩⟩

/-- The effect of any event, from any state that is not stuck. -/
theorem stepG_eff (f : Bool) (j t : Nat) (s : St) (ev : Ev) (hs : s.stuck = false)
    (h : QPre j t s s.queue)
    (hkey : ∀ i ∈ arrivalsOf (stepL f s ev), i.tag = t → s.inner i.k = .hot j) :
    Eff j t s ev (stepG f s ev) (stepL f s ev) := by
  unfold stepG stepL at *
  have hst : ¬ s.stuck = true := by simp [hs]
  rw [if_neg hst] at hkey
  rw [if_neg hst, if_neg hst]
  cases ev with
  | outerNext k => exact eff_outerNext f j t s k h hkey
  | outerError e => exact eff_outerError j t s e h
  | outerComplete => exact eff_outerComplete j t s h
  | innerNext j' v => exact eff_innerNext j t s j' v h
  | innerError j' e => exact eff_innerError j t s j' e h
  | innerComplete j' => exact eff_innerComplete f j t s j' h
  | unsub => exact eff_unsub j t s h

end Rx.MergeAll
