import RxModel.Conc.SubjectSteps
/-
  Helper lemmas for Props/C06S.lean, part 1: the no-panic invariant of the
  step-level model of SubjectThreads under ALL interleavings.
-/
namespace Rx.Conc.SS
open Rx

/-- "observers = Some → chamber = Some": what the `unwrap()`s rely on. -/
def OC (s : St) : Prop := s.obs = none ∨ s.chamber ≠ none

/-- Once `observers` is `None` it stays `None`: no step re-creates the live list. -/
theorem step_obs_none (s : St) (x : Step) (h : s.obs = none) : (s.step x).obs = none := by
  obtain ⟨obs, ch, slots, log, sizes, p⟩ := s
  simp only at h
  subst h
  cases p <;> cases ch <;> cases x <;> simp [St.step]

theorem runSteps_obs_none (xs : List Step) : ∀ (s : St), s.obs = none → (s.runSteps xs).obs = none := by
  induction xs with
  | nil => intro s h; exact h
  | cons x r ih => intro s h; exact ih _ (step_obs_none s x h)

/-- A step that is not an unguarded `takeChamber` keeps the state panic-free and keeps `OC`. -/
theorem step_safe (s : St) (x : Step) (np : s.panicked = false) (oc : OC s)
    (hx : x = .takeChamber → s.obs = none) : (s.step x).panicked = false ∧ OC (s.step x) := by
  obtain ⟨obs, ch, slots, log, sizes, p⟩ := s
  simp only at np
  subst np
  unfold OC at *
  cases x with
  | takeChamber =>
    have : obs = none := hx rfl
    subst this
    simp [St.step]
  | load => cases obs <;> cases ch <;> simp_all [St.step]
  | len => cases obs <;> cases ch <;> simp_all [St.step]
  | isEmpty =>
    cases obs with
    | none => simp [St.step]
    | some o =>
      cases ch with
      | none => simp_all
      | some c => cases h : o.isEmpty <;> simp [St.step, h]
  | bcastNext v => cases obs <;> cases ch <;> simp_all [St.step]
  | bcastTerm t => cases obs <;> cases ch <;> simp_all [St.step]
  | takeObs => simp [St.step]
  | push => cases obs <;> cases ch <;> simp_all [St.step]
  | retain => cases obs <;> cases ch <;> simp_all [St.step]
  | closeSlot u => cases obs <;> cases ch <;> simp_all [St.step]

/-- What the rest of a thread's current operation may be: nothing, or one step — and if
    that step is `takeChamber`, the thread's own `takeObs` has already emptied `observers`. -/
def CurOk (s : St) (cur : List Step) : Prop :=
  cur = [] ∨ ∃ x, cur = [x] ∧ (x = .takeChamber → s.obs = none)

theorem CurOk.step {s : St} {cur : List Step} (h : CurOk s cur) (x : Step) : CurOk (s.step x) cur := by
  rcases h with h | ⟨y, h, g⟩
  · exact Or.inl h
  · exact Or.inr ⟨y, h, fun e => step_obs_none s x (g e)⟩

/-- Starting an operation: its first step is never `takeChamber`, and what remains is `CurOk`. -/
theorem pickOps_ok (s : St) (np : s.panicked = false) :
    ∀ (ops : List Op) (x : Step) (t' : Thread), pickOps Op.steps ops = some (x, t') →
      x ≠ .takeChamber ∧ CurOk (s.step x) t'.cur := by
  intro ops x t' h
  cases ops with
  | nil => simp [pickOps] at h
  | cons op rest =>
    cases op <;> simp only [pickOps, Op.steps, Option.some.injEq, Prod.mk.injEq] at h <;>
      obtain ⟨rfl, rfl⟩ := h
    case unsubAll =>
      refine ⟨by simp, Or.inr ⟨_, rfl, fun _ => ?_⟩⟩
      simp [St.step, np]
    all_goals first
      | exact ⟨by simp, Or.inl rfl⟩
      | exact ⟨by simp, Or.inr ⟨_, rfl, by simp⟩⟩

/-- The invariant of all interleavings. -/
structure Inv (c : Cfg) : Prop where
  np : c.st.panicked = false
  oc : OC c.st
  th : ∀ t ∈ c.ths, CurOk c.st t.cur

theorem Inv.init (progs : List (List Op)) : Inv (Cfg.init progs) := by
  refine ⟨rfl, Or.inr (by simp [Cfg.init, St.init]), ?_⟩
  intro t ht
  simp only [Cfg.init, List.mem_map] at ht
  obtain ⟨_, _, rfl⟩ := ht
  exact Or.inl rfl

theorem sched1_none {steps : Op → List Step} {c : Cfg} {i : Nat} (h : c.ths[i]? = none) :
    c.sched1 steps i = c := by
  simp [Cfg.sched1, h]

theorem sched1_idle {steps : Op → List Step} {c : Cfg} {i : Nat} {t : Thread} (h : c.ths[i]? = some t)
    (hp : t.pick steps = none) : c.sched1 steps i = c := by
  simp [Cfg.sched1, h, hp]

theorem sched1_run {steps : Op → List Step} {c : Cfg} {i : Nat} {t t' : Thread} {x : Step}
    (h : c.ths[i]? = some t) (hp : t.pick steps = some (x, t')) :
    c.sched1 steps i = ⟨c.st.step x, c.ths.set i t'⟩ := by
  simp [Cfg.sched1, h, hp]

theorem Inv.sched1 {c : Cfg} (h : Inv c) (i : Nat) : Inv (c.sched1 Op.steps i) := by
  cases hi : c.ths[i]? with
  | none => rw [sched1_none hi]; exact h
  | some t =>
    have htm : t ∈ c.ths := List.mem_of_getElem? hi
    cases hp : t.pick Op.steps with
    | none => rw [sched1_idle hi hp]; exact h
    | some r =>
      obtain ⟨x, t'⟩ := r
      rw [sched1_run hi hp]
      -- the scheduled step is guarded, and what remains of the thread is fine afterwards
      have key : (x = .takeChamber → c.st.obs = none) ∧ CurOk (c.st.step x) t'.cur := by
        unfold Thread.pick at hp
        cases hc : t.cur with
        | nil =>
          rw [hc] at hp
          have := pickOps_ok c.st h.np t.rest x t' hp
          exact ⟨fun e => absurd e this.1, this.2⟩
        | cons y cur =>
          rw [hc] at hp
          simp only [Option.some.injEq, Prod.mk.injEq] at hp
          obtain ⟨rfl, rfl⟩ := hp
          rcases h.th t htm with e | ⟨z, e, g⟩
          · rw [hc] at e; cases e
          · rw [hc] at e
            simp only [List.cons.injEq] at e
            obtain ⟨rfl, rfl⟩ := e
            exact ⟨g, Or.inl rfl⟩
      have hs := step_safe c.st x h.np h.oc key.1
      refine ⟨hs.1, hs.2, ?_⟩
      intro u hu
      rcases List.mem_or_eq_of_mem_set hu with hu | rfl
      · exact (h.th u hu).step x
      · exact key.2

theorem Inv.exec (sched : List Nat) : ∀ {c : Cfg}, Inv c → Inv (exec Op.steps c sched) := by
  induction sched with
  | nil => intro c h; exact h
  | cons i r ih => intro c h; exact ih (h.sched1 i)

end Rx.Conc.SS
