import RxModel.Lemmas.MergeAllBasic
/-
  Stuck-freedom (no PANIC / RELOCK): always for the repaired code, and for the
  code as it is whenever no queued inner touches the cell at subscription.
-/
namespace Rx.MergeAll

/-- No queued inner observable emits or terminates inside `actual_subscribe`. -/
def QueueQuiet (s : St) : Prop := ∀ i ∈ s.queue, (s.inner i.k).touches = false

theorem touches_cold_complete (xs : List Val) : (Inner.cold xs .complete).touches = true := by
  cases xs <;> rfl

theorem drain_stuck (f : Bool) (q : List Inst) : ∀ s : St,
    (f = true ∨ ∀ i ∈ q, (s.inner i.k).touches = false) →
    (drain f s q).1.stuck = s.stuck ∧ (∀ i ∈ (drain f s q).1.queue, i ∈ q) := by
  induction q with
  | nil => intro s _; simp only [drain]; split <;> simp
  | cons i rest ih =>
    intro s hq
    simp only [drain]
    split
    · simp; intro a ha; exact Or.inr ha
    · rename_i xs fin hin
      split
      · rename_i hc
        rcases hq with hf | hq
        · subst hf; simp at hc
        · have := hq i (List.mem_cons_self ..)
          rw [hin] at this
          simp [this] at hc
      · split
        · simp; intro a ha; exact Or.inr ha
        · simp; intro a ha; exact Or.inr ha
        · have hq' : f = true ∨ ∀ j ∈ rest,
              (St.inner { s with completed := s.completed + 1, started := s.started + 1 } j.k).touches
                = false := by
            rcases hq with hf | hq
            · exact Or.inl hf
            · exact Or.inr fun j hj => hq j (List.mem_cons_of_mem _ hj)
          have := ih { s with completed := s.completed + 1, started := s.started + 1 } hq'
          simp only at this ⊢
          exact ⟨this.1, fun a ha => List.mem_cons_of_mem _ (this.2 a ha)⟩

theorem innerComplete_stuck (f : Bool) (s : St) (hq : f = true ∨ QueueQuiet s) :
    (innerComplete f s).1.stuck = s.stuck ∧ (innerComplete f s).1.inners = s.inners ∧
    (∀ i ∈ (innerComplete f s).1.queue, i ∈ s.queue) := by
  unfold innerComplete
  split
  · have := drain_stuck f s.queue s hq
    exact ⟨this.1, (drain_frame f s.queue s).2.1, this.2⟩
  · exact ⟨rfl, rfl, fun _ h => h⟩

theorem QueueQuiet_of_sub {s s' : St} (hi : s'.inners = s.inners)
    (hq : ∀ i ∈ s'.queue, i ∈ s.queue) (h : QueueQuiet s) : QueueQuiet s' := by
  intro i hi'
  have := h i (hq i hi')
  simpa [St.inner, hi] using this

theorem completeAll_stuck (f : Bool) (ts : List (Nat × Nat)) : ∀ s : St,
    s.stuck = false → (f = true ∨ QueueQuiet s) → (completeAll f s ts).1.stuck = false := by
  induction ts with
  | nil => intro s h _; exact h
  | cons t r ih =>
    intro s h hq
    simp only [completeAll]
    have h1 := innerComplete_stuck f s hq
    split
    · rename_i hs; rw [h1.1, h] at hs; cases hs
    · apply ih _ (by rw [h1.1, h])
      rcases hq with hf | hq
      · exact Or.inl hf
      · exact Or.inr (QueueQuiet_of_sub h1.2.1 h1.2.2 hq)

theorem errorAll_stuck (e : Err) (ts : List (Nat × Nat)) : ∀ s : St,
    (errorAll s e ts).1.stuck = s.stuck := by
  induction ts with
  | nil => intro s; rfl
  | cons t r ih =>
    intro s
    simp only [errorAll]
    rw [ih]
    unfold innerError; split <;> rfl

/-- One event does not get stuck if the repair is in, or if the queue is quiet. -/
theorem stepG_stuck (f : Bool) (s : St) (ev : Ev) (h : s.stuck = false)
    (hq : f = true ∨ QueueQuiet s) : (stepG f s ev).1.stuck = false := by
  unfold stepG
  rw [h]
  simp only [Bool.false_eq_true, if_false]
  cases ev with
  | outerNext k =>
    simp only [outerNext]
    split
    · exact h
    · split
      · exact h
      · split
        · unfold startTop
          simp only
          split
          · exact h
          · split
            · exact h
            · exact h
            · have := drain_stuck f s.queue
                { s with arrivals := s.arrivals + 1, subscribed := s.subscribed + 1,
                         started := s.started + 1 } hq
              simp only at this ⊢
              rw [this.1]; exact h
        · exact h
  | outerError e =>
    simp only [outerError]
    split
    · exact h
    · split <;> exact h
  | outerComplete =>
    simp only [outerComplete]
    split
    · exact h
    · split
      · split <;> exact h
      · exact h
  | innerNext j v => simp only [hotNext]; split <;> exact h
  | innerError j e =>
    simp only [hotError]
    split
    · exact h
    · rw [errorAll_stuck]; exact h
  | innerComplete j =>
    simp only [hotComplete]
    split
    · exact h
    · exact completeAll_stuck f _ _ h hq
  | unsub => exact h

theorem runG_stuck_fixed (evs : List Ev) : ∀ s : St, s.stuck = false →
    (runG true s evs).1.stuck = false := by
  induction evs with
  | nil => intro s h; exact h
  | cons ev r ih =>
    intro s h
    simp only [runG]
    exact ih _ (stepG_stuck true s ev h (Or.inl rfl))

theorem runG_append (f : Bool) (a b : List Ev) (s : St) :
    runG f s (a ++ b) = ((runG f (runG f s a).1 b).1, (runG f s a).2 ++ (runG f (runG f s a).1 b).2) := by
  induction a generalizing s with
  | nil => simp [runG]
  | cons ev r ih => simp only [List.cons_append, runG, ih, List.append_assoc]

/-- The code as it is does not get stuck as long as the queue is quiet before every event. -/
theorem runG_stuck_quiet (evs : List Ev) : ∀ s : St, s.stuck = false →
    (∀ pre ev post, evs = pre ++ ev :: post → QueueQuiet (runG false s pre).1) →
    (runG false s evs).1.stuck = false := by
  induction evs with
  | nil => intro s h _; exact h
  | cons ev r ih =>
    intro s h hq
    simp only [runG]
    apply ih _ (stepG_stuck false s ev h (Or.inr (hq [] ev r rfl)))
    intro pre ev' post he
    have := hq (ev :: pre) ev' post (by simp [he])
    simpa [runG] using this

/-- Once stuck, always stuck (the case stops there). -/
theorem runG_stuck_mono (f : Bool) (evs : List Ev) : ∀ s : St, s.stuck = true →
    runG f s evs = (s, []) := by
  induction evs with
  | nil => intro s _; rfl
  | cons ev r ih =>
    intro s h
    simp only [runG, stepG, h, if_true, ih s h, List.append_nil]

end Rx.MergeAll
