import RxModel.Lemmas.MergeAllOrderHotEv
/-
  C05O — hot inner instances, exactly once and in order.

  SPECIFICATION (`hotSpec`), a function of the observable trace only (the
  external events and, for each, the log of what it caused): the life of
  instance `t` of hot subject `j` is

      idle  — not started yet (not arrived, or waiting in the queue);
              remembers whether subject `j` has terminated meanwhile;
      live  — started (`start t` in the log: at arrival if a slot was free,
              otherwise when it left the queue), subject `j` not terminated,
              merged stream not terminated, not unsubscribed;
      over  — after the terminal of subject `j`, a terminal of the merged
              stream, or `unsubscribe()`.

  and the instance contributes exactly the items subject `j` emits while it is
  `live`, each once, in emission order.
-/
namespace Rx.MergeAll

inductive Phase where
  | idle (subjDone : Bool)
  | live
  | over
  deriving DecidableEq, Repr, Inhabited

/-- Was instance `t` started in this log? -/
def hasStart (t : Nat) (l : List Lab) : Bool := (startsOf l).any (fun i => i.tag == t)

/-- The phase after an event `ev` whose log is `l`. -/
def Phase.next (j t : Nat) (ph : Phase) (ev : Ev) (l : List Lab) : Phase :=
  match ph with
  | .over => .over
  | .live => if subjTerm j ev || ev == .unsub || hasTerm l then .over else .live
  | .idle d =>
      if ev == .unsub || hasTerm l then .over
      else if hasStart t l then (if d || subjTerm j ev then .over else .live)
      else .idle (d || subjTerm j ev)

/-- What the instance contributes at an event: the item of its subject, if live. -/
def Phase.hears (j : Nat) (ph : Phase) (ev : Ev) : List Val :=
  match ph, ev with
  | .live, .innerNext j' v => if j' = j then [v] else []
  | _, _ => []

/-- Expected contribution of instance `t` of hot subject `j` along a trace. -/
def hotSpec (j t : Nat) : Phase → List (Ev × List Lab) → List Val
  | _, [] => []
  | ph, (ev, l) :: r => ph.hears j ev ++ hotSpec j t (ph.next j t ev l) r

/-- The phase at the end of a trace. -/
def phaseAfter (j t : Nat) : Phase → List (Ev × List Lab) → Phase
  | ph, [] => ph
  | ph, (ev, l) :: r => phaseAfter j t (ph.next j t ev l) r

/-- Instance `t` is subscribed to subject `j` and can be heard downstream. -/
def Listening (s : St) (j t : Nat) : Prop :=
  s.alive = true ∧ (j, t) ∈ s.subs ∧ s.dead.contains j = false

/-- The link between the phase (computed from the trace) and the model state. -/
def PhaseInv (j t : Nat) (s : St) : Phase → Prop
  | .idle d => s.subs.count (j, t) = 0 ∧ nTag s.queue t ≤ 1 ∧ s.alive = true ∧ d = s.dead.contains j
  | .live => s.subs.count (j, t) = 1 ∧ nTag s.queue t = 0 ∧ s.alive = true ∧ s.dead.contains j = false
  | .over => s.alive = false ∨ (s.outerOpen = false ∧ s.subs = []) ∨
      (s.dead.contains j = true ∧ nTag s.queue t = 0 ∧ t < s.arrivals)

theorem nTag_eq_zero (q : List Inst) (t : Nat) (h : ∀ i ∈ q, i.tag ≠ t) : nTag q t = 0 := by
  induction q with
  | nil => rfl
  | cons a r ih =>
    rw [nTag_cons_ne _ _ _ (h a (List.mem_cons_self ..))]
    exact ih (fun i hi => h i (List.mem_cons_of_mem _ hi))

theorem hasStart_iff (t : Nat) (l : List Lab) : hasStart t l = true ↔ nTag (startsOf l) t ≠ 0 := by
  unfold hasStart
  generalize startsOf l = q
  induction q with
  | nil => simp [nTag]
  | cons a r ih =>
    by_cases h : a.tag = t
    · rw [nTag_cons_same _ _ _ h]; simp [h]
    · rw [nTag_cons_ne _ _ _ h]; simp [h, ih]

/-- Arrivals of tag `t` in one event: at most one, and only if `t` is the arrival counter. -/
theorem nA_facts (f : Bool) (s : St) (ev : Ev) (t : Nat) :
    nTag (arrivalsOf (stepL f s ev)) t ≤ 1 ∧
    (s.arrivals ≠ t → nTag (arrivalsOf (stepL f s ev)) t = 0) := by
  rw [arrivalsOf_stepL]
  cases ev with
  | outerNext k =>
    simp only
    split
    · rw [nTag_single]
      constructor
      · split <;> omega
      · intro h; simp [h]
    · simp [nTag]
  | _ => simp [nTag]

/-- After `unsubscribe()` nothing reaches the cell. -/
theorem stepG_cutO (f : Bool) (s : St) (ev : Ev) (ho : s.outerOpen = false) (hs : s.subs = []) :
    (stepG f s ev).2 = [] ∧ (stepG f s ev).1.outerOpen = false ∧ (stepG f s ev).1.subs = [] := by
  have ht : ∀ j, targets s j = [] := fun j => by simp [targets, hs]
  unfold stepG
  split
  · exact ⟨rfl, ho, hs⟩
  · cases ev with
    | outerNext k => simp [outerNext, ho, hs]
    | outerError e => simp [outerError, ho, hs]
    | outerComplete => simp [outerComplete, ho, hs]
    | innerNext j v =>
      simp only [hotNext, ht]
      split
      · exact ⟨rfl, ho, hs⟩
      · exact ⟨by simp, ho, hs⟩
    | innerError j e =>
      simp only [hotError, ht, errorAll]
      split
      · exact ⟨rfl, ho, hs⟩
      · exact ⟨rfl, ho, by simp [hs]⟩
    | innerComplete j =>
      simp only [hotComplete, ht, completeAll]
      split
      · exact ⟨rfl, ho, hs⟩
      · exact ⟨rfl, ho, by simp [hs]⟩
    | unsub => simp [unsub]

theorem heardNow_dead (j t : Nat) (s : St) (ev : Ev)
    (h : s.alive = false ∨ s.dead.contains j = true ∨ s.subs.count (j, t) = 0) :
    heardNow j t s ev = [] := by
  cases ev with
  | innerNext j' v =>
    simp only [heardNow]
    split
    · rename_i hc
      rcases h with h | h | h
      · rw [h] at hc; simp at hc
      · rw [h] at hc; simp at hc
      · rw [h]; rfl
    · rfl
  | _ => rfl

theorem heardNow_live (j t : Nat) (s : St) (ev : Ev) (ha : s.alive = true)
    (hd : s.dead.contains j = false) (hc : s.subs.count (j, t) = 1) :
    heardNow j t s ev = Phase.hears j .live ev := by
  cases ev with
  | innerNext j' v =>
    simp only [heardNow, Phase.hears, ha, hd, hc, and_self, and_true]
    rfl
  | _ => rfl

/-- One event keeps the link, and the operator delivers for instance `t`
    exactly what the phase says. -/
theorem phase_step (f : Bool) (j t : Nat) (s : St) (ev : Ev) (ph : Phase) (hs : s.stuck = false)
    (hq : QPre j t s s.queue)
    (hkey : ∀ i ∈ arrivalsOf (stepL f s ev), i.tag = t → s.inner i.k = .hot j)
    (hR : PhaseInv j t s ph) :
    PhaseInv j t (stepG f s ev).1 (ph.next j t ev (stepL f s ev)) ∧
    restrict t (stepG f s ev).2 = ph.hears j ev ∧
    QPre j t (stepG f s ev).1 (stepG f s ev).1.queue := by
  have E := stepG_eff f j t s ev hs hq hkey
  have hA := nA_facts f s ev t
  refine ⟨?_, ?_, E.pre⟩
  · -- the link
    cases ph with
    | idle d =>
      obtain ⟨hc, hn, ha, hd⟩ := hR
      simp only [Phase.next]
      by_cases hu : ev = .unsub
      · simp only [hu, beq_self_eq_true, Bool.true_or, if_true]
        have := E.uns hu
        rw [hu] at this
        exact Or.inr (Or.inl this)
      · have hub : (ev == Ev.unsub) = false := by simpa using hu
        cases hT : hasTerm (stepL f s ev) with
        | true =>
          simp only [hub, Bool.false_or, if_true]
          exact Or.inl (E.term.1 hT)
        | false =>
          simp only [hub, Bool.false_or, Bool.false_eq_true, if_false]
          have ha' : (stepG f s ev).1.alive = true := (E.term.2 hT).trans ha
          have hle : nTag s.queue t + nTag (arrivalsOf (stepL f s ev)) t ≤ 1 := by
            by_cases hat : s.arrivals = t
            · have : nTag s.queue t = 0 :=
                nTag_eq_zero _ _ (fun i hi => by have := hq.qlt i hi; omega)
              omega
            · have := hA.2 hat; omega
          have hque := E.que
          have hle2 := E.cntLe
          have hge := E.cntGe
          have hdd := E.dead
          cases hS : hasStart t (stepL f s ev) with
          | true =>
            have hS' := (hasStart_iff t _).mp hS
            simp only [if_true]
            have hc' : (stepG f s ev).1.subs.count (j, t) = 1 := by omega
            have hq' : nTag (stepG f s ev).1.queue t = 0 := by omega
            cases hdn : (d || subjTerm j ev) with
            | true =>
              simp only [if_true]
              refine Or.inr (Or.inr ⟨?_, hq', ?_⟩)
              · rw [hdd, ← hd]; exact hdn
              · have hm : (j, t) ∈ (stepG f s ev).1.subs := List.count_pos_iff.mp (by omega)
                exact E.pre.slt _ hm
            | false =>
              simp only [Bool.false_eq_true, if_false]
              exact ⟨hc', hq', ha', by rw [hdd, ← hd]; exact hdn⟩
          | false =>
            have hS' : nTag (startsOf (stepL f s ev)) t = 0 := by
              cases hz : nTag (startsOf (stepL f s ev)) t with
              | zero => rfl
              | succ m =>
                have := (hasStart_iff t (stepL f s ev)).mpr (by omega)
                rw [hS] at this; cases this
            simp only [Bool.false_eq_true, if_false]
            exact ⟨by omega, by omega, ha', by rw [hdd, ← hd]⟩
    | live =>
      obtain ⟨hc, hn, ha, hd⟩ := hR
      have hm : (j, t) ∈ s.subs := List.count_pos_iff.mp (by omega)
      have hlt := hq.slt _ hm
      have hA0 := hA.2 (by simp only at hlt; omega)
      have hque := E.que
      have hq' : nTag (stepG f s ev).1.queue t = 0 := by omega
      have hS' : nTag (startsOf (stepL f s ev)) t = 0 := by omega
      simp only [Phase.next]
      cases hst : subjTerm j ev with
      | true =>
        simp only [Bool.true_or, if_true]
        refine Or.inr (Or.inr ⟨by rw [E.dead, hst]; simp, hq', ?_⟩)
        have := E.arr; simp only at hlt; omega
      | false =>
        by_cases hu : ev = .unsub
        · simp only [hu, beq_self_eq_true, Bool.true_or, Bool.or_true, if_true]
          have := E.uns hu
          rw [hu] at this
          exact Or.inr (Or.inl this)
        · have hub : (ev == Ev.unsub) = false := by simpa using hu
          cases hT : hasTerm (stepL f s ev) with
          | true =>
            simp only [Bool.or_true, if_true]
            exact Or.inl (E.term.1 hT)
          | false =>
            simp only [hub, Bool.or_self, Bool.false_eq_true, if_false]
            refine ⟨?_, hq', (E.term.2 hT).trans ha, by rw [E.dead, hd, hst]; rfl⟩
            rw [E.cntEq hst hu, hc, hS']
    | over =>
      simp only [Phase.next]
      rcases hR with ha | ⟨ho, hsb⟩ | ⟨hd, hn, hlt⟩
      · cases hT : hasTerm (stepL f s ev) with
        | true => exact Or.inl (E.term.1 hT)
        | false => exact Or.inl ((E.term.2 hT).trans ha)
      · have := stepG_cutO f s ev ho hsb
        exact Or.inr (Or.inl this.2)
      · have hA0 := hA.2 (by omega)
        have hque := E.que
        refine Or.inr (Or.inr ⟨by rw [E.dead, hd]; rfl, by omega, ?_⟩)
        have := E.arr; omega
  · -- the contribution
    rw [E.res]
    cases ph with
    | idle d =>
      obtain ⟨hc, _, _, _⟩ := hR
      rw [heardNow_dead j t s ev (Or.inr (Or.inr hc))]
      cases ev <;> rfl
    | live =>
      obtain ⟨hc, _, ha, hd⟩ := hR
      exact heardNow_live j t s ev ha hd hc
    | over =>
      have hh : Phase.hears j .over ev = [] := by cases ev <;> rfl
      rw [hh]
      rcases hR with ha | ⟨ho, hsb⟩ | ⟨hd, _, _⟩
      · exact heardNow_dead j t s ev (Or.inl ha)
      · apply heardNow_dead j t s ev (Or.inr (Or.inr ?_))
        rw [hsb]; rfl
      · exact heardNow_dead j t s ev (Or.inr (Or.inl hd))

theorem init_qpre (j t : Nat) (inners : List Inner) (n : Nat) :
    QPre j t (init inners n) (init inners n).queue :=
  ⟨by simp [init], by simp [init], by simp [init], by simp [init]⟩

theorem init_phase (j t : Nat) (inners : List Inner) (n : Nat) :
    PhaseInv j t (init inners n) (.idle false) :=
  ⟨by simp [init], by simp [init, nTag], rfl, by simp [init]⟩

theorem not_stuck_head (f : Bool) (s : St) (ev : Ev) (r : List Ev)
    (h : (runG f s (ev :: r)).1.stuck = false) :
    s.stuck = false ∧ (runG f (stepG f s ev).1 r).1.stuck = false := by
  refine ⟨?_, h⟩
  cases hst : s.stuck with
  | false => rfl
  | true => rw [runG_stuck_mono f _ s hst] at h; rw [h] at hst; cases hst

/-- Along a whole history: the contribution of instance `t` is what the
    specification computes from the trace, and the link is kept. -/
theorem runG_hot (f : Bool) (j t : Nat) (evs : List Ev) : ∀ (s : St) (ph : Phase),
    (runG f s evs).1.stuck = false → QPre j t s s.queue →
    (∀ i ∈ arrivalsOf (runL f s evs), i.tag = t → s.inner i.k = .hot j) →
    PhaseInv j t s ph →
    restrict t (runG f s evs).2 = hotSpec j t ph (trace f s evs) ∧
    PhaseInv j t (runG f s evs).1 (phaseAfter j t ph (trace f s evs)) ∧
    QPre j t (runG f s evs).1 (runG f s evs).1.queue := by
  induction evs with
  | nil => intro s ph _ hq _ hR; exact ⟨rfl, hR, hq⟩
  | cons ev r ih =>
    intro s ph hs hq hkey hR
    have hs' := not_stuck_head f s ev r hs
    simp only [runL, arrivalsOf_append] at hkey
    have h1 := phase_step f j t s ev ph hs'.1 hq
      (fun i hi => hkey i (List.mem_append_left _ hi)) hR
    have hfr := stepG_frame f s ev
    have h2 := ih (stepG f s ev).1 (ph.next j t ev (stepL f s ev)) hs'.2 h1.2.2
      (fun i hi hit => by
        rw [inner_of_inners hfr.1]; exact hkey i (List.mem_append_right _ hi) hit) h1.1
    simp only [runG, trace, hotSpec, phaseAfter, restrict_append]
    exact ⟨by rw [h1.2.1, h2.1], h2.2.1, h2.2.2⟩

/-- The phase computed from the trace is `live` exactly when the model holds
    an `InnerObserver` of instance `t` in subject `j` that can be heard. -/
theorem phase_live_iff (j t : Nat) (s : St) (ph : Phase) (h : PhaseInv j t s ph) :
    ph = .live ↔ Listening s j t := by
  cases ph with
  | idle d =>
    obtain ⟨hc, _, _, _⟩ := h
    constructor
    · intro hh; cases hh
    · rintro ⟨_, hm, _⟩
      have := List.count_pos_iff.mpr hm
      omega
  | live =>
    obtain ⟨hc, _, ha, hd⟩ := h
    exact ⟨fun _ => ⟨ha, List.count_pos_iff.mp (by omega), hd⟩, fun _ => rfl⟩
  | over =>
    constructor
    · intro hh; cases hh
    · rintro ⟨ha, hm, hd⟩
      rcases h with h | ⟨_, h⟩ | ⟨h, _, _⟩
      · rw [h] at ha; cases ha
      · rw [h] at hm; cases hm
      · rw [h] at hd; cases hd

end Rx.MergeAll
