import RxModel.Lemmas.SchedTask
/-
  Helper lemmas for C19, part 6: the list of runs of one task in the log of a
  history (at most one for a OnceTask, consecutive sequence numbers and spacing
  for a RepeatTask, none once cancelled or finished).
-/
namespace Rx.T
namespace Sched

/-! ### what one action does to task `k`, with the run it produces -/
theorem exec_task_effect (s : Sched) (a : SAct) (k : TaskId) (t : Task) (ht : s.tasks[k]? = some t) :
    ∃ t', (s.exec a).1.tasks[k]? = some t' ∧
      (((∀ r ∈ (s.exec a).2, r.task ≠ k) ∧ t'.rep = t.rep ∧ (t.done = true → t'.done = true)) ∨
       ((s.exec a).2 = [{ task := k, seq := none, time := s.now }] ∧ t.rep = none ∧ t.done = false ∧
          t'.done = true) ∨
       (∃ fur iv n, (s.exec a).2 = [{ task := k, seq := some n, time := s.now }] ∧
          t.rep = some (fur, iv, n) ∧ t.done = false ∧
          (t'.done = true ∨
            (t'.rep = some (s.timers.length, iv, n + 1) ∧
              (s.exec a).1.tdue s.timers.length = some (s.now + iv))))) := by
  rcases exec_task_cases s a k t ht with ⟨t', h1, ⟨w, hw⟩, h3⟩ | hc | ⟨c, hc⟩
  · exact ⟨t', h1, Or.inl ⟨h3, by subst hw; rfl, by subst hw; exact id⟩⟩
  · subst hc
    exact ⟨{ t with keepRunning := false, hasValue := false },
      by simp only [Sched.exec]; exact cancel_get_self s k t ht,
      Or.inl ⟨by simp [Sched.exec], rfl, id⟩⟩
  · subst hc
    simp only [Sched.exec]
    refine poll_task_elim s k c t ht (motive := fun s' t' runs =>
      (((∀ r ∈ runs, r.task ≠ k) ∧ t'.rep = t.rep ∧ (t.done = true → t'.done = true)) ∨
       (runs = [{ task := k, seq := none, time := s.now }] ∧ t.rep = none ∧ t.done = false ∧
          t'.done = true) ∨
       (∃ fur iv n, runs = [{ task := k, seq := some n, time := s.now }] ∧
          t.rep = some (fur, iv, n) ∧ t.done = false ∧
          (t'.done = true ∨
            (t'.rep = some (s.timers.length, iv, n + 1) ∧
              s'.tdue s.timers.length = some (s.now + iv)))))) ?_ ?_ ?_ ?_ ?_ ?_ ?_ ?_
    · intro _; exact Or.inl ⟨by simp, rfl, id⟩
    · intro _ _; exact Or.inl ⟨by simp, rfl, fun _ => rfl⟩
    · intro d hd _ _; exact Or.inl ⟨by simp, rfl, fun h => by rw [hd] at h; cases h⟩
    · intro tm hd _ _ _ _; exact Or.inl ⟨by simp, rfl, fun h => by rw [hd] at h; cases h⟩
    · intro hd _ _ _ hrep; exact Or.inr (Or.inl ⟨rfl, hrep, hd, rfl⟩)
    · intro fur iv seq hd _ _ _ _ _; exact Or.inl ⟨by simp, rfl, fun h => by rw [hd] at h; cases h⟩
    · intro fur iv seq hd _ _ _ hrep _ _
      exact Or.inr (Or.inr ⟨fur, iv, seq, rfl, hrep, hd, Or.inl rfl⟩)
    · intro fur iv seq hd _ _ _ hrep _ _
      refine Or.inr (Or.inr ⟨fur, iv, seq, rfl, hrep, hd, Or.inr ⟨rfl, ?_⟩⟩)
      simp only [setTask_tdue, registerTimer_tdue, newTimer_tdue_new]

/-! ### the runs of one task -/
theorem runsOf_append (k : TaskId) (l1 l2 : List Run) :
    runsOf k (l1 ++ l2) = runsOf k l1 ++ runsOf k l2 := by simp [runsOf]
theorem runsOf_eq_nil (k : TaskId) (l : List Run) (h : ∀ r ∈ l, r.task ≠ k) : runsOf k l = [] := by
  simp only [runsOf, List.filter_eq_nil_iff]
  intro r hr; simpa using h r hr
theorem mem_runsOf (k : TaskId) (l : List Run) (r : Run) : r ∈ runsOf k l ↔ r ∈ l ∧ r.task = k := by
  simp [runsOf]
theorem runsOf_single (k : TaskId) (sq tm) :
    runsOf k [{ task := k, seq := sq, time := tm }] = [{ task := k, seq := sq, time := tm }] := by
  simp [runsOf]

/-- A cancelled or finished task never runs again. -/
theorem dead_no_runs (k : TaskId) (as : List SAct) (s : Sched) (wf : WF s) (h : Holds deadP s k) :
    runsOf k (execFrom s as).2 = [] := by
  apply runsOf_eq_nil
  intro r hr e
  exact ((dead_inv k).execFrom as s wf h).2 r hr e

/-- A OnceTask runs at most once. -/
theorem once_count (k : TaskId) (as : List SAct) (s : Sched) (wf : WF s) (h : Holds onceP s k) :
    (runsOf k (execFrom s as).2).length ≤ 1 := by
  induction as generalizing s with
  | nil => simp [runsOf]
  | cons a as ih =>
    obtain ⟨t, ht, hp⟩ := h
    have wf' := wf_exec s a wf
    rw [execFrom_cons, runsOf_append]
    obtain ⟨t', ht', h⟩ := exec_task_effect s a k t ht
    rcases h with ⟨h1, h2, _⟩ | ⟨h1, _, _, h4⟩ | ⟨fur, iv, n, _, h2, _⟩
    · rw [runsOf_eq_nil k _ h1]
      exact ih _ wf' ⟨t', ht', by unfold onceP at *; rw [h2]; exact hp⟩
    · rw [h1, runsOf_single, dead_no_runs k as _ wf' ⟨t', ht', Or.inr h4⟩]; simp
    · unfold onceP at hp; rw [hp] at h2; cases h2

/-- The sequence numbers a RepeatTask hands to its ticks are consecutive. -/
def repAtP (n : Nat) (_ : Sched) (t : Task) : Prop := t.done = true ∨ ∃ fur iv, t.rep = some (fur, iv, n)

theorem rep_seq (k : TaskId) (as : List SAct) (s : Sched) (n : Nat) (wf : WF s)
    (h : Holds (repAtP n) s k) :
    (runsOf k (execFrom s as).2).map (·.seq) =
      (List.range' n (runsOf k (execFrom s as).2).length).map some := by
  induction as generalizing s n with
  | nil => simp [runsOf]
  | cons a as ih =>
    obtain ⟨t, ht, hp⟩ := h
    have wf' := wf_exec s a wf
    rw [execFrom_cons, runsOf_append]
    obtain ⟨t', ht', h⟩ := exec_task_effect s a k t ht
    rcases h with ⟨h1, h2, h3⟩ | ⟨h1, h2, h3, h4⟩ | ⟨fur, iv, m, h1, h2, h3, h4⟩
    · rw [runsOf_eq_nil k _ h1]
      simp only [List.nil_append]
      apply ih _ n wf' ⟨t', ht', ?_⟩
      rcases hp with hp | ⟨fur, iv, hp⟩
      · exact Or.inl (h3 hp)
      · exact Or.inr ⟨fur, iv, by rw [h2]; exact hp⟩
    · rcases hp with hp | ⟨fur, iv, hp⟩
      · rw [h3] at hp; cases hp
      · rw [h2] at hp; cases hp
    · have e : m = n := by
        rcases hp with hp | ⟨fur', iv', hp⟩
        · rw [h3] at hp; cases hp
        · rw [h2] at hp; cases hp; rfl
      subst e
      rw [h1, runsOf_single]
      have ih' := ih (s.exec a).1 (m + 1) wf' ⟨t', ht', by
        rcases h4 with h4 | ⟨h4, _⟩
        · exact Or.inl h4
        · exact Or.inr ⟨_, _, h4⟩⟩
      simp only [List.singleton_append, List.map_cons, List.length_cons, List.range'_succ, ih']

/-- Consecutive (indeed any two) ticks of a RepeatTask are at least one period apart. -/
theorem rep_spacing (k : TaskId) (p : Nat) (as : List SAct) (s : Sched) (wf : WF s)
    (h : Holds (repLoP 0 p) s k) :
    List.Pairwise (fun r1 r2 : Run => r1.time + p ≤ r2.time) (runsOf k (execFrom s as).2) := by
  induction as generalizing s with
  | nil => simp [runsOf]
  | cons a as ih =>
    have wf' := wf_exec s a wf
    have h' := ((repLo_inv k 0 p).exec s a wf h).1
    obtain ⟨t, ht, hp⟩ := h
    rw [execFrom_cons, runsOf_append]
    obtain ⟨t', ht', he⟩ := exec_task_effect s a k t ht
    rcases he with ⟨h1, _, _⟩ | ⟨h1, h2, h3, h4⟩ | ⟨fur, iv, m, h1, h2, h3, h4⟩
    · rw [runsOf_eq_nil k _ h1]; exact ih _ wf' h'
    · rw [h1, runsOf_single, dead_no_runs k as _ wf' ⟨t', ht', Or.inr h4⟩]; simp
    · rw [h1, runsOf_single]
      rcases h4 with h4 | ⟨h4, h5⟩
      · rw [dead_no_runs k as _ wf' ⟨t', ht', Or.inr h4⟩]; simp
      · have e : iv = p := by
          rcases hp with hp | ⟨fur', seq', due, hp, _⟩
          · rw [h3] at hp; cases hp
          · rw [h2] at hp; cases hp; rfl
        subst e
        simp only [List.singleton_append, List.pairwise_cons]
        refine ⟨?_, ih _ wf' h'⟩
        intro r2 hr2
        rw [mem_runsOf] at hr2
        have hlo : Holds (repLoP (s.now + iv) iv) (s.exec a).1 k :=
          ⟨t', ht', Or.inr ⟨_, _, _, h4, h5, Nat.le_refl _⟩⟩
        exact ((repLo_inv k (s.now + iv) iv).execFrom as _ wf' hlo).2 r2 hr2.1 hr2.2

end Sched
end Rx.T
