import RxModel.Lemmas.ChainQuietFrozen
/-
  C02 / C17 over the chain model, part 20: every event keeps a quiet world quiet
  and its log and `is_closed` answer unchanged; `is_closed = true` on a
  subscribed world means the world is quiet.
-/
namespace Rx.T
open Rx

/-- Everything `isClosedFrom` looks at is the same. -/
structure Same (w w' : TW) : Prop where
  info : w'.info = w.info
  stages : w'.stages = w.stages
  closed : ∀ h, w'.sched.handleClosed h = w.sched.handleClosed h
  subscribed : w'.subscribed = w.subscribed
  unsubscribed : w'.unsubscribed = w.unsubscribed

theorem Same.refl (w : TW) : Same w w := ⟨rfl, rfl, fun _ => rfl, rfl, rfl⟩

theorem QW.same {w w' : TW} (h : QW w w') : Same w w' := by
  refine ⟨?_, ?_, fun k => h.2.closed k, ?_, ?_⟩ <;> rw [h.1] <;> rfl

theorem QW.log {w w' : TW} (h : QW w w') : w'.log = w.log := by rw [h.1]

theorem isClosedFrom_same {w w' : TW} (h : Same w w') : ∀ j, w'.isClosedFrom j = w.isClosedFrom j := by
  have hsrc : w'.src = w.src := congrArg Info.src h.info
  have htask : w'.srcTask = w.srcTask := congrArg Info.srcTask h.info
  have halive : w'.srcAlive = w.srcAlive := congrArg Info.srcAlive h.info
  have hc : w'.sched.handleClosed = w.sched.handleClosed := funext h.closed
  intro j
  induction j with
  | zero => simp only [TW.isClosedFrom, hsrc, htask, halive, hc]
  | succ j ih => simp only [TW.isClosedFrom, h.stages, hc, ih]

theorem isClosed_same {w w' : TW} (h : Same w w') : w'.isClosed = w.isClosed := by
  simp only [TW.isClosed, h.subscribed, h.unsubscribed, h.stages, isClosedFrom_same h]

theorem Quiet.step {w : TW} (q : Quiet w) (e : TW.Ev) :
    Quiet (w.step e) ∧ (w.step e).log = w.log ∧
      ((w.step e).unsubscribed = true ∨ Same w (w.step e)) := by
  cases e with
  | sub =>
    have : w.step .sub = w := by simp [TW.step, q.subscribed]
    rw [this]
    exact ⟨q, rfl, Or.inr (Same.refl w)⟩
  | emit i n =>
    rw [step_emit_idle w i n q.det]
    split
    · exact ⟨q, rfl, Or.inr (Same.refl w)⟩
    · split
      · exact ⟨⟨q.subscribed, q.dead, q.det⟩, rfl, Or.inr ⟨rfl, rfl, fun _ => rfl, rfl, rfl⟩⟩
      · exact ⟨q, rfl, Or.inr (Same.refl w)⟩
  | unsub =>
    simp only [TW.step]
    split
    · have ur := unsubFrom_urel w.stages.length w
      refine ⟨⟨ur.subscribed.trans q.subscribed, fun k => ur.sched.dead (q.dead k), ?_, ?_⟩,
        ur.log, Or.inl rfl⟩
      · intro hh
        show (w.unsubFrom w.stages.length).srcAlive = false
        cases hb : (w.unsubFrom w.stages.length).srcAlive with
        | false => rfl
        | true =>
          have h1 := ur.alive hb
          have h2 : w.src.isHot = true := by
            have : (w.unsubFrom w.stages.length).src.isHot = true := hh
            rw [ur.src] at this; exact this
          rw [q.det.1 h2] at h1; cases h1
      · intro i st' hs'
        show st'.naHot = false
        obtain ⟨st, hst, hna⟩ := ur.na i st' hs'
        cases hn : st'.naHot with
        | false => rfl
        | true => rw [q.det.2 i st hst] at hna; exact absurd (hna hn) (by simp)
    · exact ⟨q, rfl, Or.inr (Same.refl w)⟩
  | adv d =>
    have h : QW w (w.step (.adv d)) := QW.mk' w _ (QRel.of_tasks_eq rfl)
    exact ⟨q.qw h, h.log, Or.inr h.same⟩
  | fire i =>
    simp only [TW.step]
    split
    · rename_i tm _
      have h : QW w ({ w with sched := w.sched.fire tm } : TW) := QW.mk' w _ (QRel.fire _ _)
      exact ⟨q.qw h, h.log, Or.inr h.same⟩
    · exact ⟨q, rfl, Or.inr (Same.refl w)⟩
  | poll i =>
    simp only [TW.step]
    split
    · rename_i k _
      have h := pollTask_quiet q k
      exact ⟨q.qw h, h.log, Or.inr h.same⟩
    · exact ⟨q, rfl, Or.inr (Same.refl w)⟩
  | run =>
    have h := runLoop_quiet 10000 w q
    exact ⟨q.qw h, h.log, Or.inr h.same⟩

/-! ### `is_closed = true` means quiet -/

theorem isClosedFrom_none (w : TW) (j : Nat) (h : w.stages[j]? = none) :
    w.isClosedFrom (j + 1) = w.isClosedFrom j := by
  rw [TW.isClosedFrom]; simp only [h]

theorem isClosedFrom_succ (w : TW) (j : Nat) (st : Stage) (hst : w.stages[j]? = some st)
    (hwf : st.wf) (h : w.isClosedFrom (j + 1) = true) :
    w.isClosedFrom j = true ∧ (∀ k : Nat, k ∈ st.handles → w.sched.handleClosed k = true) ∧
      st.naHot = false := by
  rw [TW.isClosedFrom] at h
  cases st with
  | op1 o =>
    simp only [hst] at h
    exact ⟨h, (fun _ hk => by cases hk), rfl⟩
  | delay d alive multi =>
    simp only [hst, Bool.and_eq_true, List.all_eq_true] at h
    exact ⟨h.1, fun k hk => h.2 k hk, rfl⟩
  | observeOn alive multi =>
    simp only [hst, Bool.and_eq_true, List.all_eq_true] at h
    exact ⟨h.1, fun k hk => h.2 k hk, rfl⟩
  | subscribeOn d t =>
    cases t with
    | none => simp only [hst] at h; cases h
    | some k0 =>
      simp only [hst] at h
      cases hc : w.sched.handleClosed k0 with
      | false => rw [hc] at h; simp at h
      | true =>
        rw [hc] at h; simp only [if_true] at h
        exact ⟨h, fun k hk => by simp [Stage.handles] at hk; subst hk; exact hc, rfl⟩
  | debounce d alive tr handler =>
    simp only [hst, Bool.and_eq_true] at h
    cases handler with
    | none => exact ⟨h.1, (fun _ hk => by cases hk), rfl⟩
    | some k0 => simp at h
  | throttle d e alive tr handler =>
    simp only [hst, Bool.and_eq_true] at h
    cases handler with
    | none => exact ⟨h.1, (fun _ hk => by cases hk), rfl⟩
    | some k0 => simp at h
  | throttleW d e alive tr =>
    simp only [hst] at h
    exact ⟨h, (fun _ hk => by cases hk), rfl⟩
  | bufTime d c alive data t =>
    cases t with
    | none =>
      simp only [hst] at h
      exact ⟨h, (fun _ hk => by cases hk), rfl⟩
    | some k0 =>
      simp only [hst, Bool.and_eq_true] at h
      exact ⟨h.2, fun k hk => by simp [Stage.handles] at hk; subst hk; exact h.1, rfl⟩
  | op2n o ns na nt =>
    simp only [hst, Bool.and_eq_true] at h
    obtain ⟨h1, h2⟩ := h
    refine ⟨h1, ?_, ?_⟩
    · intro k hk
      cases nt with
      | none => cases hk
      | some k0 =>
        simp [Stage.handles] at hk; subst hk
        have hw : ns.hasTask = true := hwf rfl
        cases ns <;> simp [TSrc.hasTask] at hw <;> exact h2
    · cases ns with
      | hot i => simpa [Stage.naHot] using h2
      | _ => rfl

theorem closed_quiet_aux {w : TW} (g : GoodW none w) : ∀ j, w.isClosedFrom j = true →
    (∀ (k : Nat) (t : Task), w.sched.tasks[k]? = some t → t.live = true → t.body.level ≤ j → False) ∧
      (w.src.isHot = true → w.srcAlive = false) ∧
      (∀ (i : Nat) (st : Stage), i < j → w.stages[i]? = some st → st.naHot = false) := by
  have notlive : ∀ (k : Nat) (t : Task), w.sched.tasks[k]? = some t → t.live = true →
      w.sched.handleClosed k = true → False := by
    intro k t ht hl hc
    obtain ⟨t', ht', hv⟩ := (handleClosed_iff _ _).1 hc
    rw [ht] at ht'; cases ht'
    have := g.hv k t ht hv
    simp [Task.live, this] at hl
  intro j
  induction j with
  | zero =>
    intro h
    refine ⟨?_, ?_, fun i _ hi => by omega⟩
    · intro k t ht hl hlev
      have ho := g.own k t ht hl
      have hl0 : t.body.level = 0 := by omega
      unfold Owned at ho
      rw [hl0] at ho
      have hk : w.srcTask = some k := ho
      have hw : w.src.hasTask = true := g.swf (by rw [show w.info.srcTask = w.srcTask from rfl, hk]; rfl)
      apply notlive k t ht hl
      rw [TW.isClosedFrom] at h
      cases hsrc : w.src <;> rw [hsrc] at hw h <;> simp [TSrc.hasTask] at hw <;>
        simp only [hk] at h <;> exact h
    · intro hh
      rw [TW.isClosedFrom] at h
      cases hsrc : w.src <;> rw [hsrc] at hh h <;> simp [TSrc.isHot] at hh
      simpa using h
  | succ j ih =>
    intro h
    cases hst : w.stages[j]? with
    | none =>
      rw [isClosedFrom_none w j hst] at h
      obtain ⟨a, b, c⟩ := ih h
      refine ⟨?_, b, ?_⟩
      · intro k t ht hl hlev
        by_cases e : t.body.level = j + 1
        · have ho := g.own k t ht hl
          unfold Owned at ho
          rw [e] at ho
          obtain ⟨st, hs, _⟩ := ho
          rw [hst] at hs; cases hs
        · exact a k t ht hl (by omega)
      · intro i st hi hs
        by_cases e : i = j
        · subst e; rw [hst] at hs; cases hs
        · exact c i st (by omega) hs
    | some st =>
      obtain ⟨h1, h2, h3⟩ := isClosedFrom_succ w j st hst (g.wf j st hst) h
      obtain ⟨a, b, c⟩ := ih h1
      refine ⟨?_, b, ?_⟩
      · intro k t ht hl hlev
        by_cases e : t.body.level = j + 1
        · have ho := g.own k t ht hl
          unfold Owned at ho
          rw [e] at ho
          obtain ⟨st0, hs, hm⟩ := ho
          rw [hst] at hs; cases hs
          exact notlive k t ht hl (h2 k hm)
        · exact a k t ht hl (by omega)
      · intro i st' hi hs
        by_cases e : i = j
        · subst e; rw [hst] at hs; cases hs; exact h3
        · exact c i st' (by omega) hs

theorem closed_quiet {w : TW} (g : GoodW none w) (hs : w.subscribed = true)
    (h : w.isClosedFrom w.stages.length = true) : Quiet w := by
  obtain ⟨a, b, c⟩ := closed_quiet_aux g _ h
  refine ⟨hs, ?_, b, fun i st hst => c i st (Sched.get_lt hst) hst⟩
  intro k t ht
  cases hl : t.live with
  | false => rfl
  | true =>
    exfalso
    apply a k t ht hl
    have ho := g.own k t ht hl
    unfold Owned at ho
    cases hlv : t.body.level with
    | zero => exact Nat.zero_le _
    | succ i =>
      rw [hlv] at ho
      obtain ⟨st, hst, _⟩ := ho
      exact Sched.get_lt hst

end Rx.T
