import RxModel.Lemmas.ChainRetireBody
/-
  C16 over the chain model, part 9: the external events that are not the
  executor's (`sub`, `emit`, `unsub`) are `Eff` moves.
-/
namespace Rx.T
open Rx

theorem deliverNotifiers_eff (i : Nat) (n : Notif) : ∀ (k : Nat) (w : TW),
    Eff false w (w.deliverNotifiers i n k) := by
  intro k
  induction k with
  | zero => intro w; exact Eff.refl _ _
  | succ k ih =>
    intro w
    simp only [TW.deliverNotifiers]
    have e1 := ih w
    generalize w.deliverNotifiers i n k = w1 at e1
    cases hk : w1.stages[k]? with
    | none => simp only; exact e1
    | some st0 =>
      cases st0 with
      | op2n st nsrc na nt =>
        cases nsrc with
        | hot j =>
          simp only
          split
          · cases n with
            | next v => simp only; exact e1.trans (pushB_eff w1 k _)
            | error e =>
              simp only
              exact e1.trans ((Eff.setStage w1 k _ _ hk (Stage.le_op2n_same _ _ _ _ _ _) rfl).trans
                (pushB_eff _ k _))
            | complete =>
              simp only
              exact e1.trans ((Eff.setStage w1 k _ _ hk (Stage.le_op2n_same _ _ _ _ _ _) rfl).trans
                (pushB_eff _ k _))
          · exact e1
        | _ => simp only; exact e1
      | _ => simp only; exact e1

/-- The part of `emit` that concerns the chain's own source. -/
def emitSrc' (w w1 : TW) (i : Nat) (n : Notif) : TW :=
  match w.src with
  | .hot j =>
    if i = j && w.srcSubscribed && w.srcAlive then
      match n with
      | .next _ => w1.push 0 [n]
      | _ => { w1 with srcAlive := false }.push 0 [n]
    else w1
  | _ => w1

theorem step_emit_eq' (w : TW) (i : Nat) (n : Notif) :
    w.step (.emit i n) =
      if w.terminated.contains i then w
      else TW.deliverNotifiers
        (emitSrc' w (if n.isTerm then { w with terminated := i :: w.terminated } else w) i n) i n
        (emitSrc' w (if n.isTerm then { w with terminated := i :: w.terminated } else w) i n).stages.length :=
  rfl

theorem emitSrc_eff (w w1 : TW) (i : Nat) (n : Notif) (e1 : Eff false w w1) (hst : w1.stages = w.stages) :
    Eff false w (emitSrc' w w1 i n) := by
  unfold emitSrc'
  cases hsrc : w.src with
  | hot j =>
    simp only
    have hp : w.src.polls = false := by rw [hsrc]; rfl
    have hl : ∀ ns : List Notif, sealed w.stages = true → fin (w1.stages.drop 0) = true ∨ ns = [] :=
      fun _ hs => Or.inl (by simp only [List.drop_zero]; rw [hst]; exact sealed_fin hs)
    have hh : ∀ ns : List Notif, fin w.stages = true → w.src.polls = true →
        syncLen w.stages ≤ 0 ∨ ns = [] := fun _ _ h => by rw [hp] at h; cases h
    split
    · cases n with
      | next v => simp only; exact e1.then_push 0 _ (hl _) (hh _)
      | error e =>
        simp only
        exact (e1.trans (Eff.of_eq rfl rfl rfl rfl rfl : Eff false w1 { w1 with srcAlive := false })).then_push 0 _ (hl _) (hh _)
      | complete =>
        simp only
        exact (e1.trans (Eff.of_eq rfl rfl rfl rfl rfl : Eff false w1 { w1 with srcAlive := false })).then_push 0 _ (hl _) (hh _)
    · exact e1
  | _ => simp only; exact e1

theorem step_emit_eff (w : TW) (i : Nat) (n : Notif) : Eff false w (w.step (.emit i n)) := by
  rw [step_emit_eq']
  split
  · exact Eff.refl _ _
  · have e1 : Eff false w (if n.isTerm = true then { w with terminated := i :: w.terminated } else w) := by
      split
      · exact Eff.of_eq rfl rfl rfl rfl rfl
      · exact Eff.refl _ _
    have hst : (if n.isTerm = true then { w with terminated := i :: w.terminated } else w).stages = w.stages := by
      split <;> rfl
    exact (emitSrc_eff w _ i n e1 hst).trans (deliverNotifiers_eff i n _ _)

theorem step_sub_eff (w : TW) : Eff true w (w.step .sub) := by
  simp only [TW.step]
  split
  · exact Eff.refl _ _
  · exact (Eff.of_eq rfl rfl rfl rfl rfl : Eff true w { w with subscribed := true }).trans
      (subscribeFrom_eff _ _)

theorem set_get_other {α} (l : List α) (j i : Nat) (x : α) (h : i ≠ j) : (l.set j x)[i]? = l[i]? := by
  rw [List.getElem?_set]; simp [Ne.symm h]

/-- The last move of `unsubFrom (j + 1)`: cancel the stage's handles, clear its cell. -/
theorem unsub_last {w w1 : TW} {j : Nat} {st st' : Stage} (e1 : Eff false w w1)
    (hfr : ∀ i, j ≤ i → w1.stages[i]? = w.stages[i]?) (hj : w.stages[j]? = some st)
    (hle : Stage.le st st') (hn : st.isOp1 = false) (s' : Sched) (hbe : BE w1.src false w1.sched s') :
    Eff false w (({ w1 with sched := s' } : TW).setStage j st') ∧
      ∀ i, j + 1 ≤ i → (({ w1 with sched := s' } : TW).setStage j st').stages[i]? = w.stages[i]? := by
  have hj1 : w1.stages[j]? = some st := by rw [hfr j (Nat.le_refl _)]; exact hj
  refine ⟨e1.trans ((Eff.sched w1 s' hbe).trans (Eff.setStage _ j st st' hj1 hle hn)), ?_⟩
  intro i hi
  show (w1.stages.set j st')[i]? = _
  rw [set_get_other _ _ _ _ (by omega), hfr i (by omega)]

theorem unsubFrom_eff' : ∀ (j : Nat) (w : TW), Eff false w (w.unsubFrom j) ∧
    ∀ i, j ≤ i → (w.unsubFrom j).stages[i]? = w.stages[i]? := by
  intro j
  induction j with
  | zero =>
    intro w
    simp only [TW.unsubFrom]
    split
    · rename_i h _
      exact ⟨(Eff.of_eq rfl rfl rfl rfl rfl : Eff false w { w with srcAlive := false }).trans
        (Eff.sched { w with srcAlive := false } _ (BE.cancel _ h)), fun _ _ => rfl⟩
    · exact ⟨Eff.of_eq rfl rfl rfl rfl rfl, fun _ _ => rfl⟩
  | succ j ih =>
    intro w
    have low : ∀ w' : TW, w'.stages = w.stages → Eff false w w' →
        Eff false w (w'.unsubFrom j) ∧ ∀ i, j + 1 ≤ i → (w'.unsubFrom j).stages[i]? = w.stages[i]? := by
      intro w' hs e
      refine ⟨e.trans (ih w').1, fun i hi => ?_⟩
      rw [(ih w').2 i (by omega), hs]
    cases hj : w.stages[j]? with
    | none => simp only [TW.unsubFrom, hj]; exact low w rfl (Eff.refl _ _)
    | some st0 =>
      cases st0 with
      | delay d alive multi =>
        simp only [TW.unsubFrom, hj]
        exact unsub_last (st' := .delay d alive none) (ih w).1 (ih w).2 hj ⟨rfl, rfl, id, fun _ => id⟩ rfl _
          (BE.cancelAll (multi.getD []) _)
      | observeOn alive multi =>
        simp only [TW.unsubFrom, hj]
        exact unsub_last (st' := .observeOn alive none) (ih w).1 (ih w).2 hj ⟨rfl, rfl, id, fun _ => id⟩ rfl _
          (BE.cancelAll (multi.getD []) _)
      | subscribeOn delay t =>
        cases t with
        | none => simp only [TW.unsubFrom, hj]; exact low w rfl (Eff.refl _ _)
        | some h =>
          simp only [TW.unsubFrom, hj]
          have e1 : Eff false w { w with sched := w.sched.cancel h } := Eff.sched w _ (BE.cancel _ h)
          split
          · exact low _ rfl e1
          · exact ⟨e1, fun _ _ => rfl⟩
      | debounce d alive tr handler =>
        simp only [TW.unsubFrom, hj]
        exact unsub_last (st' := .debounce d alive tr none) (ih w).1 (ih w).2 hj ⟨rfl, rfl, id, fun _ => id⟩ rfl _
          (BE.cancelOpt _ handler)
      | throttle d e alive tr handler =>
        simp only [TW.unsubFrom, hj]
        exact unsub_last (st' := .throttle d e alive tr none) (ih w).1 (ih w).2 hj ⟨rfl, rfl, id, fun _ => id⟩ rfl _
          (BE.cancelOpt _ handler)
      | bufTime d cnt alive data t =>
        cases t with
        | none => simp only [TW.unsubFrom, hj]; exact low w rfl (Eff.refl _ _)
        | some h =>
          simp only [TW.unsubFrom, hj]
          exact low _ rfl (Eff.sched w _ (BE.cancel _ h))
      | op2n st nsrc na nt =>
        simp only [TW.unsubFrom, hj]
        exact unsub_last (st' := .op2n st nsrc false nt) (ih w).1 (ih w).2 hj (Stage.le_op2n_same _ _ _ _ _ _) rfl _
          (BE.cancelOpt _ nt)
      | op1 o => simp only [TW.unsubFrom, hj]; exact low w rfl (Eff.refl _ _)
      | throttleW d e alive tr => simp only [TW.unsubFrom, hj]; exact low w rfl (Eff.refl _ _)

theorem unsubFrom_eff (j : Nat) (w : TW) : Eff false w (w.unsubFrom j) := (unsubFrom_eff' j w).1

theorem step_unsub_eff (w : TW) : Eff false w (w.step .unsub) := by
  simp only [TW.step]
  split
  · exact (unsubFrom_eff _ w).trans (Eff.of_eq rfl rfl rfl rfl rfl)
  · exact Eff.refl _ _

end Rx.T
