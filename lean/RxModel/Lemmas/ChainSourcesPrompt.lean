import RxModel.Lemmas.ChainSourcesInv
/-
  Helper lemmas for C08, part 6: the prompt executor on an `interval` world in
  closed form.  `ivSched now old tm wk p seq` is the scheduler of such a world:
  the timers `old` have all fired, `tm` is the period timer the task waits on,
  `wk` the wake-up flag of the task, `seq` the next sequence number.
-/
namespace Rx.T
open Rx

namespace TW
open Sched

/-- The scheduler of an interval world. -/
def ivSched (now : Nat) (old : List Timer) (tm : Timer) (wk : Bool) (p seq : Nat) : Sched :=
  { now := now, timers := old ++ [tm],
    tasks := [{ body := .tick, woken := wk, rep := some (old.length, p, seq) }] }

/-- A fresh period timer of task 0, already polled (registered). -/
def freshT (dur due : Nat) : Timer := { dur := dur, due := due, owner := 0, registered := true }

theorem filter_range_last (f : Nat → Bool) (n : Nat) (h : ∀ i, i < n → f i = false) :
    (List.range (n + 1)).filter f = if f n then [n] else [] := by
  rw [List.range_succ, List.filter_append]
  have : (List.range n).filter f = [] := by
    rw [List.filter_eq_nil_iff]
    intro i hi
    rw [h i (by simpa using hi)]; simp
  rw [this]
  simp [List.filter_cons]

theorem dueTimers_snoc (s : Sched) (old : List Timer) (tm : Timer) (h : s.timers = old ++ [tm])
    (hold : ∀ t ∈ old, t.fired = true) :
    s.dueTimers = if !tm.fired && decide (tm.due ≤ s.now) then [old.length] else [] := by
  unfold dueTimers
  rw [h, List.length_append, List.length_singleton, filter_range_last]
  · simp
  · intro i hi
    rw [List.getElem?_append_left hi, List.getElem?_eq_getElem hi]
    simp [hold _ (List.getElem_mem hi)]

theorem dueTimers_iv (now : Nat) (old : List Timer) (tm : Timer) (wk : Bool) (p seq : Nat)
    (hold : ∀ t ∈ old, t.fired = true) :
    (ivSched now old tm wk p seq).dueTimers =
      if !tm.fired && decide (tm.due ≤ now) then [old.length] else [] :=
  dueTimers_snoc _ old tm rfl hold

theorem fire_iv (now : Nat) (old : List Timer) (tm : Timer) (wk : Bool) (p seq : Nat)
    (hown : tm.owner = 0) :
    (ivSched now old tm wk p seq).fire old.length =
      ivSched now old { tm with fired := true } (wk || tm.registered) p seq := by
  cases hr : tm.registered <;>
    simp [fire, ivSched, setTimer, setTask, hr, hown]

/-- The live tasks that have been woken, in spawn order (the `ready` list of `runLoop`). -/
def readyOf (s : Sched) : List TaskId :=
  s.liveTasks.filter fun k => match s.tasks[k]? with | some t => t.woken | none => false

/-- One pass of the prompt executor. -/
theorem runLoop_pass (f : Nat) (w : TW) : runLoop (f + 1) w =
    if w.sched.dueTimers.isEmpty && (readyOf (w.sched.dueTimers.foldl Sched.fire w.sched)).isEmpty
    then { w with sched := w.sched.dueTimers.foldl Sched.fire w.sched }
    else runLoop f ({ w with sched := w.sched.dueTimers.foldl Sched.fire w.sched }.pollAll
      (readyOf (w.sched.dueTimers.foldl Sched.fire w.sched))) := rfl

theorem step_run2 (w : TW) : step w .run = runLoop (9998 + 2) w := rfl

theorem ready_iv (now : Nat) (old : List Timer) (tm : Timer) (wk : Bool) (p seq : Nat) :
    readyOf (ivSched now old tm wk p seq) = if wk then [0] else [] := by
  cases wk <;> simp [readyOf, liveTasks, ivSched, List.range_succ]

theorem poll_iv (now : Nat) (old : List Timer) (tm : Timer) (wk : Bool) (p seq : Nat) :
    (ivSched now old tm wk p seq).poll 0 true =
      if tm.fired then
        (ivSched now (old ++ [tm]) (freshT p (now + p)) false p (seq + 1),
          [{ task := 0, seq := some seq, time := now }])
      else (ivSched now old { tm with registered := true } false p seq, []) := by
  cases hf : tm.fired <;>
    simp [poll, pollPre, ivSched, timerFired, hf, setTask, registerTimer, setTimer, continueRepeat,
      newTimer, freshT]

theorem pollAll_single (w : TW) (t : Task) (ht : w.sched.tasks[0]? = some t) (hd : t.done = false) :
    w.pollAll [0] = w.pollTask 0 := by
  simp [pollAll, ht, hd]

theorem pollTask_iv (w : TW) (hs : w.stages = []) (now : Nat) (old : List Timer) (tm : Timer)
    (wk : Bool) (p seq : Nat) (hw : w.sched = ivSched now old tm wk p seq) :
    w.pollTask 0 =
      if tm.fired then
        { w with sched := ivSched now (old ++ [tm]) (freshT p (now + p)) false p (seq + 1),
                 log := w.log ++ [.next (.int seq)] }
      else { w with sched := ivSched now old { tm with registered := true } false p seq } := by
  rw [pollTask_src w hs 0 _ (by rw [hw]; rfl) (Or.inl rfl)]
  simp only [contOf, hw, poll_iv]
  cases tm.fired <;> simp [emitOf]

theorem runLoop_iv (f : Nat) (w : TW) (hs : w.stages = []) (now : Nat) (old : List Timer) (tm : Timer)
    (wk : Bool) (p seq : Nat) (hw : w.sched = ivSched now old tm wk p seq)
    (hold : ∀ t ∈ old, t.fired = true) (hf : tm.fired = false) (hown : tm.owner = 0)
    (hrw : (wk || tm.registered) = true) (hp : 1 ≤ p) :
    runLoop (f + 2) w =
      if tm.due ≤ now then
        { w with sched := ivSched now (old ++ [{ tm with fired := true }]) (freshT p (now + p)) false p (seq + 1),
                 log := w.log ++ [.next (.int seq)] }
      else { w with sched := ivSched now old { tm with registered := true } false p seq } := by
  cases w with
  | mk sched src stages sa ss st term sub unsub pulls log =>
  simp only at hs hw; subst hs hw
  rw [runLoop_pass]
  simp only [dueTimers_iv _ _ _ _ _ _ hold, hf]
  by_cases hd : tm.due ≤ now
  · simp only [hd, Bool.not_false, Bool.true_and, decide_true, if_true, List.foldl_cons, List.foldl_nil,
      fire_iv _ _ _ _ _ _ hown, hrw, ready_iv]
    simp only [List.isEmpty_cons, Bool.false_and, Bool.false_eq_true, if_false]
    rw [pollAll_single _ _ rfl rfl, pollTask_iv _ rfl now old { tm with fired := true } true p seq rfl]
    simp only [if_true]
    rw [runLoop_pass]
    have hold' : ∀ t ∈ old ++ [{ tm with fired := true }], t.fired = true := by
      intro t ht
      simp only [List.mem_append, List.mem_singleton] at ht
      rcases ht with ht | ht
      · exact hold t ht
      · rw [ht]
    have hnd : ¬ (now + p ≤ now) := by omega
    simp [dueTimers_iv _ _ _ _ _ _ hold', ready_iv, freshT, hnd]
  · simp only [hd, decide_false, Bool.and_false, Bool.false_eq_true, if_false, List.foldl_nil, ready_iv]
    cases wk with
    | false =>
      have hr : tm.registered = true := by simpa using hrw
      have : ({ dur := tm.dur, due := tm.due, owner := tm.owner, registered := true } : Timer) = tm := by
        cases tm; simp_all
      rw [this]; simp
    | true =>
      simp only [if_true, List.isEmpty_cons, Bool.and_false, Bool.false_eq_true, if_false]
      rw [pollAll_single _ _ rfl rfl, pollTask_iv _ rfl now old tm true p seq rfl]
      simp only [hf, Bool.false_eq_true, if_false]
      rw [runLoop_pass]
      simp [dueTimers_iv _ _ _ _ _ _ hold, ready_iv, hd]

/-! ### the prompt unit-step schedule -/

/-- `n` rounds of: the clock advances by one, the executor runs. -/
def prompt (n : Nat) : List Ev := (List.replicate n [Ev.adv 1, Ev.run]).flatten

theorem prompt_succ (n : Nat) : prompt (n + 1) = prompt n ++ [.adv 1, .run] := by
  simp [prompt, List.replicate_succ']

/-- How many of the instants `first, first + p, first + 2p, …` are `≤ n`. -/
def tickCount (first p n : Nat) : Nat := if n < first then 0 else (n - first) / p + 1

theorem tickCount_lt (first p n : Nat) (hp : 1 ≤ p) : n < first + tickCount first p n * p := by
  unfold tickCount
  by_cases h : n < first
  · simp only [h, if_true]; omega
  · simp only [h, if_false]
    have := Nat.lt_mul_div_succ (n - first) (show 0 < p from hp)
    rw [Nat.mul_comm] at this
    omega

theorem tickCount_succ (first p n : Nat) (hp : 1 ≤ p) :
    tickCount first p (n + 1) =
      if first + tickCount first p n * p ≤ n + 1 then tickCount first p n + 1 else tickCount first p n := by
  unfold tickCount
  by_cases h1 : n + 1 < first
  · have h2 : n < first := by omega
    simp only [h1, h2, if_true]
    rw [if_neg (by omega)]
  · by_cases h2 : n < first
    · have : n + 1 - first = 0 := by omega
      simp only [h1, h2, if_true, if_false, this, Nat.zero_div]
      rw [if_pos (by omega)]
    · simp only [h1, h2, if_false]
      have hm : n + 1 - first = (n - first) + 1 := by omega
      rw [hm]
      generalize hq : (n - first) / p = q
      have hpos : 0 < p := hp
      have hlo : q * p ≤ n - first := by rw [← hq]; exact Nat.div_mul_le_self _ _
      have hhi : n - first < (q + 1) * p := by
        rw [← hq, Nat.mul_comm]; exact Nat.lt_mul_div_succ _ hpos
      have hexp : (q + 1) * p = q * p + p := Nat.succ_mul q p
      by_cases h3 : first + (q + 1) * p ≤ n + 1
      · rw [if_pos h3]
        have : n - first + 1 = (q + 1) * p := by omega
        rw [this, Nat.mul_div_cancel _ hpos]
      · rw [if_neg h3]
        have : (n - first + 1) / p = q := by
          apply Nat.div_eq_of_lt_le
          · omega
          · omega
        rw [this]

end TW
end Rx.T
