import RxModel.Lemmas.ChainFifoSubBase
/-
  C07 over chains with several time stages, part 2: one notification arriving at a
  stage (`Stage.onNotif`, `Stage.afterEmit`) and the cascade, for every fuel value:

  * `Frame`: what happens to the scheduler;
  * `PwLe`: the pending lists of the other positions can only shrink;
  * `SubF` / `ChainF`: the ghost histories stay consistent (a mover appends the
    notification to its own pending list).
-/
namespace Rx.T
open Rx Rx.Spec

variable {kd : Nat → Option (Option Nat)}

/-- The shape of every stage step: `emitted ++ held' ⊑ held ++ arrived`. -/
theorem subF_items {out em inp : List Notif} {n : Notif} {h h' : List Val}
    (hs : (items out ++ h).Sublist (items inp))
    (hstep : (items em ++ h').Sublist (h ++ items [n])) :
    (items (out ++ em) ++ h').Sublist (items (inp ++ [n])) := by
  rw [items_append, items_append, List.append_assoc]
  have := (List.Sublist.append (List.Sublist.refl (items out)) hstep).trans
    (by rw [← List.append_assoc]; exact List.Sublist.append hs (List.Sublist.refl _))
  exact this

/-! ### the scheduler -/

theorem Stage.onNotif_frame (st : Stage) (j : Nat) (n : Notif) (s : Sched) (hk : dlOf st = kd j) :
    Frame kd j s (st.onNotif j n s).2.2 := by
  cases st with
  | op1 o => exact Frame.refl _ _
  | delay d alive multi =>
    have hkd : kd j = some (some d) := hk.symm
    cases n with
    | error e => exact Frame.refl _ _
    | next v =>
      exact Frame.scheduleOnce j s _ _ rfl (fun i m e => by cases e; exact ⟨Nat.le_refl _, hkd⟩)
    | complete =>
      exact Frame.scheduleOnce j s _ _ rfl (fun i m e => by cases e; exact ⟨Nat.le_refl _, hkd⟩)
  | observeOn alive multi =>
    have hkd : kd j = some none := hk.symm
    exact Frame.scheduleOnce j s _ _ rfl (fun i m e => by cases e; exact ⟨Nat.le_refl _, hkd⟩)
  | subscribeOn d t => exact Frame.refl _ _
  | debounce d alive tr hd =>
    cases n with
    | next v =>
      exact (Frame.cancelOpt j s hd).trans
        (Frame.scheduleOnce j _ _ _ rfl (fun i m e => by cases e))
    | error e => exact Frame.refl _ _
    | complete => exact Frame.refl _ _
  | throttle d e alive tr hd =>
    cases n with
    | next v =>
      cases hd with
      | none => exact Frame.refl _ _
      | some k =>
        cases hc : s.handleClosed k <;> simp only [Stage.onNotif, hc, if_true, Bool.false_eq_true, if_false] <;>
          exact Frame.refl _ _
    | error er => exact Frame.cancelOpt j s hd
    | complete => exact Frame.cancelOpt j s hd
  | throttleW d e alive tr => exact Frame.refl _ _
  | op2n c ns na nt => exact Frame.refl _ _
  | bufTime d c alive data t =>
    cases n with
    | next v =>
      simp only [Stage.onNotif]
      repeat' split
      all_goals exact Frame.refl _ _
    | error e => exact Frame.refl _ _
    | complete => exact Frame.refl _ _

theorem Stage.onNotif_pw (st : Stage) (j : Nat) (n : Notif) (s : Sched) (i : Nat) (hi : i ≠ j) :
    PwLe i s (st.onNotif j n s).2.2 := by
  have hne : ∀ m k, Body.emit j m ≠ Body.emit i k := by
    intro m k e; cases e; exact hi rfl
  cases st with
  | op1 o => exact PwLe.refl _ _
  | delay d alive multi =>
    cases n with
    | error e => exact PwLe.refl _ _
    | next v => exact PwLe.scheduleOnce i s _ _ (fun k => hne _ k)
    | complete => exact PwLe.scheduleOnce i s _ _ (fun k => hne _ k)
  | observeOn alive multi => exact PwLe.scheduleOnce i s _ _ (fun k => hne _ k)
  | subscribeOn d t => exact PwLe.refl _ _
  | debounce d alive tr hd =>
    cases n with
    | next v =>
      exact (PwLe.cancelOpt i s hd).trans (PwLe.scheduleOnce i _ _ _ (fun k e => by cases e))
    | error e => exact PwLe.refl _ _
    | complete => exact PwLe.refl _ _
  | throttle d e alive tr hd =>
    cases n with
    | next v =>
      cases hd with
      | none => exact PwLe.refl _ _
      | some k =>
        cases hc : s.handleClosed k <;> simp only [Stage.onNotif, hc, if_true, Bool.false_eq_true, if_false] <;>
          exact PwLe.refl _ _
    | error er => exact PwLe.cancelOpt i s hd
    | complete => exact PwLe.cancelOpt i s hd
  | throttleW d e alive tr => exact PwLe.refl _ _
  | op2n c ns na nt => exact PwLe.refl _ _
  | bufTime d c alive data t =>
    cases n with
    | next v =>
      simp only [Stage.onNotif]
      repeat' split
      all_goals exact PwLe.refl _ _
    | error e => exact PwLe.refl _ _
    | complete => exact PwLe.refl _ _

theorem Stage.onNotif_dl (st : Stage) (j : Nat) (n : Notif) (s : Sched) :
    dlOf (st.onNotif j n s).1 = dlOf st := by
  cases st with
  | throttle d e alive tr hd =>
    cases n with
    | next v =>
      cases hd with
      | none => rfl
      | some k => cases hc : s.handleClosed k <;> simp [Stage.onNotif, hc, dlOf]
    | _ => rfl
  | bufTime d c alive data t =>
    cases n with
    | next v =>
      simp only [Stage.onNotif]
      repeat' split
      all_goals rfl
    | _ => rfl
  | delay d alive multi => cases n <;> rfl
  | debounce d alive tr hd => cases n <;> rfl
  | _ => rfl

theorem Stage.afterEmit_frame (st : Stage) (j : Nat) (s : Sched) : Frame kd j s (st.afterEmit j s).2 := by
  cases st with
  | throttleW d e alive tr => exact Frame.scheduleOnce j s _ _ rfl (fun i m e => by cases e)
  | _ => exact Frame.refl _ _

theorem Stage.afterEmit_pw (st : Stage) (j : Nat) (s : Sched) (i : Nat) : PwLe i s (st.afterEmit j s).2 := by
  cases st with
  | throttleW d e alive tr => exact PwLe.scheduleOnce i s _ _ (fun k e => by cases e)
  | _ => exact PwLe.refl _ _

theorem Stage.afterEmit_dl (st : Stage) (j : Nat) (s : Sched) : dlOf (st.afterEmit j s).1 = dlOf st := by
  cases st <;> rfl

/-! ### the ghost histories -/

theorem Stage.onNotif_subF (st : Stage) (j : Nat) (n : Notif) (s : Sched) {inp out : List Notif}
    (h : SubF (pend j s) st inp out) :
    SubF (pend j (st.onNotif j n s).2.2) (st.onNotif j n s).1 (inp ++ [n]) (out ++ (st.onNotif j n s).2.1) := by
  cases st with
  | op1 o =>
    obtain ⟨hf, hs⟩ := h
    have e : (Stage.op1 o).onNotif j n s = (.op1 (o.step n).1, (o.step n).2, s) := rfl
    rw [e]
    obtain ⟨h1, h2⟩ := St1.step_filtering o n hf
    exact ⟨h1, subF_items hs h2⟩
  | delay d alive multi =>
    replace h : (items out ++ items (pend j s)).Sublist (items inp) := h
    have sched : ∀ m : Notif, (items (out ++ []) ++ items (pend j (s.scheduleOnce (.emit j m) (some d)).1)).Sublist
        (items (inp ++ [m])) := by
      intro m
      rw [pend_scheduleOnce_emit]
      exact subF_items (em := []) (h' := items (pend j s ++ [m])) h
        (by rw [items_append]; exact List.Sublist.refl _)
    cases n with
    | error e =>
      show (items (out ++ if alive then [.error e] else []) ++ items (pend j s)).Sublist _
      exact subF_items h (by cases alive <;> simp [items])
    | next v => exact sched _
    | complete => exact sched _
  | observeOn alive multi =>
    replace h : (items out ++ items (pend j s)).Sublist (items inp) := h
    show (items (out ++ []) ++ items (pend j (s.scheduleOnce (.emit j n) none).1)).Sublist (items (inp ++ [n]))
    rw [pend_scheduleOnce_emit]
    exact subF_items (em := []) (h' := items (pend j s ++ [n])) h
      (by rw [items_append]; exact List.Sublist.refl _)
  | debounce d alive tr hd =>
    replace h : (items out ++ tr.toList).Sublist (items inp) := h
    cases n with
    | next v =>
      show (items (out ++ []) ++ [v]).Sublist _
      exact subF_items h (by simp [items])
    | error e =>
      show (items (out ++ if alive then [.error e] else []) ++ tr.toList).Sublist _
      exact subF_items h (by cases alive <;> simp [items])
    | complete =>
      show (items (out ++ if alive then _ else []) ++ []).Sublist _
      refine subF_items h ?_
      cases alive
      · simp [items]
      · cases tr <;> simp [items]
  | throttle d e alive tr hd =>
    replace h : (items out ++ tr.toList).Sublist (items inp) := h
    cases n with
    | next v =>
      have closedCase : ∀ p, SubF p (Stage.throttleW d e alive
            (if e.hasLeading then none else if e.hasTrailing then some v else tr))
          (inp ++ [.next v]) (out ++ if (e.hasLeading && alive) = true then [.next v] else []) := by
        intro p
        refine subF_items h ?_
        cases e <;> cases alive <;> simp [items, Edge.hasLeading, Edge.hasTrailing]
      have openCase : ∀ p k, SubF p (Stage.throttle d e alive (if e.hasTrailing then some v else tr) (some k))
          (inp ++ [.next v]) (out ++ []) := by
        intro p k
        refine subF_items h ?_
        cases e <;> simp [items, Edge.hasTrailing]
      cases hd with
      | none =>
        simp only [Stage.onNotif, if_true]
        exact closedCase _
      | some k =>
        cases hc : s.handleClosed k
        · simp only [Stage.onNotif, hc, Bool.false_eq_true, if_false]
          exact openCase _ k
        · simp only [Stage.onNotif, hc, if_true]
          exact closedCase _
    | error er =>
      show (items (out ++ if alive then [.error er] else []) ++ tr.toList).Sublist _
      exact subF_items h (by cases alive <;> simp [items])
    | complete =>
      show (items (out ++ if alive then _ else []) ++ []).Sublist _
      refine subF_items h ?_
      cases alive
      · simp [items]
      · cases tr <;> simp [items]
  | throttleW d e alive tr =>
    replace h : (items out ++ tr.toList).Sublist (items inp) := h
    show (items (out ++ []) ++ tr.toList).Sublist _
    exact subF_items h (by simp [items])
  | _ => exact h.elim

theorem Stage.afterEmit_subF (st : Stage) (j : Nat) (s : Sched) {p p' : List Notif} {inp out : List Notif}
    (h : SubF p st inp out) (hp : p'.Sublist p) : SubF p' (st.afterEmit j s).1 inp out := by
  cases st with
  | throttleW d e alive tr => exact h
  | _ => exact h.mono hp

/-! ### the cascade, for every fuel value -/

theorem cascadeF_frame (f : Nat) : ∀ (stages : List Stage) (j : Nat) (ns : List Notif) (s : Sched),
    Kinds kd j stages →
      Frame kd j s (cascadeF f stages j ns s).2.2 ∧
        (cascadeF f stages j ns s).1.map dlOf = stages.map dlOf := by
  induction f with
  | zero => intro stages j ns s _; exact ⟨Frame.refl _ _, rfl⟩
  | succ f ih =>
    intro stages j ns s hk
    cases stages with
    | nil => exact ⟨Frame.refl _ _, rfl⟩
    | cons st rest =>
      cases ns with
      | nil => exact ⟨Frame.refl _ _, rfl⟩
      | cons n ns =>
        have o1 := st.onNotif_frame (kd := kd) j n s hk.head
        have d1 := st.onNotif_dl j n s
        rcases hst : st.onNotif j n s with ⟨st1, outs, s1⟩
        rw [hst] at o1 d1
        have i1 := ih rest (j + 1) outs s1 hk.tail
        rcases hc1 : cascadeF f rest (j + 1) outs s1 with ⟨rest1, out1, s2⟩
        rw [hc1] at i1
        have o2 := st1.afterEmit_frame (kd := kd) j s2
        have d2 := st1.afterEmit_dl j s2
        rcases hae : st1.afterEmit j s2 with ⟨st2, s3⟩
        rw [hae] at o2 d2
        simp only at o1 d1 i1 o2 d2
        have hm : (st2 :: rest1).map dlOf = (st :: rest).map dlOf := by
          rw [List.map_cons, List.map_cons, i1.2, d2, d1]
        have i2 := ih (st2 :: rest1) j ns s3 (hk.of_map hm)
        rcases hc2 : cascadeF f (st2 :: rest1) j ns s3 with ⟨stages2, out2, s4⟩
        rw [hc2] at i2
        simp only [cascadeF, hst, hc1, hae, hc2]
        simp only at i2
        exact ⟨((o1.trans (i1.1.mono (Nat.le_succ j))).trans o2).trans i2.1, i2.2.trans hm⟩

theorem cascadeF_subF (f : Nat) : ∀ (stages : List Stage) (j : Nat) (ns : List Notif) (s : Sched),
    ∀ up log, ChainF (pendOf s) j up stages log →
      ChainF (pendOf (cascadeF f stages j ns s).2.2) j (up ++ ns) (cascadeF f stages j ns s).1
          (log ++ (cascadeF f stages j ns s).2.1) ∧
        ∀ i, i < j → PwLe i s (cascadeF f stages j ns s).2.2 := by
  induction f with
  | zero =>
    intro stages j ns s up log h
    simp only [cascadeF, List.append_nil]
    exact ⟨h.mono (List.sublist_append_left _ _), fun i _ => PwLe.refl _ _⟩
  | succ f ih =>
    intro stages j ns s
    cases stages with
    | nil =>
      intro up log h
      simp only [cascadeF]
      exact ⟨List.Sublist.append h (List.Sublist.refl _), fun i _ => PwLe.refl _ _⟩
    | cons st rest =>
      cases ns with
      | nil =>
        intro up log h
        exact ⟨by simpa [cascadeF] using h, fun i _ => PwLe.refl _ _⟩
      | cons n ns =>
        have o1 := fun {inp out} => st.onNotif_subF j n s (inp := inp) (out := out)
        have p1 := st.onNotif_pw j n s
        rcases hst : st.onNotif j n s with ⟨st1, outs, s1⟩
        rw [hst] at o1 p1
        have i1 := ih rest (j + 1) outs s1
        rcases hc1 : cascadeF f rest (j + 1) outs s1 with ⟨rest1, out1, s2⟩
        rw [hc1] at i1
        have o2 := fun {p p' inp out} => st1.afterEmit_subF j s2 (p := p) (p' := p') (inp := inp) (out := out)
        have p2 := st1.afterEmit_pw j s2
        rcases hae : st1.afterEmit j s2 with ⟨st2, s3⟩
        rw [hae] at o2 p2
        have i2 := ih (st2 :: rest1) j ns s3
        rcases hc2 : cascadeF f (st2 :: rest1) j ns s3 with ⟨stages2, out2, s4⟩
        rw [hc2] at i2
        simp only [cascadeF, hst, hc1, hae, hc2]
        simp only at o1 p1 i1 o2 p2 i2
        intro up log h
        obtain ⟨inp, out, h1, h2, h3⟩ := h
        -- the rest of the chain does not see what stage `j` did to the scheduler
        have h3' : ChainF (pendOf s1) (j + 1) out rest log :=
          h3.anti (fun i hi => (p1 i (by omega)).sublist)
        obtain ⟨c1, q1⟩ := i1 out log h3'
        have c1' : ChainF (pendOf s3) (j + 1) (out ++ outs) rest1 (log ++ out1) :=
          c1.anti (fun i _ => (p2 i).sublist)
        have hj : (pend j s3).Sublist (pend j s1) :=
          ((q1 j (Nat.lt_succ_self j)).trans (p2 j)).sublist
        have c2 : ChainF (pendOf s3) j (up ++ [n]) (st2 :: rest1) (log ++ out1) :=
          ⟨inp ++ [n], out ++ outs, List.Sublist.append h1 (List.Sublist.refl _), o2 (o1 h2) hj, c1'⟩
        obtain ⟨c3, q3⟩ := i2 _ _ c2
        refine ⟨by simpa [List.append_assoc] using c3, fun i hi => ?_⟩
        exact (((p1 i (by omega)).trans (q1 i (by omega))).trans (p2 i)).trans (q3 i hi)

end Rx.T
