import RxModel.Lemmas.ShareGrammar
/-
  Helper lemmas for C01M (share): subscribe / unsubscribe / source events keep
  the invariant; the run theorem for a generic selection `p`.
-/
namespace Rx.Share
namespace W

/-- A new subscription with label `k` may be selected by `p` only if no live
    cell is. -/
def Fresh (p : Nat × Nat → Bool) (w : W) (k : Nat) : Prop :=
  p (w.cells.length, k) = true → ∀ id' l', (w.cells[id']?).join = some l' → p (id', l') = false

theorem cell_lt {cs : List (Option Nat)} {i l : Nat} (h : (cs[i]?).join = some l) : i < cs.length := by
  cases hi : cs[i]? with
  | none => simp [hi] at h
  | some x => exact (List.getElem?_eq_some_iff.1 hi).1

theorem cell_append {cs : List (Option Nat)} {x : Option Nat} {i l : Nat}
    (h : ((cs ++ [x])[i]?).join = some l) :
    (cs[i]?).join = some l ∨ (i = cs.length ∧ x = some l) := by
  rw [List.getElem?_append] at h
  split at h
  · exact Or.inl h
  · rename_i hlt
    right
    have hi : i - cs.length = 0 := by
      cases hz : i - cs.length with
      | zero => rfl
      | succ n => simp [hz] at h
    simp only [hi, List.getElem?_cons_zero, Option.join_some] at h
    exact ⟨by omega, h⟩

theorem cell_set_none {cs : List (Option Nat)} {i j l : Nat}
    (h : ((cs.set i none)[j]?).join = some l) : (cs[j]?).join = some l := by
  rw [List.getElem?_set] at h
  split at h
  · split at h <;> simp at h
  · exact h

theorem attach_observers (w : W) (k : Nat) : (w.attach k).subj.observers = w.subj.observers := by
  simp only [attach, subjSubscribe]
  split <;> rfl

theorem attach_inv {p : Nat × Nat → Bool} (w : W) (k : Nat) (h : Inv p w) (hf : Fresh p w k) :
    Inv p (w.attach k) := by
  simp only [attach, subjSubscribe]
  cases hc : w.subj.chamber with
  | none =>
    simp only
    refine ⟨?_, ?_, ?_⟩
    · intro id hid
      have := h.bound id (by simpa [ents, hc] using hid)
      simp; omega
    · simpa [ents, hc] using h.nodup
    · intro id id' l l' h1 h2
      simp only at h1 h2
      rcases cell_append h1 with a | ⟨_, a⟩
      · rcases cell_append h2 with b | ⟨_, b⟩
        · exact h.uniq id id' l l' a b
        · cases b
      · cases a
  | some ch =>
    simp only
    have hents : ents { w.subj with chamber := some (ch ++ [w.cells.length]) } =
        ents w.subj ++ [w.cells.length] := by
      simp [ents, hc]
    refine ⟨?_, ?_, ?_⟩
    · intro id hid
      simp only [hents, List.mem_append, List.mem_singleton] at hid
      simp only [List.length_append, List.length_singleton]
      rcases hid with hid | hid
      · have := h.bound id hid; omega
      · omega
    · simp only [hents]
      rw [List.nodup_append]
      refine ⟨h.nodup, by simp, ?_⟩
      intro a ha b hb
      simp only [List.mem_singleton] at hb
      subst hb
      have := h.bound a ha
      omega
    · intro id id' l l' h1 h2 p1 p2
      simp only at h1 h2
      rcases cell_append h1 with a | ⟨a1, a2⟩
      · rcases cell_append h2 with b | ⟨b1, b2⟩
        · exact h.uniq id id' l l' a b p1 p2
        · simp only [Option.some.injEq] at b2
          subst b1 b2
          have := hf p2 id l a
          rw [this] at p1; cases p1
      · simp only [Option.some.injEq] at a2
        subst a1 a2
        rcases cell_append h2 with b | ⟨b1, b2⟩
        · have := hf p1 id' l' b
          rw [this] at p2; cases p2
        · exact b1.symm

theorem subscribe_inv {p : Nat × Nat → Bool} (w : W) (k : Nat) (h : Inv p w) (hf : Fresh p w k) :
    Inv p (w.subscribe k).1 ∧ Tr p w (w.subscribe k).1 (subscribeI w k) := by
  have ha := attach_inv w k h hf
  have hs : Tr p w (w.attach k) [] := Tr.silent (fun hd => by rw [attach_observers]; exact hd)
  simp only [subscribe, subscribeI]
  cases hk : w.kind with
  | publish => exact ⟨ha, hs⟩
  | share =>
    simp only
    cases hc : w.connected with
    | true => simpa using ⟨ha, hs⟩
    | false =>
      simp only [Bool.false_eq_true, if_false]
      have := doConnect_inv (p := p) (w.attach k) (keepConn w.model) ha
      exact ⟨this.1, by simpa using Tr.comp hs this.2⟩

theorem unsubscribe_inv {p : Nat × Nat → Bool} (w : W) (k : Nat) (h : Inv p w) :
    Inv p (w.unsubscribe k) ∧ Tr p w (w.unsubscribe k) [] := by
  simp only [unsubscribe]
  split
  · exact ⟨h, Tr.silent (fun hd => hd)⟩
  · rename_i id _
    have h1 : Inv p { w with cells := w.cells.set id none, handles := w.handles.set k none } :=
      ⟨by simpa using h.bound, h.nodup,
        fun a b l l' x y => h.uniq a b l l' (cell_set_none x) (cell_set_none y)⟩
    have h2 : Inv p ({ w with cells := w.cells.set id none, handles := w.handles.set k none } : W).subjUnsubscribe :=
      ⟨by simp [subjUnsubscribe, ents], by simp [subjUnsubscribe, ents], h1.uniq⟩
    split
    · exact ⟨h1, Tr.silent (fun hd => hd)⟩
    · split
      · split
        · exact ⟨h2, Tr.silent (fun _ => rfl)⟩
        · split
          · exact ⟨h2.congr rfl rfl, Tr.silent (fun _ => rfl)⟩
          · exact ⟨h2, Tr.silent (fun _ => rfl)⟩
      · exact ⟨h1, Tr.silent (fun hd => hd)⟩

theorem tapCall_inv {p : Nat × Nat → Bool} (w : W) (n : Notif) (h : Inv p w) :
    Inv p (w.tapCall n).1 ∧ Tr p w (w.tapCall n).1 (subjCallI w n) := by
  cases n with
  | next v => exact ⟨tapCall_next_inv w v h, tapCall_next_tr p w v⟩
  | error e =>
    rw [tapCall_term_eq w _ rfl]
    exact ⟨subjTerminal_inv w _ h, subjTerminal_tr w _ h⟩
  | complete =>
    rw [tapCall_term_eq w _ rfl]
    exact ⟨subjTerminal_inv w _ h, subjTerminal_tr w _ h⟩

theorem hotEmit_inv {p : Nat × Nat → Bool} (w : W) (n : Notif) (h : Inv p w) :
    Inv p (w.hotEmit n).1 ∧ Tr p w (w.hotEmit n).1 (hotEmitI w n) := by
  have key : ∀ t : Notif, t.isTerm = true →
      Inv p (if w.hotOpen then
          (if w.hotEntry && w.connCell then
            tapCall { w with hotOpen := false, connCell := false } t
          else ({ w with hotOpen := false }, [])) else (w, [])).1 ∧
      Tr p w (if w.hotOpen then
          (if w.hotEntry && w.connCell then
            tapCall { w with hotOpen := false, connCell := false } t
          else ({ w with hotOpen := false }, [])) else (w, [])).1
        (if w.hotOpen then
          if w.hotEntry && w.connCell then subjCallI w t else []
        else []) := by
    intro t _
    split
    · split
      · have := tapCall_inv (p := p) { w with hotOpen := false, connCell := false } t (h.congr rfl rfl)
        exact ⟨this.1, ⟨this.2.wf, this.2.term, this.2.dead⟩⟩
      · exact ⟨h.congr rfl rfl, Tr.silent (fun hd => hd)⟩
    · exact ⟨h, Tr.silent (fun hd => hd)⟩
  cases n with
  | next v =>
    simp only [hotEmit, hotEmitI]
    split
    · exact tapCall_inv w _ h
    · exact ⟨h, Tr.silent (fun hd => hd)⟩
  | error e => simpa [hotEmit, hotEmitI] using key (.error e) rfl
  | complete => simpa [hotEmit, hotEmitI] using key .complete rfl

theorem step_inv {p : Nat × Nat → Bool} (w : W) (e : Ev) (h : Inv p w)
    (hf : ∀ k, e = .sub k → Fresh p w k) :
    Inv p (w.step e).1 ∧ Tr p w (w.step e).1 (stepI w e) := by
  cases e with
  | sub k => simpa [step, stepI] using subscribe_inv w k h (hf k rfl)
  | unsub k => simpa [step, stepI] using unsubscribe_inv w k h
  | emit n => simpa [step, stepI] using hotEmit_inv w n h
  | connect =>
    simp only [step, stepI]
    cases hk : w.kind with
    | publish =>
      simp only
      cases hc : w.connected with
      | true => simpa using ⟨h, Tr.silent (p := p) (w := w) (w' := w) (fun hd => hd)⟩
      | false => simpa using doConnect_inv w true h
    | share => exact ⟨h, Tr.silent (fun hd => hd)⟩
  | q => exact ⟨h, Tr.silent (fun hd => hd)⟩

/-- Every `sub` of the history is fresh for `p` at the moment it is issued. -/
def FreshRun (p : Nat × Nat → Bool) : W → List Ev → Prop
  | _, [] => True
  | w, e :: r => (∀ k, e = .sub k → Fresh p w k) ∧ FreshRun p (w.step e).1 r

theorem run_fst_cons (w : W) (e : Ev) (r : List Ev) : (w.run (e :: r)).1 = ((w.step e).1.run r).1 := rfl

theorem run_inv {p : Nat × Nat → Bool} (es : List Ev) : ∀ w : W, Inv p w → FreshRun p w es →
    Inv p (w.run es).1 ∧ Tr p w (w.run es).1 (runI w es) := by
  induction es with
  | nil => intro w h _; exact ⟨h, Tr.silent (fun hd => hd)⟩
  | cons e r ih =>
    intro w h hf
    have h1 := step_inv w e h hf.1
    have h2 := ih _ h1.1 hf.2
    rw [run_fst_cons]
    exact ⟨h2.1, Tr.comp h1.2 h2.2⟩

theorem init_inv (p : Nat × Nat → Bool) (m : Model) (k : Kind) (cold : Option (List Val)) :
    Inv p (init m k cold) := by
  refine ⟨by simp [init, ents], by simp [init, ents], ?_⟩
  intro id id' l l' h
  simp [init] at h

theorem runI_append (a b : List Ev) : ∀ w : W, runI w (a ++ b) = runI w a ++ runI (w.run a).1 b := by
  induction a with
  | nil => intro w; rfl
  | cons e r ih => intro w; simp [runI, ih, run_fst_cons]

theorem run_append_fst (a b : List Ev) : ∀ w : W, (w.run (a ++ b)).1 = ((w.run a).1.run b).1 := by
  induction a with
  | nil => intro w; rfl
  | cons e r ih => intro w; simp only [List.cons_append, run_fst_cons, ih]

end W
end Rx.Share
