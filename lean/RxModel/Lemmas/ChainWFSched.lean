import RxModel.Sched.Chain
import RxModel.Lemmas.Sched
import RxModel.Lemmas.ChainRateSched
/-
  C01 over the chain model, part 2: what the scheduler operations do to the set
  of tasks.

  * `Sched.Ext s s'`: every task of `s` is still there with the same body and the
    same `done` flag, every new task has a benign body (it can only make its own
    stage call its downstream: `Body.benign`);
  * `Sched.Le s s'`: the same, but tasks may have finished;
  * `Sched.Live s k b`: task `k` exists, is not finished, and runs body `b`.
-/
namespace Rx.T
namespace Sched

def Ext (s s' : Sched) : Prop :=
  (∀ (k : Nat) (t : Task), s.tasks[k]? = some t →
    ∃ t' : Task, s'.tasks[k]? = some t' ∧ t'.body = t.body ∧ t'.done = t.done) ∧
  (∀ (k : Nat) (t' : Task), s'.tasks[k]? = some t' → s.tasks[k]? = none → t'.body.benign = true)

def Le (s s' : Sched) : Prop :=
  ∀ (k : Nat) (t' : Task), s'.tasks[k]? = some t' →
    (∃ t : Task, s.tasks[k]? = some t ∧ t'.body = t.body ∧ (t.done = true → t'.done = true)) ∨
      t'.body.benign = true

def Live (s : Sched) (k : TaskId) (b : Body) : Prop :=
  ∃ t : Task, s.tasks[k]? = some t ∧ t.done = false ∧ t.body = b

theorem Ext.refl (s : Sched) : s.Ext s :=
  ⟨fun _ t h => ⟨t, h, rfl, rfl⟩, fun k t' h h' => by rw [h] at h'; cases h'⟩

theorem Ext.trans {a b c : Sched} (h1 : a.Ext b) (h2 : b.Ext c) : a.Ext c := by
  constructor
  · intro k t h
    obtain ⟨t', h', hb, hd⟩ := h1.1 k t h
    obtain ⟨t'', h'', hb', hd'⟩ := h2.1 k t' h'
    exact ⟨t'', h'', hb'.trans hb, hd'.trans hd⟩
  · intro k t'' h'' hn
    cases hb : b.tasks[k]? with
    | none => exact h2.2 k t'' h'' hb
    | some t' =>
      obtain ⟨t2, h2', hb2, _⟩ := h2.1 k t' hb
      rw [h''] at h2'; cases h2'
      rw [hb2]; exact h1.2 k t' hb hn

theorem Ext.le {s s' : Sched} (h : s.Ext s') : s.Le s' := by
  intro k t' h'
  cases hs : s.tasks[k]? with
  | none => exact Or.inr (h.2 k t' h' hs)
  | some t =>
    obtain ⟨t2, h2, hb, hd⟩ := h.1 k t hs
    rw [h'] at h2; cases h2
    exact Or.inl ⟨t, rfl, hb, fun x => by rw [hd]; exact x⟩

theorem Le.refl (s : Sched) : s.Le s := (Ext.refl s).le

theorem Le.trans {a b c : Sched} (h1 : a.Le b) (h2 : b.Le c) : a.Le c := by
  intro k t'' h''
  rcases h2 k t'' h'' with ⟨t', h', hb, hd⟩ | hb
  · rcases h1 k t' h' with ⟨t, h, hb', hd'⟩ | hb'
    · exact Or.inl ⟨t, h, hb.trans hb', fun x => hd (hd' x)⟩
    · exact Or.inr (by rw [hb]; exact hb')
  · exact Or.inr hb

/-- A live task with a non-benign body was already there, live, with that body. -/
theorem Le.live {s s' : Sched} (h : s.Le s') {k : TaskId} {b : Body} (hl : s'.Live k b)
    (hb : b.benign = false) : s.Live k b := by
  obtain ⟨t', h', hd, rfl⟩ := hl
  rcases h k t' h' with ⟨t, ht, hbt, hdt⟩ | hbt
  · refine ⟨t, ht, ?_, hbt.symm⟩
    cases hx : t.done with
    | false => rfl
    | true => rw [hdt hx] at hd; cases hd
  · rw [hbt] at hb; cases hb

theorem Ext.live {s s' : Sched} (h : s.Ext s') {k : TaskId} {b : Body} (hl : s.Live k b) :
    s'.Live k b := by
  obtain ⟨t, ht, hd, hb⟩ := hl
  obtain ⟨t', h', hb', hd'⟩ := h.1 k t ht
  exact ⟨t', h', hd'.trans hd, hb'.trans hb⟩

/-- Bodies are never changed, new bodies are benign. -/
theorem Le.body {s s' : Sched} (h : s.Le s') {P : Body → Prop} (hP : ∀ b, b.benign = true → P b)
    (hs : ∀ t ∈ s.tasks, P t.body) : ∀ t ∈ s'.tasks, P t.body := by
  intro t' ht'
  obtain ⟨k, hk, rfl⟩ := List.mem_iff_getElem.mp ht'
  rcases h k _ (List.getElem?_eq_getElem hk) with ⟨t, ht, hb, _⟩ | hb
  · rw [hb]; exact hs t (List.mem_of_getElem? ht)
  · exact hP _ hb

/-! ### the operations -/

theorem Ext.of_tasks {s s' : Sched} (e : s'.tasks = s.tasks) : s.Ext s' := by
  constructor
  · intro k t h; exact ⟨t, by rw [e]; exact h, rfl, rfl⟩
  · intro k t' h hn; rw [e, hn] at h; cases h

theorem Ext.setTask (s : Sched) (k : TaskId) (t0 t : Task) (h0 : s.tasks[k]? = some t0)
    (hb : t.body = t0.body) (hd : t.done = t0.done) : s.Ext (s.setTask k t) := by
  have hk := get_lt h0
  constructor
  · intro j tj hj
    by_cases hjk : j = k
    · subst hjk
      rw [h0] at hj; cases hj
      exact ⟨t, setTask_get_self s j t t0 h0, hb, hd⟩
    · exact ⟨tj, by rw [setTask_get_ne s k t j hjk]; exact hj, rfl, rfl⟩
  · intro j tj hj hn
    by_cases hjk : j = k
    · subst hjk; rw [h0] at hn; cases hn
    · rw [setTask_get_ne s k t j hjk, hn] at hj; cases hj

theorem Ext.cancel (s : Sched) (k : TaskId) : s.Ext (s.cancel k) := by
  unfold Sched.cancel
  split
  · next t ht => exact Ext.setTask s k t _ ht rfl rfl
  · exact Ext.refl s

theorem Ext.cancelOpt (s : Sched) (o : Option TaskId) :
    s.Ext (match o with | some k => s.cancel k | none => s) := by
  cases o
  · exact Ext.refl s
  · exact Ext.cancel s _

theorem Ext.cancelAll (l : List TaskId) (s : Sched) : s.Ext (l.foldl Sched.cancel s) := by
  induction l generalizing s with
  | nil => exact Ext.refl s
  | cons a r ih => exact (Ext.cancel s a).trans (ih _)

theorem Ext.append (s : Sched) (s' : Sched) (t : Task) (e : s'.tasks = s.tasks ++ [t])
    (hb : t.body.benign = true) : s.Ext s' := by
  constructor
  · intro k tk hk
    refine ⟨tk, ?_, rfl, rfl⟩
    rw [e, List.getElem?_append_left (get_lt hk)]; exact hk
  · intro k t' h' hn
    rw [e] at h'
    have hge : s.tasks.length ≤ k := by
      rcases Nat.lt_or_ge k s.tasks.length with h | h
      · rw [List.getElem?_eq_getElem h] at hn; cases hn
      · exact h
    rw [List.getElem?_append_right hge] at h'
    have : t' = t := by
      cases hx : k - s.tasks.length with
      | zero => rw [hx] at h'; simpa using h'.symm
      | succ m => rw [hx] at h'; simp at h'
    rw [this]; exact hb

theorem Ext.scheduleOnce (s : Sched) (b : Body) (d : Option Nat) (hb : b.benign = true) :
    s.Ext (s.scheduleOnce b d).1 :=
  Ext.append s _ _ rfl hb

theorem Ext.scheduleRepeat (s : Sched) (b : Body) (p : Nat) (d : Option Nat) (f : Nat)
    (hb : b.benign = true) : s.Ext (s.scheduleRepeat b p d f).1 :=
  Ext.append s _ _ rfl hb

theorem Ext.registerTimer (s : Sched) (tm : TimerId) : s.Ext (s.registerTimer tm) :=
  Ext.of_tasks (registerTimer_tasks s tm)

theorem Ext.fire (s : Sched) (tm : TimerId) : s.Ext (s.fire tm) := by
  unfold Sched.fire
  split
  · exact Ext.refl s
  · next t ht =>
    have h1 : s.Ext (s.setTimer tm { t with fired := true }) := Ext.of_tasks rfl
    dsimp only
    split
    · split
      · next tk htk => exact h1.trans (Ext.setTask _ _ tk _ htk rfl rfl)
      · exact h1
    · exact h1

theorem Ext.fireAll (l : List TimerId) (s : Sched) : s.Ext (l.foldl Sched.fire s) := by
  induction l generalizing s with
  | nil => exact Ext.refl s
  | cons a r ih => exact (Ext.fire s a).trans (ih _)

theorem Ext.stayPending (s : Sched) (k : TaskId) (wk : Bool) : s.Ext (s.stayPending k wk) := by
  unfold Sched.stayPending
  split
  · next t ht => exact Ext.setTask s k t _ ht rfl rfl
  · exact Ext.refl s

theorem Ext.continueRepeat (s : Sched) (k : TaskId) : s.Ext (s.continueRepeat k) := by
  unfold Sched.continueRepeat
  split
  · next t ht =>
    split
    · next fur iv seq hr =>
      have h1 : s.Ext ((s.newTimer iv k).1.registerTimer (s.newTimer iv k).2) :=
        (Ext.of_tasks (s := s) (s' := (s.newTimer iv k).1) rfl).trans (Ext.registerTimer _ _)
      refine h1.trans (Ext.setTask _ k t _ ?_ rfl rfl)
      rw [registerTimer_tasks]; exact ht
    · exact Ext.refl s
  · exact Ext.refl s

/-- `finishOnce` only finishes. -/
theorem Le.finishOnce (s : Sched) (k : TaskId) : s.Le (s.finishOnce k) := by
  intro j tj hj
  unfold Sched.finishOnce at hj
  split at hj
  · next t ht =>
    by_cases hjk : j = k
    · subst hjk
      rw [setTask_get_self s j _ t ht] at hj; cases hj
      exact Or.inl ⟨t, ht, rfl, fun _ => rfl⟩
    · rw [setTask_get_ne s k _ j hjk] at hj
      exact Or.inl ⟨tj, hj, rfl, id⟩
  · exact Or.inl ⟨tj, hj, rfl, id⟩

/-- After `finishOnce k` task `k` is not live. -/
theorem finishOnce_not_live (s : Sched) (k : TaskId) (b : Body) : ¬ (s.finishOnce k).Live k b := by
  rintro ⟨t', h', hd, _⟩
  unfold Sched.finishOnce at h'
  split at h'
  · next t ht =>
    rw [setTask_get_self s k _ t ht] at h'; cases h'
    cases hd
  · next hn => rw [hn] at h'; cases h'

theorem Le.setDone (s : Sched) (k : TaskId) (t0 t : Task) (h0 : s.tasks[k]? = some t0)
    (hb : t.body = t0.body) (hd : t0.done = true → t.done = true) : s.Le (s.setTask k t) := by
  intro j tj hj
  by_cases hjk : j = k
  · subst hjk
    rw [setTask_get_self s j t t0 h0] at hj; cases hj
    exact Or.inl ⟨t0, h0, hb, hd⟩
  · rw [setTask_get_ne s k t j hjk] at hj
    exact Or.inl ⟨tj, hj, rfl, id⟩

/-- `pollPre` changes no body and starts no task. -/
theorem Le.pollPre (s : Sched) (k : TaskId) : s.Le (s.pollPre k).1 := by
  refine pollPre_elim s k (motive := fun r => s.Le r.1) ?_ ?_ ?_ ?_ ?_ ?_ ?_ ?_
  · intro _; exact Le.refl s
  · intro t _ _; exact Le.refl s
  · intro t ht _ _; exact Le.setDone s k t _ ht rfl (fun _ => rfl)
  · intro t d ht _ _ _
    have h1 : s.Ext ((s.newTimer d k).1.registerTimer s.timers.length) :=
      (Ext.of_tasks (s := s) (s' := (s.newTimer d k).1) rfl).trans (Ext.registerTimer _ _)
    exact h1.le.trans (Le.setDone _ k t _ (by rw [registerTimer_tasks]; exact ht) rfl id)
  · intro t tm ht _ _ _ _ _
    exact (Ext.registerTimer s tm).le.trans
      (Le.setDone _ k t _ (by rw [registerTimer_tasks]; exact ht) rfl id)
  · intro t ht _ _ _ _ _; exact Le.setDone s k t _ ht rfl id
  · intro t fur iv seq ht _ _ _ _ _ _
    exact (Ext.registerTimer s fur).le.trans
      (Le.setDone _ k t _ (by rw [registerTimer_tasks]; exact ht) rfl id)
  · intro t fur iv seq ht _ _ _ _ _ _; exact Le.setDone s k t _ ht rfl id

/-- When `pollPre` lets a body run, the task is live (before and after) with that body. -/
theorem pollPre_live (s : Sched) (k : TaskId) :
    (∀ b, (s.pollPre k).2 = .runOnce b → (s.pollPre k).1.Live k b) ∧
    (∀ b n, (s.pollPre k).2 = .runTick b n → (s.pollPre k).1.Live k b) := by
  refine pollPre_elim s k (motive := fun r =>
    (∀ b, r.2 = .runOnce b → r.1.Live k b) ∧ (∀ b n, r.2 = .runTick b n → r.1.Live k b))
    ?_ ?_ ?_ ?_ ?_ ?_ ?_ ?_
  · intro _; exact ⟨fun _ h => (by cases h), fun _ _ h => (by cases h)⟩
  · intro t _ _; exact ⟨fun _ h => (by cases h), fun _ _ h => (by cases h)⟩
  · intro t _ _ _; exact ⟨fun _ h => (by cases h), fun _ _ h => (by cases h)⟩
  · intro t d _ _ _ _; exact ⟨fun _ h => (by cases h), fun _ _ h => (by cases h)⟩
  · intro t tm _ _ _ _ _ _; exact ⟨fun _ h => (by cases h), fun _ _ h => (by cases h)⟩
  · intro t ht hd _ _ _ _
    refine ⟨fun b h => ?_, fun _ _ h => (by cases h)⟩
    cases h
    exact ⟨_, setTask_get_self s k _ t ht, hd, rfl⟩
  · intro t fur iv seq _ _ _ _ _ _ _; exact ⟨fun _ h => (by cases h), fun _ _ h => (by cases h)⟩
  · intro t fur iv seq ht hd _ _ _ _ _
    refine ⟨fun _ h => (by cases h), fun b n h => ?_⟩
    cases h
    exact ⟨_, setTask_get_self s k _ t ht, hd, rfl⟩

end Sched
end Rx.T
