import RxModel.Lemmas.ChainCompSim
/-
  C07C, part 4: the events.  `feedEvs pre evs` replaces every effective emission of subject 0
  by the emissions of what the observers `pre` output for it.  The world with stages
  `pre ++ [T] ++ post` driven by `evs` is the `lift` of the one-stage world `[T]` driven by
  `feedEvs pre evs`.  (Before `fix: Subject::error/complete hand the terminal to every subscriber`
  there was an exception, the "phase B" of `MainInv`: the source's terminal was withheld when `post`
  had finished early (`take 1` after `observe_on` …), `pre` never saw it, the two one-stage worlds
  differed and `post` ignored the difference.  Phase B is still part of the invariant and of its
  proofs but no step enters it any more: `MainInv.stepA` always answers with phase A.)
-/
set_option linter.unusedSimpArgs false
namespace Rx.T
open Rx

/-! ### the feed -/

structure FS where
  ps : List St1
  t : Bool := false
  out : List TW.Ev := []

def FS.step (f : FS) : TW.Ev → FS
  | .emit i n =>
    if i = 0 ∧ f.t = false then
      { ps := (runChain f.ps [n]).1, t := n.isTerm,
        out := f.out ++ (runChain f.ps [n]).2.map (TW.Ev.emit 0) }
    else f
  | .adv k => { f with out := f.out ++ [.adv k] }
  | .run => { f with out := f.out ++ [.run] }
  | _ => f

def feedSt (pre : List St1) (evs : List TW.Ev) : FS := evs.foldl FS.step { ps := pre }

/-- Every effective emission of subject 0 replaced by the emissions of what `pre` outputs. -/
def feedEvs (pre : List St1) (evs : List TW.Ev) : List TW.Ev := (feedSt pre evs).out

theorem feedSt_snoc (pre : List St1) (evs : List TW.Ev) (e : TW.Ev) :
    feedSt pre (evs ++ [e]) = (feedSt pre evs).step e := by
  simp [feedSt, List.foldl_append]

theorem script_append (a b : List TW.Ev) : script (a ++ b) = script a ++ script b := by
  simp [script, List.flatMap_append]

theorem script_emits (mid : List Notif) : script (mid.map (TW.Ev.emit 0)) = mid := by
  induction mid with
  | nil => rfl
  | cons m r ih =>
    have : script (TW.Ev.emit 0 m :: r.map (TW.Ev.emit 0)) = m :: script (r.map (TW.Ev.emit 0)) := by
      simp [script, scriptOf]
    simp only [List.map_cons, this, ih]

theorem fifo_emits (mid : List Notif) : ∀ e ∈ mid.map (TW.Ev.emit 0), FifoEv e := by
  intro e he
  simp only [List.mem_map] at he
  obtain ⟨m, _, rfl⟩ := he
  exact .emit 0 m

theorem gate_snoc (s : List Notif) (n : Notif) (h : terminated s = false) : gate (s ++ [n]) = gate s ++ [n] := by
  rw [gate_append_of_not_terminated s _ h, gate_eq_self_of_not_terminated s h]
  cases n <;> rfl

theorem term_false_of_WF_append {a b : List Notif} (h : WF (a ++ b)) (hb : b ≠ []) :
    terminated a = false := by
  have := (WF_append_iff a b).mp h
  cases ht : terminated a with
  | false => rfl
  | true => exact absurd (this.2.1 ht) hb

/-- What the feed is, in terms of the script. -/
structure FSI (pre : List St1) (s : List Notif) (f : FS) : Prop where
  t : f.t = terminated s
  ps : f.ps = (runChain pre (gate s)).1
  out : script f.out = (runChain pre (gate s)).2
  fifo : ∀ e ∈ f.out, FifoEv e

theorem FSI_step (pre : List St1) (s : List Notif) (f : FS) (e : TW.Ev) (he : FifoEv e) (h : FSI pre s f) :
    FSI pre (s ++ scriptOf e) (f.step e) := by
  obtain ⟨ht, hps, hout, hf⟩ := h
  cases he with
  | adv k =>
    refine ⟨by simpa [scriptOf, FS.step] using ht, by simpa [scriptOf, FS.step] using hps, ?_, ?_⟩
    · simp [scriptOf, FS.step, script_append, script, hout] ; simpa [script] using hout
    · intro x hx
      simp only [FS.step, List.mem_append, List.mem_singleton] at hx
      rcases hx with hx | rfl
      · exact hf x hx
      · exact .adv k
  | run =>
    refine ⟨by simpa [scriptOf, FS.step] using ht, by simpa [scriptOf, FS.step] using hps, ?_, ?_⟩
    · simp [scriptOf, FS.step, script_append, script, hout] ; simpa [script] using hout
    · intro x hx
      simp only [FS.step, List.mem_append, List.mem_singleton] at hx
      rcases hx with hx | rfl
      · exact hf x hx
      · exact .run
  | emit i n =>
    by_cases hi : i = 0
    · subst hi
      cases hT : f.t with
      | true =>
        have hts : terminated s = true := by rw [← ht, hT]
        have e1 : f.step (.emit 0 n) = f := by simp [FS.step, hT]
        rw [e1]
        exact ⟨by simp [scriptOf, terminated_append, hts, hT],
          by simp [scriptOf, gate_append_of_terminated _ _ hts, hps],
          by simp [scriptOf, gate_append_of_terminated _ _ hts, hout], hf⟩
      | false =>
        have hts : terminated s = false := by rw [← ht, hT]
        have e1 : f.step (.emit 0 n) =
            { ps := (runChain f.ps [n]).1, t := n.isTerm,
              out := f.out ++ (runChain f.ps [n]).2.map (TW.Ev.emit 0) } := by
          simp [FS.step, hT]
        rw [e1]
        simp only [scriptOf, if_true]
        refine ⟨by simp [terminated_append, hts, terminated_single], ?_, ?_, ?_⟩
        · rw [gate_snoc s n hts, runChain_append, ← hps]
        · rw [gate_snoc s n hts, runChain_append, ← hps]
          simp only [script_append, script_emits, hout]
        · intro x hx
          simp only [List.mem_append] at hx
          rcases hx with hx | hx
          · exact hf x hx
          · exact fifo_emits _ x hx
    · have e1 : f.step (.emit i n) = f := by simp [FS.step, hi]
      rw [e1]
      simpa [scriptOf, hi] using (⟨ht, hps, hout, hf⟩ : FSI pre s f)

theorem FSI_fold (pre : List St1) : ∀ (evs : List TW.Ev) (s : List Notif) (f : FS),
    (∀ e ∈ evs, FifoEv e) → FSI pre s f → FSI pre (s ++ script evs) (evs.foldl FS.step f) := by
  intro evs
  induction evs with
  | nil => intro s f _ h; simpa [script] using h
  | cons e r ih =>
    intro s f hall h
    have := ih (s ++ scriptOf e) (f.step e) (fun x hx => hall x (List.mem_cons_of_mem _ hx))
      (FSI_step pre s f e (hall e (List.mem_cons_self ..)) h)
    simpa [script, List.flatMap_cons, List.append_assoc] using this

theorem FSI_feed (pre : List St1) (evs : List TW.Ev) (hall : ∀ e ∈ evs, FifoEv e) :
    FSI pre (script evs) (feedSt pre evs) := by
  have := FSI_fold pre evs [] { ps := pre } hall
    ⟨rfl, by simp [gate, runChain_nil_input], by simp [gate, runChain_nil_input, script], by simp⟩
  simpa [feedSt] using this

/-! ### one-stage worlds, through the subject -/

/-- What the simulation needs to know about a one-stage world whose subject has emitted `s`. -/
structure Open1 (w : TW) (s : List Notif) : Prop where
  src : w.src = .hot 0
  sub : w.srcSubscribed = true
  one : One1 w
  term : w.terminated.contains 0 = terminated s
  alive : terminated s = false → w.srcAlive = true ∧ ∀ T, w.stages = [T] → T.mAlive = true

/-- Agreement on the fields `lift` reads. -/
def Eq3 (a b : TW) : Prop := a.sched = b.sched ∧ a.stages = b.stages ∧ a.log = b.log

theorem Eq3.refl (a : TW) : Eq3 a a := ⟨rfl, rfl, rfl⟩

theorem Eq3.push {a b : TW} (h : Eq3 a b) (j : Nat) (ns : List Notif) : Eq3 (a.push j ns) (b.push j ns) := by
  obtain ⟨h1, h2, h3⟩ := h
  simp only [Eq3, TW.push, h1, h2, h3, and_self]

theorem Eq3.pushMany {a b : TW} (h : Eq3 a b) (mid : List Notif) :
    Eq3 (mid.foldl (fun w m => w.push 0 [m]) a) (mid.foldl (fun w m => w.push 0 [m]) b) := by
  induction mid generalizing a b with
  | nil => exact h
  | cons m r ih => exact ih (h.push 0 [m])

theorem Eq3.lift {a b : TW} (h : Eq3 a b) (post0 : List St1) (j : Nat) (base : TW) (preS : List St1) :
    lift post0 j base preS a = lift post0 j base preS b :=
  lift_congr _ _ _ _ _ _ h.1 h.2.1 h.2.2

theorem mover_not_op2n (T : Stage) (h : T.isMover = true) : ∀ a b c d, T ≠ .op2n a b c d := by
  intro a b c d e; subst e; simp [Stage.isMover] at h

/-- An emission of the live, unterminated subject reaches the stage. -/
theorem Open1.step_emit {w : TW} {s : List Notif} (h : Open1 w s) (hs : terminated s = false) (m : Notif) :
    Eq3 (w.step (.emit 0 m)) (w.push 0 [m]) := by
  obtain ⟨T, hst, hT⟩ := h.one.stage
  have hterm : w.terminated.contains 0 = false := by rw [h.term, hs]
  obtain ⟨hal, hTa⟩ := h.alive hs
  have hm := T.onNotif_mover hT 0 m
  cases hn : m.isTerm with
  | false =>
    obtain ⟨v, rfl⟩ : ∃ v, m = .next v := by
      cases m with
      | next v => exact ⟨v, rfl⟩
      | _ => simp [Notif.isTerm] at hn
    rw [TW.step_emit_next w 0 v h.src hterm h.sub hal]
    have hst' : (w.push 0 [.next v]).stages = [((T.onNotif 0 (.next v) w.sched).1.afterEmit 0
        (T.onNotif 0 (.next v) w.sched).2.2).1] := by
      rw [TW.push_zero w T _ hst]
    rw [hst', List.length_singleton,
      show 1 = (w.push 0 [.next v]).stages.length by rw [hst']; rfl,
      TW.deliverNotifiers_single _ _ 0 (.next v) hst'
        (by rw [Stage.afterEmit_mover _ (hm w.sched).1]; exact mover_not_op2n _ (hm w.sched).1)]
    exact Eq3.refl _
  | true =>
    rw [TW.step_emit_term w 0 m hn h.src hterm h.sub hal]
    have hfin : fin w.stages = false := by
      rw [hst, T.fin_mover hT, hTa T hst]; rfl
    simp only [hfin, Bool.false_eq_true, if_false]
    have hst2 : ({ w with terminated := 0 :: w.terminated, srcAlive := false } : TW).stages = [T] := hst
    have hst' : (({ w with terminated := 0 :: w.terminated, srcAlive := false } : TW).push 0 [m]).stages
        = [((T.onNotif 0 m w.sched).1.afterEmit 0 (T.onNotif 0 m w.sched).2.2).1] := by
      rw [TW.push_zero _ T _ hst2]
    rw [hst', List.length_singleton,
      show 1 = (({ w with terminated := 0 :: w.terminated, srcAlive := false } : TW).push 0 [m]).stages.length
        by rw [hst']; rfl,
      TW.deliverNotifiers_single _ _ 0 m hst'
        (by rw [Stage.afterEmit_mover _ (hm w.sched).1]; exact mover_not_op2n _ (hm w.sched).1)]
    exact ⟨rfl, rfl, rfl⟩

/-- The probe log of a one-stage world only grows. -/
theorem Open1.step_log {w : TW} {s : List Notif} (h : Open1 w s) (e : TW.Ev) (he : FifoEv e) :
    w.log <+: (w.step e).log := by
  obtain ⟨T, hst, hT⟩ := h.one.stage
  cases he with
  | adv k => exact List.prefix_refl _
  | run => exact (One1.runLoop 10000 h.one).2
  | emit i n =>
    by_cases hi : i = 0
    · subst hi
      cases hs : terminated s with
      | true =>
        rw [TW.step_emit_ignored w 0 n (by rw [h.term, hs])]
        exact List.prefix_refl _
      | false =>
        rw [(h.step_emit hs n).2.2, TW.push_zero w T n hst]
        exact List.prefix_append _ _
    · cases hc : w.terminated.contains i with
      | true => rw [TW.step_emit_ignored w i n hc]; exact List.prefix_refl _
      | false =>
        rw [TW.step_emit_other w i 0 n T h.src hi hc hst (mover_not_op2n T hT)]
        split <;> exact List.prefix_refl _

/-- A kind of mover: its one-stage worlds (subscribed, driven by FIFO events) are `Open1`. -/
def Kind (w0s : TW) : Prop :=
  ∀ evs : List TW.Ev, (∀ e ∈ evs, FifoEv e) → Open1 (evs.foldl TW.step w0s) (script evs)

theorem Kind.log_mono {w0s : TW} (K : Kind w0s) (evs more : List TW.Ev) (h1 : ∀ e ∈ evs, FifoEv e)
    (h2 : ∀ e ∈ more, FifoEv e) :
    (evs.foldl TW.step w0s).log <+: ((evs ++ more).foldl TW.step w0s).log := by
  induction more generalizing evs with
  | nil => simp
  | cons e r ih =>
    have hr : ∀ x ∈ evs ++ [e], FifoEv x := by
      intro x hx
      rcases List.mem_append.mp hx with hx | hx
      · exact h1 x hx
      · simp only [List.mem_singleton] at hx; subst hx; exact h2 x (List.mem_cons_self ..)
    have hstep := (K evs h1).step_log e (h2 e (List.mem_cons_self ..))
    have := ih (evs ++ [e]) hr (fun x hx => h2 x (List.mem_cons_of_mem _ hx))
    rw [List.append_assoc, List.singleton_append] at this
    refine List.IsPrefix.trans ?_ this
    rw [List.foldl_append, List.foldl_cons, List.foldl_nil]
    exact hstep

/-- Emissions through the subject = direct deliveries to the stage, as long as the total
    script stays well formed. -/
theorem Kind.feed_steps {w0s : TW} (K : Kind w0s) (mid : List Notif) : ∀ (evs : List TW.Ev),
    (∀ e ∈ evs, FifoEv e) → WF (script evs ++ mid) →
    Eq3 ((evs ++ mid.map (TW.Ev.emit 0)).foldl TW.step w0s)
        (mid.foldl (fun w m => w.push 0 [m]) (evs.foldl TW.step w0s)) := by
  induction mid with
  | nil => intro evs _ _; simp; exact Eq3.refl _
  | cons m r ih =>
    intro evs hall hwf
    have hnt : terminated (script evs) = false :=
      term_false_of_WF_append hwf (by simp)
    have hO := K evs hall
    have hall' : ∀ e ∈ evs ++ [TW.Ev.emit 0 m], FifoEv e := by
      intro e he
      rcases List.mem_append.mp he with he | he
      · exact hall e he
      · simp only [List.mem_singleton] at he; subst he; exact .emit 0 m
    have hs' : script (evs ++ [TW.Ev.emit 0 m]) = script evs ++ [m] := by
      rw [script_append]; simp [script, scriptOf]
    have := ih (evs ++ [TW.Ev.emit 0 m]) hall' (by rw [hs']; simpa using hwf)
    simp only [List.map_cons, List.foldl_cons]
    have e1 : evs ++ TW.Ev.emit 0 m :: r.map (TW.Ev.emit 0) = (evs ++ [TW.Ev.emit 0 m]) ++ r.map (TW.Ev.emit 0) := by
      simp
    rw [e1]
    obtain ⟨t1, t2, t3⟩ := this
    have hstep : Eq3 ((evs ++ [TW.Ev.emit 0 m]).foldl TW.step w0s) ((evs.foldl TW.step w0s).push 0 [m]) := by
      rw [List.foldl_append, List.foldl_cons, List.foldl_nil]
      exact hO.step_emit hnt m
    obtain ⟨u1, u2, u3⟩ := hstep.pushMany r
    exact ⟨t1.trans u1, t2.trans u2, t3.trans u3⟩

end Rx.T
