import RxModel.Lemmas.ChainSourcesInterval
import RxModel.Lemmas.ChainSourcesTimer
/-
  Helper lemmas for C08, part 5: the safety statements of Props/C08.lean over
  arbitrary event lists, assembled from the invariants.
-/
namespace Rx.T
open Rx

namespace TW

theorem presub_log (src : TSrc) (hsrc : ∀ i, src ≠ .hot i) (pre : List Ev) (hpre : ∀ e ∈ pre, e ≠ .sub) :
    (run (start src) pre).log = [] := by
  obtain ⟨term, h⟩ := run_presub src hsrc pre hpre
  rw [h]; rfl

theorem interval_seq_main (delay : Option Nat) (p : Nat) (evs : List Ev) :
    ∃ m, (run (start (.interval delay p)) evs).log = ticks m := by
  rcases split_sub evs with h | ⟨pre, post, e, hpre⟩
  · exact ⟨0, presub_log _ (fun i h => by cases h) evs h⟩
  · rw [e]; exact ivInv_seq (interval_reach delay p pre post hpre)

theorem interval_never_early_main (delay : Option Nat) (p : Nat) (pre post : List Ev)
    (hpre : ∀ e ∈ pre, e ≠ .sub) (k : Nat)
    (h : (run (start (.interval delay p)) (pre ++ .sub :: post)).clock <
      (run (start (.interval delay p)) pre).clock + delay.getD p + k * p) :
    (run (start (.interval delay p)) (pre ++ .sub :: post)).log.length ≤ k :=
  ivInv_early (interval_reach delay p pre post hpre) k h

/-- A prefix of `pre ++ sub :: post` is a prefix of `pre` or contains the `sub`. -/
theorem prefix_cases (pre post q : List Ev) (hq : q <+: pre ++ .sub :: post) :
    q <+: pre ∨ ∃ post', q = pre ++ .sub :: post' := by
  obtain ⟨r, hr⟩ := hq
  rcases List.append_eq_append_iff.mp hr with ⟨a, h1, _⟩ | ⟨c, h1, h2⟩
  · exact Or.inl ⟨a, h1.symm⟩
  · cases c with
    | nil => left; rw [h1]; simp
    | cons x c' =>
      simp only [List.cons_append, List.cons.injEq] at h2
      right; exact ⟨c', by rw [h1, ← h2.1]⟩

theorem interval_never_early_prefix_main (delay : Option Nat) (p : Nat) (pre post : List Ev)
    (hpre : ∀ e ∈ pre, e ≠ .sub) (q : List Ev) (hq : q <+: pre ++ .sub :: post) (k : Nat)
    (h : (run (start (.interval delay p)) q).clock <
      (run (start (.interval delay p)) pre).clock + delay.getD p + k * p) :
    (run (start (.interval delay p)) q).log.length ≤ k := by
  rcases prefix_cases pre post q hq with h1 | ⟨post', h1⟩
  · rw [presub_log _ (fun i h => by cases h) q (fun e he => hpre e (h1.subset he))]
    exact Nat.zero_le _
  · subst h1
    exact interval_never_early_main delay p pre post' hpre k h

/-- Before `sub` the clock only moves forward. -/
theorem presub_clock_mono (src : TSrc) (hsrc : ∀ i, src ≠ .hot i) (pre q : List Ev)
    (hpre : ∀ e ∈ pre, e ≠ .sub) (hq : ∀ e ∈ q, e ≠ .sub) :
    (run (start src) pre).clock ≤ (run (start src) (pre ++ q)).clock := by
  obtain ⟨term, h⟩ := run_presub src hsrc pre hpre
  rw [run_append, h]
  obtain ⟨c', term', hle, h'⟩ := run_idle src hsrc q hq (run (start src) pre).clock term
  rw [h']; exact hle

/-- At most one tick in any window shorter than the period: if tick `k` has not been delivered
    when `pre` ends, tick `k+1` is not delivered less than `p` later. -/
theorem interval_spacing_main (delay : Option Nat) (p : Nat) (pre post : List Ev) (k : Nat)
    (hk : (run (start (.interval delay p)) pre).log.length ≤ k)
    (h : (run (start (.interval delay p)) (pre ++ post)).clock <
      (run (start (.interval delay p)) pre).clock + p) :
    (run (start (.interval delay p)) (pre ++ post)).log.length ≤ k + 1 := by
  have hsrc : ∀ i, TSrc.interval delay p ≠ .hot i := fun i h => by cases h
  rcases split_sub pre with hpre | ⟨p1, p2, e, hp1⟩
  · rcases split_sub post with hpost | ⟨q1, q2, e, hq1⟩
    · rw [presub_log _ hsrc (pre ++ post) (by
        intro e he; simp only [List.mem_append] at he
        rcases he with he | he
        · exact hpre e he
        · exact hpost e he)]
      exact Nat.zero_le _
    · subst e
      have hmono := presub_clock_mono _ hsrc pre q1 hpre hq1
      have hpq : ∀ e ∈ pre ++ q1, e ≠ .sub := by
        intro e he; simp only [List.mem_append] at he
        rcases he with he | he
        · exact hpre e he
        · exact hq1 e he
      rw [← List.append_assoc] at h ⊢
      have := interval_never_early_main delay p (pre ++ q1) q2 hpq 1 (by omega)
      omega
  · subst e
    have h1 := ivInv_rebase (interval_reach delay p p1 p2 hp1) k hk
    rw [run_append] at h ⊢
    exact ivInv_gap (ivInv_run _ _ _ (lstep_gap _ _ _) post _ h1) h

theorem timer_once_main (v : Val) (d : Nat) (evs : List Ev) :
    (run (start (.timer v d)) evs).log = [] ∨
    (run (start (.timer v d)) evs).log = [.next v, .complete] := by
  rcases split_sub evs with h | ⟨pre, post, e, hpre⟩
  · exact Or.inl (presub_log _ (fun i h => by cases h) evs h)
  · rw [e]; exact (tmInv_log (timer_reach v d pre post hpre)).1

theorem timer_never_early_main (v : Val) (d : Nat) (pre post : List Ev)
    (hpre : ∀ e ∈ pre, e ≠ .sub)
    (h : (run (start (.timer v d)) (pre ++ .sub :: post)).clock <
      (run (start (.timer v d)) pre).clock + d) :
    (run (start (.timer v d)) (pre ++ .sub :: post)).log = [] :=
  (tmInv_log (timer_reach v d pre post hpre)).2 h

theorem interval_unsub_main (delay : Option Nat) (p : Nat) (pre mid post : List Ev) :
    (run (start (.interval delay p)) ((pre ++ .sub :: mid) ++ .unsub :: post)).log =
    (run (start (.interval delay p)) (pre ++ .sub :: mid)).log := by
  rw [run_append]
  exact unsub_freezes _ (interval_oneTask delay p pre mid) post

theorem timer_unsub_main (v : Val) (d : Nat) (pre mid post : List Ev) :
    (run (start (.timer v d)) ((pre ++ .sub :: mid) ++ .unsub :: post)).log =
    (run (start (.timer v d)) (pre ++ .sub :: mid)).log := by
  rw [run_append]
  exact unsub_freezes _ (timer_oneTask v d pre mid) post

end TW
end Rx.T
