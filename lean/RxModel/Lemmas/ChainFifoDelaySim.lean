import RxModel.Lemmas.ChainFifoBase
import RxModel.Lemmas.Sched
/-
  C07 (FIFO clause), part 2a: `delay d` over a hot source — the concrete worlds
  and scheduler operations in closed form.

  A world reachable from `{ src := .hot 0, stages := [.delay d true (some [])] }`
  is described by `DA`: per task that has been polled at least once a phase
  (`armed`: awaiting its timer; `ready`: timer fired, task woken; `done`: body has
  run) and the clock value at which its timer was armed; the tasks not yet polled
  (`F`); the slot; the log.  Task k owns timer k.  `te` (clock at emission) is a
  ghost field: `mkW` does not look at it.
-/
namespace Rx.T.Del
open Rx Rx.T

inductive Ph where
  | done | ready | armed
  deriving DecidableEq, Repr

structure DE where
  n : Notif
  te : Nat      -- ghost: clock at emission
  ta : Nat      -- clock at the first poll (the timer is due at `ta + d`)

structure FE where
  n : Notif
  te : Nat      -- ghost: clock at emission

def taskOf (k : Nat) (x : Ph × DE) : Task :=
  match x.1 with
  | .done => { body := .emit 0 x.2.n, hasValue := true, done := true, woken := false }
  | .ready => { body := .emit 0 x.2.n, woken := true, outerTimer := some k }
  | .armed => { body := .emit 0 x.2.n, woken := false, outerTimer := some k }

def timerOf (d : Nat) (k : Nat) (x : Ph × DE) : Timer :=
  { dur := d, due := x.2.ta + d, fired := x.1 != .armed, owner := k, registered := true }

def freshT (d : Nat) (e : FE) : Task := { body := .emit 0 e.n, outerDelay := some d }

structure DA where
  now : Nat := 0
  q : List (Ph × DE) := []
  F : List FE := []
  alive : Bool := true
  log : List Notif := []
  term : Bool := false       -- subject 0 has seen a terminal

def mkS (d : Nat) (now : Nat) (q : List (Ph × DE)) (F : List FE) : Sched :=
  { now := now, timers := mapK (timerOf d) 0 q, tasks := mapK taskOf 0 q ++ F.map (freshT d) }

def mkW (d : Nat) (base : TW) (a : DA) (m : Option (List TaskId)) : TW :=
  { base with sched := mkS d a.now a.q a.F, stages := [.delay d a.alive m], log := a.log }

theorem mkW_congr (d : Nat) (base : TW) (a a' : DA) (m) (h1 : a.now = a'.now) (h2 : a.q = a'.q)
    (h3 : a.F = a'.F) (h4 : a.alive = a'.alive) (h5 : a.log = a'.log) :
    mkW d base a m = mkW d base a' m := by
  cases a; cases a'; simp_all [mkW]

/-! ### lookups -/

theorem timers_get (d now q F k) (x : Ph × DE) (h : q[k]? = some x) :
    (mkS d now q F).timers[k]? = some (timerOf d k x) := by
  simp [mkS, mapK_get, h]

theorem tasks_get (d now q F k) (x : Ph × DE) (h : q[k]? = some x) :
    (mkS d now q F).tasks[k]? = some (taskOf k x) := by
  have hk : k < q.length := (List.getElem?_eq_some_iff.mp h).1
  simp only [mkS]
  rw [List.getElem?_append_left (by simpa using hk)]
  simp [mapK_get, h]

theorem tasks_get_fresh (d now q) (e : FE) (F : List FE) :
    (mkS d now q (e :: F)).tasks[q.length]? = some (freshT d e) := by
  simp [mkS]

/-! ### firing timer `k` of an armed task -/

theorem fire_eq (s : Sched) (k : TimerId) (t : Timer) (tk : Task) (h1 : s.timers[k]? = some t)
    (hr : t.registered = true) (h2 : s.tasks[t.owner]? = some tk) :
    s.fire k = { s with timers := s.timers.set k { t with fired := true },
                        tasks := s.tasks.set t.owner { tk with woken := true } } := by
  simp [Sched.fire, h1, hr, Sched.setTimer, Sched.setTask, h2]

theorem fire_armed (d now q F k) (e : DE) (h : q[k]? = some (.armed, e)) :
    (mkS d now q F).fire k = mkS d now (q.set k (.ready, e)) F := by
  have hk : k < q.length := (List.getElem?_eq_some_iff.mp h).1
  have h1 := timers_get d now q F k _ h
  have h2 := tasks_get d now q F k _ h
  rw [fire_eq _ k _ _ h1 rfl h2]
  have e1 : ({ timerOf d k (.armed, e) with fired := true } : Timer) = timerOf d (0 + k) (.ready, e) := by
    simp [timerOf]
  have e2 : ({ taskOf k (.armed, e) with woken := true } : Task) = taskOf (0 + k) (.ready, e) := by
    simp [taskOf]
  have e3 : (timerOf d k (.armed, e)).owner = k := rfl
  rw [e1, e2, e3]
  simp only [mkS]
  rw [List.set_append_left _ _ (by simpa using hk), mapK_set, mapK_set]

def isDue (d now : Nat) (x : Ph × DE) : Bool := x.1 == .armed && decide (x.2.ta + d ≤ now)

/-- Firing the timer of an armed task whose delay is over. -/
def fireDue (d now : Nat) (x : Ph × DE) : Ph × DE := if isDue d now x then (.ready, x.2) else x

theorem dueTimers_mkS (d now q F) : (mkS d now q F).dueTimers = idxs (isDue d now) q 0 := by
  rw [Sched.dueTimers_eq]
  apply idxs_mapK
  intro i x
  obtain ⟨ph, e⟩ := x
  cases ph <;> simp [timerOf, isDue, mkS] <;> rfl

theorem fold_fire (d now : Nat) (F : List FE) : ∀ (l pre : List (Ph × DE)),
    (idxs (isDue d now) l pre.length).foldl Sched.fire (mkS d now (pre ++ l) F)
      = mkS d now (pre ++ l.map (fireDue d now)) F := by
  intro l
  induction l with
  | nil => intro pre; rfl
  | cons x xs ih =>
    intro pre
    have hpre : ∀ y : Ph × DE, pre ++ y :: xs = (pre ++ [y]) ++ xs := by intro y; simp
    cases hx : isDue d now x with
    | false =>
      have := ih (pre ++ [x])
      simp only [List.length_append, List.length_singleton] at this
      simp only [idxs, hx, Bool.false_eq_true, if_false, List.map_cons, fireDue]
      rw [hpre x, this]; simp
    | true =>
      obtain ⟨ph, e⟩ := x
      have hph : ph = .armed := by
        simp only [isDue, Bool.and_eq_true, beq_iff_eq] at hx; exact hx.1
      subst hph
      have := ih (pre ++ [(.ready, e)])
      simp only [List.length_append, List.length_singleton] at this
      simp only [idxs, hx, if_true, List.map_cons, fireDue, List.foldl_cons]
      rw [fire_armed d now _ F pre.length e (get_mid pre xs _), set_mid, hpre, this]; simp

/-! ### polling -/

theorem pollPre_once (s : Sched) (k : TaskId) (t : Task) (tm : TimerId) (h : s.tasks[k]? = some t)
    (hd : t.done = false) (hk : t.keepRunning = true) (hod : t.outerDelay = none)
    (hot : t.outerTimer = some tm) (hf : s.timerFired tm = true) (hrep : t.rep = none) :
    s.pollPre k = (s.setTask k { t with woken := false, outerTimer := none }, .runOnce t.body) := by
  simp [Sched.pollPre, h, hd, hk, hod, hot, hf, hrep]

theorem pollPre_arm (s : Sched) (k : TaskId) (t : Task) (d : Nat) (h : s.tasks[k]? = some t)
    (hd : t.done = false) (hk : t.keepRunning = true) (hod : t.outerDelay = some d) :
    s.pollPre k = (((s.newTimer d k).1.registerTimer s.timers.length).setTask k
        { t with woken := false, outerDelay := none, outerTimer := some s.timers.length }, .none) := by
  simp [Sched.pollPre, h, hd, hk, hod]

theorem finishOnce_eq (s : Sched) (k : TaskId) (t : Task) (h : s.tasks[k]? = some t) :
    s.finishOnce k = { s with tasks := s.tasks.set k { t with done := true, hasValue := true } } := by
  simp [Sched.finishOnce, h, Sched.setTask]

/-- The task between `pollPre` and `finishOnce`. -/
def runT (k : Nat) (e : DE) : Task := { taskOf k (.ready, e) with woken := false, outerTimer := none }

/-- The body of a ready task runs: its notification passes the slot if that is alive. -/
theorem pollTask_ready (d : Nat) (base : TW) (a : DA) (m) (k : Nat) (e : DE)
    (h : a.q[k]? = some (.ready, e)) :
    (mkW d base a m).pollTask k =
      mkW d base { a with q := a.q.set k (.done, e), alive := a.alive && !e.n.isTerm,
                          log := a.log ++ (if a.alive then [e.n] else []) } m := by
  have hk : k < a.q.length := (List.getElem?_eq_some_iff.mp h).1
  have h1 := timers_get d a.now a.q a.F k _ h
  have h2 := tasks_get d a.now a.q a.F k _ h
  have hf : (mkS d a.now a.q a.F).timerFired k = true := by
    simp [Sched.timerFired, h1, timerOf]
  have hp : (mkS d a.now a.q a.F).pollPre k
      = ((mkS d a.now a.q a.F).setTask k (runT k e), .runOnce (.emit 0 e.n)) :=
    pollPre_once (mkS d a.now a.q a.F) k _ k h2 rfl rfl rfl rfl hf rfl
  have hfin := finishOnce_eq ((mkS d a.now a.q a.F).setTask k (runT k e)) k (runT k e)
      (Sched.setTask_get_self _ _ _ _ h2)
  have e2 : ({ runT k e with done := true, hasValue := true } : Task)
      = taskOf (0 + k) (.done, e) := by simp [taskOf, runT]
  have htasks : ((mkS d a.now a.q a.F).setTask k (runT k e)).finishOnce k
      = mkS d a.now (a.q.set k (.done, e)) a.F := by
    have e3 : mapK (timerOf d) 0 (a.q.set k (.done, e)) = mapK (timerOf d) 0 a.q := by
      rw [← mapK_set]
      apply set_same
      have e4 : timerOf d (0 + k) (.done, e) = timerOf d k (.ready, e) := by
        rw [Nat.zero_add]; rfl
      rw [e4]; exact h1
    rw [hfin, e2]
    simp only [Sched.setTask, mkS, List.set_set]
    rw [List.set_append_left _ _ (by simpa using hk), mapK_set, e3]
  unfold TW.pollTask
  have hs : (mkW d base a m).sched = mkS d a.now a.q a.F := rfl
  rw [hs, hp]
  simp only []
  cases ha : a.alive <;> cases hn : e.n.isTerm <;>
    simp [mkW, TW.runBody, ha, hn, TW.push_one, TW.setStage, htasks, Body.isAsync]

/-- The first poll of a task: its delay timer is armed (due `now + d`) and registered. -/
theorem pollTask_fresh (d : Nat) (base : TW) (a : DA) (m) (fe : FE) (F' : List FE) (hF : a.F = fe :: F') :
    (mkW d base a m).pollTask a.q.length =
      mkW d base { a with q := a.q ++ [(.armed, ⟨fe.n, fe.te, a.now⟩)], F := F' } m := by
  have hget := tasks_get_fresh d a.now a.q fe F'
  have hp := pollPre_arm (mkS d a.now a.q (fe :: F')) a.q.length (freshT d fe) d hget rfl rfl rfl
  have hs : (mkW d base a m).sched = mkS d a.now a.q (fe :: F') := by simp [mkW, hF]
  unfold TW.pollTask
  rw [hs, hp]
  simp only []
  have hlen : (mkS d a.now a.q (fe :: F')).timers.length = a.q.length := by simp [mkS]
  rw [hlen]
  have : (((mkS d a.now a.q (fe :: F')).newTimer d a.q.length).1.registerTimer a.q.length).setTask a.q.length
        { freshT d fe with woken := false, outerDelay := none, outerTimer := some a.q.length }
      = mkS d a.now (a.q ++ [(.armed, ⟨fe.n, fe.te, a.now⟩)]) F' := by
    simp [mkS, Sched.newTimer, Sched.registerTimer, Sched.setTimer, Sched.setTask, mapK_append, mapK,
      timerOf, taskOf, freshT]
  rw [this]
  rfl


def isReady (x : Ph × DE) : Bool := x.1 == .ready

/-- The body of a ready task has run. -/
def runR (x : Ph × DE) : Ph × DE := if isReady x then (.done, x.2) else x

/-- The notifications of the ready tasks, in task order. -/
def readyNotifs (l : List (Ph × DE)) : List Notif := (l.filter isReady).map (·.2.n)

def armNow (now : Nat) (fe : FE) : Ph × DE := (.armed, ⟨fe.n, fe.te, now⟩)

theorem pollAll_ready (d : Nat) (base : TW) (m) : ∀ (l pre : List (Ph × DE)) (a : DA), a.q = pre ++ l →
    (mkW d base a m).pollAll (idxs isReady l pre.length) =
      mkW d base { a with q := pre ++ l.map runR, alive := (deliver a.alive (readyNotifs l)).1,
                          log := a.log ++ (deliver a.alive (readyNotifs l)).2 } m := by
  intro l
  induction l with
  | nil =>
    intro pre a hq
    simp only [idxs, TW.pollAll]
    apply mkW_congr <;> simp [hq, readyNotifs, deliver]
  | cons x xs ih =>
    intro pre a hq
    cases hx : isReady x with
    | false =>
      have := ih (pre ++ [x]) a (by simp [hq])
      simp only [List.length_append, List.length_singleton] at this
      simp only [idxs, hx, Bool.false_eq_true, if_false]
      rw [this]
      apply mkW_congr <;> simp [readyNotifs, runR, hx]
    | true =>
      obtain ⟨ph, e⟩ := x
      have hph : ph = .ready := by simpa [isReady] using hx
      subst hph
      have hget : a.q[pre.length]? = some (.ready, e) := by rw [hq]; exact get_mid pre xs _
      have htask := tasks_get d a.now a.q a.F pre.length _ hget
      simp only [idxs, hx, if_true]
      rw [TW.pollAll_cons_live (mkW d base a m) _ _ _ htask rfl,
        pollTask_ready d base a m pre.length e hget]
      have := ih (pre ++ [(.done, e)])
        { a with q := a.q.set pre.length (.done, e), alive := a.alive && !e.n.isTerm,
                 log := a.log ++ (if a.alive then [e.n] else []) }
        (by simp [hq])
      simp only [List.length_append, List.length_singleton] at this
      rw [this]
      apply mkW_congr <;> simp [readyNotifs, runR, hx, deliver]

theorem pollAll_fresh (d : Nat) (base : TW) (m) : ∀ (F : List FE) (a : DA), a.F = F →
    (mkW d base a m).pollAll (List.range' a.q.length F.length) =
      mkW d base { a with q := a.q ++ F.map (armNow a.now), F := [] } m := by
  intro F
  induction F with
  | nil =>
    intro a hF
    simp only [List.length_nil, List.range'_zero, TW.pollAll]
    apply mkW_congr <;> simp [hF]
  | cons fe F' ih =>
    intro a hF
    have htask : (mkW d base a m).sched.tasks[a.q.length]? = some (freshT d fe) := by
      rw [show (mkW d base a m).sched = mkS d a.now a.q a.F from rfl, hF]
      exact tasks_get_fresh d a.now a.q fe F'
    simp only [List.length_cons, List.range'_succ]
    rw [TW.pollAll_cons_live (mkW d base a m) _ _ _ htask rfl, pollTask_fresh d base a m fe F' hF]
    have := ih { a with q := a.q ++ [(.armed, ⟨fe.n, fe.te, a.now⟩)], F := F' } rfl
    simp only [List.length_append, List.length_singleton] at this
    rw [this]
    apply mkW_congr <;> simp [armNow]

theorem ready_mkS (d now q F) :
    idxs (fun t => t.woken && !t.done) (mkS d now q F).tasks 0
      = idxs isReady q 0 ++ List.range' q.length F.length := by
  simp only [mkS, idxs_append, mapK_length, Nat.zero_add]
  congr 1
  · apply idxs_mapK
    intro i x
    obtain ⟨ph, e⟩ := x
    cases ph <;> rfl
  · rw [idxs_all]
    · simp
    · intro x hx; simp only [List.mem_map] at hx; obtain ⟨n, _, rfl⟩ := hx; rfl

/-! ### the executor's loop on the abstract state -/

/-- All due timers fire. -/
def DA.fire (d : Nat) (a : DA) : DA := { a with q := a.q.map (fireDue d a.now) }

/-- All woken tasks are polled: first the ready ones run, then the fresh ones arm their timers. -/
def DA.poll (a : DA) : DA :=
  { a with q := a.q.map runR ++ a.F.map (armNow a.now), F := [],
           alive := (deliver a.alive (readyNotifs a.q)).1,
           log := a.log ++ (deliver a.alive (readyNotifs a.q)).2 }

/-- Nothing due, nothing woken. -/
def DA.quietB (d : Nat) (a : DA) : Bool :=
  (idxs (isDue d a.now) a.q 0).isEmpty &&
    (idxs isReady (a.fire d).q 0 ++ List.range' (a.fire d).q.length a.F.length).isEmpty

def aLoop (d : Nat) : Nat → DA → DA
  | 0, a => a
  | f + 1, a => if a.quietB d then a.fire d else aLoop d f (a.fire d).poll

theorem aLoop_term (d : Nat) : ∀ (f : Nat) (a : DA), (aLoop d f a).term = a.term := by
  intro f
  induction f with
  | zero => intro a; rfl
  | succ f ih =>
    intro a
    simp only [aLoop]
    split
    · rfl
    · rw [ih]; rfl

theorem aLoop_now (d : Nat) : ∀ (f : Nat) (a : DA), (aLoop d f a).now = a.now := by
  intro f
  induction f with
  | zero => intro a; rfl
  | succ f ih =>
    intro a
    simp only [aLoop]
    split
    · rfl
    · rw [ih]; rfl

theorem runLoop_mkW (d : Nat) (base : TW) (m) : ∀ (f : Nat) (a : DA),
    TW.runLoop f (mkW d base a m) = mkW d base (aLoop d f a) m := by
  intro f
  induction f with
  | zero => intro a; rfl
  | succ f ih =>
    intro a
    have hs : (mkW d base a m).sched = mkS d a.now a.q a.F := rfl
    have hfire : (idxs (isDue d a.now) a.q 0).foldl Sched.fire (mkS d a.now a.q a.F)
        = mkS d a.now (a.q.map (fireDue d a.now)) a.F := by
      have := fold_fire d a.now a.F a.q []
      simpa using this
    have hw : ({ mkW d base a m with sched := mkS d a.now (a.q.map (fireDue d a.now)) a.F } : TW)
        = mkW d base (a.fire d) m := rfl
    rw [TW.runLoop_succ, hs, dueTimers_mkS, hfire, hw, ready_mkS]
    have hcond : ((idxs (isDue d a.now) a.q 0).isEmpty &&
        (idxs isReady (a.q.map (fireDue d a.now)) 0 ++
          List.range' (a.q.map (fireDue d a.now)).length a.F.length).isEmpty) = a.quietB d := rfl
    rw [hcond]
    cases hc : a.quietB d with
    | true => simp only [aLoop, hc, if_true]
    | false =>
      simp only [aLoop, hc, Bool.false_eq_true, if_false]
      have hq : (a.fire d).q = a.q.map (fireDue d a.now) := rfl
      rw [← hq, TW.pollAll_append]
      have h1 := pollAll_ready d base m (a.fire d).q [] (a.fire d) rfl
      simp only [List.length_nil, List.nil_append] at h1
      rw [h1]
      have h2 := pollAll_fresh d base m a.F
        { a.fire d with q := (a.fire d).q.map runR,
                        alive := (deliver (a.fire d).alive (readyNotifs (a.fire d).q)).1,
                        log := (a.fire d).log ++ (deliver (a.fire d).alive (readyNotifs (a.fire d).q)).2 } rfl
      simp only [List.length_map] at h2
      rw [h2, ← ih]
      rfl

/-! ### the abstract machine -/

def DA.step (d : Nat) (a : DA) : TW.Ev → DA
  | .emit i n =>
    if i ≠ 0 ∨ a.term then a
    else match n with
      -- `delay` forwards an error at once and closes the slot: the pending items are cut off
      | .error e => { a with alive := false, log := a.log ++ (if a.alive then [.error e] else []), term := true }
      | n => { a with F := a.F ++ [⟨n, a.now⟩], term := n.isTerm }
  | .adv k => { a with now := a.now + k }
  | .run => aLoop d 10000 a
  | _ => a

/-- `w` is the world described by `a`. -/
def RD (d : Nat) (a : DA) (w : TW) : Prop :=
  ∃ base m, w = mkW d base a m ∧ base.src = .hot 0 ∧ base.srcSubscribed = true ∧
    (a.term = false → base.srcAlive = true) ∧ base.terminated.contains 0 = a.term

theorem push_emit_error (d : Nat) (base : TW) (a : DA) (m) (e : Err) :
    (mkW d base a m).push 0 [.error e] =
      mkW d base { a with alive := false, log := a.log ++ (if a.alive then [.error e] else []) } m := by
  rw [TW.push_zero _ (.delay d a.alive m) _ rfl]
  simp [mkW, Stage.onNotif, Stage.afterEmit]

theorem push_emit (d : Nat) (base : TW) (a : DA) (m) (n : Notif) (hn : ∀ e, n ≠ .error e) :
    (mkW d base a m).push 0 [n] =
      mkW d base { a with F := a.F ++ [⟨n, a.now⟩] } (m.map (· ++ [a.q.length + a.F.length])) := by
  rw [TW.push_zero _ (.delay d a.alive m) n rfl]
  cases n with
  | error e => exact absurd rfl (hn e)
  | next v => simp [mkW, mkS, Stage.onNotif, Stage.afterEmit, Sched.scheduleOnce, freshT]
  | complete => simp [mkW, mkS, Stage.onNotif, Stage.afterEmit, Sched.scheduleOnce, freshT]

theorem RD_of (d : Nat) (a a' : DA) (base : TW) (m) (h1 : a.now = a'.now) (h2 : a.q = a'.q) (h3 : a.F = a'.F)
    (h4 : a.alive = a'.alive) (h5 : a.log = a'.log)
    (hsrc : base.src = .hot 0) (hsub : base.srcSubscribed = true)
    (halive : a'.term = false → base.srcAlive = true) (hterm : base.terminated.contains 0 = a'.term) :
    RD d a' (mkW d base a m) :=
  ⟨base, m, mkW_congr d base a a' m h1 h2 h3 h4 h5, hsrc, hsub, halive, hterm⟩

theorem step_sim (d : Nat) (a : DA) (w : TW) (ev : TW.Ev) (hev : FifoEv ev) (h : RD d a w) :
    RD d (a.step d ev) (w.step ev) := by
  obtain ⟨base, m, rfl, hsrc, hsub, halive, hterm⟩ := h
  cases hev with
  | adv k => exact ⟨base, m, rfl, hsrc, hsub, halive, hterm⟩
  | run =>
    refine ⟨base, m, ?_, hsrc, hsub, ?_, ?_⟩
    · exact runLoop_mkW d base m 10000 a
    · intro h; apply halive; rw [← h]; exact (aLoop_term d 10000 a).symm
    · rw [hterm]; exact (aLoop_term d 10000 a).symm
  | emit i n =>
    have hlen : ∀ (b : TW) (a' : DA) (m'), (mkW d b a' m').stages.length = 1 := fun _ _ _ => rfl
    have hdn : ∀ (b : TW) (a' : DA) (m'), TW.deliverNotifiers (mkW d b a' m') i n 1 = mkW d b a' m' :=
      fun b a' m' => TW.deliverNotifiers_single _ (.delay d a'.alive m') i n rfl (by intros; simp)
    by_cases hi : i = 0
    · subst hi
      cases hT : a.term with
      | true =>
        rw [hT] at hterm
        have ha : a.step d (.emit 0 n) = a := by simp [DA.step, hT]
        rw [ha, TW.step_emit_ignored (mkW d base a m) _ _ hterm]
        exact ⟨base, m, rfl, hsrc, hsub, halive, by rw [hT]; exact hterm⟩
      | false =>
        rw [hT] at hterm
        have hal := halive hT
        have hterm' : 0 ∉ base.terminated := by simpa using hterm
        cases hn : n.isTerm with
        | false =>
          obtain ⟨v, rfl⟩ : ∃ v, n = .next v := by
            cases n with
            | next v => exact ⟨v, rfl⟩
            | _ => simp [Notif.isTerm] at hn
          rw [TW.step_emit_next (mkW d base a m) _ _ hsrc hterm hsub hal,
            push_emit d base a m _ (by intro e; simp), hlen, hdn]
          apply RD_of <;> simp [DA.step, hT, Notif.isTerm, hsrc, hsub, hal, hterm']
        | true =>
          rw [TW.step_emit_term (mkW d base a m) _ _ hn hsrc hterm hsub hal]
          simp only []
          rw [show ({ mkW d base a m with terminated := 0 :: (mkW d base a m).terminated, srcAlive := false } : TW)
                = mkW d { base with terminated := 0 :: base.terminated, srcAlive := false } a m from rfl]
          cases n with
          | next v => simp [Notif.isTerm] at hn
          | error e =>
            rw [push_emit_error, hlen, hdn]
            apply RD_of <;> simp [DA.step, hT, hsrc, hsub, Notif.isTerm]
          | complete =>
            rw [push_emit d _ a m _ (by intro e; simp), hlen, hdn]
            apply RD_of <;> simp [DA.step, hT, hsrc, hsub, Notif.isTerm]
    · have ha : a.step d (.emit i n) = a := by simp [DA.step, hi]
      rw [ha]
      cases hc : base.terminated.contains i with
      | true =>
        rw [TW.step_emit_ignored (mkW d base a m) _ _ hc]
        exact ⟨base, m, rfl, hsrc, hsub, halive, hterm⟩
      | false =>
        rw [TW.step_emit_other (mkW d base a m) i 0 n (.delay d a.alive m) hsrc hi hc rfl (by intros; simp)]
        cases n.isTerm with
        | false => exact ⟨base, m, rfl, hsrc, hsub, halive, hterm⟩
        | true =>
          refine ⟨{ base with terminated := i :: base.terminated }, m, rfl, hsrc, hsub, halive, ?_⟩
          rw [← hterm]
          simp
          intro h0; exact absurd h0.symm hi

end Rx.T.Del
