import RxModel.Lemmas.MergeAllStuck
/-
  The accounting invariant of merge_all on error-free histories, and what it
  gives: downstream completes exactly when the outer stream has completed and
  every inner observable that arrived has completed.
-/
namespace Rx.MergeAll

/-- Number of inner observers held by subjects that can still call them. -/
def liveOf (subs : List (Nat × Nat)) (dead : List Nat) : Nat :=
  (subs.filter (fun p => !dead.contains p.1)).length

def live (s : St) : Nat := liveOf s.subs s.dead

theorem liveOf_append_le (subs : List (Nat × Nat)) (p : Nat × Nat) (dead : List Nat) :
    liveOf (subs ++ [p]) dead ≤ liveOf subs dead + 1 := by
  unfold liveOf
  rw [List.filter_append, List.length_append]
  have : ([p].filter fun p => !dead.contains p.1).length ≤ [p].length := List.length_filter_le _ _
  simpa using this

/-- Taking the observers of subject `j` (not dead yet): its targets were all live. -/
theorem liveOf_take (subs : List (Nat × Nat)) (dead : List Nat) (j : Nat)
    (hj : dead.contains j = false) :
    liveOf (subs.filter (fun p => !(p.1 == j))) (j :: dead) + (subs.filter (fun p => p.1 == j)).length
      = liveOf subs dead := by
  unfold liveOf
  induction subs with
  | nil => rfl
  | cons p r ih =>
    have hj' : j ∉ dead := by simpa using hj
    by_cases hp : p.1 = j
    · have hd : p.1 ∉ dead := by rw [hp]; exact hj'
      simp only [List.filter_cons, hp, beq_self_eq_true, Bool.not_true, Bool.false_eq_true,
        if_false, if_true, List.length_cons]
      rw [← hp]
      simp [hd]
      rw [hp]
      simp at ih
      omega
    · have hne : (p.1 == j) = false := by simpa using hp
      by_cases hd : p.1 ∈ dead
      · simp [hne, hd, hp] at ih ⊢
        omega
      · simp [hne, hd, hp] at ih ⊢
        omega

/-- No cold inner of the table ends with an error. -/
def NoErrTable (inners : List Inner) : Prop := ∀ xs e, Inner.cold xs (.error e) ∉ inners

/-- Events of an error-free history without unsubscription. -/
def Ev.benign : Ev → Bool
  | .outerError _ => false
  | .innerError _ _ => false
  | .unsub => false
  | _ => true

/-- Accounting invariant; `d` = inner completions already taken from a subject
    and not yet delivered to the operator. -/
structure InvD (s : St) (d : Nat) : Prop where
  conc : 1 ≤ s.concurrent
  le : s.subscribed ≤ s.concurrent
  full : s.queue ≠ [] → s.subscribed = s.concurrent
  cnt : s.started = s.subscribed + s.completed
  arr : s.arrivals = s.started + s.queue.length
  liv : live s + d ≤ s.subscribed
  oc : s.outsideCompleted = true → s.outerOpen = false
  done : s.alive = false ↔ (s.outsideCompleted = true ∧ s.subscribed = 0 ∧ s.queue = [])
  noerr : NoErrTable s.inners

/-- The same while an inner completion is being processed (`q` = the queue it sees). -/
structure PreD (s : St) (q : List Inst) (d : Nat) : Prop where
  alive : s.alive = true
  conc : 1 ≤ s.concurrent
  le : s.subscribed ≤ s.concurrent
  full : q ≠ [] → s.subscribed = s.concurrent
  cnt : s.started = s.subscribed + s.completed
  arr : s.arrivals = s.started + q.length
  liv : live s + d + 1 ≤ s.subscribed
  oc : s.outsideCompleted = true → s.outerOpen = false
  noerr : NoErrTable s.inners

theorem inner_noerr {s : St} (h : NoErrTable s.inners) (k : Nat) (xs : List Val) (e : Err) :
    s.inner k ≠ .cold xs (.error e) := by
  intro hk
  unfold St.inner at hk
  by_cases hlt : k < s.inners.length
  · have : s.inners.getD k (.cold [] .open_) ∈ s.inners := by
      simp [List.getD_eq_getElem?_getD, hlt]
    rw [hk] at this
    exact h xs e this
  · rw [List.getD_eq_getElem?_getD, List.getElem?_eq_none (by omega)] at hk
    cases hk

theorem drain_inv (f : Bool) (q : List Inst) : ∀ (s : St) (d : Nat), PreD s q d →
    (drain f s q).1.stuck = false →
    InvD (drain f s q).1 d ∧ (Out.complete ∈ (drain f s q).2 ↔ (drain f s q).1.alive = false) := by
  induction q with
  | nil =>
    intro s d h _
    simp only [drain]
    have hl := h.liv; have hc := h.cnt; have ha := h.arr; have hle := h.le
    split
    · rename_i hz
      refine ⟨⟨h.conc, by simp; omega, by simp, by simp; omega, by simp at ha ⊢; omega,
        by simp [live] at hl ⊢; omega, h.oc, by simp; exact ⟨hz.2, hz.1⟩, h.noerr⟩, by simp⟩
    · rename_i hz
      refine ⟨⟨h.conc, by simp; omega, by simp, by simp; omega, by simp at ha ⊢; omega,
        by simp [live] at hl ⊢; omega, h.oc, ?_, h.noerr⟩, by simp [h.alive]⟩
      simp only [h.alive, Bool.true_eq_false, false_iff]
      intro hh; exact hz ⟨hh.2.1, hh.1⟩
  | cons i rest ih =>
    intro s d h hs
    have hl := h.liv; have hc := h.cnt; have ha := h.arr; have hle := h.le
    have hfull := h.full (by simp)
    simp only [drain] at hs ⊢
    split at hs
    · -- hot
      rename_i j hin
      have hlv := liveOf_append_le s.subs (j, i.tag) s.dead
      refine ⟨⟨h.conc, hle, fun _ => hfull, by simp; omega, by simp at ha ⊢; omega,
        by simp only [live] at hl ⊢; omega, h.oc, ?_, h.noerr⟩, by simp [h.alive]⟩
      simp only [h.alive, Bool.true_eq_false, false_iff]
      intro hh; have := hh.2.1; omega
    · rename_i xs fin hin
      split at hs
      · simp at hs
      · rename_i hnt
        rw [if_neg hnt]
        cases fin with
        | open_ =>
          simp only
          refine ⟨⟨h.conc, hle, fun _ => hfull, by simp; omega, by simp at ha ⊢; omega,
            by simp only [live] at hl ⊢; omega, h.oc, ?_, h.noerr⟩, by simp [h.alive]⟩
          simp only [h.alive, Bool.true_eq_false, false_iff]
          intro hh; have := hh.2.1; omega
        | error e => exact absurd hin (inner_noerr h.noerr _ _ _)
        | complete =>
          simp only at hs ⊢
          have hp : PreD { s with completed := s.completed + 1, started := s.started + 1 } rest d :=
            ⟨h.alive, h.conc, hle, fun _ => hfull, by simp; omega, by simp at ha ⊢; omega,
              by simp only [live] at hl ⊢; omega, h.oc, h.noerr⟩
          have := ih _ d hp hs
          refine ⟨this.1, ?_⟩
          rw [← this.2]
          simp

end Rx.MergeAll
