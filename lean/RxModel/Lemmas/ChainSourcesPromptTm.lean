import RxModel.Lemmas.ChainSourcesPrompt
/-
  Helper lemmas for C08, part 8: `timer` under the prompt unit-step schedule
  `[adv t0, sub, run] ++ prompt n`, in closed form.
-/
namespace Rx.T
open Rx

namespace TW
open Sched

/-- The timer task waits on its armed delay timer `tm`. -/
def tmWait (now : Nat) (tm : Timer) (wk : Bool) (v : Val) : Sched :=
  { now := now, timers := [tm],
    tasks := [{ body := .timerSrc v, woken := wk, outerDelay := none, outerTimer := some 0 }] }

/-- The timer task has run. -/
def tmDone (now : Nat) (tm : Timer) (v : Val) : Sched :=
  { now := now, timers := [tm],
    tasks := [{ body := .timerSrc v, woken := false, outerDelay := none, outerTimer := none,
                done := true, hasValue := true }] }

theorem runLoop_tmDone (f : Nat) (w : TW) (now : Nat) (tm : Timer) (v : Val)
    (hw : w.sched = tmDone now tm v) (hf : tm.fired = true) : runLoop (f + 1) w = w := by
  cases w with
  | mk sched src stages sa ss st term sub unsub pulls log =>
  simp only at hw; subst hw
  rw [runLoop_pass]
  simp [tmDone, dueTimers, readyOf, liveTasks, hf, List.range_succ]

theorem runLoop_tmWait (f : Nat) (w : TW) (hs : w.stages = []) (now d due : Nat) (v : Val)
    (hw : w.sched = tmWait now { dur := d, due := due, owner := 0, registered := true } false v) :
    runLoop (f + 2) w =
      if due ≤ now then
        { w with sched := tmDone now { dur := d, due := due, fired := true, owner := 0, registered := true } v,
                 log := w.log ++ [.next v, .complete] }
      else w := by
  cases w with
  | mk sched src stages sa ss st term sub unsub pulls log =>
  simp only at hs hw; subst hs hw
  rw [runLoop_pass]
  by_cases hd : due ≤ now
  · simp [tmWait, tmDone, dueTimers, readyOf, liveTasks, hd, List.range_succ, fire,
      setTimer, setTask, pollAll, pollTask, pollPre, timerFired, runBody, push, cascade_nil, finishOnce,
      runLoop_pass, Body.isAsync]
  · simp [tmWait, dueTimers, readyOf, liveTasks, hd, List.range_succ]

/-- The first `run` after `sub`: the task is polled, arms its delay timer, and (delay 0) runs. -/
theorem run_tm_sub (v : Val) (d t0 : Nat) (term : List Nat) :
    step (step (idle (.timer v d) t0 term) .sub) .run =
      if d = 0 then
        { step (idle (.timer v d) t0 term) .sub with
          sched := tmDone t0 { dur := d, due := t0 + d, fired := true, owner := 0, registered := true } v,
          log := [.next v, .complete] }
      else
        { step (idle (.timer v d) t0 term) .sub with
          sched := tmWait t0 { dur := d, due := t0 + d, owner := 0, registered := true } false v } := by
  have h1 : step (step (idle (.timer v d) t0 term) .sub) .run =
      runLoop (9997 + 2)
        { step (idle (.timer v d) t0 term) .sub with
          sched := tmWait t0 { dur := d, due := t0 + d, owner := 0, registered := true } false v } := by
    rw [step_run2, runLoop_pass]
    simp [step, idle, subscribeFrom, subscribeSource, scheduleOnce, dueTimers, readyOf, liveTasks,
      List.range_succ, pollAll, pollTask, pollPre, newTimer, registerTimer, setTimer,
      setTask, tmWait]
  rw [h1, runLoop_tmWait 9997 _ rfl t0 d (t0 + d) v rfl]
  by_cases hd : d = 0
  · subst hd
    have hl : (step (idle (.timer v 0) t0 term) .sub).log = [] := rfl
    simp [hl]
  · have : ¬ t0 + d ≤ t0 := by omega
    simp [hd, this]

/-- The timer world after round `n` of the prompt schedule. -/
structure TmQ (v : Val) (d t0 n : Nat) (w : TW) : Prop where
  stages : w.stages = []
  st : if n < d then
      w.sched = tmWait (t0 + n) { dur := d, due := t0 + d, owner := 0, registered := true } false v ∧ w.log = []
    else
      w.sched = tmDone (t0 + n) { dur := d, due := t0 + d, fired := true, owner := 0, registered := true } v ∧
      w.log = [.next v, .complete]

theorem tmQ_base (v : Val) (d t0 : Nat) (term : List Nat) :
    TmQ v d t0 0 (step (step (idle (.timer v d) t0 term) .sub) .run) := by
  rw [run_tm_sub]
  by_cases hd : d = 0
  · subst hd; exact ⟨rfl, by simp⟩
  · have : 0 < d := by omega
    rw [if_neg hd]
    have hl : (step (idle (.timer v d) t0 term) .sub).log = [] := rfl
    exact ⟨rfl, by simp [this, hl]⟩

theorem tmQ_step (v : Val) (d t0 n : Nat) (w : TW) (h : TmQ v d t0 n w) :
    TmQ v d t0 (n + 1) (step (step w (.adv 1)) .run) := by
  have hs' : (step w (.adv 1)).stages = [] := h.stages
  by_cases hn : n < d
  · have hst := h.st
    rw [if_pos hn] at hst
    have hw' : (step w (.adv 1)).sched =
        tmWait (t0 + n + 1) { dur := d, due := t0 + d, owner := 0, registered := true } false v := by
      simp only [step]; rw [hst.1]; rfl
    have hl' : (step w (.adv 1)).log = [] := hst.2
    rw [step_run2, runLoop_tmWait 9998 _ hs' _ d (t0 + d) v hw']
    by_cases hd : t0 + d ≤ t0 + n + 1
    · rw [if_pos hd]
      refine ⟨h.stages, ?_⟩
      rw [if_neg (by omega)]
      exact ⟨rfl, by show (step w (.adv 1)).log ++ _ = _; rw [hl']; rfl⟩
    · rw [if_neg hd]
      refine ⟨h.stages, ?_⟩
      rw [if_pos (by omega)]
      exact ⟨hw', hl'⟩
  · have hst := h.st
    rw [if_neg hn] at hst
    have hw' : (step w (.adv 1)).sched =
        tmDone (t0 + n + 1) { dur := d, due := t0 + d, fired := true, owner := 0, registered := true } v := by
      simp only [step]; rw [hst.1]; rfl
    rw [step_run, runLoop_tmDone 9999 _ _ _ v hw' rfl]
    refine ⟨h.stages, ?_⟩
    rw [if_neg (by omega)]
    exact ⟨hw', hst.2⟩

theorem run_prompt_tmQ (v : Val) (d t0 : Nat) (w : TW) (h : TmQ v d t0 0 w) (n : Nat) :
    TmQ v d t0 n (run w (prompt n)) := by
  induction n with
  | zero => exact h
  | succ n ih =>
    rw [prompt_succ, run_append]
    exact tmQ_step v d t0 n _ ih

/-- `timer(v, d)` under the prompt schedule: silent before round `d`, `next v, complete` from
    round `d` on. -/
theorem timer_prompt_main (v : Val) (d t0 n : Nat) :
    (run (start (.timer v d)) ([.adv t0, .sub, .run] ++ prompt n)).log =
      if n < d then [] else [.next v, .complete] := by
  have h0 : step (start (.timer v d)) (.adv t0) = idle (.timer v d) t0 [] := by
    simp [step, start, idle]
  rw [run_append]
  simp only [run_cons, run_nil, h0]
  have h := (run_prompt_tmQ v d t0 _ (tmQ_base v d t0 []) n).st
  by_cases hn : n < d
  · rw [if_pos hn] at h ⊢; exact h.2
  · rw [if_neg hn] at h ⊢; exact h.2

end TW
end Rx.T
