import RxModel.Lemmas.SchedExec
/-
  Helper lemmas for C19, part 4: histories (`execFrom`), and the generic step
  from "P is preserved by every action on task k, and a run from a P-state
  satisfies Q" to "every run of k in the log of any history satisfies Q".
-/
namespace Rx.T
namespace Sched

/-! ### histories -/
@[simp] theorem execFrom_nil (s : Sched) : execFrom s [] = (s, []) := rfl
theorem execFrom_cons (s : Sched) (a as) :
    execFrom s (a :: as) = ((execFrom (s.exec a).1 as).1, (s.exec a).2 ++ (execFrom (s.exec a).1 as).2) := rfl

theorem execFrom_append (s : Sched) (as bs : List SAct) :
    execFrom s (as ++ bs) =
      ((execFrom (execFrom s as).1 bs).1, (execFrom s as).2 ++ (execFrom (execFrom s as).1 bs).2) := by
  induction as generalizing s with
  | nil => simp
  | cons a as ih => simp only [List.cons_append, execFrom_cons, ih, List.append_assoc]

theorem wf_execFrom (s : Sched) (as : List SAct) (wf : WF s) : WF (execFrom s as).1 := by
  induction as generalizing s with
  | nil => exact wf
  | cons a as ih => exact ih _ (wf_exec s a wf)

/-- Several actions: clock, timers, table size only grow. -/
structure Frame' (s s' : Sched) : Prop where
  now_le : s.now ≤ s'.now
  tdue : ∀ tm d, s.tdue tm = some d → s'.tdue tm = some d
  fired_mono : ∀ tm, s.timerFired tm = true → s'.timerFired tm = true
  length_le : s.tasks.length ≤ s'.tasks.length

theorem execFrom_frame (s : Sched) (as : List SAct) : Frame' s (execFrom s as).1 := by
  induction as generalizing s with
  | nil => exact ⟨Nat.le_refl _, fun _ _ h => h, fun _ h => h, Nat.le_refl _⟩
  | cons a as ih =>
    have f1 := exec_frame s a
    have f2 := ih (s.exec a).1
    exact ⟨Nat.le_trans f1.now_le f2.now_le, fun tm d h => f2.tdue tm d (f1.tdue tm d h),
      fun tm h => f2.fired_mono tm (f1.fired_mono tm h), Nat.le_trans f1.length_le f2.length_le⟩

/-- A run is of an existing task, at a clock value between the start and the end of the history. -/
theorem execFrom_runs (s : Sched) (as : List SAct) (r : Run) (h : r ∈ (execFrom s as).2) :
    r.task < (execFrom s as).1.tasks.length ∧ s.now ≤ r.time ∧ r.time ≤ (execFrom s as).1.now := by
  induction as generalizing s with
  | nil => simp at h
  | cons a as ih =>
    rw [execFrom_cons] at h ⊢
    simp only [List.mem_append] at h
    have f1 := exec_frame s a
    have f2 := execFrom_frame (s.exec a).1 as
    rcases h with h | h
    · obtain ⟨_, ht, _, hl⟩ := exec_runs s a r h
      refine ⟨?_, by omega, ?_⟩
      · exact Nat.lt_of_lt_of_le hl (Nat.le_trans f1.length_le f2.length_le)
      · rw [ht]; exact Nat.le_trans f1.now_le f2.now_le
    · obtain ⟨h1, h2, h3⟩ := ih _ h
      exact ⟨h1, Nat.le_trans f1.now_le h2, h3⟩

/-- The run log is in clock order. -/
theorem execFrom_sorted (s : Sched) (as : List SAct) :
    List.Pairwise (fun r1 r2 : Run => r1.time ≤ r2.time) (execFrom s as).2 := by
  induction as generalizing s with
  | nil => simp
  | cons a as ih =>
    rw [execFrom_cons]
    simp only [List.pairwise_append]
    refine ⟨?_, ih _, ?_⟩
    · -- at most one run per action
      cases hl : (s.exec a).2 with
      | nil => simp
      | cons r l =>
        have := (exec_runs s a r (by rw [hl]; simp)).2.2.1
        rw [hl] at this; cases this; simp
    · intro r1 h1 r2 h2
      have e1 := (exec_runs s a r1 h1).2.1
      have e2 := (execFrom_runs _ as r2 h2).2.1
      have := (exec_frame s a).now_le
      omega

/-! ### invariants of one task -/
/-- `P` holds of task `k`. -/
def Holds (P : Sched → Task → Prop) (s : Sched) (k : TaskId) : Prop := ∃ t, s.tasks[k]? = some t ∧ P s t

/-- `P` is an invariant of task `k` and every run of `k` from a `P`-state satisfies `Q`. -/
structure TaskInv (k : TaskId) (P : Sched → Task → Prop) (Q : Run → Prop) : Prop where
  frame : ∀ s s' t t', Frame s s' → Task.sameCore t t' → P s t → P s' t'
  cancel : ∀ s t, P s t → P s { t with keepRunning := false, hasValue := false }
  poll : ∀ s c t, WF s → s.tasks[k]? = some t → P s t →
    ∃ t', (s.poll k c).1.tasks[k]? = some t' ∧ P (s.poll k c).1 t' ∧ ∀ r ∈ (s.poll k c).2, Q r

theorem TaskInv.exec {k P Q} (I : TaskInv k P Q) (s : Sched) (a : SAct) (wf : WF s)
    (h : Holds P s k) : Holds P (s.exec a).1 k ∧ ∀ r ∈ (s.exec a).2, r.task = k → Q r := by
  obtain ⟨t, ht, hp⟩ := h
  rcases exec_task_cases s a k t ht with ⟨t', h1, h2, h3⟩ | hc | ⟨c, hc⟩
  · exact ⟨⟨t', h1, I.frame s _ t t' (exec_frame s a) h2 hp⟩, fun r hr e => absurd e (h3 r hr)⟩
  · subst hc
    refine ⟨⟨_, by simp only [Sched.exec]; exact cancel_get_self s k t ht, ?_⟩, by simp [Sched.exec]⟩
    exact I.frame s _ _ _ (exec_frame s (.cancel k)) (Task.sameCore_refl _) (I.cancel s t hp)
  · subst hc
    obtain ⟨t', h1, h2, h3⟩ := I.poll s c t wf ht hp
    exact ⟨⟨t', h1, h2⟩, fun r hr _ => h3 r hr⟩

theorem TaskInv.execFrom {k P Q} (I : TaskInv k P Q) (as : List SAct) (s : Sched) (wf : WF s)
    (h : Holds P s k) :
    Holds P (execFrom s as).1 k ∧ ∀ r ∈ (execFrom s as).2, r.task = k → Q r := by
  induction as generalizing s with
  | nil => exact ⟨h, by simp⟩
  | cons a as ih =>
    obtain ⟨h1, h2⟩ := I.exec s a wf h
    obtain ⟨h3, h4⟩ := ih _ (wf_exec s a wf) h1
    rw [execFrom_cons]
    refine ⟨h3, ?_⟩
    intro r hr e
    simp only [List.mem_append] at hr
    rcases hr with hr | hr
    · exact h2 r hr e
    · exact h4 r hr e

end Sched
end Rx.T
