import RxModel.Lemmas.SubjectBasic
/-
  Simulation of the concrete subject by the abstract spec, one building block at a time.
-/
namespace Rx.Subj

theorem filter_alive_append_new (l : List SlotId) (slots : List Slot) (x : Slot)
    (hb : ∀ i ∈ l, i < slots.length) :
    l.filter (aliveAt (slots ++ [x])) = l.filter (aliveAt slots) := by
  apply List.filter_congr
  intro i hi
  exact aliveAt_append_lt slots x i (hb i hi)

theorem abs_subscribe (s : State) (hI : Inv s) (sc : List Act) (log0 : List Notif) :
    (s.subscribe sc log0).abs = s.abs.subscribe sc ∧ Inv (s.subscribe sc log0) := by
  obtain ⟨obs, ch, slots, p⟩ := s
  obtain ⟨hc, hb, hn⟩ := hI
  cases ch with
  | none =>
    cases obs with
    | some o => simp at hc
    | none =>
      refine ⟨?_, ⟨by simp [State.subscribe], ?_, ?_⟩⟩
      · simp [State.subscribe, State.abs, State.absLive, Abs.subscribe]
      · simp [State.subscribe, State.entries]
      · simp [State.subscribe, State.entries]
  | some c =>
    have hfresh : slots.length ∉ obs.getD [] ++ c := by
      intro h
      have := hb _ (by simpa [State.entries] using h)
      simp at this
    refine ⟨?_, ⟨by simp [State.subscribe], ?_, ?_⟩⟩
    · cases obs with
      | none => simp [State.subscribe, State.abs, State.absLive, Abs.subscribe]
      | some o =>
        simp only [State.entries, Option.getD_some] at hb
        have h1 := filter_alive_append_new (o ++ c) slots ⟨true, sc, log0⟩ hb
        simp only [State.subscribe, State.abs, State.absLive, Abs.subscribe, State.entries,
          Option.getD_some, Option.isNone_some, List.map_append, List.map_cons, List.map_nil,
          List.length_map, Bool.false_eq_true, if_false]
        rw [← List.append_assoc, List.filter_append, h1]
        simp [aliveAt_append_new]
    · intro i hi
      simp only [State.subscribe, State.entries, Option.getD_some, List.length_append,
        List.length_cons, List.length_nil] at hi ⊢
      rw [← List.append_assoc, List.mem_append] at hi
      rcases hi with hi | hi
      · have h2 : i < slots.length := hb i (by simpa [State.entries] using hi)
        exact Nat.lt_of_lt_of_le h2 (Nat.le_add_right _ _)
      · simp at hi; subst hi; exact Nat.lt_add_of_pos_right (by decide)
    · simp only [State.subscribe, State.entries, Option.getD_some]
      rw [← List.append_assoc]
      apply List.nodup_append.mpr
      refine ⟨by simpa [State.entries] using hn, by simp, ?_⟩
      intro a ha b hb2
      simp at hb2
      subst hb2
      intro e; subst e; exact hfresh ha

theorem abs_modSlot (s : State) (hI : Inv s) (f : Slot → Slot) (hf : ∀ x, (f x).alive = x.alive) (i : Nat) :
    ({ s with slots := modSlot f s.slots i } : State).absLive = s.absLive ∧
    Inv { s with slots := modSlot f s.slots i } := by
  obtain ⟨obs, ch, slots, p⟩ := s
  obtain ⟨hc, hb, hn⟩ := hI
  refine ⟨?_, ⟨hc, ?_, hn⟩⟩
  · cases obs with
    | none => rfl
    | some o =>
      simp only [State.absLive, State.entries]
      apply List.filter_congr
      intro j _
      exact aliveAt_modSlot_same f hf slots i j
  · intro j hj
    simp only [modSlot_length]
    exact hb j hj

theorem abs_killSlot (s : State) (hI : Inv s) (t : SlotId) :
    (s.killSlot t).abs = s.abs.unsubOne t ∧ Inv (s.killSlot t) := by
  obtain ⟨obs, ch, slots, p⟩ := s
  obtain ⟨hc, hb, hn⟩ := hI
  refine ⟨?_, ⟨hc, ?_, hn⟩⟩
  · simp only [State.killSlot, State.abs, Abs.unsubOne, State.absLive, State.entries]
    rw [modSlot_map_script _ (by intro x; rfl)]
    cases obs with
    | none => rfl
    | some o =>
      simp only [List.filter_filter]
      congr 1
      apply List.filter_congr
      intro j _
      rw [aliveAt_kill, Bool.and_comm]
  · intro j hj
    simp only [State.killSlot, modSlot_length]
    exact hb j hj

theorem act_sim (s : State) (hI : Inv s) (greet : Option Val) (i : SlotId) (a : Act) :
    (s.act greet i a).2 = (s.abs.act greet i a).2 ∧ (s.act greet i a).1.abs = (s.abs.act greet i a).1 ∧
    Inv (s.act greet i a).1 ∧ (s.act greet i a).1.observers = s.observers := by
  cases a with
  | nop => exact ⟨rfl, rfl, hI, rfl⟩
  | sub =>
    have hobs : ∀ l, (s.subscribe [] l).observers = s.observers := by
      intro l; unfold State.subscribe; cases s.chamber <;> rfl
    cases greet with
    | none =>
      have h := abs_subscribe s hI [] []
      exact ⟨rfl, h.1, h.2, hobs _⟩
    | some v =>
      have h := abs_subscribe s hI [] [.next v]
      refine ⟨?_, h.1, h.2, hobs _⟩
      simp [State.act, Abs.act, State.abs]
  | unsub t =>
    by_cases h : t = i
    · have e1 : s.act greet i (.unsub t) = ({ s with panicked := true }, []) := by simp [State.act, h]
      have e2 : s.abs.act greet i (.unsub t) = ({ s.abs with panicked := true }, []) := by simp [Abs.act, h]
      rw [e1, e2]
      exact ⟨rfl, rfl, ⟨hI.cham, hI.bound, hI.nodup⟩, rfl⟩
    · have e1 : s.act greet i (.unsub t) = (s.killSlot t, []) := by simp [State.act, h]
      have e2 : s.abs.act greet i (.unsub t) = (s.abs.unsubOne t, []) := by simp [Abs.act, h]
      rw [e1, e2]
      have h2 := abs_killSlot s hI t
      exact ⟨rfl, h2.1, h2.2, rfl⟩

theorem mem_absLive (s : State) (obs : List SlotId) (ho : s.observers = some obs) (i : SlotId) (hi : i ∈ obs) :
    i ∈ s.absLive ↔ aliveAt s.slots i = true := by
  simp [State.absLive, ho, State.entries, hi]

theorem callNext_sim (s : State) (hI : Inv s) (obs : List SlotId) (ho : s.observers = some obs)
    (greet : Option Val) (i : SlotId) (hi : i ∈ obs) (v : Val) :
    (s.callNext greet i v).2 = (s.abs.callNext greet i v).2 ∧
    (s.callNext greet i v).1.abs = (s.abs.callNext greet i v).1 ∧
    Inv (s.callNext greet i v).1 ∧ (s.callNext greet i v).1.observers = some obs := by
  have hm := mem_absLive s obs ho i hi
  by_cases hal : aliveAt s.slots i = true
  · have hy : i ∈ s.abs.live := hm.mpr hal
    obtain ⟨sl, hs, hsa⟩ : ∃ sl, s.slots[i]? = some sl ∧ sl.alive = true := by
      unfold aliveAt at hal
      cases h : s.slots[i]? with
      | none => simp [h] at hal
      | some sl => exact ⟨sl, rfl, by simpa [h] using hal⟩
    have hmod := abs_modSlot s hI (Slot.recv v) (by intro x; rfl) i
    have hscr : s.abs.scripts[i]? = some sl.script := by
      simp [State.abs, hs]
    have habs1 : ({ s with slots := modSlot (Slot.recv v) s.slots i } : State).abs =
        { s.abs with scripts := modTail s.abs.scripts i } := by
      simp only [State.abs, hmod.1, modSlot_recv_script]
    have ha := act_sim { s with slots := modSlot (Slot.recv v) s.slots i } hmod.2 greet i (sl.script.headD .nop)
    rw [habs1] at ha
    have e1 : s.callNext greet i v =
        ((({ s with slots := modSlot (Slot.recv v) s.slots i } : State).act greet i (sl.script.headD .nop)).1,
         (i, Notif.next v) :: (({ s with slots := modSlot (Slot.recv v) s.slots i } : State).act greet i (sl.script.headD .nop)).2) := by
      simp [State.callNext, hs, hsa]
    have e2 : s.abs.callNext greet i v =
        ((({ s.abs with scripts := modTail s.abs.scripts i } : Abs).act greet i (sl.script.headD .nop)).1,
         (i, Notif.next v) :: (({ s.abs with scripts := modTail s.abs.scripts i } : Abs).act greet i (sl.script.headD .nop)).2) := by
      simp [Abs.callNext, hy, hscr]
    rw [e1, e2]
    refine ⟨?_, ha.2.1, ha.2.2.1, ?_⟩
    · show _ :: _ = _ :: _
      rw [ha.1]
    · show (State.act _ greet i _).1.observers = some obs
      rw [ha.2.2.2]; exact ho
  · have hn : i ∉ s.abs.live := fun h => hal (hm.mp h)
    have e1 : s.callNext greet i v = (s, []) := by
      unfold State.callNext
      unfold aliveAt at hal
      cases h : s.slots[i]? with
      | none => rfl
      | some sl =>
        have : sl.alive = false := by simpa [h] using hal
        simp [this]
    have e2 : s.abs.callNext greet i v = (s.abs, []) := by simp [Abs.callNext, hn]
    rw [e1, e2]
    exact ⟨rfl, rfl, hI, ho⟩

end Rx.Subj
