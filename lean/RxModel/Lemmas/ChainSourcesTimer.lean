import RxModel.Lemmas.ChainSourcesInv
/-
  Helper lemmas for C08, part 4: the invariant of a `timer` world without
  stages.  `B` is the due instant (`t_sub + d`).  The task is in one of three
  phases: the delay timer is not armed yet (it is armed at the first poll, hence
  not before `t_sub`), the task waits on the armed timer (due no earlier than
  `B`), or the body has run (not before `B`) and the log is `[next v, complete]`.
-/
namespace Rx.T
open Rx

namespace TW
open Sched

/-- The phases of the timer task. -/
def TmPhase (v : Val) (d B : Nat) (s : Sched) (log : List Notif) (t : Task) : Prop :=
  (t.outerDelay = some d ∧ t.outerTimer = none ∧ B ≤ s.now + d ∧ log = []) ∨
  (t.outerDelay = none ∧ (∃ tm due, t.outerTimer = some tm ∧ s.tdue tm = some due ∧ B ≤ due) ∧ log = []) ∨
  (t.done = true ∧ B ≤ s.now ∧ log = [.next v, .complete])

structure TmTask (v : Val) (d B : Nat) (s : Sched) (log : List Notif) (t : Task) : Prop where
  body : t.body = .timerSrc v
  rep : t.rep = none
  phase : TmPhase v d B s log t

structure TmS (v : Val) (d B : Nat) (s : Sched) (log : List Notif) : Prop where
  fd : FiredDue s
  len : s.tasks.length = 1
  task : ∃ t, s.tasks[0]? = some t ∧ TmTask v d B s log t

/-- The invariant of a timer world. -/
structure TmInv (v : Val) (d B : Nat) (w : TW) : Prop where
  bare : Bare w
  s : TmS v d B w.sched w.log

theorem tmTask_mono {v : Val} {d B : Nat} {s s' : Sched} {log : List Notif} {t t' : Task}
    (h : TmTask v d B s log t) (hn : s.now ≤ s'.now) (hd : ∀ tm d, s.tdue tm = some d → s'.tdue tm = some d)
    (hb : t'.body = t.body) (hod : t'.outerDelay = t.outerDelay) (hot : t'.outerTimer = t.outerTimer)
    (hr : t'.rep = t.rep) (hdone : t.done = true → t'.done = true) : TmTask v d B s' log t' := by
  refine ⟨by rw [hb, h.body], by rw [hr, h.rep], ?_⟩
  rcases h.phase with ⟨h1, h2, h3, h4⟩ | ⟨h1, ⟨tm, due, h2, h3, h4⟩, h5⟩ | ⟨h1, h2, h3⟩
  · exact Or.inl ⟨by rw [hod, h1], by rw [hot, h2], by omega, h4⟩
  · exact Or.inr (Or.inl ⟨by rw [hod, h1], ⟨tm, due, by rw [hot, h2], hd _ _ h3, h4⟩, h5⟩)
  · exact Or.inr (Or.inr ⟨hdone h1, Nat.le_trans h2 hn, h3⟩)

theorem tmS_adv {v : Val} {d B : Nat} {s : Sched} {log} (k : Nat) (h : TmS v d B s log) :
    TmS v d B { s with now := s.now + k } log := by
  obtain ⟨t, ht, h1⟩ := h.task
  exact ⟨firedDue_adv s k h.fd, h.len, t, ht,
    tmTask_mono h1 (Nat.le_add_right _ _) (fun _ _ h => h) rfl rfl rfl rfl (fun h => h)⟩

theorem tmS_fire {v : Val} {d B : Nat} {s : Sched} {log} (tm : Nat) (hd : Due s tm) (h : TmS v d B s log) :
    TmS v d B (s.fire tm) log := by
  obtain ⟨t, ht, h1⟩ := h.task
  obtain ⟨wk, hw⟩ := fire_single s tm t ht
  exact ⟨firedDue_fire s tm hd h.fd, by simpa using h.len, _, hw,
    tmTask_mono h1 (by simp) (fun _ _ h => by simpa using h) rfl rfl rfl rfl (fun h => h)⟩

theorem tmS_cancel {v : Val} {d B : Nat} {s : Sched} {log} (h : TmS v d B s log) :
    TmS v d B (s.cancel 0) log := by
  obtain ⟨t, ht, h1⟩ := h.task
  exact ⟨firedDue_cancel s 0 h.fd, by simpa using h.len, _, cancel_get_self _ _ _ ht,
    tmTask_mono h1 (by simp) (fun _ _ h => by simpa using h) rfl rfl rfl rfl (fun h => h)⟩

theorem tmS_poll {v : Val} {d B : Nat} {s : Sched} {log} (h : TmS v d B s log) :
    TmS v d B (s.poll 0 false).1 (log ++ (s.poll 0 false).2.flatMap (emitOf (.timerSrc v))) := by
  obtain ⟨t, ht, h1⟩ := h.task
  refine ⟨firedDue_poll s 0 false h.fd, by simpa [poll_length] using h.len, ?_⟩
  refine poll_task_elim s 0 false t ht
    (motive := fun s' t' runs => TmTask v d B s' (log ++ runs.flatMap (emitOf (.timerSrc v))) t')
    ?_ ?_ ?_ ?_ ?_ ?_ ?_ ?_
  · intro _; simpa using h1
  · intro _ _
    simp only [List.flatMap_nil, List.append_nil]
    exact tmTask_mono h1 (by simp) (fun _ _ h => by simpa using h) rfl rfl rfl rfl (fun _ => rfl)
  · intro d' hdone _ hod
    simp only [List.flatMap_nil, List.append_nil]
    refine ⟨h1.body, h1.rep, ?_⟩
    rcases h1.phase with ⟨p1, p2, p3, p4⟩ | ⟨p1, _⟩ | ⟨p1, _⟩
    · rw [p1] at hod; cases hod
      refine Or.inr (Or.inl ⟨rfl, ⟨s.timers.length, s.now + d, rfl, ?_, p3⟩, p4⟩)
      simp [newTimer_tdue_new]
    · rw [p1] at hod; cases hod
    · rw [p1] at hdone; cases hdone
  · intro tm hdone _ hod hot hf
    simp only [List.flatMap_nil, List.append_nil]
    exact tmTask_mono h1 (by simp) (fun _ _ h => by simpa using h) rfl rfl rfl rfl (fun h => h)
  · intro hdone _ hod hready _
    refine ⟨h1.body, h1.rep, Or.inr (Or.inr ⟨rfl, ?_, ?_⟩)⟩
    · rcases h1.phase with ⟨p1, _⟩ | ⟨_, ⟨tm, due, p2, p3, p4⟩, _⟩ | ⟨p1, _⟩
      · rw [p1] at hod; cases hod
      · obtain ⟨d', hd', hle⟩ := h.fd tm (hready tm p2)
        rw [p3] at hd'; cases hd'
        simp only [setTask_now]
        exact Nat.le_trans p4 hle
      · rw [p1] at hdone; cases hdone
    · rcases h1.phase with ⟨p1, _⟩ | ⟨_, _, p5⟩ | ⟨p1, _⟩
      · rw [p1] at hod; cases hod
      · simp [p5, emitOf]
      · rw [p1] at hdone; cases hdone
  · intro _ _ _ _ _ _ _ hr _; rw [h1.rep] at hr; cases hr
  · intro _ _ _ _ _ _ _ hr _ _; rw [h1.rep] at hr; cases hr
  · intro _ _ _ _ _ _ _ hr _ hc; cases hc

theorem tmInv_run (v : Val) (d B : Nat) (evs : List Ev) (w : TW) (h : TmInv v d B w) :
    TmInv v d B (run w evs) := by
  refine run_induction (TmInv v d B) (fun w h => h.bare) ?_ ?_ ?_ ?_ ?_ evs w h
  · intro w term h; exact ⟨⟨h.bare.1, h.bare.2, h.bare.3, h.bare.4⟩, h.s⟩
  · intro w k h; exact ⟨⟨h.bare.1, h.bare.2, h.bare.3, h.bare.4⟩, tmS_adv k h.s⟩
  · intro w tm h hd; exact ⟨⟨h.bare.1, h.bare.2, h.bare.3, h.bare.4⟩, tmS_fire tm hd h.s⟩
  · intro w k h
    obtain ⟨t, ht, h1⟩ := h.s.task
    rcases pollTask_one w k h.bare.stages h.s.len t ht (Or.inr ⟨v, h1.body⟩) with e | ⟨_, e⟩
    · rw [e]; exact h
    · rw [e, h1.body]
      exact ⟨⟨h.bare.1, h.bare.2, h.bare.3, h.bare.4⟩, tmS_poll h.s⟩
  · intro w h _; exact ⟨⟨h.bare.1, h.bare.2, h.bare.3, h.bare.4⟩, tmS_cancel h.s⟩

theorem tmInv_oneTask {v : Val} {d B : Nat} {w : TW} (h : TmInv v d B w) (hu : w.unsubscribed = false) :
    OneTask w := by
  obtain ⟨t, ht, h1⟩ := h.s.task
  exact ⟨h.bare, h.s.len, t, ht, Or.inr ⟨v, h1.body⟩, fun h' => by rw [hu] at h'; cases h'⟩

theorem tmInv_sub (v : Val) (d c : Nat) (term : List Nat) :
    TmInv v d (c + d) (step (idle (.timer v d) c term) .sub) ∧
    (step (idle (.timer v d) c term) .sub).unsubscribed = false := by
  refine ⟨⟨⟨rfl, fun i h => (by cases h), rfl, rfl⟩, ⟨?_, rfl, ?_⟩⟩, rfl⟩
  · intro tm h
    simp [step, idle, subscribeFrom, subscribeSource, scheduleOnce, timerFired] at h
  · exact ⟨_, rfl, rfl, rfl, Or.inl ⟨rfl, rfl, Nat.le_refl _, rfl⟩⟩

theorem timer_reach (v : Val) (d : Nat) (pre post : List Ev) (hpre : ∀ e ∈ pre, e ≠ .sub) :
    TmInv v d ((run (start (.timer v d)) pre).clock + d)
      (run (start (.timer v d)) (pre ++ .sub :: post)) := by
  obtain ⟨term, h⟩ := run_presub (.timer v d) (fun i h => by cases h) pre hpre
  rw [run_append, run_cons, h]
  exact tmInv_run _ _ _ post _ (tmInv_sub v d _ term).1

theorem timer_oneTask (v : Val) (d : Nat) (pre mid : List Ev) :
    OneTask (run (start (.timer v d)) (pre ++ .sub :: mid)) := by
  obtain ⟨pre', mid', e, hpre⟩ := split_first_sub pre mid
  rw [e]
  obtain ⟨term, h⟩ := run_presub (.timer v d) (fun i h => by cases h) pre' hpre
  rw [run_append, run_cons, h]
  have := tmInv_sub v d (run (start (.timer v d)) pre').clock term
  exact oneTask_run mid' _ (tmInv_oneTask this.1 this.2)

theorem tmInv_log {v : Val} {d B : Nat} {w : TW} (h : TmInv v d B w) :
    (w.log = [] ∨ w.log = [.next v, .complete]) ∧ (w.clock < B → w.log = []) := by
  obtain ⟨t, _, h1⟩ := h.s.task
  rcases h1.phase with ⟨_, _, _, p⟩ | ⟨_, _, p⟩ | ⟨_, p2, p3⟩
  · exact ⟨Or.inl p, fun _ => p⟩
  · exact ⟨Or.inl p, fun _ => p⟩
  · exact ⟨Or.inr p3, fun hc => by simp only [clock] at hc; omega⟩

end TW
end Rx.T
