import RxModel.Lemmas.ChainRetireCascade
/-
  C16 over the chain model, part 6: the effect relation on worlds.

  `Eff a w w'` — what a move of the model (anything but the executor's own
  bookkeeping) does, seen from the producer's side:
    * same source, stages moved towards finished only, scheduler by `BE` moves;
    * if the chain is sealed the probe log is unchanged;
    * if the source's observer is finished and every iterator in second-input
      position has a finished observer, nothing was pulled;
    * if the source's observer is finished and the source is one that polls it,
      the synchronous head of the chain was not touched.
-/
namespace Rx.T
open Rx

structure Eff (a : Bool) (w w' : TW) : Prop where
  src : w'.src = w.src
  stg : SLe w.stages w'.stages
  sch : BE w.src a w.sched w'.sched
  log : sealed w.stages = true → w'.log = w.log
  pulls : fin w.stages = true → nq w.stages = true → w'.pulls = w.pulls
  head : fin w.stages = true → w.src.polls = true →
    w'.stages.take (syncLen w.stages) = w.stages.take (syncLen w.stages)
  sub : w.srcSubscribed = true → w'.srcSubscribed = true

theorem Eff.refl (a : Bool) (w : TW) : Eff a w w :=
  ⟨rfl, SLe.refl _, BE.refl _, fun _ => rfl, fun _ _ => rfl, fun _ _ => rfl, id⟩

theorem Eff.trans {a : Bool} {w1 w2 w3 : TW} (h1 : Eff a w1 w2) (h2 : Eff a w2 w3) : Eff a w1 w3 := by
  refine ⟨h2.src.trans h1.src, h1.stg.trans h2.stg, ?_, ?_, ?_, ?_, fun h => h2.sub (h1.sub h)⟩
  · have := h2.sch; rw [h1.src] at this; exact h1.sch.trans this
  · intro hs; rw [h2.log (h1.stg.sealed hs), h1.log hs]
  · intro hf hq; rw [h2.pulls (h1.stg.fin hf) (h1.stg.nq hq), h1.pulls hf hq]
  · intro hf hp
    have := h2.head (h1.stg.fin hf) (by rw [h1.src]; exact hp)
    rw [h1.stg.syncLen] at this
    rw [this, h1.head hf hp]

theorem Eff.mono {a : Bool} {w w' : TW} (h : Eff a w w') : Eff true w w' :=
  { h with sch := h.sch.mono }

/-- Only fields nobody looks at changed. -/
theorem Eff.of_eq {a : Bool} {w w' : TW} (h1 : w'.src = w.src) (h2 : w'.stages = w.stages)
    (h3 : w'.sched = w.sched) (h4 : w'.log = w.log) (h5 : w'.pulls = w.pulls)
    (h6 : w.srcSubscribed = true → w'.srcSubscribed = true := by intro h; first | exact h | rfl) :
    Eff a w w' :=
  ⟨h1, by rw [h2]; exact SLe.refl _, by rw [h3]; exact BE.refl _, fun _ => h4, fun _ _ => h5,
    fun _ _ => by rw [h2], h6⟩

theorem Eff.sched {a : Bool} (w : TW) (s' : Sched) (h : BE w.src a w.sched s') :
    Eff a w { w with sched := s' } :=
  ⟨rfl, SLe.refl _, h, fun _ => rfl, fun _ _ => rfl, fun _ _ => rfl, id⟩

/-- One more pull — only when somebody still listens. -/
theorem Eff.pull {a : Bool} (w : TW) (h : fin w.stages = true → nq w.stages = true → False) :
    Eff a w { w with pulls := w.pulls + 1 } :=
  ⟨rfl, SLe.refl _, BE.refl _, fun _ => rfl, fun hf hq => (h hf hq).elim, fun _ _ => rfl, id⟩

theorem take_set_of_le {α} (l : List α) (j n : Nat) (x : α) (h : n ≤ j) : (l.set j x).take n = l.take n := by
  rw [List.take_set]
  exact List.set_eq_of_length_le (by simp; omega)

theorem drop_set_of_lt {α} (l : List α) (j n : Nat) (x : α) (h : j < n) : (l.set j x).drop n = l.drop n := by
  rw [List.drop_set]; simp [h]

theorem Eff.setStage {a : Bool} (w : TW) (j : Nat) (st st' : Stage) (hj : w.stages[j]? = some st)
    (hle : Stage.le st st') (hn : st.isOp1 = false) : Eff a w (w.setStage j st') :=
  ⟨rfl, SLe.set _ _ _ _ hj hle, BE.refl _, fun _ => rfl, fun _ _ => rfl,
    fun _ _ => take_set_of_le _ _ _ _ (syncLen_le_of_not_op1 hj hn), id⟩

theorem push_eq' (w : TW) (j : Nat) (ns : List Notif) :
    w.push j ns =
      { w with stages := w.stages.take j ++ (cascade (w.stages.drop j) j ns w.sched).1,
               sched := (cascade (w.stages.drop j) j ns w.sched).2.2,
               log := w.log ++ (cascade (w.stages.drop j) j ns w.sched).2.1 } := rfl

theorem push_nil (w : TW) (j : Nat) : w.push j [] = w := by
  rw [push_eq', cascade_nil_ns]
  simp

theorem take_splice {α} (l post : List α) (j n : Nat) (h : n ≤ j)
    (hp : post.length = (l.drop j).length) : (l.take j ++ post).take n = l.take n := by
  by_cases hl : j ≤ l.length
  · rw [List.take_append_of_le_length (by simp; omega), List.take_take]
    congr 1; omega
  · have h1 : l.take j = l := List.take_of_length_le (by omega)
    have h2 : post = [] := by
      apply List.eq_nil_of_length_eq_zero
      rw [hp]; simp; omega
    rw [h1, h2, List.append_nil]

/-- Push after some effect: the conditions are stated for the world the effect started from. -/
theorem Eff.then_push {a : Bool} {w w1 : TW} (e : Eff a w w1) (j : Nat) (ns : List Notif)
    (hlog : sealed w.stages = true → fin (w1.stages.drop j) = true ∨ ns = [])
    (hhead : fin w.stages = true → w.src.polls = true → syncLen w.stages ≤ j ∨ ns = []) :
    Eff a w (w1.push j ns) := by
  have c := cascade_eff w.src a (w1.stages.drop j) j ns w1.sched
  refine ⟨e.src, e.stg.trans (SLe.splice _ _ j c.stg), e.sch.trans c.sch, ?_, ?_, ?_, e.sub⟩
  · intro hs
    rw [push_eq']; simp only
    rcases hlog hs with h | h
    · rw [c.out h, List.append_nil]; exact e.log hs
    · subst h; rw [cascade_nil_ns]; simp only [List.append_nil]; exact e.log hs
  · intro hf hq; exact e.pulls hf hq
  · intro hf hp
    rw [push_eq']; simp only
    rcases hhead hf hp with h | h
    · rw [take_splice _ _ _ _ h c.stg.length]; exact e.head hf hp
    · subst h; rw [cascade_nil_ns]; simp only [List.take_append_drop]; exact e.head hf hp

theorem Eff.push {a : Bool} (w : TW) (j : Nat) (ns : List Notif)
    (hlog : sealed w.stages = true → fin (w.stages.drop j) = true ∨ ns = [])
    (hhead : fin w.stages = true → w.src.polls = true → syncLen w.stages ≤ j ∨ ns = []) :
    Eff a w (w.push j ns) := (Eff.refl a w).then_push j ns hlog hhead

/-- A push into the stage below a stage that is not a single-input observer,
    guarded by that stage's own slot. -/
theorem Eff.then_push_below {a : Bool} {w w1 : TW} (e : Eff a w w1) (j : Nat) (ns : List Notif)
    (st : Stage) (hj : w.stages[j]? = some st) (hn : st.isOp1 = false)
    (hsf : st.sf = true → ns = []) : Eff a w (w1.push (j + 1) ns) := by
  refine e.then_push (j + 1) ns ?_ ?_
  · intro hs
    rcases sealed_at hs hj hn with h | h
    · exact Or.inr (hsf h)
    · exact Or.inl ((SLe.drop (j + 1) e.stg).fin h)
  · intro _ _
    exact Or.inl (Nat.le_succ_of_le (syncLen_le_of_not_op1 hj hn))

end Rx.T
