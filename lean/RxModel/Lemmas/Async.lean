import RxModel.Sched.Chain
import RxModel.Lemmas.Sched
/-
  Helper definitions and lemmas for the async sources (C08, C16):
  what a script promises (`relayStream`, `relayFuture`), the driver over a bare
  source (no stages: the probe is the observer), one lap of the stream driver by
  induction over the script.
-/
namespace Rx.T
open Rx

/-- What from_stream (`res = false`) / from_stream_result (`res = true`) must
    relay for a script: the values in order up to the first `Err`, then that
    error; `complete` when the script ends; nothing beyond a point where the
    stream stays silent for ever.  `pending` steps do not show. -/
def relayStream (res : Bool) : List AStep → List Notif
  | [] => [.complete]
  | .ready v :: r => .next v :: relayStream res r
  | .pending :: r => relayStream res r
  | .hang :: _ => []
  | .err e :: r => if res then [.error e] else .next (.int e) :: relayStream res r

/-- What from_future / from_future_result must relay: the single output, then
    `complete` (or the error); nothing if the future never resolves. -/
def relayFuture (res : Bool) : List AStep → List Notif
  | [] => []
  | .pending :: r => relayFuture res r
  | .hang :: _ => []
  | .ready v :: _ => [.next v, .complete]
  | .err e :: _ => if res then [.error e] else [.next (.int e), .complete]

/-- Number of `pending` steps of a script. -/
def pendings : List AStep → Nat
  | [] => 0
  | .pending :: r => pendings r + 1
  | _ :: r => pendings r

/-- No step after which the script stays silent for ever. -/
def noHang : List AStep → Bool
  | [] => true
  | .hang :: _ => false
  | _ :: r => noHang r

theorem cascadeF_nil (f j : Nat) (ns : List Notif) (s : Sched) (h : f ≠ 0) :
    cascadeF f [] j ns s = ([], ns, s) := by
  cases f with
  | zero => exact absurd rfl h
  | succ f => cases ns <;> simp [cascadeF]

/-- With no stages the observer of the source is the probe: `push` appends to the log. -/
theorem TW.push_nil_async (w : TW) (ns : List Notif) (h : w.stages = []) :
    w.push 0 ns = { w with log := w.log ++ ns } := by
  have hc : cascade [] 0 ns w.sched = ([], ns, w.sched) := by
    unfold cascade
    exact cascadeF_nil _ _ _ _ (by simp)
  unfold TW.push
  rw [h]
  simp only [List.take_nil, List.drop_nil, hc, List.append_nil]

/-- The fields of a world that a poll of an async body leaves alone. -/
structure TW.SameFrame (w w' : TW) : Prop where
  sched : w'.sched = w.sched
  src : w'.src = w.src
  stages : w'.stages = w.stages
  srcTask : w'.srcTask = w.srcTask
  subscribed : w'.subscribed = w.subscribed
  unsubscribed : w'.unsubscribed = w.unsubscribed

theorem TW.SameFrame.refl (w : TW) : w.SameFrame w := ⟨rfl, rfl, rfl, rfl, rfl, rfl⟩

theorem TW.SameFrame.trans {a b c : TW} (h1 : a.SameFrame b) (h2 : b.SameFrame c) : a.SameFrame c :=
  ⟨h2.sched.trans h1.sched, h2.src.trans h1.src, h2.stages.trans h1.stages,
   h2.srcTask.trans h1.srcTask, h2.subscribed.trans h1.subscribed,
   h2.unsubscribed.trans h1.unsubscribed⟩

theorem TW.push_bare (w : TW) (ns : List Notif) (h : w.stages = []) :
    w.SameFrame (w.push 0 ns) ∧ (w.push 0 ns).log = w.log ++ ns ∧
      (w.push 0 ns).srcRest = w.srcRest := by
  rw [TW.push_nil_async w ns h]
  exact ⟨⟨rfl, rfl, rfl, rfl, rfl, rfl⟩, rfl, rfl⟩

theorem fin_nil_of {w : TW} (h : w.stages = []) : fin w.stages = false := by rw [h]; rfl

/-! Unfolding the driver loop one step (observer not finished). -/
theorem streamLap_nil (res : Bool) (w : TW) (hf : fin w.stages = false) :
    TW.streamLap res [] w = ({ w with srcRest := [] }, .exhausted) := by
  simp [TW.streamLap, hf]
theorem streamLap_ready (res : Bool) (v : Val) (r : List AStep) (w : TW) (hf : fin w.stages = false) :
    TW.streamLap res (.ready v :: r) w
      = TW.streamLap res r ({ w with pulls := w.pulls + 1 }.push 0 [.next v]) := by
  simp [TW.streamLap, hf]
theorem streamLap_err_res (e : Err) (r : List AStep) (w : TW) (hf : fin w.stages = false) :
    TW.streamLap true (.err e :: r) w
      = ({ w with pulls := w.pulls + 1, srcRest := r }.push 0 [.error e], .done) := by
  simp [TW.streamLap, hf]
theorem streamLap_err_plain (e : Err) (r : List AStep) (w : TW) (hf : fin w.stages = false) :
    TW.streamLap false (.err e :: r) w
      = TW.streamLap false r ({ w with pulls := w.pulls + 1 }.push 0 [.next (.int e)]) := by
  simp [TW.streamLap, hf]
theorem streamLap_pending (res : Bool) (r : List AStep) (w : TW) (hf : fin w.stages = false) :
    TW.streamLap res (.pending :: r) w = ({ w with srcRest := r }, .pending true) := by
  simp [TW.streamLap, hf]
theorem streamLap_hang (res : Bool) (r : List AStep) (w : TW) (hf : fin w.stages = false) :
    TW.streamLap res (.hang :: r) w = ({ w with srcRest := .hang :: r }, .pending false) := by
  simp [TW.streamLap, hf]
/-- FIXED behaviour: a finished observer retires the driver at once, nothing is pulled. -/
theorem streamLap_finished (res : Bool) (rest : List AStep) (w : TW) (hf : fin w.stages = true) :
    TW.streamLap res rest w = ({ w with srcRest := rest }, .done) := by
  cases rest <;> simp [TW.streamLap, hf]

/-- The outcome of a lap over a bare source, relative to the promise. -/
def LapOK (res : Bool) (rest : List AStep) (w : TW) (r : TW × AOut) : Prop :=
  w.SameFrame r.1 ∧
  match r.2 with
  | .done => r.1.log = w.log ++ relayStream res rest
  | .exhausted => r.1.log ++ [.complete] = w.log ++ relayStream res rest
  | .pending wk =>
      r.1.log ++ relayStream res r.1.srcRest = w.log ++ relayStream res rest ∧
      (noHang rest = true →
        wk = true ∧ noHang r.1.srcRest = true ∧ pendings r.1.srcRest + 1 = pendings rest)

/-- A lap that starts one item later. -/
theorem LapOK.step {res : Bool} {st : AStep} {rest : List AStep} {w w' : TW} {n : Notif} {r : TW × AOut}
    (hfr : w.SameFrame w') (hlog : w'.log = w.log ++ [n])
    (hrel : relayStream res (st :: rest) = n :: relayStream res rest)
    (hp : pendings (st :: rest) = pendings rest) (hh : noHang (st :: rest) = noHang rest)
    (h : LapOK res rest w' r) : LapOK res (st :: rest) w r := by
  obtain ⟨h1, h2⟩ := h
  refine ⟨hfr.trans h1, ?_⟩
  revert h2
  cases r.2 <;> simp only [hlog, hrel, hp, hh, List.append_assoc, List.singleton_append] <;> exact id

/-- One lap of the stream driver over a bare source, by induction over the
    script: whatever the outcome, what has been logged plus what the remaining
    script promises is what the script promised before. -/
theorem streamLap_bare (res : Bool) (rest : List AStep) :
    ∀ w : TW, w.stages = [] → LapOK res rest w (TW.streamLap res rest w) := by
  induction rest with
  | nil =>
    intro w h
    rw [streamLap_nil res w (fin_nil_of h)]
    exact ⟨⟨rfl, rfl, rfl, rfl, rfl, rfl⟩, by simp [relayStream]⟩
  | cons st r ih =>
    intro w h
    have hf := fin_nil_of h
    cases st with
    | ready v =>
      rw [streamLap_ready res v r w hf]
      have hb := TW.push_bare { w with pulls := w.pulls + 1 } [.next v] h
      have h' : ({ w with pulls := w.pulls + 1 }.push 0 [.next v]).stages = [] := by
        rw [hb.1.stages]; exact h
      have h0 : w.SameFrame { w with pulls := w.pulls + 1 } := ⟨rfl, rfl, rfl, rfl, rfl, rfl⟩
      exact LapOK.step (h0.trans hb.1) hb.2.1 rfl rfl rfl (ih _ h')
    | err e =>
      cases res with
      | true =>
        rw [streamLap_err_res e r w hf]
        have hb := TW.push_bare { w with pulls := w.pulls + 1, srcRest := r } [.error e] h
        have h0 : w.SameFrame { w with pulls := w.pulls + 1, srcRest := r } := ⟨rfl, rfl, rfl, rfl, rfl, rfl⟩
        exact ⟨h0.trans hb.1, by simpa [relayStream] using hb.2.1⟩
      | false =>
        rw [streamLap_err_plain e r w hf]
        have hb := TW.push_bare { w with pulls := w.pulls + 1 } [.next (.int e)] h
        have h' : ({ w with pulls := w.pulls + 1 }.push 0 [.next (.int e)]).stages = [] := by
          rw [hb.1.stages]; exact h
        have h0 : w.SameFrame { w with pulls := w.pulls + 1 } := ⟨rfl, rfl, rfl, rfl, rfl, rfl⟩
        exact LapOK.step (h0.trans hb.1) hb.2.1 (by simp [relayStream]) rfl rfl (ih _ h')
    | pending =>
      rw [streamLap_pending res r w hf]
      exact ⟨⟨rfl, rfl, rfl, rfl, rfl, rfl⟩, by simp [relayStream, pendings, noHang]⟩
    | hang =>
      rw [streamLap_hang res r w hf]
      exact ⟨⟨rfl, rfl, rfl, rfl, rfl, rfl⟩, by simp [relayStream, noHang]⟩


/-- A scripted future that resolves: some `ready`/`err` step is reached. -/
def resolves : List AStep → Bool
  | [] => false
  | .hang :: _ => false
  | .pending :: r => resolves r
  | _ :: _ => true

/-- The outcome of one `poll` of an async body over a bare source, relative to
    what the remaining script promises (`relay`) and to whether it gets there
    (`good`). -/
def PollOK (relay : List AStep → List Notif) (good : List AStep → Bool) (w : TW) (r : TW × AOut) : Prop :=
  w.SameFrame r.1 ∧
  match r.2 with
  | .done => r.1.log = w.log ++ relay w.srcRest
  | .exhausted => False
  | .pending wk =>
      r.1.log ++ relay r.1.srcRest = w.log ++ relay w.srcRest ∧
      (good w.srcRest = true →
        wk = true ∧ good r.1.srcRest = true ∧ pendings r.1.srcRest + 1 = pendings w.srcRest)

theorem pollStream_noncyc (res : Bool) (script : List AStep) (f : Nat) (w : TW) :
    TW.pollStream res script false (f + 1) w =
      match TW.streamLap res w.srcRest w with
      | (w1, .exhausted) => (w1.push 0 [.complete], .done)
      | r => r := by
  simp only [TW.pollStream, Bool.false_and, Bool.false_eq_true, if_false]
  generalize TW.streamLap res w.srcRest w = r
  obtain ⟨w1, o⟩ := r
  cases o <;> rfl

/-- One `poll` of the (non-cyclic) stream driver over a bare source. -/
theorem pollStream_bare (res : Bool) (script : List AStep) (f : Nat) (w : TW) (h : w.stages = []) :
    PollOK (relayStream res) noHang w (TW.pollStream res script false (f + 1) w) := by
  rw [pollStream_noncyc]
  have hl := streamLap_bare res w.srcRest w h
  revert hl
  generalize TW.streamLap res w.srcRest w = r
  obtain ⟨w1, o⟩ := r
  intro hl
  obtain ⟨h1, h2⟩ := hl
  cases o with
  | done => exact ⟨h1, h2⟩
  | pending wk => exact ⟨h1, h2⟩
  | exhausted =>
    have h1' : w1.stages = [] := by rw [h1.stages]; exact h
    have hb := TW.push_bare w1 [.complete] h1'
    exact ⟨h1.trans hb.1, by simpa [hb.2.1] using h2⟩

/-- One `poll` of the FutureTask over a bare source. -/
theorem pollFuture_bare (res : Bool) (w : TW) (h : w.stages = []) :
    PollOK (relayFuture res) resolves w (w.pollFuture res) := by
  unfold TW.pollFuture
  cases hr : w.srcRest with
  | nil => exact ⟨TW.SameFrame.refl w, by simp [hr, relayFuture, resolves]⟩
  | cons st r =>
    cases st with
    | hang => exact ⟨TW.SameFrame.refl w, by simp [hr, relayFuture, resolves]⟩
    | pending =>
      exact ⟨⟨rfl, rfl, rfl, rfl, rfl, rfl⟩, by simp [hr, relayFuture, resolves, pendings]⟩
    | ready v =>
      have hb := TW.push_bare { w with srcRest := r } [.next v, .complete] h
      have h0 : w.SameFrame { w with srcRest := r } := ⟨rfl, rfl, rfl, rfl, rfl, rfl⟩
      exact ⟨h0.trans hb.1, by simpa [hr, relayFuture] using hb.2.1⟩
    | err e =>
      cases res with
      | true =>
        have hb := TW.push_bare { w with srcRest := r } [.error e] h
        have h0 : w.SameFrame { w with srcRest := r } := ⟨rfl, rfl, rfl, rfl, rfl, rfl⟩
        exact ⟨h0.trans hb.1, by simpa [hr, relayFuture] using hb.2.1⟩
      | false =>
        have hb := TW.push_bare { w with srcRest := r } [.next (.int e), .complete] h
        have h0 : w.SameFrame { w with srcRest := r } := ⟨rfl, rfl, rfl, rfl, rfl, rfl⟩
        exact ⟨h0.trans hb.1, by simpa [hr, relayFuture] using hb.2.1⟩

/-- The executor polls an async task `n` times (as often and whenever it likes;
    a task that answered `Ready` is not polled again): the world afterwards and
    whether the task has finished. -/
def drivePolls (poll : TW → TW × AOut) : Nat → TW → TW × Bool
  | 0, w => (w, false)
  | n + 1, w =>
    match poll w with
    | (w1, .pending _) => drivePolls poll n w1
    | (w1, _) => (w1, true)

theorem drivePolls_ok (relay : List AStep → List Notif) (good : List AStep → Bool)
    (poll : TW → TW × AOut) (hp : ∀ w, w.stages = [] → PollOK relay good w (poll w)) :
    ∀ (n : Nat) (w : TW), w.stages = [] →
      w.SameFrame (drivePolls poll n w).1 ∧
      ((drivePolls poll n w).2 = true → (drivePolls poll n w).1.log = w.log ++ relay w.srcRest) ∧
      ((drivePolls poll n w).2 = false →
        (drivePolls poll n w).1.log ++ relay (drivePolls poll n w).1.srcRest = w.log ++ relay w.srcRest) := by
  intro n
  induction n with
  | zero => intro w _; exact ⟨TW.SameFrame.refl w, by simp [drivePolls], by simp [drivePolls]⟩
  | succ n ih =>
    intro w h
    have hw := hp w h
    unfold drivePolls
    revert hw
    generalize poll w = r
    obtain ⟨w1, o⟩ := r
    intro hw
    obtain ⟨h1, h2⟩ := hw
    cases o with
    | done => exact ⟨h1, fun _ => h2, by simp⟩
    | exhausted => exact absurd h2 id
    | pending wk =>
      dsimp only at h1 h2
      have h1' : w1.stages = [] := by rw [h1.stages]; exact h
      obtain ⟨i1, i2, i3⟩ := ih w1 h1'
      refine ⟨h1.trans i1, ?_, ?_⟩
      · intro hd; rw [i2 hd, h2.1]
      · intro hd; rw [i3 hd, h2.1]

theorem drivePolls_complete (relay : List AStep → List Notif) (good : List AStep → Bool)
    (poll : TW → TW × AOut) (hp : ∀ w, w.stages = [] → PollOK relay good w (poll w)) :
    ∀ (n : Nat) (w : TW), w.stages = [] → good w.srcRest = true → pendings w.srcRest < n →
      (drivePolls poll n w).2 = true := by
  intro n
  induction n with
  | zero => intro w _ _ hn; exact absurd hn (Nat.not_lt_zero _)
  | succ n ih =>
    intro w h hg hn
    have hw := hp w h
    unfold drivePolls
    revert hw
    generalize poll w = r
    obtain ⟨w1, o⟩ := r
    intro hw
    obtain ⟨h1, h2⟩ := hw
    cases o with
    | done => rfl
    | exhausted => exact absurd h2 id
    | pending wk =>
      dsimp only at h1 h2
      have h1' : w1.stages = [] := by rw [h1.stages]; exact h
      obtain ⟨_, g2, g3⟩ := h2.2 hg
      exact ih w1 h1' g2 (by omega)

end Rx.T

namespace Rx.T

/-- `Remote::poll` of a task spawned with `schedule(task, None)` that is neither
    finished nor a RepeatTask: cancelled → finished without running the body;
    otherwise the body is polled. -/
theorem pollPre_plain (s : Sched) (k : TaskId) (t : Task) (hk : s.tasks[k]? = some t)
    (hd : t.done = false) (hod : t.outerDelay = none) (hot : t.outerTimer = none)
    (hr : t.rep = none) :
    s.pollPre k =
      if t.keepRunning then (s.setTask k { t with woken := false, outerTimer := none }, .runOnce t.body)
      else (s.setTask k { t with woken := false, done := true }, .none) := by
  unfold Sched.pollPre
  simp only [hk, hd, Bool.false_eq_true, if_false]
  cases hkr : t.keepRunning <;> simp [hod, hot, hr]

end Rx.T

namespace Rx.T

theorem pollStream_finished (res cyc : Bool) (script : List AStep) (f : Nat) (w : TW)
    (h : fin w.stages = true) :
    (TW.pollStream res script cyc (f + 1) w).2 = .done ∧
    (TW.pollStream res script cyc (f + 1) w).1.log = w.log ∧
    (TW.pollStream res script cyc (f + 1) w).1.pulls = w.pulls ∧
    (TW.pollStream res script cyc (f + 1) w).1.sched = w.sched := by
  simp [TW.pollStream, streamLap_finished res w.srcRest w h]

/-- What `pollTask` does after `pollPre` answered `runOnce` for an async body. -/
def TW.afterAsync (w : TW) (k : TaskId) (b : Body) : TW :=
  match w.runAsync b with
  | (w1, .pending wk) => { w1 with sched := w1.sched.stayPending k wk }
  | (w1, _) => { w1 with sched := w1.sched.finishOnce k }

theorem afterAsync_stream_finished (w : TW) (k : TaskId) (t1 : Task) (res cyc : Bool)
    (script : List AStep) (hsrc : w.src = .stream res script cyc)
    (hk : w.sched.tasks[k]? = some t1) (hfin : fin w.stages = true) :
    ∃ t', (w.afterAsync k .streamSrc).sched.tasks[k]? = some t' ∧ t'.done = true ∧
      (w.afterAsync k .streamSrc).log = w.log := by
  obtain ⟨r1, r2, _, r4⟩ := pollStream_finished res cyc script 9999 w hfin
  unfold TW.afterAsync
  simp only [TW.runAsync, hsrc]
  rw [show (10000 : Nat) = 9999 + 1 from rfl]
  revert r1 r2 r4
  generalize TW.pollStream res script cyc (9999 + 1) w = r
  obtain ⟨w1, o⟩ := r
  intro r1 r2 r4
  dsimp only at r1 r2 r4
  subst r1
  refine ⟨{ t1 with done := true, hasValue := true }, ?_, rfl, r2⟩
  simp [Sched.finishOnce, r4, hk, Sched.setTask_get_self _ _ _ _ hk]

end Rx.T
