import RxModel.Lemmas.ChainFifoSubDisc
/-
  C07 over chains with several time stages, part 4: the world-level moves.

  * `TW.push_zeroF`: the source hands notifications to stage 0;
  * `TW.push_stepF` / `TW.setStage_stepF`: stage `j` changes its state (and emits);
  * `TW.runBody_stepF`: the body of a stage task (slot call of a mover, debounce_task,
    throttle_task); for the slot call of the mover at position `j` the notification
    must be the head of the pending list of `j`;
  * `pollPost`: `TW.pollTask` as a function of what `pollPre` answers.
-/
namespace Rx.T
open Rx Rx.Spec

variable {kd : Nat → Option (Option Nat)}

namespace TW

theorem push_zeroF (w : TW) (ns : List Notif) (hk : Kinds kd 0 w.stages) :
    Frame kd 0 w.sched (w.push 0 ns).sched ∧ Kinds kd 0 (w.push 0 ns).stages ∧
      ∀ up, ChainF (pendOf w.sched) 0 up w.stages w.log →
        ChainF (pendOf (w.push 0 ns).sched) 0 (up ++ ns) (w.push 0 ns).stages (w.push 0 ns).log := by
  have hf := cascadeF_frame (kd := kd) ((w.stages.length + 1) * (ns.length + 8) * 64 + 1000)
    w.stages 0 ns w.sched hk
  have hc := cascadeF_subF ((w.stages.length + 1) * (ns.length + 8) * 64 + 1000) w.stages 0 ns w.sched
  have e : w.push 0 ns = { w with
      stages := (cascadeF ((w.stages.length + 1) * (ns.length + 8) * 64 + 1000) w.stages 0 ns w.sched).1,
      sched := (cascadeF ((w.stages.length + 1) * (ns.length + 8) * 64 + 1000) w.stages 0 ns w.sched).2.2,
      log := w.log ++ (cascadeF ((w.stages.length + 1) * (ns.length + 8) * 64 + 1000) w.stages 0 ns w.sched).2.1 } := by
    simp [push, cascade]
  rw [e]
  exact ⟨hf.1, hk.of_map hf.2, fun up h => (hc up w.log h).1⟩

theorem push_stepF (w : TW) (j : Nat) (st st' : Stage) (ns : List Notif)
    (hj : w.stages[j]? = some st) (hdl : dlOf st' = dlOf st) (hk : Kinds kd 0 w.stages) :
    Frame kd (j + 1) w.sched ((w.setStage j st').push (j + 1) ns).sched ∧
      Kinds kd 0 ((w.setStage j st').push (j + 1) ns).stages ∧
      ∀ up (P' : Nat → List Notif), ChainF (pendOf w.sched) 0 up w.stages w.log →
        (∀ i, (P' i).Sublist (pend i ((w.setStage j st').push (j + 1) ns).sched)) →
        (∀ inp out, SubF (pend j w.sched) st inp out → SubF (P' j) st' inp (out ++ ns)) →
        ChainF P' 0 up ((w.setStage j st').push (j + 1) ns).stages ((w.setStage j st').push (j + 1) ns).log := by
  have hlt : j < w.stages.length := Sched.get_lt hj
  have hd : (w.stages.set j st').drop (j + 1) = w.stages.drop (j + 1) := by
    rw [List.drop_set]; simp
  have ht : (w.stages.set j st').take (j + 1) = w.stages.take j ++ [st'] :=
    take_succ_set _ j st' hlt
  have hf := cascadeF_frame (kd := kd)
    (((w.stages.drop (j + 1)).length + 1) * (ns.length + 8) * 64 + 1000)
    (w.stages.drop (j + 1)) (j + 1) ns w.sched (hk.drop (j + 1))
  have hc := cascadeF_subF (((w.stages.drop (j + 1)).length + 1) * (ns.length + 8) * 64 + 1000)
    (w.stages.drop (j + 1)) (j + 1) ns w.sched
  rw [push_eq]
  simp only [setStage_stages, hd, ht, List.append_assoc, List.singleton_append]
  have hsched : (w.setStage j st').sched = w.sched := rfl
  have hlog : (w.setStage j st').log = w.log := rfl
  rw [hsched, hlog]
  refine ⟨hf.1, ?_, ?_⟩
  · refine hk.of_map ?_
    conv => rhs; rw [split_atF hj]
    simp only [List.map_append, List.map_cons, hdl]
    congr 2
    exact hf.2
  · intro up P' h hP' hok
    refine ChainF.modify (P := pendOf w.sched) h hj ?_ hok ?_
    · intro i hi
      exact (hP' i).trans (hf.1.pwLe i (by omega)).sublist
    · intro out hpost
      exact (hc out w.log hpost).1.anti (fun i _ => hP' i)

theorem setStage_stepF (w : TW) (j : Nat) (st st' : Stage)
    (hj : w.stages[j]? = some st) (hdl : dlOf st' = dlOf st) (hk : Kinds kd 0 w.stages) :
    Kinds kd 0 (w.setStage j st').stages ∧
      ∀ up (P' : Nat → List Notif), ChainF (pendOf w.sched) 0 up w.stages w.log →
        (∀ i, (P' i).Sublist (pend i w.sched)) →
        (∀ inp out, SubF (pend j w.sched) st inp out → SubF (P' j) st' inp out) →
        ChainF P' 0 up (w.setStage j st').stages w.log := by
  have hlt : j < w.stages.length := Sched.get_lt hj
  have e : w.stages.set j st' = w.stages.take j ++ st' :: w.stages.drop (j + 1) := by
    rw [List.set_eq_take_append_cons_drop, if_pos hlt]
  rw [setStage_stages, e]
  constructor
  · refine hk.of_map ?_
    conv => rhs; rw [split_atF hj]
    simp only [List.map_append, List.map_cons, hdl]
  · intro up P' h hP' hok
    refine ChainF.modify (P := pendOf w.sched) (ns := []) h hj (fun i _ => hP' i)
      (fun inp out ho => by simpa using hok inp out ho) ?_
    intro out hpost
    simpa using hpost.anti (fun i _ => hP' i)

/-- What the body of a stage task leaves alone. -/
theorem runBody_static (w : TW) (b : Body) (hb : b.rate = true) :
    (w.runBody b).src = w.src ∧ (w.runBody b).subscribed = w.subscribed ∧
      (w.runBody b).srcSubscribed = w.srcSubscribed ∧ (w.runBody b).terminated = w.terminated := by
  cases b <;> simp [Body.rate] at hb <;> (simp only [TW.runBody]; repeat' split) <;>
    (refine ⟨?_, ?_, ?_, ?_⟩ <;> rfl)

/-- The conclusion of `runBody_stepF`. -/
def BodyStep (kd : Nat → Option (Option Nat)) (b : Body) (w w' : TW) : Prop :=
  Frame kd 0 w.sched w'.sched ∧ Kinds kd 0 w'.stages ∧
    (∀ j n, b = .emit j n → ∀ i, i ≤ j → PwLe i w.sched w'.sched) ∧
    ∀ up (P' : Nat → List Notif), ChainF (pendOf w.sched) 0 up w.stages w.log →
      (∀ i, (P' i).Sublist (pend i w'.sched)) →
      (∀ j n dl, b = .emit j n → kd j = some dl →
        ∃ rest, pend j w.sched = n :: rest ∧ (P' j).Sublist rest) →
      ChainF P' 0 up w'.stages w'.log

theorem BodyStep.refl (b : Body) (w : TW) (hk : Kinds kd 0 w.stages) : BodyStep kd b w w :=
  ⟨Frame.refl _ _, hk, fun _ _ _ _ _ => PwLe.refl _ _, fun _ _ h hP' _ => h.anti (fun i _ => hP' i)⟩

/-- The slot call of a mover: the notification leaves the pending list and goes downstream. -/
theorem mover_step (w : TW) (j : Nat) (n : Notif) (st st' : Stage) (hj : w.stages[j]? = some st)
    (hm : (∃ d a m, st = .delay d a m) ∨ (∃ a m, st = .observeOn a m))
    (hm' : (∃ d a m, st' = .delay d a m) ∨ (∃ a m, st' = .observeOn a m))
    (hdl : dlOf st' = dlOf st) (hk : Kinds kd 0 w.stages) :
    BodyStep kd (.emit j n) w ((w.setStage j st').push (j + 1) [n]) := by
  obtain ⟨hf, hkk, hc⟩ := push_stepF (kd := kd) w j st st' [n] hj hdl hk
  refine ⟨hf.mono (Nat.zero_le _), hkk, ?_, ?_⟩
  · intro j' n' e i hi
    cases e
    exact hf.pwLe i (by omega)
  · intro up P' h hP' hfirst
    have hkj : kd j = dlOf st := by
      have := hk j st hj
      simpa using this.symm
    obtain ⟨dl, hdl'⟩ : ∃ dl, kd j = some dl := by
      rcases hm with ⟨d, a, m, rfl⟩ | ⟨a, m, rfl⟩
      · exact ⟨_, hkj⟩
      · exact ⟨_, hkj⟩
    obtain ⟨rest, hp, hr⟩ := hfirst j n dl rfl hdl'
    refine hc up P' h hP' ?_
    intro inp out hs
    have key : (items out ++ items (pend j w.sched)).Sublist (items inp) →
        (items (out ++ [n]) ++ items (P' j)).Sublist (items inp) := by
      intro hs
      rw [hp] at hs
      have e : items (n :: rest) = items [n] ++ items rest := by
        rw [← items_append]; rfl
      rw [e, ← List.append_assoc, ← items_append] at hs
      exact (List.Sublist.append (List.Sublist.refl _) (items_sublistF hr)).trans hs
    rcases hm with ⟨d, a, m, rfl⟩ | ⟨a, m, rfl⟩ <;> rcases hm' with ⟨d', a', m', rfl⟩ | ⟨a', m', rfl⟩ <;>
      exact key hs

/-- The slot is empty: the notification is dropped. -/
theorem mover_drop (w : TW) (j : Nat) (n : Notif) (hk : Kinds kd 0 w.stages) :
    BodyStep kd (.emit j n) w w := by
  refine ⟨Frame.refl _ _, hk, fun _ _ _ i _ => PwLe.refl _ _, ?_⟩
  intro up P' h hP' _
  exact h.anti (fun i _ => hP' i)

theorem runBody_stepF (w : TW) (b : Body) (hb : b.rate = true) (hk : Kinds kd 0 w.stages) :
    BodyStep kd b w (w.runBody b) := by
  cases b with
  | emit j n =>
    simp only [runBody]
    split
    · next d alive multi hj =>
      split
      · cases hn : n.isTerm with
        | true =>
          simp only [if_true]
          exact mover_step w j n _ _ hj (Or.inl ⟨_, _, _, rfl⟩) (Or.inl ⟨_, _, _, rfl⟩) rfl hk
        | false =>
          simp only [Bool.false_eq_true, if_false]
          have := mover_step (kd := kd) w j n _ (.delay d alive multi) hj (Or.inl ⟨_, _, _, rfl⟩)
            (Or.inl ⟨_, _, _, rfl⟩) rfl hk
          rwa [setStage_same w j _ hj] at this
      · exact mover_drop w j n hk
    · next alive multi hj =>
      split
      · cases hn : n.isTerm with
        | true =>
          simp only [if_true]
          exact mover_step w j n _ _ hj (Or.inr ⟨_, _, rfl⟩) (Or.inr ⟨_, _, rfl⟩) rfl hk
        | false =>
          simp only [Bool.false_eq_true, if_false]
          have := mover_step (kd := kd) w j n _ (.observeOn alive multi) hj (Or.inr ⟨_, _, rfl⟩)
            (Or.inr ⟨_, _, rfl⟩) rfl hk
          rwa [setStage_same w j _ hj] at this
      · exact mover_drop w j n hk
    · exact mover_drop w j n hk
  | debounce j =>
    simp only [runBody]
    split
    · next d alive v h hj =>
      split
      · obtain ⟨hf, hkk, hc⟩ := push_stepF (kd := kd) w j _ (.debounce d alive none h) [.next v] hj rfl hk
        refine ⟨hf.mono (Nat.zero_le _), hkk, (fun _ _ e => by cases e), ?_⟩
        intro up P' hch hP' _
        exact hc up P' hch hP'
          (fun inp out (hs : (items out ++ [v]).Sublist (items inp)) =>
            show (items (out ++ [Notif.next v]) ++ []).Sublist (items inp) by
              simpa [items_append, items] using hs)
      · obtain ⟨hkk, hc⟩ := setStage_stepF (kd := kd) w j _ (.debounce d alive none h) hj rfl hk
        refine ⟨Frame.refl _ _, hkk, (fun _ _ e => by cases e), ?_⟩
        intro up P' hch hP' _
        exact hc up P' hch hP'
          (fun inp out (hs : (items out ++ [v]).Sublist (items inp)) =>
            show (items out ++ []).Sublist (items inp) by simpa using subF_left hs)
    · exact BodyStep.refl _ w hk
  | throttle j =>
    simp only [runBody]
    split
    · next d e alive v h hj =>
      split
      · obtain ⟨hf, hkk, hc⟩ := push_stepF (kd := kd) w j _ (.throttle d e alive none h) [.next v] hj rfl hk
        refine ⟨hf.mono (Nat.zero_le _), hkk, (fun _ _ e => by cases e), ?_⟩
        intro up P' hch hP' _
        exact hc up P' hch hP'
          (fun inp out (hs : (items out ++ [v]).Sublist (items inp)) =>
            show (items (out ++ [Notif.next v]) ++ []).Sublist (items inp) by
              simpa [items_append, items] using hs)
      · obtain ⟨hkk, hc⟩ := setStage_stepF (kd := kd) w j _ (.throttle d e alive none h) hj rfl hk
        refine ⟨Frame.refl _ _, hkk, (fun _ _ e => by cases e), ?_⟩
        intro up P' hch hP' _
        exact hc up P' hch hP'
          (fun inp out (hs : (items out ++ [v]).Sublist (items inp)) =>
            show (items out ++ []).Sublist (items inp) by simpa using subF_left hs)
    · exact BodyStep.refl _ w hk
  | _ => simp [Body.rate] at hb

end TW

/-! ### `pollTask` as a function of the answer of `pollPre` -/

def pollPost (w : TW) (k : TaskId) : Sched × Sched.Poll → TW
  | (s1, .none) => { w with sched := s1 }
  | (s1, .runOnce b) =>
      if b.isAsync then
        match ({ w with sched := s1 } : TW).runAsync b with
        | (w1, .pending wk) => { w1 with sched := w1.sched.stayPending k wk }
        | (w1, _) => { w1 with sched := w1.sched.finishOnce k }
      else
        { ({ w with sched := s1 } : TW).runBody b with
          sched := (({ w with sched := s1 } : TW).runBody b).sched.finishOnce k }
  | (s1, .runTick b seq) =>
      if (({ w with sched := s1 } : TW).runTick b seq).2 then
        { (({ w with sched := s1 } : TW).runTick b seq).1 with
          sched := (({ w with sched := s1 } : TW).runTick b seq).1.sched.continueRepeat k }
      else
        { (({ w with sched := s1 } : TW).runTick b seq).1 with
          sched := (({ w with sched := s1 } : TW).runTick b seq).1.sched.finishOnce k }

theorem pollTask_eq (w : TW) (k : TaskId) : w.pollTask k = pollPost w k (w.sched.pollPre k) := by
  unfold TW.pollTask pollPost
  rcases w.sched.pollPre k with ⟨s1, p⟩
  cases p <;> rfl

theorem rate_not_async {b : Body} (h : b.rate = true) : b.isAsync = false := by
  cases b <;> first | rfl | (simp [Body.rate] at h)

theorem pollPost_once (w : TW) (k : TaskId) (s1 : Sched) (b : Body) (hb : b.rate = true) :
    pollPost w k (s1, .runOnce b) =
      { ({ w with sched := s1 } : TW).runBody b with
          sched := (({ w with sched := s1 } : TW).runBody b).sched.finishOnce k } := by
  simp only [pollPost, rate_not_async hb, Bool.false_eq_true, if_false]

theorem PwLe.finishOnce_both {i : Nat} {s s' : Sched} (h : PwLe i s s') (k : TaskId) :
    PwLe i (s.finishOnce k) (s'.finishOnce k) := by
  intro k' t' n hk' he
  by_cases e : k' = k
  · subst e
    cases hs : s'.tasks[k']? with
    | none =>
      have := Sched.get_lt hk'
      rw [Sched.finishOnce_length] at this
      rw [List.getElem?_eq_none_iff] at hs
      omega
    | some t0 =>
      rw [Sched.finishOnce_get_self _ _ _ hs] at hk'
      cases hk'
      have := (Elig_eq_some.mp he).2.1
      simp at this
  · rw [Sched.finishOnce_get_ne _ _ _ e] at hk'
    obtain ⟨t, ht, het⟩ := h k' t' n hk' he
    exact ⟨t, by rw [Sched.finishOnce_get_ne _ _ _ e]; exact ht, het⟩

end Rx.T
