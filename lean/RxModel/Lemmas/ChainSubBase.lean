import RxModel.Sched.Chain
import RxModel.Lemmas.Multi
import RxModel.Lemmas.ChainSubOps
import RxModel.Lemmas.ChainRateOps
/-
  C09 over whole chains, part 2: vocabulary.

  * `Stage.Sub9 st inp out`: the stage `st` is consistent with having received
    `inp` and emitted `out` so far (ghost histories) in the sense of C09: the
    items it emitted, followed by what it still holds (operator buffer, trailing
    value, time buffer), are a sublist of the items it received.  Only the
    filtering single-input observers, debounce, throttle and buffer_with_time
    have such a relation — for every other stage it is `False`;
  * `Chain9 up stages log`: like `Chain` of ChainWFBase.lean — every stage has
    processed a sublist of what its upstream emitted (the cascade may drop
    notifications when its fuel runs out);
  * extraction: without a time buffer `items log ⊑ items up`; with exactly one,
    `released log ⊑ items up`.
-/
namespace Rx.T
open Rx Rx.Spec

/-! ### list facts -/

theorem items_sublist {a b : List Notif} (h : a.Sublist b) : (items a).Sublist (items b) := by
  induction h with
  | slnil => exact List.Sublist.refl _
  | cons x _ ih => cases x <;> simp only [items] <;> first | exact ih | exact ih.trans (List.sublist_cons_self _ _)
  | cons_cons x _ ih => cases x <;> simp only [items] <;> first | exact ih | exact ih.cons_cons _

theorem flatMap_sublist {α β} (f : α → List β) {a b : List α} (h : a.Sublist b) :
    (a.flatMap f).Sublist (b.flatMap f) := by
  induction h with
  | slnil => exact List.Sublist.refl _
  | cons x _ ih =>
    rw [List.flatMap_cons]
    exact ih.trans (List.sublist_append_right _ _)
  | cons_cons x _ ih =>
    rw [List.flatMap_cons, List.flatMap_cons]
    exact List.Sublist.append (List.Sublist.refl _) ih

theorem released_sublist {a b : List Notif} (h : (items a).Sublist (items b)) :
    (released a).Sublist (released b) := flatMap_sublist _ h

theorem sub_right {l t E : List Val} (h : (l ++ t).Sublist E) : t.Sublist E :=
  (List.sublist_append_right l t).trans h

/-! ### stages -/

/-- Consistency of a stage with its ghost input / output histories (C09). -/
def Stage.Sub9 : Stage → List Notif → List Notif → Prop
  | .op1 o, inp, out => o.filtering = true ∧ (items out ++ o.held).Sublist (items inp)
  | .debounce _ _ tr _, inp, out => (items out ++ tr.toList).Sublist (items inp)
  | .throttle _ _ _ tr _, inp, out => (items out ++ tr.toList).Sublist (items inp)
  | .throttleW _ _ _ tr, inp, out => (items out ++ tr.toList).Sublist (items inp)
  | .bufTime _ _ _ data _, inp, out => (released out ++ data).Sublist (items inp)
  | _, _, _ => False

def Stage.isBuf : Stage → Bool
  | .bufTime _ _ _ _ _ => true
  | _ => false

/-- The items a stage without a time buffer emitted are a sublist of those it received. -/
theorem Stage.Sub9.items {st : Stage} {inp out : List Notif} (h : st.Sub9 inp out)
    (hb : st.isBuf = false) : (items out).Sublist (items inp) := by
  cases st with
  | op1 o => exact sub_left h.2
  | debounce d a tr hd => exact sub_left h
  | throttle d e a tr hd => exact sub_left h
  | throttleW d e a tr => exact sub_left h
  | bufTime d c a data t => simp [Stage.isBuf] at hb
  | _ => exact h.elim

/-- A stage with nothing buffered starts consistent with the empty history. -/
def Stage.Start9 (st : Stage) : Prop := st.Sub9 [] []

/-! ### chains -/

/-- `up`: everything handed to the head of `stages` so far; `log`: what reached the probe. -/
def Chain9 : List Notif → List Stage → List Notif → Prop
  | up, [], log => log.Sublist up
  | up, st :: r, log => ∃ inp out, inp.Sublist up ∧ st.Sub9 inp out ∧ Chain9 out r log

theorem Chain9.mono {up up' : List Notif} {stages : List Stage} {log : List Notif}
    (h : Chain9 up stages log) (hs : up.Sublist up') : Chain9 up' stages log := by
  cases stages with
  | nil => exact List.Sublist.trans h hs
  | cons st r =>
    obtain ⟨inp, out, h1, h2, h3⟩ := h
    exact ⟨inp, out, h1.trans hs, h2, h3⟩

theorem Chain9.initial (stages : List Stage) (h : ∀ st ∈ stages, st.Start9) : Chain9 [] stages [] := by
  induction stages with
  | nil => exact List.Sublist.refl _
  | cons st r ih =>
    exact ⟨[], [], List.Sublist.refl _, h st (by simp), ih (fun s hs => h s (by simp [hs]))⟩

/-- A chain can be cut anywhere. -/
theorem Chain9.append_iff (up : List Notif) (pre post : List Stage) (log : List Notif) :
    Chain9 up (pre ++ post) log ↔ ∃ mid, Chain9 up pre mid ∧ Chain9 mid post log := by
  induction pre generalizing up with
  | nil =>
    constructor
    · intro h; exact ⟨up, List.Sublist.refl _, h⟩
    · rintro ⟨mid, h1, h2⟩; exact h2.mono h1
  | cons st r ih =>
    constructor
    · rintro ⟨inp, out, h1, h2, h3⟩
      obtain ⟨mid, h4, h5⟩ := (ih out).mp h3
      exact ⟨mid, ⟨inp, out, h1, h2, h4⟩, h5⟩
    · rintro ⟨mid, ⟨inp, out, h1, h2, h4⟩, h5⟩
      exact ⟨inp, out, h1, h2, (ih out).mpr ⟨mid, h4, h5⟩⟩

theorem split_at {stages : List Stage} {j : Nat} {st : Stage} (hj : stages[j]? = some st) :
    stages = stages.take j ++ st :: stages.drop (j + 1) := by
  have hlt : j < stages.length := by
    rcases Nat.lt_or_ge j stages.length with h' | h'
    · exact h'
    · rw [List.getElem?_eq_none h'] at hj; cases hj
  have h1 : stages.drop j = st :: stages.drop (j + 1) := by
    rw [List.drop_eq_getElem_cons hlt]
    congr 1
    rw [List.getElem?_eq_getElem hlt] at hj
    exact Option.some.inj hj
  conv => lhs; rw [← List.take_append_drop j stages, h1]

/-- Every stage of a chain is one of the kinds that have a `Sub9` relation. -/
theorem Chain9.get {up : List Notif} {stages : List Stage} {log : List Notif} {j : Nat} {st : Stage}
    (h : Chain9 up stages log) (hj : stages[j]? = some st) : ∃ inp out, st.Sub9 inp out := by
  rw [split_at hj] at h
  obtain ⟨mid, _, inp, out, _, h3, _⟩ := (Chain9.append_iff up _ _ log).mp h
  exact ⟨inp, out, h3⟩

/-- Replace the stage at position `j` by one that has emitted `ns` more, and let
    the stages behind it absorb it. -/
theorem Chain9.modify {up : List Notif} {stages : List Stage} {log : List Notif} {j : Nat}
    {st st' : Stage} {ns : List Notif} {post' : List Stage} {log' : List Notif}
    (h : Chain9 up stages log) (hj : stages[j]? = some st)
    (hok : ∀ inp out, st.Sub9 inp out → st'.Sub9 inp (out ++ ns))
    (hpost : ∀ out, Chain9 out (stages.drop (j + 1)) log → Chain9 (out ++ ns) post' log') :
    Chain9 up (stages.take j ++ st' :: post') log' := by
  rw [split_at hj] at h
  obtain ⟨mid, h1, inp, out, h2, h3, h4⟩ := (Chain9.append_iff up _ _ log).mp h
  exact (Chain9.append_iff up _ _ log').mpr ⟨mid, h1, inp, out ++ ns, h2, hok inp out h3, hpost out h4⟩

/-! ### extraction -/

/-- No time buffer in the chain: the items at the probe are a sublist of the items
    handed to the head of the chain. -/
theorem Chain9.items_sublist {up : List Notif} {stages : List Stage} {log : List Notif}
    (h : Chain9 up stages log) (hb : ∀ st ∈ stages, st.isBuf = false) :
    (items log).Sublist (items up) := by
  induction stages generalizing up with
  | nil => exact Rx.T.items_sublist h
  | cons st r ih =>
    obtain ⟨inp, out, h1, h2, h3⟩ := h
    exact ((ih h3 (fun s hs => hb s (by simp [hs]))).trans (h2.items (hb st (by simp)))).trans
      (Rx.T.items_sublist h1)

/-- One time buffer: the concatenation of the buffers at the probe is a sublist of the
    items handed to the head of the chain. -/
theorem Chain9.released_sublist {up : List Notif} {A B : List Stage} {log : List Notif} {st : Stage}
    (h : Chain9 up (A ++ st :: B) log) (hst : st.isBuf = true)
    (hA : ∀ st ∈ A, st.isBuf = false) (hB : ∀ st ∈ B, st.isBuf = false) :
    (released log).Sublist (items up) := by
  obtain ⟨mid, h1, inp, out, h2, h3, h4⟩ := (Chain9.append_iff up _ _ log).mp h
  have s1 := h1.items_sublist hA
  have s2 := h4.items_sublist hB
  cases st with
  | bufTime d cnt alive data task =>
    have s3 : (released out ++ data).Sublist (items inp) := h3
    exact (((Rx.T.released_sublist s2).trans (sub_left s3)).trans (Rx.T.items_sublist h2)).trans s1
  | _ => simp [Stage.isBuf] at hst

/-! ### kinds

  Which positions of the chain hold a time buffer never changes; `Chain9K` records it. -/

def Chain9K (ks : List Bool) (up : List Notif) (stages : List Stage) (log : List Notif) : Prop :=
  stages.map Stage.isBuf = ks ∧ Chain9 up stages log

theorem kinds_all_false {l l0 : List Stage} (h : l.map Stage.isBuf = l0.map Stage.isBuf)
    (h0 : ∀ st ∈ l0, st.isBuf = false) : ∀ st ∈ l, st.isBuf = false := by
  intro st hst
  have : st.isBuf ∈ l0.map Stage.isBuf := by rw [← h]; exact List.mem_map_of_mem hst
  obtain ⟨y, hy, e⟩ := List.mem_map.mp this
  rw [← e]; exact h0 y hy

/-- No time buffer at the start: none now, and `items log ⊑ items up`. -/
theorem Chain9K.items_sublist {stages0 stages : List Stage} {up log : List Notif}
    (h : Chain9K (stages0.map Stage.isBuf) up stages log) (hb : ∀ st ∈ stages0, st.isBuf = false) :
    (items log).Sublist (items up) :=
  h.2.items_sublist (kinds_all_false h.1 hb)

/-- One time buffer at the start: still one, at the same place, and `released log ⊑ items up`. -/
theorem Chain9K.released_sublist {A B stages : List Stage} {st0 : Stage} {up log : List Notif}
    (h : Chain9K ((A ++ st0 :: B).map Stage.isBuf) up stages log) (hst : st0.isBuf = true)
    (hA : ∀ st ∈ A, st.isBuf = false) (hB : ∀ st ∈ B, st.isBuf = false) :
    (released log).Sublist (items up) := by
  obtain ⟨hk, hc⟩ := h
  rw [List.map_append, List.map_cons] at hk
  obtain ⟨A', R, rfl, hA', hR⟩ := List.map_eq_append_iff.mp hk
  obtain ⟨st, B', rfl, hst', hB'⟩ := List.map_eq_cons_iff.mp hR
  exact hc.released_sublist (hst'.trans hst) (kinds_all_false hA' hA) (kinds_all_false hB' hB)

end Rx.T
