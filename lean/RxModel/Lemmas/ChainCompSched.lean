import RxModel.Sched.Chain
import RxModel.Lemmas.Sched
/-
  C07C, part 2: the scheduler of a chain `pre ++ [T] ++ post` is the scheduler of the
  one-stage chain `[T]` with every task body `emit 0 n` renamed to `emit j n`
  (`j` = position of `T`).  `Sched.shift j` is that renaming; every scheduler primitive
  commutes with it.  `Sched.EmitOnly`: all tasks are slot calls of stage 0 (OnceTasks).
-/
set_option linter.unusedSimpArgs false
namespace Rx.T
open Rx

def shiftBody (j : Nat) : Body → Body
  | .emit i n => .emit (i + j) n
  | b => b

def shiftTask (j : Nat) (t : Task) : Task := { t with body := shiftBody j t.body }

namespace Sched

def Poll.shift (j : Nat) : Poll → Poll
  | .none => .none
  | .runOnce b => .runOnce (shiftBody j b)
  | .runTick b seq => .runTick (shiftBody j b) seq

def shift (s : Sched) (j : Nat) : Sched := { s with tasks := s.tasks.map (shiftTask j) }

@[simp] theorem shift_now (s : Sched) (j : Nat) : (s.shift j).now = s.now := rfl
@[simp] theorem shift_timers (s : Sched) (j : Nat) : (s.shift j).timers = s.timers := rfl
@[simp] theorem shift_tasks (s : Sched) (j : Nat) : (s.shift j).tasks = s.tasks.map (shiftTask j) := rfl

theorem shift_get (s : Sched) (j k : Nat) : (s.shift j).tasks[k]? = (s.tasks[k]?).map (shiftTask j) := by
  simp [shift]

theorem shift_dueTimers (s : Sched) (j : Nat) : (s.shift j).dueTimers = s.dueTimers := rfl

theorem shift_timerFired (s : Sched) (j : Nat) (tm : TimerId) : (s.shift j).timerFired tm = s.timerFired tm := rfl

theorem shift_setTask (s : Sched) (j k : Nat) (t : Task) :
    (s.shift j).setTask k (shiftTask j t) = (s.setTask k t).shift j := by
  simp [shift, setTask, List.map_set]

theorem shift_setTimer (s : Sched) (j k : Nat) (t : Timer) :
    (s.shift j).setTimer k t = (s.setTimer k t).shift j := rfl

theorem shift_registerTimer (s : Sched) (j : Nat) (tm : TimerId) :
    (s.shift j).registerTimer tm = (s.registerTimer tm).shift j := by
  unfold registerTimer
  simp only [shift_timers]
  split <;> rfl

theorem shift_newTimer (s : Sched) (j d k : Nat) :
    (s.shift j).newTimer d k = ((s.newTimer d k).1.shift j, (s.newTimer d k).2) := rfl

theorem shift_liveTasks (s : Sched) (j : Nat) : (s.shift j).liveTasks = s.liveTasks := by
  unfold liveTasks
  simp only [shift_tasks, List.length_map]
  apply List.filter_congr
  intro i _
  simp only [List.getElem?_map]
  cases s.tasks[i]? <;> simp [shiftTask]

theorem shift_fire (s : Sched) (j : Nat) (tm : TimerId) : (s.shift j).fire tm = (s.fire tm).shift j := by
  unfold fire
  simp only [shift_timers]
  cases h : s.timers[tm]? with
  | none => rfl
  | some t =>
    simp only
    generalize hs1 : s.setTimer tm { t with fired := true } = s1
    have e0 : (s.shift j).setTimer tm { t with fired := true } = s1.shift j := by rw [← hs1]; rfl
    rw [e0]
    by_cases hr : t.registered = true
    · rw [if_pos hr, if_pos hr, shift_get]
      cases h2 : s1.tasks[t.owner]? with
      | none => rfl
      | some tk => exact shift_setTask _ j t.owner { tk with woken := true }
    · rw [if_neg hr, if_neg hr]

theorem shift_fireAll (j : Nat) (l : List TimerId) : ∀ (s : Sched),
    l.foldl Sched.fire (s.shift j) = (l.foldl Sched.fire s).shift j := by
  induction l with
  | nil => intro s; rfl
  | cons a r ih => intro s; simp only [List.foldl_cons, shift_fire, ih]

theorem shift_finishOnce (s : Sched) (j k : Nat) : (s.shift j).finishOnce k = (s.finishOnce k).shift j := by
  unfold finishOnce
  rw [shift_get]
  cases h : s.tasks[k]? with
  | none => rfl
  | some t => exact shift_setTask s j k { t with done := true, hasValue := true }

theorem shift_scheduleOnce (s : Sched) (j : Nat) (b : Body) (d : Option Nat) :
    (s.shift j).scheduleOnce (shiftBody j b) d = ((s.scheduleOnce b d).1.shift j, (s.scheduleOnce b d).2) := by
  simp [scheduleOnce, shift, shiftTask]

@[simp] theorem shiftTask_done (j : Nat) (t : Task) : (shiftTask j t).done = t.done := rfl
@[simp] theorem shiftTask_keepRunning (j : Nat) (t : Task) : (shiftTask j t).keepRunning = t.keepRunning := rfl
@[simp] theorem shiftTask_outerDelay (j : Nat) (t : Task) : (shiftTask j t).outerDelay = t.outerDelay := rfl
@[simp] theorem shiftTask_outerTimer (j : Nat) (t : Task) : (shiftTask j t).outerTimer = t.outerTimer := rfl
@[simp] theorem shiftTask_rep (j : Nat) (t : Task) : (shiftTask j t).rep = t.rep := rfl
@[simp] theorem shiftTask_body (j : Nat) (t : Task) : (shiftTask j t).body = shiftBody j t.body := rfl

theorem shift_setTask' (s : Sched) (j k : Nat) (t t' : Task) (h : t' = shiftTask j t) :
    (s.shift j).setTask k t' = (s.setTask k t).shift j := by
  subst h; exact shift_setTask s j k t

theorem shift_pollPre (s : Sched) (j k : Nat) :
    (s.shift j).pollPre k = ((s.pollPre k).1.shift j, (s.pollPre k).2.shift j) := by
  refine pollPre_elim s k (motive := fun r => (s.shift j).pollPre k = (r.1.shift j, r.2.shift j))
    ?_ ?_ ?_ ?_ ?_ ?_ ?_ ?_
  · intro h
    simp [pollPre, shift_get, h, Poll.shift]
  · intro t ht hd
    simp [pollPre, shift_get, ht, hd, Poll.shift]
  · intro t ht hd hk
    simp only [pollPre, shift_get, ht, Option.map_some, shiftTask_done, hd, shiftTask_keepRunning, hk,
      Bool.false_eq_true, if_false, Bool.not_false, if_true, Poll.shift]
    exact Prod.ext (shift_setTask' s j k _ _ rfl) rfl
  · intro t d ht hd hk hod
    simp only [pollPre, shift_get, ht, Option.map_some, shiftTask_done, hd, shiftTask_keepRunning, hk,
      Bool.false_eq_true, if_false, Bool.not_true, shiftTask_outerDelay, hod, Poll.shift]
    refine Prod.ext ?_ rfl
    simp only [shift_newTimer, shift_registerTimer, shift_timers]
    exact shift_setTask' _ j k _ _ rfl
  · intro t tm ht hd hk hod hot hf
    simp only [pollPre, shift_get, ht, Option.map_some, shiftTask_done, hd, shiftTask_keepRunning, hk,
      Bool.false_eq_true, if_false, Bool.not_true, shiftTask_outerDelay, hod, shiftTask_outerTimer, hot,
      shift_timerFired, hf, Bool.not_false, if_true, Poll.shift]
    refine Prod.ext ?_ rfl
    simp only [shift_registerTimer]
    exact shift_setTask' _ j k _ _ rfl
  · intro t ht hd hk hod hr hrep
    cases hot : t.outerTimer with
    | none =>
      simp only [pollPre, shift_get, ht, Option.map_some, shiftTask_done, hd, shiftTask_keepRunning, hk,
        Bool.false_eq_true, if_false, Bool.not_true, shiftTask_outerDelay, hod, shiftTask_outerTimer,
        shift_timerFired, shiftTask_rep, hrep, Poll.shift, hot]
      exact Prod.ext (shift_setTask' s j k _ _ rfl) rfl
    | some tm =>
      have hf := hr tm hot
      simp only [pollPre, shift_get, ht, Option.map_some, shiftTask_done, hd, shiftTask_keepRunning, hk,
        Bool.false_eq_true, if_false, Bool.not_true, shiftTask_outerDelay, hod, shiftTask_outerTimer,
        shift_timerFired, shiftTask_rep, hrep, Poll.shift, hot, hf]
      exact Prod.ext (shift_setTask' s j k _ _ rfl) rfl
  · intro t fur iv seq ht hd hk hod hr hrep hff
    cases hot : t.outerTimer with
    | none =>
      simp only [pollPre, shift_get, ht, Option.map_some, shiftTask_done, hd, shiftTask_keepRunning, hk,
        Bool.false_eq_true, if_false, Bool.not_true, shiftTask_outerDelay, hod, shiftTask_outerTimer,
        shift_timerFired, shiftTask_rep, hrep, Poll.shift, hot, hff]
      refine Prod.ext ?_ rfl
      simp only [shift_registerTimer]
      exact shift_setTask' _ j k _ _ rfl
    | some tm =>
      have hf := hr tm hot
      simp only [pollPre, shift_get, ht, Option.map_some, shiftTask_done, hd, shiftTask_keepRunning, hk,
        Bool.false_eq_true, if_false, Bool.not_true, shiftTask_outerDelay, hod, shiftTask_outerTimer,
        shift_timerFired, shiftTask_rep, hrep, Poll.shift, hot, hf, hff]
      refine Prod.ext ?_ rfl
      simp only [shift_registerTimer]
      exact shift_setTask' _ j k _ _ rfl
  · intro t fur iv seq ht hd hk hod hr hrep hff
    cases hot : t.outerTimer with
    | none =>
      simp only [pollPre, shift_get, ht, Option.map_some, shiftTask_done, hd, shiftTask_keepRunning, hk,
        Bool.false_eq_true, if_false, Bool.not_true, shiftTask_outerDelay, hod, shiftTask_outerTimer,
        shift_timerFired, shiftTask_rep, hrep, Poll.shift, hot, hff, if_true]
      exact Prod.ext (shift_setTask' s j k _ _ rfl) rfl
    | some tm =>
      have hf := hr tm hot
      simp only [pollPre, shift_get, ht, Option.map_some, shiftTask_done, hd, shiftTask_keepRunning, hk,
        Bool.false_eq_true, if_false, Bool.not_true, shiftTask_outerDelay, hod, shiftTask_outerTimer,
        shift_timerFired, shiftTask_rep, hrep, Poll.shift, hot, hf, hff, if_true]
      exact Prod.ext (shift_setTask' s j k _ _ rfl) rfl

/-- The list `runLoop` polls. -/
theorem shift_ready (s : Sched) (j : Nat) :
    ((s.shift j).liveTasks.filter fun k => match (s.shift j).tasks[k]? with | some t => t.woken | none => false)
      = (s.liveTasks.filter fun k => match s.tasks[k]? with | some t => t.woken | none => false) := by
  rw [shift_liveTasks]
  apply List.filter_congr
  intro i _
  rw [shift_get]
  cases s.tasks[i]? <;> rfl

/-! ### only slot calls of stage 0 -/

def EmitTask (t : Task) : Prop := (∃ n, t.body = .emit 0 n) ∧ t.rep = none

def EmitOnly (s : Sched) : Prop := ∀ t ∈ s.tasks, EmitTask t

theorem EmitOnly.get {s : Sched} (h : s.EmitOnly) {k : TaskId} {t : Task} (ht : s.tasks[k]? = some t) :
    EmitTask t := h t (List.mem_of_getElem? ht)

theorem EmitOnly.setTask {s : Sched} (h : s.EmitOnly) (k : TaskId) (t : Task) (ht : EmitTask t) :
    (s.setTask k t).EmitOnly := by
  intro t' ht'
  rcases List.mem_or_eq_of_mem_set ht' with h' | h'
  · exact h t' h'
  · subst h'; exact ht

theorem EmitOnly.of_tasks {s s' : Sched} (h : s.EmitOnly) (e : s'.tasks = s.tasks) : s'.EmitOnly := by
  intro t ht; rw [e] at ht; exact h t ht

theorem EmitOnly.registerTimer {s : Sched} (h : s.EmitOnly) (tm) : (s.registerTimer tm).EmitOnly :=
  h.of_tasks (registerTimer_tasks s tm)

theorem EmitOnly.newTimer {s : Sched} (h : s.EmitOnly) (d k) : (s.newTimer d k).1.EmitOnly :=
  h.of_tasks rfl

theorem EmitOnly.now {s : Sched} (h : s.EmitOnly) (n : Nat) : ({ s with now := n } : Sched).EmitOnly :=
  h.of_tasks rfl

theorem EmitOnly.finishOnce {s : Sched} (h : s.EmitOnly) (k) : (s.finishOnce k).EmitOnly := by
  unfold Sched.finishOnce
  split
  · next t ht => exact h.setTask k _ (h.get (t := t) ht)
  · exact h

theorem EmitOnly.fire {s : Sched} (h : s.EmitOnly) (tm) : (s.fire tm).EmitOnly := by
  unfold Sched.fire
  split
  · exact h
  · next t ht =>
    have h1 : (s.setTimer tm { t with fired := true }).EmitOnly := h.of_tasks rfl
    dsimp only
    split
    · split
      · next tk htk => exact h1.setTask _ _ (h1.get (t := tk) htk)
      · exact h1
    · exact h1

theorem EmitOnly.fireAll {s : Sched} (h : s.EmitOnly) (l : List TimerId) :
    (l.foldl Sched.fire s).EmitOnly := by
  induction l generalizing s with
  | nil => exact h
  | cons a r ih => exact ih (h.fire a)

theorem EmitOnly.scheduleOnce {s : Sched} (h : s.EmitOnly) (n : Notif) (d) :
    (s.scheduleOnce (.emit 0 n) d).1.EmitOnly := by
  intro t ht
  simp only [Sched.scheduleOnce, List.mem_append, List.mem_singleton] at ht
  rcases ht with ht | ht
  · exact h t ht
  · subst ht; exact ⟨⟨n, rfl⟩, rfl⟩

/-- Polling a scheduler of slot calls: nothing runs, or one slot call runs. -/
theorem EmitOnly.pollPre {s : Sched} (h : s.EmitOnly) (k) :
    (s.pollPre k).1.EmitOnly ∧ ((s.pollPre k).2 = .none ∨ ∃ n, (s.pollPre k).2 = .runOnce (.emit 0 n)) := by
  refine pollPre_elim s k
    (motive := fun r => r.1.EmitOnly ∧ (r.2 = .none ∨ ∃ n, r.2 = .runOnce (.emit 0 n)))
    ?_ ?_ ?_ ?_ ?_ ?_ ?_ ?_
  · intro _; exact ⟨h, Or.inl rfl⟩
  · intro t _ _; exact ⟨h, Or.inl rfl⟩
  · intro t ht _ _; exact ⟨h.setTask k _ (h.get (t := t) ht), Or.inl rfl⟩
  · intro t d ht _ _ _
    exact ⟨((h.newTimer _ _).registerTimer _).setTask k _ (h.get (t := t) ht), Or.inl rfl⟩
  · intro t tm ht _ _ _ _ _; exact ⟨(h.registerTimer _).setTask k _ (h.get (t := t) ht), Or.inl rfl⟩
  · intro t ht _ _ _ _ _
    obtain ⟨⟨n, hn⟩, hr⟩ := h.get (t := t) ht
    exact ⟨h.setTask k _ ⟨⟨n, hn⟩, hr⟩, Or.inr ⟨n, by rw [hn]⟩⟩
  · intro t fur iv seq ht _ _ _ _ hrep _
    have := (h.get (t := t) ht).2; rw [hrep] at this; cases this
  · intro t fur iv seq ht _ _ _ _ hrep _
    have := (h.get (t := t) ht).2; rw [hrep] at this; cases this

end Sched
end Rx.T
