import RxModel.Lemmas.ChainQuietStage
/-
  C02 / C17 over the chain model, part 4: `Good` survives `Stage.onNotif` and
  `Stage.afterEmit`.
-/
namespace Rx.T
open Rx

theorem set_same' {α} (l : List α) (k : Nat) (x : α) (h : l[k]? = some x) : l.set k x = l := by
  induction l generalizing k with
  | nil => rfl
  | cons y ys ih =>
    cases k with
    | zero => simp at h; simp [h]
    | succ k => simp at h; simp [ih k h]

theorem set_mid' {α} (a c : List α) (b x : α) : (a ++ b :: c).set a.length x = a ++ x :: c := by
  simp

/-- `Reached` survives a change that keeps the subscribe_on handles and their tasks. -/
theorem Reached.frame {r : Option TaskId} {a : Info} {stages stages' : List Stage} {s s' : Sched}
    {l : Nat} (hr : Reached r stages s l) (g : Good r a stages s)
    (hm : stages'.map Stage.subH = stages.map Stage.subH) (hk : SubKeep s s') :
    Reached r stages' s' l := by
  intro i st' h hi hs e
  have h1 : (stages'.map Stage.subH)[i]? = some (some h) := by
    rw [List.getElem?_map, hs]; simp [e]
  rw [hm, List.getElem?_map] at h1
  cases hst : stages[i]? with
  | none => rw [hst] at h1; simp at h1
  | some st =>
    rw [hst] at h1; simp at h1
    exact g.ran_keep hk hst h1 (hr i st h hi hst h1)

section
variable {r : Option TaskId} {a : Info} {stages : List Stage} {s : Sched} {j : Nat}

/-- The result triple of a step at stage `j`. -/
def OnOk (r : Option TaskId) (a : Info) (stages : List Stage) (s : Sched) (j : Nat) (st : Stage)
    (res : Stage × List Notif × Sched) : Prop :=
  Good r a (stages.set j res.1) res.2.2 ∧ StFr st res.1 s res.2.2

theorem onNotif_op1 (o : St1) (n : Notif) (g : Good r a stages s) (hj : stages[j]? = some (.op1 o)) :
    OnOk r a stages s j (.op1 o) ((Stage.op1 o).onNotif j n s) := by
  simp only [Stage.onNotif]
  refine ⟨?_, rfl, rfl, SubKeep.refl _⟩
  exact g.stage_same hj (by simp [Stage.handles]) (by simp [Stage.handles]) rfl trivial
    (Or.inl (fun _ => by simp [Stage.handles, Stage.naOn])) rfl

theorem onNotif_subscribeOn (d : Option Nat) (t : Option TaskId) (n : Notif) (g : Good r a stages s)
    (hj : stages[j]? = some (.subscribeOn d t)) :
    OnOk r a stages s j (.subscribeOn d t) ((Stage.subscribeOn d t).onNotif j n s) := by
  simp only [Stage.onNotif]
  refine ⟨?_, rfl, rfl, SubKeep.refl _⟩
  simp only [set_same' _ _ _ hj]; exact g

theorem onNotif_throttleW (d : Nat) (e : Edge) (al : Bool) (tr : Option Val) (n : Notif)
    (g : Good r a stages s) (hj : stages[j]? = some (.throttleW d e al tr)) :
    OnOk r a stages s j (.throttleW d e al tr) ((Stage.throttleW d e al tr).onNotif j n s) := by
  simp only [Stage.onNotif]
  refine ⟨?_, rfl, rfl, SubKeep.refl _⟩
  simp only [set_same' _ _ _ hj]; exact g

theorem onNotif_op2n (o : St2) (ns : TSrc) (na : Bool) (nt : Option TaskId) (n : Notif)
    (g : Good r a stages s) (hj : stages[j]? = some (.op2n o ns na nt)) :
    OnOk r a stages s j (.op2n o ns na nt) ((Stage.op2n o ns na nt).onNotif j n s) := by
  simp only [Stage.onNotif]
  refine ⟨?_, rfl, rfl, SubKeep.refl _⟩
  have hwf : Stage.wf (.op2n o ns na nt) := g.wf j _ hj
  exact g.stage_same hj (fun h hm => hm) (fun h hm _ _ _ => hm) rfl hwf
    (Or.inl (fun h => by simpa [Stage.handles, Stage.naOn] using h)) rfl

theorem onNotif_bufTime (d : Nat) (c : Option Nat) (al : Bool) (data : List Val) (t : Option TaskId)
    (n : Notif) (g : Good r a stages s) (hj : stages[j]? = some (.bufTime d c al data t)) :
    OnOk r a stages s j (.bufTime d c al data t) ((Stage.bufTime d c al data t).onNotif j n s) := by
  have key : ∀ al' data', Good r a (stages.set j (.bufTime d c al' data' t)) s := by
    intro al' data'
    exact g.stage_same hj (fun h hm => hm) (fun h hm _ _ _ => hm) rfl trivial
      (Or.inl (fun h => by simpa [Stage.handles, Stage.naOn] using h)) rfl
  cases n with
  | next v =>
    simp only [Stage.onNotif]
    split
    · split
      · split
        · exact ⟨key _ _, rfl, rfl, SubKeep.refl _⟩
        · exact ⟨key _ _, rfl, rfl, SubKeep.refl _⟩
      · exact ⟨key _ _, rfl, rfl, SubKeep.refl _⟩
    · exact ⟨key _ _, rfl, rfl, SubKeep.refl _⟩
  | error e => simp only [Stage.onNotif]; exact ⟨key _ _, rfl, rfl, SubKeep.refl _⟩
  | complete => simp only [Stage.onNotif]; exact ⟨key _ _, rfl, rfl, SubKeep.refl _⟩

theorem onNotif_delay (d : Nat) (al : Bool) (m : Option (List TaskId)) (n : Notif)
    (g : Good r a stages s) (hj : stages[j]? = some (.delay d al m)) (hr : Reached r stages s j) :
    OnOk r a stages s j (.delay d al m) ((Stage.delay d al m).onNotif j n s) := by
  have hwf := g.wf j _ hj
  obtain ⟨l, rfl⟩ : ∃ l, m = some l := by
    cases m with
    | none => simp [Stage.wf] at hwf
    | some l => exact ⟨l, rfl⟩
  have spawn : ∀ n' : Notif,
      Good r a (stages.set j (.delay d al (some (l ++ [s.tasks.length]))))
        (s.scheduleOnce (.emit j n') (some d)).1 ∧
      StFr (.delay d al (some l)) (.delay d al (some (l ++ [s.tasks.length]))) s
        (s.scheduleOnce (.emit j n') (some d)).1 := by
    intro n'
    refine ⟨?_, rfl, rfl, SubKeep.of_append (scheduleOnce_tasks _ _ _)⟩
    exact g.stage_spawn hj (scheduleOnce_tasks _ _ _) rfl rfl rfl rfl
      (by simp [Stage.handles]) (by simp [Stage.handles]) (by simp [Stage.handles]; intros; left; assumption)
      rfl (by simp [Stage.wf]) (hr.mono (Nat.le_succ _)) (Or.inl rfl)
  cases n with
  | next v => exact spawn _
  | complete => exact spawn _
  | error e =>
    simp only [Stage.onNotif]
    refine ⟨?_, rfl, rfl, SubKeep.refl _⟩
    exact g.stage_same hj (fun h hm => hm) (fun h hm _ _ _ => hm) rfl (by simp [Stage.wf])
      (Or.inl (fun h => by simpa [Stage.handles, Stage.naOn] using h)) rfl

theorem onNotif_observeOn (al : Bool) (m : Option (List TaskId)) (n : Notif)
    (g : Good r a stages s) (hj : stages[j]? = some (.observeOn al m)) (hr : Reached r stages s j) :
    OnOk r a stages s j (.observeOn al m) ((Stage.observeOn al m).onNotif j n s) := by
  have hwf := g.wf j _ hj
  obtain ⟨l, rfl⟩ : ∃ l, m = some l := by
    cases m with
    | none => simp [Stage.wf] at hwf
    | some l => exact ⟨l, rfl⟩
  simp only [Stage.onNotif]
  refine ⟨?_, rfl, rfl, SubKeep.of_append (scheduleOnce_tasks _ _ _)⟩
  exact g.stage_spawn hj (scheduleOnce_tasks _ _ _) rfl rfl rfl rfl
    (by simp [Stage.handles, scheduleOnce_id]) (by simp [Stage.handles, scheduleOnce_id])
    (by simp [Stage.handles]; intros; left; assumption)
    rfl (by simp [Stage.wf]) (hr.mono (Nat.le_succ _)) (Or.inl rfl)


theorem cancel_not_live (s : Sched) (h : Nat) (t : Task) (ht : (s.cancel h).tasks[h]? = some t) :
    t.live = false := by
  have hlt : h < s.tasks.length := by simpa using Sched.get_lt ht
  obtain ⟨t0, ht0⟩ : ∃ t0, s.tasks[h]? = some t0 := ⟨s.tasks[h], List.getElem?_eq_getElem hlt⟩
  rw [Sched.cancel_get_self _ _ _ ht0] at ht; cases ht
  simp [Task.live]

theorem onNotif_debounce (d : Nat) (al : Bool) (tr : Option Val) (hd : Option TaskId) (n : Notif)
    (g : Good r a stages s) (hj : stages[j]? = some (.debounce d al tr hd)) (hr : Reached r stages s j) :
    OnOk r a stages s j (.debounce d al tr hd) ((Stage.debounce d al tr hd).onNotif j n s) := by
  cases n with
  | next v =>
    simp only [Stage.onNotif]
    cases hd with
    | none =>
      simp only
      refine ⟨?_, rfl, rfl, SubKeep.of_append (scheduleOnce_tasks _ _ _)⟩
      exact g.stage_spawn hj (scheduleOnce_tasks _ _ _) rfl rfl rfl rfl
        (by simp [Stage.handles, scheduleOnce_id]) (by simp [Stage.handles, scheduleOnce_id])
        (by simp [Stage.handles]) rfl trivial (hr.mono (Nat.le_succ _)) (Or.inl rfl)
    | some h0 =>
      simp only
      obtain ⟨g1, k1⟩ := g.cancel_nonsub hj (h := h0) (by simp [Stage.handles]) rfl
      refine ⟨?_, rfl, rfl, k1.trans (SubKeep.of_append (scheduleOnce_tasks _ _ _))⟩
      refine g1.stage_spawn hj (scheduleOnce_tasks _ _ _) rfl rfl rfl rfl
        (by simp [Stage.handles, scheduleOnce_id]) (by simp [Stage.handles, scheduleOnce_id])
        ?_ rfl trivial ((hr.frame g rfl k1).mono (Nat.le_succ _)) (Or.inl rfl)
      intro h hm t ht hl
      simp only [Stage.handles, Option.toList, List.mem_singleton] at hm
      subst hm
      rw [cancel_not_live _ _ _ ht] at hl; cases hl
  | error e =>
    simp only [Stage.onNotif]
    refine ⟨?_, rfl, rfl, SubKeep.refl _⟩
    exact g.stage_same hj (fun h hm => hm) (fun h hm _ _ _ => hm) rfl trivial
      (Or.inl (fun h => by simpa [Stage.handles, Stage.naOn] using h)) rfl
  | complete =>
    simp only [Stage.onNotif]
    refine ⟨?_, rfl, rfl, SubKeep.refl _⟩
    exact g.stage_same hj (fun h hm => hm) (fun h hm _ _ _ => hm) rfl trivial
      (Or.inl (fun h => by simpa [Stage.handles, Stage.naOn] using h)) rfl

/-- Cancel the handler cell of a throttle stage and empty it. -/
theorem throttle_term (d : Nat) (e : Edge) (al : Bool) (tr : Option Val) (hd : Option TaskId)
    (al' : Bool) (tr' : Option Val)
    (g : Good r a stages s) (hj : stages[j]? = some (.throttle d e al tr hd)) :
    Good r a (stages.set j (.throttle d e al' tr' none))
        (match (generalizing := false) hd with | some h => s.cancel h | none => s) ∧
      SubKeep s (match (generalizing := false) hd with | some h => s.cancel h | none => s) := by
  cases hd with
  | none =>
    simp only
    refine ⟨?_, SubKeep.refl _⟩
    exact g.stage_same hj (fun h hm => hm) (fun h hm _ _ _ => hm) rfl trivial
      (Or.inl (fun _ => ⟨rfl, rfl⟩)) rfl
  | some h0 =>
    simp only
    obtain ⟨g1, k1⟩ := g.cancel_nonsub hj (h := h0) (by simp [Stage.handles]) rfl
    refine ⟨?_, k1⟩
    refine g1.stage_same hj (by simp [Stage.handles]) ?_ rfl trivial (Or.inl (fun _ => ⟨rfl, rfl⟩)) rfl
    intro h hm t ht hl
    simp only [Stage.handles, Option.toList, List.mem_singleton] at hm
    subst hm
    rw [cancel_not_live _ _ _ ht] at hl; cases hl

theorem onNotif_throttle (d : Nat) (e : Edge) (al : Bool) (tr : Option Val) (hd : Option TaskId)
    (n : Notif)
    (g : Good r a stages s) (hj : stages[j]? = some (.throttle d e al tr hd)) :
    OnOk r a stages s j (.throttle d e al tr hd) ((Stage.throttle d e al tr hd).onNotif j n s) := by
  cases n with
  | next v =>
    have same : ∀ tr', Good r a (stages.set j (.throttle d e al tr' hd)) s := fun tr' =>
      g.stage_same hj (fun h hm => hm) (fun h hm _ _ _ => hm) rfl trivial
        (Or.inl (fun h => by simpa [Stage.handles, Stage.naOn] using h)) rfl
    cases hd with
    | none =>
      simp only [Stage.onNotif, if_true]
      refine ⟨?_, rfl, rfl, SubKeep.refl _⟩
      exact g.stage_same hj (by simp [Stage.handles]) (by simp [Stage.handles]) rfl trivial
        (Or.inl (fun _ => ⟨rfl, rfl⟩)) rfl
    | some h0 =>
      simp only [Stage.onNotif]
      by_cases hc : s.handleClosed h0 = true
      · rw [if_pos hc]
        refine ⟨?_, rfl, rfl, SubKeep.refl _⟩
        refine g.stage_same hj (by simp [Stage.handles]) ?_ rfl trivial (Or.inl (fun _ => ⟨rfl, rfl⟩)) rfl
        intro h hm t ht hl
        simp only [Stage.handles, Option.toList, List.mem_singleton] at hm
        subst hm
        obtain ⟨t', ht', hv⟩ := (handleClosed_iff s h).1 hc
        rw [ht] at ht'; cases ht'
        have := g.hv h t ht hv
        simp [Task.live, this] at hl
      · rw [if_neg hc]
        exact ⟨same _, rfl, rfl, SubKeep.refl _⟩
  | error er =>
    simp only [Stage.onNotif]
    obtain ⟨g1, k1⟩ := throttle_term d e al tr hd false tr g hj
    exact ⟨g1, rfl, rfl, k1⟩
  | complete =>
    simp only [Stage.onNotif]
    obtain ⟨g1, k1⟩ := throttle_term d e al tr hd false none g hj
    exact ⟨g1, rfl, rfl, k1⟩

theorem onNotif_good (st : Stage) (n : Notif) (g : Good r a stages s) (hj : stages[j]? = some st)
    (hr : Reached r stages s j) : OnOk r a stages s j st (st.onNotif j n s) := by
  cases st with
  | op1 o => exact onNotif_op1 o n g hj
  | delay d al m => exact onNotif_delay d al m n g hj hr
  | observeOn al m => exact onNotif_observeOn al m n g hj hr
  | subscribeOn d t => exact onNotif_subscribeOn d t n g hj
  | debounce d al tr hd => exact onNotif_debounce d al tr hd n g hj hr
  | throttle d e al tr hd => exact onNotif_throttle d e al tr hd n g hj
  | throttleW d e al tr => exact onNotif_throttleW d e al tr n g hj
  | bufTime d c al data t => exact onNotif_bufTime d c al data t n g hj
  | op2n o ns na nt => exact onNotif_op2n o ns na nt n g hj

theorem afterEmit_good (st : Stage) (g : Good r a stages s) (hj : stages[j]? = some st)
    (hr : Reached r stages s j) :
    Good r a (stages.set j (st.afterEmit j s).1) (st.afterEmit j s).2 ∧
      StFr st (st.afterEmit j s).1 s (st.afterEmit j s).2 := by
  cases st with
  | throttleW d e al tr =>
    simp only [Stage.afterEmit]
    refine ⟨?_, rfl, rfl, SubKeep.of_append (scheduleOnce_tasks _ _ _)⟩
    exact g.stage_spawn hj (scheduleOnce_tasks _ _ _) rfl rfl rfl rfl
      (by simp [Stage.handles, scheduleOnce_id]) (by simp [Stage.handles, scheduleOnce_id])
      (by simp [Stage.handles]) rfl trivial (hr.mono (Nat.le_succ _)) (Or.inl rfl)
  | _ =>
    simp only [Stage.afterEmit]
    refine ⟨?_, rfl, rfl, SubKeep.refl _⟩
    simp only [set_same' _ _ _ hj]; exact g

end
end Rx.T
