import RxModel.Lemmas.ChainFifoDelayLoop
/-
  C07 (FIFO clause), part 2c: `delay d` — the closed-form description (`Ghost`)
  of what the model delivers, and the proof that the abstract machine `DA`
  (hence, by Lemmas/ChainFifoDelaySim.lean, the chain model) follows it.

  `Ghost` only stamps the gated script with clock values:
    te = clock at emission, ta = clock at the first `run` after the emission
    (the task's first poll: the delay timer is created THEN, due at ta + d),
    horizon = clock at the latest `run` (frozen once the source has failed).
  Delivered = the stamps with `ta + d ≤ horizon`, then the error if the source failed:
  `delay` forwards an error at once and closes its slot, which cuts off the items still pending.
-/
namespace Rx.T.Del
open Rx Rx.T

structure Ghost where
  clock : Nat := 0
  term : Bool := false          -- a terminal has been emitted on subject 0
  q : List Stamp := []          -- the gated script (without a final error), stamped
  err : Option Err := none      -- the error that ended the script
  horizon : Nat := 0            -- clock at the latest `run` (before the error, if any)

def Stamp.arm (c : Nat) (s : Stamp) : Stamp := { s with ta := some (s.ta.getD c) }

def Ghost.step (g : Ghost) : TW.Ev → Ghost
  | .emit i n =>
    if i ≠ 0 ∨ g.term then g
    else match n with
      | .error e => { g with term := true, err := some e }
      | n => { g with term := n.isTerm, q := g.q ++ [⟨n, g.clock, none⟩] }
  | .adv k => { g with clock := g.clock + k }
  | .run => if g.err.isSome then g else { g with q := g.q.map (Stamp.arm g.clock), horizon := g.clock }
  | _ => g

/-- The stamp's timer was armed and its delay was over at a `run` (clock `h`). -/
def Stamp.delivered (d h : Nat) (s : Stamp) : Bool :=
  match s.ta with
  | some a => decide (a + d ≤ h)
  | none => false

def Ghost.errPart (g : Ghost) : List Notif :=
  match g.err with
  | some e => [.error e]
  | none => []

/-- What the probe has received. -/
def Ghost.log (d : Nat) (g : Ghost) : List Notif :=
  (g.q.filter (Stamp.delivered d g.horizon)).map (·.n) ++ g.errPart

/-- The state between two events while the source has not failed. -/
structure Quiet (d : Nat) (g : Ghost) (a : DA) (D A : List DE) : Prop where
  core : Core d g.horizon stF g.q a D A
  nd : ∀ e ∈ A, g.horizon < e.ta + d
  hc : g.horizon ≤ g.clock
  term : g.term = terminated (g.q.map (·.n))

def GInv (d : Nat) (g : Ghost) (a : DA) : Prop :=
  a.now = g.clock ∧ a.term = g.term ∧
    ((g.err = none ∧ ∃ D A, Quiet d g a D A) ∨
     (∃ e pre, g.err = some e ∧ a.alive = false ∧ g.term = true ∧ a.log = g.log d ∧
        pre <+: g.q.map (·.n) ∧ a.log = pre ++ [.error e]))

theorem Core.congr {d c : Nat} {sf} {gq : List Stamp} {a : DA} {D A : List DE} (h : Core d c sf gq a D A)
    (a' : DA) (hq : a'.q = a.q) (hF : a'.F = a.F) (hal : a'.alive = a.alive) (hlog : a'.log = a.log) :
    Core d c sf gq a' D A :=
  { q := hq ▸ h.q, gqe := hF ▸ h.gqe, dD := h.dD, dA := h.dA, sorted := h.sorted,
    alive := hal ▸ h.alive, wf := h.wf, log := hlog ▸ h.log }

theorem filter_delivered_quiet (d : Nat) (g : Ghost) (a : DA) (D A : List DE) (h : Quiet d g a D A) :
    (g.q.filter (Stamp.delivered d g.horizon)).map (·.n) = D.map (·.n) := by
  rw [h.core.gqe, List.filter_append, List.filter_append]
  have h1 : (D.map stD).filter (Stamp.delivered d g.horizon) = D.map stD := by
    rw [List.filter_eq_self]
    intro s hs; simp only [List.mem_map] at hs; obtain ⟨e, he, rfl⟩ := hs
    have := h.core.dD e he
    simp [Stamp.delivered, stD, this]
  have h2 : (A.map stD).filter (Stamp.delivered d g.horizon) = [] := by
    rw [List.filter_eq_nil_iff]
    intro s hs; simp only [List.mem_map] at hs; obtain ⟨e, he, rfl⟩ := hs
    have := h.nd e he
    simp only [Stamp.delivered, stD, decide_eq_true_eq]; omega
  have h3 : (a.F.map stF).filter (Stamp.delivered d g.horizon) = [] := by
    rw [List.filter_eq_nil_iff]
    intro s hs; simp only [List.mem_map] at hs; obtain ⟨e, he, rfl⟩ := hs
    simp [Stamp.delivered, stF]
  rw [h1, h2, h3]
  simp [stD, Function.comp_def]

theorem log_of_GInv (d : Nat) (g : Ghost) (a : DA) (h : GInv d g a) : a.log = g.log d := by
  obtain ⟨_, _, h | h⟩ := h
  · obtain ⟨he, D, A, hq⟩ := h
    simp only [Ghost.log, Ghost.errPart, he, List.append_nil, filter_delivered_quiet d g a D A hq]
    exact hq.core.log
  · obtain ⟨e, pre, _, _, _, hl, _⟩ := h; exact hl

theorem aLoop_dead (d : Nat) : ∀ (f : Nat) (a : DA), a.alive = false →
    (aLoop d f a).alive = false ∧ (aLoop d f a).log = a.log := by
  intro f
  induction f with
  | zero => intro a h; exact ⟨h, rfl⟩
  | succ f ih =>
    intro a h
    simp only [aLoop]
    split
    · exact ⟨h, rfl⟩
    · have h1 : ((a.fire d).poll).alive = false := by
        simp [DA.poll, DA.fire, h, deliver_false]
      have h2 : ((a.fire d).poll).log = a.log := by
        simp [DA.poll, DA.fire, h, deliver_false]
      obtain ⟨h3, h4⟩ := ih _ h1
      exact ⟨h3, by rw [h4, h2]⟩

theorem map_arm_stamps (c : Nat) (D A : List DE) (F : List FE) :
    (D.map stD ++ A.map stD ++ F.map stF).map (Stamp.arm c) = D.map stD ++ A.map stD ++ F.map (stC c) := by
  simp only [List.map_append, List.map_map]
  congr 1

theorem map_arm_n (c : Nat) (q : List Stamp) : (q.map (Stamp.arm c)).map (·.n) = q.map (·.n) := by
  rw [List.map_map]; rfl

theorem GInv_step (d : Nat) (g : Ghost) (a : DA) (ev : TW.Ev) (hev : FifoEv ev) (h : GInv d g a) :
    GInv d (g.step ev) (a.step d ev) := by
  obtain ⟨hnow, hterm, hcase⟩ := h
  cases hev with
  | adv k =>
    refine ⟨by simp [DA.step, Ghost.step, hnow], hterm, ?_⟩
    rcases hcase with ⟨he, D, A, hq⟩ | ⟨e, pre, h1, h2, h3, h4, h5, h6⟩
    · exact Or.inl ⟨he, D, A, ⟨hq.core.congr _ rfl rfl rfl rfl, hq.nd, Nat.le_trans hq.hc (Nat.le_add_right _ _), hq.term⟩⟩
    · exact Or.inr ⟨e, pre, h1, h2, h3, h4, h5, h6⟩
  | run =>
    rcases hcase with ⟨he, D, A, hq⟩ | ⟨e, pre, h1, h2, h3, h4, h5, h6⟩
    · -- the source has not failed: arm, fire, run in FIFO shape
      have hg : g.step .run = { g with q := g.q.map (Stamp.arm g.clock), horizon := g.clock } := by
        simp [Ghost.step, he]
      have hcore : Core d g.clock (stC g.clock) (g.q.map (Stamp.arm g.clock)) a D A :=
        { q := hq.core.q
          gqe := by rw [hq.core.gqe]; exact map_arm_stamps _ _ _ _
          dD := fun e he' => Nat.le_trans (hq.core.dD e he') hq.hc
          dA := fun e he' => Nat.le_trans (hq.core.dA e he') hq.hc
          sorted := hq.core.sorted
          alive := hq.core.alive
          wf := by rw [map_arm_n]; exact hq.core.wf
          log := hq.core.log }
      obtain ⟨D', A', hc', hF', hnd'⟩ := loop_core d g.clock _ a D A hcore hnow 9997
      have hstep : a.step d .run = aLoop d (9997 + 3) a := rfl
      rw [hg, hstep]
      refine ⟨by rw [aLoop_now]; exact hnow, by rw [aLoop_term]; exact hterm, Or.inl ⟨he, D', A', ?_⟩⟩
      exact
        { core :=
            { q := hc'.q
              gqe := by have := hc'.gqe; rw [hF'] at this ⊢; simpa using this
              dD := hc'.dD, dA := hc'.dA, sorted := hc'.sorted, alive := hc'.alive, wf := hc'.wf
              log := hc'.log }
          nd := hnd'
          hc := Nat.le_refl _
          term := by show g.term = _; rw [map_arm_n]; exact hq.term }
    · -- the source has failed: the slot is closed, nothing is delivered any more
      have hg : g.step .run = g := by simp [Ghost.step, h1]
      obtain ⟨hd1, hd2⟩ := aLoop_dead d 10000 a h2
      rw [hg]
      refine ⟨by show (aLoop d 10000 a).now = _; rw [aLoop_now]; exact hnow,
        by show (aLoop d 10000 a).term = _; rw [aLoop_term]; exact hterm, Or.inr ⟨e, pre, h1, hd1, h3, ?_, h5, ?_⟩⟩
      · show (aLoop d 10000 a).log = _; rw [hd2]; exact h4
      · show (aLoop d 10000 a).log = _; rw [hd2]; exact h6
  | emit i n =>
    by_cases hi : i = 0
    · subst hi
      cases hT : g.term with
      | true =>
        have hT' : a.term = true := by rw [hterm, hT]
        have h1 : g.step (.emit 0 n) = g := by simp [Ghost.step, hT]
        have h2 : a.step d (.emit 0 n) = a := by simp [DA.step, hT']
        rw [h1, h2]; exact ⟨hnow, hterm, hcase⟩
      | false =>
        have hT' : a.term = false := by rw [hterm, hT]
        rcases hcase with ⟨he, D, A, hq⟩ | ⟨e, pre, h1, h2, h3, h4, h5, h6⟩
        · have hnt : terminated (g.q.map (·.n)) = false := by rw [← hq.term, hT]
          have hDn : terminated (D.map (·.n)) = false := by
            have := hnt
            rw [hq.core.gqe] at this
            simp only [List.map_append, terminated_append, Bool.or_eq_false_iff] at this
            simpa [stD, Function.comp_def] using this.1.1
          have hal : a.alive = true := by rw [hq.core.alive, hDn]; rfl
          have hlog := log_of_GInv d g a ⟨hnow, hterm, Or.inl ⟨he, D, A, hq⟩⟩
          cases n with
          | error e =>
            have h1 : g.step (.emit 0 (.error e)) = { g with term := true, err := some e } := by
              simp [Ghost.step, hT]
            have h2 : a.step d (.emit 0 (.error e)) =
                { a with alive := false, log := a.log ++ [.error e], term := true } := by
              simp [DA.step, hT', hal, Notif.isTerm]
            rw [h1, h2]
            refine ⟨hnow, rfl, Or.inr ⟨e, D.map (·.n), rfl, rfl, rfl, ?_, ?_, ?_⟩⟩
            · show a.log ++ [Notif.error e] = _
              rw [hlog]; simp [Ghost.log, Ghost.errPart, he]
            · show D.map (·.n) <+: g.q.map (·.n)
              rw [hq.core.gqe]
              simp only [List.map_append, List.append_assoc]
              have : (D.map stD).map (·.n) = D.map (·.n) := by simp [stD, Function.comp_def]
              rw [this]; exact List.prefix_append _ _
            · show a.log ++ [Notif.error e] = _
              rw [hq.core.log]
          | next v =>
            have h1 : g.step (.emit 0 (.next v)) =
                { g with term := false, q := g.q ++ [⟨.next v, g.clock, none⟩] } := by
              simp [Ghost.step, hT, Notif.isTerm]
            have h2 : a.step d (.emit 0 (.next v)) =
                { a with F := a.F ++ [⟨.next v, a.now⟩], term := false } := by
              simp [DA.step, hT', Notif.isTerm]
            rw [h1, h2]
            refine ⟨hnow, rfl, Or.inl ⟨he, D, A, ?_⟩⟩
            exact
              { core :=
                  { q := hq.core.q
                    gqe := by
                      show g.q ++ _ = _
                      rw [hq.core.gqe]; simp [stF, hnow]
                    dD := hq.core.dD, dA := hq.core.dA, sorted := hq.core.sorted, alive := hq.core.alive
                    wf := by
                      show WF ((g.q ++ _).map (·.n))
                      rw [List.map_append]
                      exact WF_append hq.core.wf hnt (WF_single _)
                    log := hq.core.log }
                nd := hq.nd, hc := hq.hc
                term := by
                  show false = terminated ((g.q ++ _).map (·.n))
                  simp [terminated_append, hnt, terminated] }
          | complete =>
            have h1 : g.step (.emit 0 .complete) =
                { g with term := true, q := g.q ++ [⟨.complete, g.clock, none⟩] } := by
              simp [Ghost.step, hT, Notif.isTerm]
            have h2 : a.step d (.emit 0 .complete) =
                { a with F := a.F ++ [⟨.complete, a.now⟩], term := true } := by
              simp [DA.step, hT', Notif.isTerm, hal]
            rw [h1, h2]
            refine ⟨hnow, rfl, Or.inl ⟨he, D, A, ?_⟩⟩
            exact
              { core :=
                  { q := hq.core.q
                    gqe := by
                      show g.q ++ _ = _
                      rw [hq.core.gqe]; simp [stF, hnow]
                    dD := hq.core.dD, dA := hq.core.dA, sorted := hq.core.sorted, alive := hq.core.alive
                    wf := by
                      show WF ((g.q ++ _).map (·.n))
                      rw [List.map_append]
                      exact WF_append hq.core.wf hnt (WF_single _)
                    log := hq.core.log }
                nd := hq.nd, hc := hq.hc
                term := by
                  show true = terminated ((g.q ++ _).map (·.n))
                  simp [terminated_append, hnt, terminated] }
        · rw [hT] at h3; cases h3
    · have h1 : g.step (.emit i n) = g := by simp [Ghost.step, hi]
      have h2 : a.step d (.emit i n) = a := by simp [DA.step, hi]
      rw [h1, h2]; exact ⟨hnow, hterm, hcase⟩

theorem GInv_init (d : Nat) : GInv d {} {} :=
  ⟨rfl, rfl, Or.inl ⟨rfl, [], [],
    { core := { q := rfl, gqe := rfl, dD := by simp, dA := by simp, sorted := List.Pairwise.nil,
                alive := rfl, wf := trivial, log := rfl }
      nd := by simp, hc := Nat.le_refl _, term := rfl }⟩⟩

end Rx.T.Del
