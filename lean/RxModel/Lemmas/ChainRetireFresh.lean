import RxModel.Lemmas.ChainRetireStay
import RxModel.Lemmas.ChainWFMain
/-
  C16 over the chain model, part 14: once the source has been subscribed no
  further source-level task (`interval_task`, `timer_task`, FutureTask, stream
  driver) is ever spawned.  Uses the invariant of C01C (`WInv`): while the source
  is subscribed no subscribing task is live, and `sub` happens once.
-/
namespace Rx.T
open Rx

/-- Tasks persist; every source-level task of `s'` was already in `s`. -/
structure NoNew (s s' : Sched) : Prop where
  fwd : Fwd s s'
  old : ∀ (k : Nat) (t' : Task), s'.tasks[k]? = some t' → t'.body.isSrc = true → k < s.tasks.length

theorem NoNew.refl (s : Sched) : NoNew s s := ⟨Fwd.refl s, fun _ _ h _ => Sched.get_lt h⟩

theorem Fwd.back {s s' : Sched} (h : Fwd s s') {k : Nat} {t' : Task} (ht' : s'.tasks[k]? = some t')
    (hk : k < s.tasks.length) : ∃ t : Task, s.tasks[k]? = some t ∧ t'.body = t.body := by
  obtain ⟨t2, h2, hb, _⟩ := h k _ (List.getElem?_eq_getElem hk)
  rw [ht'] at h2; cases h2
  exact ⟨_, List.getElem?_eq_getElem hk, hb⟩

theorem NoNew.trans {a b c : Sched} (h1 : NoNew a b) (h2 : NoNew b c) : NoNew a c := by
  refine ⟨h1.fwd.trans h2.fwd, ?_⟩
  intro k t'' h'' hs
  have hk := h2.old k t'' h'' hs
  obtain ⟨t', h', hb⟩ := h2.fwd.back h'' hk
  exact h1.old k t' h' (by rw [← hb]; exact hs)

theorem NoNew.of_frame {s s' : Sched} (f : Frame false s s') : NoNew s s' := by
  refine ⟨Fwd.of_frame f, ?_⟩
  intro k t' h' hs
  cases hk : s.tasks[k]? with
  | some t => exact Sched.get_lt hk
  | none => exact absurd (f.fresh k t' h' hk hs) (by simp)

theorem NoNew.of_len {s s' : Sched} (hf : Fwd s s') (hl : s'.tasks.length = s.tasks.length) : NoNew s s' :=
  ⟨hf, fun _ _ h _ => by rw [← hl]; exact Sched.get_lt h⟩

theorem pollPre_length (s : Sched) (k : TaskId) : (s.pollPre k).1.tasks.length = s.tasks.length := by
  refine Sched.pollPre_elim s k (motive := fun r => r.1.tasks.length = s.tasks.length)
    ?_ ?_ ?_ ?_ ?_ ?_ ?_ ?_ <;> intros <;> simp

theorem stayPending_length (s : Sched) (k : TaskId) (wk : Bool) :
    (s.stayPending k wk).tasks.length = s.tasks.length := by
  unfold Sched.stayPending; split <;> simp

theorem pollTask_nonew {w : TW} (hI : WI w) (hW : WInv none w) (hs : w.srcSubscribed = true) (k : TaskId) :
    NoNew w.sched (w.pollTask k).sched := by
  obtain ⟨up, _, hsrc⟩ := hW
  have sp := pollPre_spec' hI k
  have hlen := pollPre_length w.sched k
  unfold TW.pollTask
  generalize w.sched.pollPre k = r at sp hlen
  obtain ⟨s1, p⟩ := r
  dsimp only at hlen
  have n0 : NoNew w.sched s1 := NoNew.of_len sp.fwd hlen
  cases p with
  | none => exact n0
  | runOnce b =>
    obtain ⟨t, ht, hb, hr, t0, ht0, hb0, hd0, _⟩ := sp.once b rfl
    have hok : b.okFor w.src := by rw [← hb]; exact sp.inv.bodies k t ht
    have hnsub : b.isSub = false := by
      cases e : b.isSub with
      | false => rfl
      | true =>
        have := hsrc.subd hs k b ⟨t0, ht0, hd0, hb0⟩ e
        cases this
    dsimp only
    split
    · have e := runAsync_eff ({ w with sched := s1 } : TW) b
      generalize TW.runAsync ({ w with sched := s1 } : TW) b = ra at e
      obtain ⟨w1, o⟩ := ra
      dsimp only at e
      have n1 : NoNew s1 w1.sched := NoNew.of_frame e.sch.frame
      cases o with
      | pending wk =>
        exact (n0.trans n1).trans (NoNew.of_len (Fwd.stayPending _ k wk) (stayPending_length _ _ _))
      | done => exact (n0.trans n1).trans (NoNew.of_len (Fwd.finishOnce _ k) (by simp))
      | exhausted => exact (n0.trans n1).trans (NoNew.of_len (Fwd.finishOnce _ k) (by simp))
    · have e := runBody_eff ({ w with sched := s1 } : TW) b hok
      rw [hnsub] at e
      have n1 : NoNew s1 (TW.runBody ({ w with sched := s1 } : TW) b).sched := NoNew.of_frame e.sch.frame
      exact (n0.trans n1).trans (NoNew.of_len (Fwd.finishOnce _ k) (by simp))
  | runTick b seq =>
    dsimp only
    have e := runTick_eff ({ w with sched := s1 } : TW) b seq
    generalize TW.runTick ({ w with sched := s1 } : TW) b seq = rt at e
    obtain ⟨w1, cont⟩ := rt
    dsimp only at e
    have n1 : NoNew s1 w1.sched := NoNew.of_frame e.sch.frame
    dsimp only
    split
    · exact (n0.trans n1).trans (NoNew.of_len (Fwd.continueRepeat _ k) (by simp))
    · exact (n0.trans n1).trans (NoNew.of_len (Fwd.finishOnce _ k) (by simp))

/-- What is carried along a history once the source is subscribed. -/
structure Sub (w : TW) : Prop where
  wi : WI w
  winv : WInv none w
  sub : w.srcSubscribed = true

theorem pollTask_sub {w : TW} (h : Sub w) (k : TaskId) :
    Sub (w.pollTask k) ∧ NoNew w.sched (w.pollTask k).sched :=
  ⟨⟨(pollTask_ok h.wi k).1, TW.pollTask_inv h.winv k, (pollTask_ok h.wi k).2.sub h.sub⟩,
    pollTask_nonew h.wi h.winv h.sub k⟩

theorem pollAll_sub (l : List TaskId) : ∀ {w : TW}, Sub w → Sub (w.pollAll l) ∧ NoNew w.sched (w.pollAll l).sched := by
  induction l with
  | nil => intro w h; exact ⟨h, NoNew.refl _⟩
  | cons j r ih =>
    intro w h
    rcases pollAll_cons_cases w j r with ⟨heq, _⟩ | ⟨heq, _⟩
    · rw [heq]
      have h1 := pollTask_sub h j
      have h2 := ih h1.1
      exact ⟨h2.1, h1.2.trans h2.2⟩
    · rw [heq]; exact ih h

theorem fireAll_sub {w : TW} (h : Sub w) (l : List TimerId) :
    Sub { w with sched := l.foldl Sched.fire w.sched } ∧ NoNew w.sched (l.foldl Sched.fire w.sched) := by
  refine ⟨⟨(fireAll_ok h.wi l).1, h.winv.le _ (Sched.Ext.fireAll _ _).le, h.sub⟩, ?_⟩
  have hlen : ∀ (l : List TimerId) (s : Sched), (l.foldl Sched.fire s).tasks.length = s.tasks.length := by
    intro l
    induction l with
    | nil => intro s; rfl
    | cons a r ih => intro s; simp only [List.foldl_cons]; rw [ih]; simp
  exact NoNew.of_len (Fwd.fireAll l _) (hlen l _)

theorem runLoop_sub (fuel : Nat) : ∀ {w : TW}, Sub w →
    Sub (TW.runLoop fuel w) ∧ NoNew w.sched (TW.runLoop fuel w).sched := by
  induction fuel with
  | zero => intro w h; exact ⟨h, NoNew.refl _⟩
  | succ f ih =>
    intro w h
    simp only [TW.runLoop]
    have h1 := fireAll_sub h w.sched.dueTimers
    split
    · exact h1
    · exact ⟨(ih (pollAll_sub _ h1.1).1).1,
        (h1.2.trans (pollAll_sub _ h1.1).2).trans (ih (pollAll_sub _ h1.1).1).2⟩

theorem step_sub {w : TW} (h : Sub w) (e : TW.Ev) : Sub (w.step e) ∧ NoNew w.sched (w.step e).sched := by
  have base : Sub (w.step e) :=
    ⟨(step_ok h.wi e).1, TW.step_inv h.winv e, (step_ok h.wi e).2.sub h.sub⟩
  refine ⟨base, ?_⟩
  cases e with
  | sub =>
    -- the source is subscribed, hence `sub` has happened: a no-op
    obtain ⟨up, _, hsrc⟩ := h.winv
    have hsubd : w.subscribed = true := by
      cases hx : w.subscribed with
      | true => rfl
      | false =>
        have := (hsrc.unsubd hx).1
        rw [h.sub] at this; cases this
    simp only [TW.step, hsubd, if_true]
    exact NoNew.refl _
  | emit i n => exact NoNew.of_frame (step_emit_eff w i n).sch.frame
  | unsub => exact NoNew.of_frame (step_unsub_eff w).sch.frame
  | adv d => exact NoNew.of_len (Fwd.of_tasks rfl) rfl
  | fire i =>
    simp only [TW.step]
    split
    · exact NoNew.of_len (Fwd.fire _ _) (by simp)
    · exact NoNew.refl _
  | poll i =>
    simp only [TW.step]
    split
    · exact pollTask_nonew h.wi h.winv h.sub _
    · exact NoNew.refl _
  | run => exact (runLoop_sub _ h).2

theorem runEvs_sub (evs : List TW.Ev) : ∀ {w : TW}, Sub w →
    Sub (w.runEvs evs) ∧ NoNew w.sched (w.runEvs evs).sched := by
  induction evs with
  | nil => intro w h; exact ⟨h, NoNew.refl _⟩
  | cons e r ih =>
    intro w h
    have h1 := step_sub h e
    have h2 := ih h1.1
    exact ⟨h2.1, h1.2.trans h2.2⟩

theorem reach_winv (src : TSrc) (stages : List Stage) (hs : ∀ st ∈ stages, st.Initial)
    (evs : List TW.Ev) : WInv none ((TW.start src stages).runEvs evs) :=
  TW.fold_inv evs (TW.init_inv src stages (fun st h => (hs st h).ok))

end Rx.T
