import RxModel.Sched.Chain
/-
  C07 (FIFO clause), part 0: list tools and the elementary computations of the
  chain model on a one-stage chain over a hot source.

  * `idxs p l k`   : the positions (offset `k`) of the elements of `l` satisfying `p`;
                     `dueTimers`, `liveTasks` and the ready list of `runLoop` are of this form.
  * `mapK f k l`   : `l` mapped with the position (offset `k`) as extra argument.
  * `deliver`      : what a slot (`alive`) lets through of a list of notifications.
  * `cascade` / `push` on the empty chain and on a one-stage chain.
-/
namespace Rx.T
open Rx

/-! ### the vocabulary of the FIFO statements -/

/-- The events of the FIFO-only executor: emissions (on any subject, any
    notification, also after a terminal), clock advances, `run` (= `TW.runLoop`:
    fire all due timers in creation order, poll all woken live tasks in spawn
    order, repeat).  No `fire` / `poll` / `unsub`. -/
inductive FifoEv : TW.Ev → Prop
  | emit (i n) : FifoEv (.emit i n)
  | adv (k) : FifoEv (.adv k)
  | run : FifoEv .run

/-- The notifications one event emits on subject 0. -/
def scriptOf : TW.Ev → List Notif
  | .emit i n => if i = 0 then [n] else []
  | _ => []

/-- The notifications emitted on subject 0 by a list of events, in order. -/
def script (evs : List TW.Ev) : List Notif := evs.flatMap scriptOf

/-! ### positions of the elements satisfying a predicate -/

def idxs {α} (p : α → Bool) : List α → Nat → List Nat
  | [], _ => []
  | x :: xs, k => if p x then k :: idxs p xs (k + 1) else idxs p xs (k + 1)

theorem get_mid {α} (a c : List α) (b : α) : (a ++ b :: c)[a.length]? = some b := by
  simp

theorem set_mid {α} (a c : List α) (b x : α) : (a ++ b :: c).set a.length x = a ++ x :: c := by
  simp

theorem set_same {α} (l : List α) (k : Nat) (x : α) (h : l[k]? = some x) : l.set k x = l := by
  induction l generalizing k with
  | nil => rfl
  | cons y ys ih =>
    cases k with
    | zero => simp at h; simp [h]
    | succ k => simp at h; simp [ih k h]

theorem filter_range'_idx {α} (p : α → Bool) (l pre : List α) :
    (List.range' pre.length l.length).filter
        (fun i => match (pre ++ l)[i]? with | some t => p t | none => false)
      = idxs p l pre.length := by
  induction l generalizing pre with
  | nil => simp [idxs]
  | cons x xs ih =>
    have h := ih (pre ++ [x])
    simp only [List.append_assoc, List.singleton_append, List.length_append, List.length_cons,
      List.length_nil, Nat.zero_add] at h
    simp only [List.length_cons, List.range'_succ, List.filter_cons, get_mid, idxs, h]

theorem filter_range_idx {α} (p : α → Bool) (l : List α) :
    (List.range l.length).filter (fun i => match l[i]? with | some t => p t | none => false)
      = idxs p l 0 := by
  have := filter_range'_idx p l []
  simpa [List.range_eq_range'] using this

theorem idxs_append {α} (p : α → Bool) (a b : List α) (k : Nat) :
    idxs p (a ++ b) k = idxs p a k ++ idxs p b (k + a.length) := by
  induction a generalizing k with
  | nil => simp [idxs]
  | cons x xs ih =>
    simp only [List.cons_append, idxs, ih, List.length_cons]
    have : k + 1 + xs.length = k + (xs.length + 1) := by omega
    split <;> simp [this]

theorem idxs_none {α} (p : α → Bool) (a : List α) (k : Nat) (h : ∀ x ∈ a, p x = false) :
    idxs p a k = [] := by
  induction a generalizing k with
  | nil => rfl
  | cons x xs ih =>
    simp only [idxs, h x (List.mem_cons_self ..)]
    exact ih _ (fun y hy => h y (List.mem_cons_of_mem _ hy))

theorem idxs_all {α} (p : α → Bool) (a : List α) (k : Nat) (h : ∀ x ∈ a, p x = true) :
    idxs p a k = List.range' k a.length := by
  induction a generalizing k with
  | nil => rfl
  | cons x xs ih =>
    simp only [idxs, h x (List.mem_cons_self ..), if_true, List.length_cons, List.range'_succ]
    rw [ih _ (fun y hy => h y (List.mem_cons_of_mem _ hy))]

theorem idxs_eq_nil {α} (p : α → Bool) (a : List α) (k : Nat) (h : idxs p a k = []) :
    ∀ x ∈ a, p x = false := by
  induction a generalizing k with
  | nil => intro x hx; cases hx
  | cons y ys ih =>
    intro x hx
    cases hy : p y with
    | true => simp [idxs, hy] at h
    | false =>
      simp only [idxs, hy, Bool.false_eq_true, if_false] at h
      rcases List.mem_cons.mp hx with rfl | hx
      · exact hy
      · exact ih _ h x hx

theorem idxs_map {α β} (p : β → Bool) (f : α → β) (a : List α) (k : Nat) :
    idxs p (a.map f) k = idxs (fun x => p (f x)) a k := by
  induction a generalizing k with
  | nil => rfl
  | cons x xs ih => simp only [List.map_cons, idxs, ih]

theorem idxs_congr {α} (p q : α → Bool) (a : List α) (k : Nat) (h : ∀ x ∈ a, p x = q x) :
    idxs p a k = idxs q a k := by
  induction a generalizing k with
  | nil => rfl
  | cons x xs ih =>
    simp only [idxs, h x (List.mem_cons_self ..)]
    rw [ih _ (fun y hy => h y (List.mem_cons_of_mem _ hy))]

/-! ### mapping with positions -/

def mapK {α β} (f : Nat → α → β) : Nat → List α → List β
  | _, [] => []
  | k, x :: xs => f k x :: mapK f (k + 1) xs

@[simp] theorem mapK_length {α β} (f : Nat → α → β) (k : Nat) (l : List α) :
    (mapK f k l).length = l.length := by
  induction l generalizing k with
  | nil => rfl
  | cons x xs ih => simp [mapK, ih]

theorem mapK_append {α β} (f : Nat → α → β) (k : Nat) (a b : List α) :
    mapK f k (a ++ b) = mapK f k a ++ mapK f (k + a.length) b := by
  induction a generalizing k with
  | nil => simp [mapK]
  | cons x xs ih =>
    have : k + 1 + xs.length = k + (xs.length + 1) := by omega
    simp [mapK, ih, this]

theorem mapK_get {α β} (f : Nat → α → β) (k : Nat) (l : List α) (i : Nat) :
    (mapK f k l)[i]? = (l[i]?).map (f (k + i)) := by
  induction l generalizing k i with
  | nil => simp [mapK]
  | cons x xs ih =>
    cases i with
    | zero => simp [mapK]
    | succ i =>
      have : k + 1 + i = k + (i + 1) := by omega
      simp [mapK, ih, this]

theorem mapK_set {α β} (f : Nat → α → β) (k : Nat) (l : List α) (i : Nat) (x : α) :
    (mapK f k l).set i (f (k + i) x) = mapK f k (l.set i x) := by
  induction l generalizing k i with
  | nil => simp [mapK]
  | cons y ys ih =>
    cases i with
    | zero => simp [mapK]
    | succ i =>
      have : k + (i + 1) = k + 1 + i := by omega
      simp only [mapK, List.set_cons_succ, this, ih]

theorem idxs_mapK {α β} (p : β → Bool) (q : α → Bool) (f : Nat → α → β)
    (h : ∀ i x, p (f i x) = q x) (l : List α) (k j : Nat) :
    idxs p (mapK f k l) j = idxs q l j := by
  induction l generalizing k j with
  | nil => rfl
  | cons x xs ih => simp only [mapK, idxs, h, ih]

/-! ### what an `Option` slot lets through -/

/-- Notifications arriving one by one at a slot that is `alive` (and is emptied
    by a terminal): the final flag and what went through. -/
def deliver : Bool → List Notif → Bool × List Notif
  | a, [] => (a, [])
  | a, n :: r =>
    let x := deliver (a && !n.isTerm) r
    (x.1, (if a then [n] else []) ++ x.2)

theorem deliver_false (r : List Notif) : deliver false r = (false, []) := by
  induction r with
  | nil => rfl
  | cons n r ih => simp [deliver, ih]

theorem deliver_true (r : List Notif) : deliver true r = (!terminated r, gate r) := by
  induction r with
  | nil => rfl
  | cons n r ih =>
    cases n <;> simp [deliver, ih, deliver_false, Notif.isTerm, terminated, gate]

theorem deliver_append (a : Bool) (r s : List Notif) :
    deliver a (r ++ s) = ((deliver (deliver a r).1 s).1, (deliver a r).2 ++ (deliver (deliver a r).1 s).2) := by
  induction r generalizing a with
  | nil => simp [deliver]
  | cons n r ih => simp [deliver, ih]

/-- A slot in the state left by the well-formed stream `Dn` lets the continuation `X` through unchanged. -/
theorem deliver_of_WF (Dn X R : List Notif) (h : WF (Dn ++ (X ++ R))) :
    deliver (!terminated Dn) X = (!terminated (Dn ++ X), X) := by
  obtain ⟨_, h1, h2⟩ := (WF_append_iff _ _).mp h
  obtain ⟨hX, _, _⟩ := (WF_append_iff _ _).mp h2
  cases hD : terminated Dn with
  | true =>
    have := h1 hD
    simp only [List.append_eq_nil_iff] at this
    simp [this.1, deliver, hD]
  | false =>
    simp [deliver_true, gate_of_WF hX, terminated_append, hD]

theorem gate_append_of_not_terminated (s t : List Notif) (h : terminated s = false) :
    gate (s ++ t) = s ++ gate t := by
  induction s with
  | nil => rfl
  | cons n r ih => cases n <;> simp_all [gate, terminated]

theorem gate_append_of_terminated (s t : List Notif) (h : terminated s = true) :
    gate (s ++ t) = gate s := by
  induction s with
  | nil => simp [terminated] at h
  | cons n r ih => cases n <;> simp_all [gate, terminated]

theorem gate_eq_self_of_not_terminated (s : List Notif) (h : terminated s = false) : gate s = s := by
  have := gate_append_of_not_terminated s [] h
  simpa [gate] using this

theorem terminated_gate (s : List Notif) : terminated (gate s) = terminated s := by
  induction s with
  | nil => rfl
  | cons n r ih => cases n <;> simp [gate, terminated, ih]

theorem terminated_single (n : Notif) : terminated [n] = n.isTerm := by
  cases n <;> rfl

/-! ### the chain functions on the shapes used here -/

theorem cascade_nil (j : Nat) (ns : List Notif) (s : Sched) : cascade [] j ns s = ([], ns, s) := rfl

theorem cascade_single (st : Stage) (j : Nat) (n : Notif) (s : Sched) :
    cascade [st] j [n] s =
      (let r := st.onNotif j n s
       let r2 := r.1.afterEmit j r.2.2
       ([r2.1], r.2.1, r2.2)) := by
  simp [cascade, cascadeF]

namespace TW

/-- Delivering to the probe of a one-stage chain. -/
theorem push_one (w : TW) (st : Stage) (ns : List Notif) (h : w.stages = [st]) :
    w.push 1 ns = { w with log := w.log ++ ns } := by
  simp [push, h, cascade_nil]

/-- Delivering one notification to the only stage. -/
theorem push_zero (w : TW) (st : Stage) (n : Notif) (h : w.stages = [st]) :
    w.push 0 [n] =
      { w with stages := [((st.onNotif 0 n w.sched).1.afterEmit 0 (st.onNotif 0 n w.sched).2.2).1],
               sched := ((st.onNotif 0 n w.sched).1.afterEmit 0 (st.onNotif 0 n w.sched).2.2).2,
               log := w.log ++ (st.onNotif 0 n w.sched).2.1 } := by
  simp [push, h, cascade_single]

theorem pollAll_append (w : TW) (a b : List TaskId) :
    pollAll w (a ++ b) = pollAll (pollAll w a) b := by
  induction a generalizing w with
  | nil => rfl
  | cons k r ih => simp only [List.cons_append, pollAll, ih]

theorem pollAll_cons_live (w : TW) (k : TaskId) (r : List TaskId) (t : Task)
    (h : w.sched.tasks[k]? = some t) (hd : t.done = false) :
    pollAll w (k :: r) = pollAll (w.pollTask k) r := by
  simp [pollAll, h, hd]

/-- No notifier inputs in a one-stage chain whose stage is not a two-input cell. -/
theorem deliverNotifiers_single (w : TW) (st : Stage) (i : Nat) (n : Notif)
    (h : w.stages = [st]) (hst : ∀ a b c d, st ≠ .op2n a b c d) :
    deliverNotifiers w i n w.stages.length = w := by
  rw [h]
  simp only [List.length_singleton, deliverNotifiers, h, List.getElem?_cons_zero]
  split
  · next heq => simp only [Option.some.injEq] at heq; exact absurd heq (hst _ _ _ _)
  · rfl

theorem step_emit_ignored (w : TW) (i : Nat) (n : Notif) (h : w.terminated.contains i = true) :
    w.step (.emit i n) = w := by
  simp only [step, h, if_true]

theorem step_emit_other (w : TW) (i j : Nat) (n : Notif) (st : Stage)
    (hsrc : w.src = .hot j) (hi : i ≠ j) (h : w.terminated.contains i = false)
    (hs : w.stages = [st]) (hst : ∀ a b c d, st ≠ .op2n a b c d) :
    w.step (.emit i n) = if n.isTerm then { w with terminated := i :: w.terminated } else w := by
  have h' : i ∉ w.terminated := by simpa using h
  have h1 := deliverNotifiers_single w st i n hs hst
  have h2 := deliverNotifiers_single { w with terminated := i :: w.terminated } st i n hs hst
  cases hn : n.isTerm
  · simpa [step, h', hsrc, hi, hn] using h1
  · simpa [step, h', hsrc, hi, hn] using h2

theorem step_emit_next (w : TW) (j : Nat) (v : Val)
    (hsrc : w.src = .hot j) (h : w.terminated.contains j = false)
    (hsub : w.srcSubscribed = true) (hal : w.srcAlive = true) :
    w.step (.emit j (.next v)) =
      deliverNotifiers (w.push 0 [.next v]) j (.next v) (w.push 0 [.next v]).stages.length := by
  have h' : j ∉ w.terminated := by simpa using h
  simp [step, h', hsrc, hsub, hal, Notif.isTerm]

theorem step_emit_term (w : TW) (j : Nat) (n : Notif) (hn : n.isTerm = true)
    (hsrc : w.src = .hot j) (h : w.terminated.contains j = false)
    (hsub : w.srcSubscribed = true) (hal : w.srcAlive = true) :
    w.step (.emit j n) =
      (let w2 := { w with terminated := j :: w.terminated, srcAlive := false }.push 0 [n]
       deliverNotifiers w2 j n w2.stages.length) := by
  have h' : j ∉ w.terminated := by simpa using h
  cases n with
  | next v => simp [Notif.isTerm] at hn
  | error e => simp [step, h', hsrc, hsub, hal, Notif.isTerm]
  | complete => simp [step, h', hsrc, hsub, hal, Notif.isTerm]

end TW

namespace Sched

/-- The list `runLoop` polls: the woken live tasks, in spawn order. -/
theorem ready_eq (s : Sched) :
    (s.liveTasks.filter fun k => match s.tasks[k]? with | some t => t.woken | none => false)
      = idxs (fun t => t.woken && !t.done) s.tasks 0 := by
  unfold liveTasks
  rw [List.filter_filter, ← filter_range_idx]
  apply List.filter_congr
  intro i _
  cases s.tasks[i]? <;> simp

theorem dueTimers_eq (s : Sched) :
    s.dueTimers = idxs (fun t => !t.fired && decide (t.due ≤ s.now)) s.timers 0 := by
  unfold dueTimers
  rw [← filter_range_idx]
  apply List.filter_congr
  intro i _
  cases s.timers[i]? <;> simp

end Sched

/-- One pass of the executor's loop, with the ready list in `idxs` form. -/
theorem TW.runLoop_succ (f : Nat) (w : TW) :
    TW.runLoop (f + 1) w =
      (if w.sched.dueTimers.isEmpty &&
          (idxs (fun t => t.woken && !t.done) (w.sched.dueTimers.foldl Sched.fire w.sched).tasks 0).isEmpty
       then { w with sched := w.sched.dueTimers.foldl Sched.fire w.sched }
       else TW.runLoop f (TW.pollAll { w with sched := w.sched.dueTimers.foldl Sched.fire w.sched }
          (idxs (fun t => t.woken && !t.done) (w.sched.dueTimers.foldl Sched.fire w.sched).tasks 0))) := by
  rw [← Sched.ready_eq]
  rfl

end Rx.T
