import RxModel.Lemmas.ChainSubInv
import RxModel.Lemmas.ChainWFMain
/-
  C09 over whole chains, part 6: the stage lists the theorems range over, and
  the final extraction.
-/
namespace Rx.T
open Rx Rx.Spec

/-- The per-subscription initial state of a filtering single-input operator, of
    debounce, or of throttle (any edge mode). -/
def Stage.RateInit : Stage → Prop
  | .op1 st => ∃ op : Op1, op.filtering = true ∧ st = op.init
  | .debounce _ alive tr h => alive = true ∧ tr = none ∧ h = none
  | .throttle _ _ alive tr h => alive = true ∧ tr = none ∧ h = none
  | _ => False

/-- The per-subscription initial state of buffer_with_time / buffer_with_count_and_time. -/
def Stage.BufInit : Stage → Prop
  | .bufTime _ _ alive data task => alive = true ∧ data = [] ∧ task = none
  | _ => False

theorem Stage.RateInit.start9 {st : Stage} (h : st.RateInit) : st.Start9 := by
  cases st with
  | op1 o =>
    obtain ⟨op, hf, rfl⟩ := h
    exact ⟨by rw [op.init_filtering]; exact hf, by rw [op.init_held]; exact List.Sublist.refl _⟩
  | debounce d a tr hd => obtain ⟨_, rfl, _⟩ := h; exact List.Sublist.refl _
  | throttle d e a tr hd => obtain ⟨_, rfl, _⟩ := h; exact List.Sublist.refl _
  | _ => exact h.elim

theorem Stage.RateInit.notBuf {st : Stage} (h : st.RateInit) : st.isBuf = false := by
  cases st <;> first | rfl | exact h.elim

theorem Stage.RateInit.initial {st : Stage} (h : st.RateInit) : st.Initial := by
  cases st with
  | op1 o => obtain ⟨op, _, rfl⟩ := h; exact ⟨op, rfl⟩
  | debounce d a tr hd => exact h
  | throttle d e a tr hd => exact h
  | _ => exact h.elim

theorem Stage.BufInit.start9 {st : Stage} (h : st.BufInit) : st.Start9 := by
  cases st with
  | bufTime d c a data t => obtain ⟨_, rfl, _⟩ := h; exact List.Sublist.refl _
  | _ => exact h.elim

theorem Stage.BufInit.isBuf {st : Stage} (h : st.BufInit) : st.isBuf = true := by
  cases st <;> first | rfl | exact h.elim

theorem Stage.BufInit.initial {st : Stage} (h : st.BufInit) : st.Initial := by
  cases st with
  | bufTime d c a data t => exact h
  | _ => exact h.elim

theorem rateInit_debounce (d : Nat) : (Stage.debounce d true none none).RateInit := ⟨rfl, rfl, rfl⟩

theorem rateInit_throttle (d : Nat) (e : Edge) : (Stage.throttle d e true none none).RateInit :=
  ⟨rfl, rfl, rfl⟩

theorem bufInit_bufTime (d : Nat) (cnt : Option Nat) : (Stage.bufTime d cnt true [] none).BufInit :=
  ⟨rfl, rfl, rfl⟩

/-- Stages `pre.map (op1 ∘ init)` of filtering operators. -/
theorem rateInit_ops (ops : List Op1) (h : ∀ op ∈ ops, op.filtering = true) :
    ∀ st ∈ ops.map (Stage.op1 ∘ Op1.init), st.RateInit := by
  intro st hst
  obtain ⟨op, hop, rfl⟩ := List.mem_map.mp hst
  exact ⟨op, h op hop, rfl⟩

theorem forall_mem_append3 {α} {p : α → Prop} {A B : List α} {x : α}
    (hA : ∀ a ∈ A, p a) (hx : p x) (hB : ∀ a ∈ B, p a) : ∀ a ∈ A ++ x :: B, p a := by
  intro a ha
  simp only [List.mem_append, List.mem_cons] at ha
  rcases ha with ha | rfl | ha
  · exact hA a ha
  · exact hx
  · exact hB a ha

/-- No time buffer in the chain, nothing buffered at the start. -/
theorem rate_final (stages : List Stage) (hs : ∀ st ∈ stages, st.Start9)
    (hb : ∀ st ∈ stages, st.isBuf = false) (evs : List TW.Ev) :
    (items (chainRun stages evs).log).Sublist (itemsEmitted evs) := by
  obtain ⟨T, I⟩ := W9.run stages hs evs
  obtain ⟨up, h1, h2⟩ := I.chain
  exact (h2.items_sublist hb).trans h1

/-- One time buffer in the chain, nothing buffered at the start. -/
theorem buf_final9 (A B : List Stage) (st : Stage) (hA : ∀ s ∈ A, s.Start9) (hst : st.Start9)
    (hB : ∀ s ∈ B, s.Start9) (hbA : ∀ s ∈ A, s.isBuf = false) (hbst : st.isBuf = true)
    (hbB : ∀ s ∈ B, s.isBuf = false) (evs : List TW.Ev) :
    (released (chainRun (A ++ st :: B) evs).log).Sublist (itemsEmitted evs) := by
  obtain ⟨T, I⟩ := W9.run (A ++ st :: B) (forall_mem_append3 hA hst hB) evs
  obtain ⟨up, h1, h2⟩ := I.chain
  exact (h2.released_sublist hbst hbA hbB).trans h1

/-- Well-formedness of the probe log, from the all-chains grammar theorem. -/
theorem chainRun_wf (stages : List Stage) (hs : ∀ st ∈ stages, st.Initial) (evs : List TW.Ev) :
    WF (chainRun stages evs).log := by
  rw [chainRun_eq]
  exact TW.WInv.wf_log (TW.fold_inv _ (TW.init_inv (.hot 0) stages (fun st h => (hs st h).ok)))

end Rx.T
