import RxModel.Lemmas.ChainSourcesInv
/-
  Helper lemmas for C08, part 3: the invariant of an `interval` / `interval_at`
  world without stages.  `L j` is a lower bound for the instant of tick `j`, `p`
  the period: the log is `ticks seq`, tick `seq - 1` did not happen before
  `L (seq-1)`, and the period timer the task waits on is not due before `L seq`.
  A tick happens when that timer has fired, and re-arms a timer one period
  later: the invariant is preserved as soon as `L (j+1) ≤ max (L j) c + p` where
  `c` is a lower bound of the clock (`LStep`).  Two instances: `L j = B + j·p`
  with `B = t_sub + first` (never early), and `L j = 0` up to tick `k`,
  `c + (j-k)·p` after it (spacing: at most one tick in a window shorter than `p`).
-/
namespace Rx.T
open Rx

namespace TW
open Sched

/-- The interval task `t` in scheduler `s` with probe log `log`. -/
structure IvTask (L : Nat → Nat) (p : Nat) (s : Sched) (log : List Notif) (t : Task) : Prop where
  body : t.body = .tick
  od : t.outerDelay = none
  ot : t.outerTimer = none
  rep : ∃ fur seq, t.rep = some (fur, p, seq) ∧ log = ticks seq ∧
    (seq = 0 ∨ L (seq - 1) ≤ s.now) ∧ ∃ d, s.tdue fur = some d ∧ L seq ≤ d

/-- Scheduler + log part of the invariant; `c` is a lower bound of the clock. -/
structure IvS (c : Nat) (L : Nat → Nat) (p : Nat) (s : Sched) (log : List Notif) : Prop where
  fd : FiredDue s
  len : s.tasks.length = 1
  base : c ≤ s.now
  task : ∃ t, s.tasks[0]? = some t ∧ IvTask L p s log t

/-- The invariant of an interval world. -/
structure IvInv (c : Nat) (L : Nat → Nat) (p : Nat) (w : TW) : Prop where
  bare : Bare w
  s : IvS c L p w.sched w.log

/-- The lower bounds follow the re-arming of the period timer. -/
def LStep (c : Nat) (L : Nat → Nat) (p : Nat) : Prop := ∀ j, L (j + 1) ≤ max (L j) c + p

/-- The bounds of "never early": tick `j` not before `B + j·p`. -/
def linL (B p : Nat) (j : Nat) : Nat := B + j * p

theorem lstep_lin (c B p : Nat) : LStep c (linL B p) p := by
  intro j; simp only [linL, Nat.succ_mul]; omega

theorem ivTask_mono {L : Nat → Nat} {p : Nat} {s s' : Sched} {log : List Notif} {t t' : Task}
    (h : IvTask L p s log t) (hn : s.now ≤ s'.now) (hd : ∀ tm d, s.tdue tm = some d → s'.tdue tm = some d)
    (hb : t'.body = t.body) (hod : t'.outerDelay = t.outerDelay) (hot : t'.outerTimer = t.outerTimer)
    (hr : t'.rep = t.rep) : IvTask L p s' log t' := by
  obtain ⟨fur, seq, h1, h2, h3, d, h4, h5⟩ := h.rep
  refine ⟨by rw [hb, h.body], by rw [hod, h.od], by rw [hot, h.ot], fur, seq, by rw [hr, h1], h2, ?_,
    d, hd _ _ h4, h5⟩
  rcases h3 with h3 | h3
  · exact Or.inl h3
  · exact Or.inr (Nat.le_trans h3 hn)

theorem ivS_adv {c : Nat} {L : Nat → Nat} {p : Nat} {s : Sched} {log} (d : Nat) (h : IvS c L p s log) :
    IvS c L p { s with now := s.now + d } log := by
  obtain ⟨t, ht, h1⟩ := h.task
  exact ⟨firedDue_adv s d h.fd, h.len, Nat.le_trans h.base (Nat.le_add_right _ _), t, ht,
    ivTask_mono h1 (Nat.le_add_right _ _) (fun _ _ h => h) rfl rfl rfl rfl⟩

theorem ivS_fire {c : Nat} {L : Nat → Nat} {p : Nat} {s : Sched} {log} (tm : Nat) (hd : Due s tm)
    (h : IvS c L p s log) : IvS c L p (s.fire tm) log := by
  obtain ⟨t, ht, h1⟩ := h.task
  obtain ⟨wk, hw⟩ := fire_single s tm t ht
  exact ⟨firedDue_fire s tm hd h.fd, by simpa using h.len, by simpa using h.base, _, hw,
    ivTask_mono h1 (by simp) (fun _ _ h => by simpa using h) rfl rfl rfl rfl⟩

theorem ivS_cancel {c : Nat} {L : Nat → Nat} {p : Nat} {s : Sched} {log} (h : IvS c L p s log) :
    IvS c L p (s.cancel 0) log := by
  obtain ⟨t, ht, h1⟩ := h.task
  exact ⟨firedDue_cancel s 0 h.fd, by simpa using h.len, by simpa using h.base, _, cancel_get_self _ _ _ ht,
    ivTask_mono h1 (by simp) (fun _ _ h => by simpa using h) rfl rfl rfl rfl⟩

theorem ivS_poll {c : Nat} {L : Nat → Nat} {p : Nat} {s : Sched} {log} (hL : LStep c L p)
    (h : IvS c L p s log) :
    IvS c L p (s.poll 0 true).1 (log ++ (s.poll 0 true).2.flatMap (emitOf .tick)) := by
  obtain ⟨t, ht, h1⟩ := h.task
  obtain ⟨fur, seq, r1, r2, r3, d, r4, r5⟩ := h1.rep
  refine ⟨firedDue_poll s 0 true h.fd, by simpa [poll_length] using h.len,
    Nat.le_trans h.base (poll_frame s 0 true).now_le, ?_⟩
  refine poll_task_elim s 0 true t ht
    (motive := fun s' t' runs => IvTask L p s' (log ++ runs.flatMap (emitOf .tick)) t')
    ?_ ?_ ?_ ?_ ?_ ?_ ?_ ?_
  · intro _; simpa using h1
  · intro _ _
    simp only [List.flatMap_nil, List.append_nil]
    exact ivTask_mono h1 (by simp) (fun _ _ h => by simpa using h) rfl rfl rfl rfl
  · intro d' _ _ hod; rw [h1.od] at hod; cases hod
  · intro tm _ _ _ hot; rw [h1.ot] at hot; cases hot
  · intro _ _ _ _ hr; rw [r1] at hr; cases hr
  · intro fur' iv' seq' _ _ _ _ _ _
    simp only [List.flatMap_nil, List.append_nil]
    exact ivTask_mono h1 (by simp) (fun _ _ h => by simpa using h) rfl rfl (by simp [h1.ot]) rfl
  · intro _ _ _ _ _ _ _ _ _ hc; cases hc
  · intro fur' iv' seq' _ _ _ _ hr hf _
    rw [r1] at hr; cases hr
    obtain ⟨d', hd', hle⟩ := h.fd fur hf
    rw [r4] at hd'; cases hd'
    refine ⟨h1.body, h1.od, rfl, s.timers.length, seq + 1, rfl, ?_, Or.inr ?_, s.now + p, ?_, ?_⟩
    · simp [emitOf, r2, ticks_succ]
    · simp only [setTask_now, registerTimer_now, newTimer_now, Nat.add_sub_cancel]
      exact Nat.le_trans r5 hle
    · simp [newTimer_tdue_new]
    · have h1 := Nat.le_trans r5 hle
      have h2 := hL seq
      have h3 := h.base
      rw [Nat.max_def] at h2
      split at h2 <;> omega

/-- The invariant holds after every event list. -/
theorem ivInv_run (c : Nat) (L : Nat → Nat) (p : Nat) (hL : LStep c L p) (evs : List Ev) (w : TW)
    (h : IvInv c L p w) : IvInv c L p (run w evs) := by
  refine run_induction (IvInv c L p) (fun w h => h.bare) ?_ ?_ ?_ ?_ ?_ evs w h
  · intro w term h; exact ⟨⟨h.bare.1, h.bare.2, h.bare.3, h.bare.4⟩, h.s⟩
  · intro w d h; exact ⟨⟨h.bare.1, h.bare.2, h.bare.3, h.bare.4⟩, ivS_adv d h.s⟩
  · intro w tm h hd; exact ⟨⟨h.bare.1, h.bare.2, h.bare.3, h.bare.4⟩, ivS_fire tm hd h.s⟩
  · intro w k h
    obtain ⟨t, ht, h1⟩ := h.s.task
    rcases pollTask_one w k h.bare.stages h.s.len t ht (Or.inl h1.body) with e | ⟨_, e⟩
    · rw [e]; exact h
    · rw [e, h1.body]
      exact ⟨⟨h.bare.1, h.bare.2, h.bare.3, h.bare.4⟩, ivS_poll hL h.s⟩
  · intro w h _; exact ⟨⟨h.bare.1, h.bare.2, h.bare.3, h.bare.4⟩, ivS_cancel h.s⟩

/-- An interval world is a one-task world (for `unsub_freezes`). -/
theorem ivInv_oneTask {c : Nat} {L : Nat → Nat} {p : Nat} {w : TW} (h : IvInv c L p w)
    (hu : w.unsubscribed = false) : OneTask w := by
  obtain ⟨t, ht, h1⟩ := h.s.task
  exact ⟨h.bare, h.s.len, t, ht, Or.inl h1.body, fun h' => by rw [hu] at h'; cases h'⟩

/-- `sub` on the idle world establishes the invariant with `B = clock + first`. -/
theorem ivInv_sub (delay : Option Nat) (p c : Nat) (term : List Nat) :
    IvInv c (linL (c + delay.getD p) p) p (step (idle (.interval delay p) c term) .sub) ∧
    (step (idle (.interval delay p) c term) .sub).unsubscribed = false ∧
    (step (idle (.interval delay p) c term) .sub).log = [] := by
  refine ⟨⟨⟨rfl, fun i h => (by cases h), rfl, rfl⟩, ⟨?_, rfl, Nat.le_refl _, ?_⟩⟩, rfl, rfl⟩
  · intro tm h
    simp [step, idle, subscribeFrom, subscribeSource, scheduleRepeat, newTimer, timerFired] at h
    cases tm with
    | zero => simp at h
    | succ n => simp at h
  · refine ⟨_, rfl, rfl, rfl, rfl, 0, 0, rfl, rfl, Or.inl rfl, c + delay.getD p, ?_, by simp [linL]⟩
    simp [step, idle, subscribeFrom, subscribeSource, scheduleRepeat, newTimer, tdue]

/-- The invariant holds from the first `sub` on, with `B = t_sub + first`. -/
theorem interval_reach (delay : Option Nat) (p : Nat) (pre post : List Ev) (hpre : ∀ e ∈ pre, e ≠ .sub) :
    IvInv (run (start (.interval delay p)) pre).clock
      (linL ((run (start (.interval delay p)) pre).clock + delay.getD p) p) p
      (run (start (.interval delay p)) (pre ++ .sub :: post)) := by
  obtain ⟨term, h⟩ := run_presub (.interval delay p) (fun i h => by cases h) pre hpre
  rw [run_append, run_cons, h]
  exact ivInv_run _ _ _ (lstep_lin _ _ _) post _ (ivInv_sub delay p _ term).1

/-- … and at the `sub` itself nothing has been unsubscribed. -/
theorem interval_oneTask (delay : Option Nat) (p : Nat) (pre mid : List Ev) :
    OneTask (run (start (.interval delay p)) (pre ++ .sub :: mid)) := by
  obtain ⟨pre', mid', e, hpre⟩ := split_first_sub pre mid
  rw [e]
  obtain ⟨term, h⟩ := run_presub (.interval delay p) (fun i h => by cases h) pre' hpre
  rw [run_append, run_cons, h]
  have := ivInv_sub delay p (run (start (.interval delay p)) pre').clock term
  exact oneTask_run mid' _ (ivInv_oneTask this.1 this.2.1)

theorem ivInv_seq {c : Nat} {L : Nat → Nat} {p : Nat} {w : TW} (h : IvInv c L p w) :
    ∃ m, w.log = ticks m := by
  obtain ⟨t, _, h1⟩ := h.s.task
  obtain ⟨_, seq, _, r2, _⟩ := h1.rep
  exact ⟨seq, r2⟩

/-- The last tick delivered did not happen before its bound. -/
theorem ivInv_last {c : Nat} {L : Nat → Nat} {p : Nat} {w : TW} (h : IvInv c L p w) :
    w.log.length = 0 ∨ L (w.log.length - 1) ≤ w.clock := by
  obtain ⟨t, _, h1⟩ := h.s.task
  obtain ⟨_, seq, _, r2, r3, _⟩ := h1.rep
  rw [r2, ticks_length]
  exact r3

theorem ivInv_early {c B p : Nat} {w : TW} (h : IvInv c (linL B p) p w) (k : Nat)
    (hk : w.clock < B + k * p) : w.log.length ≤ k := by
  rcases ivInv_last h with r3 | r3
  · omega
  · apply Nat.le_of_not_lt
    intro hlt
    have : k * p ≤ (w.log.length - 1) * p := Nat.mul_le_mul_right p (by omega)
    simp only [linL] at r3
    omega

/-! ### spacing -/

/-- The bounds of "spacing": nothing is known up to tick `k`; if tick `k` is delivered at or
    after `c`, tick `j > k` is not delivered before `c + (j-k)·p`. -/
def gapL (c k p : Nat) (j : Nat) : Nat := if j ≤ k then 0 else c + (j - k) * p

theorem lstep_gap (c k p : Nat) : LStep c (gapL c k p) p := by
  intro j
  simp only [gapL]
  by_cases h1 : j + 1 ≤ k
  · rw [if_pos h1]; exact Nat.zero_le _
  · rw [if_neg h1]
    by_cases h2 : j ≤ k
    · have : j + 1 - k = 1 := by omega
      rw [if_pos h2, this, Nat.one_mul, Nat.max_def]
      split <;> omega
    · have : j + 1 - k = (j - k) + 1 := by omega
      rw [if_neg h2, this, Nat.succ_mul, Nat.max_def]
      split <;> omega

/-- Any interval world with at most `k` ticks delivered satisfies the spacing invariant
    anchored at its own clock. -/
theorem ivInv_rebase {c : Nat} {L : Nat → Nat} {p : Nat} {w : TW} (h : IvInv c L p w) (k : Nat)
    (hk : w.log.length ≤ k) : IvInv w.clock (gapL w.clock k p) p w := by
  obtain ⟨t, ht, h1⟩ := h.s.task
  obtain ⟨fur, seq, r1, r2, r3, d, r4, r5⟩ := h1.rep
  have hs : seq ≤ k := by rw [r2, ticks_length] at hk; exact hk
  refine ⟨h.bare, h.s.fd, h.s.len, Nat.le_refl _, t, ht, h1.body, h1.od, h1.ot, fur, seq, r1, r2, ?_,
    d, r4, ?_⟩
  · right; simp only [gapL]; rw [if_pos (by omega)]; exact Nat.zero_le _
  · simp only [gapL]; rw [if_pos hs]; exact Nat.zero_le _

theorem ivInv_gap {c k p : Nat} {w : TW} (h : IvInv c (gapL c k p) p w) (hc : w.clock < c + p) :
    w.log.length ≤ k + 1 := by
  rcases ivInv_last h with r3 | r3
  · omega
  · apply Nat.le_of_not_lt
    intro hlt
    simp only [gapL] at r3
    rw [if_neg (by omega)] at r3
    have : 1 * p ≤ (w.log.length - 1 - k) * p := Nat.mul_le_mul_right p (by omega)
    omega

end TW
end Rx.T
