import RxModel.Lemmas.TimeStepsEv
/-
  Helper lemmas for Props/C02S.lean, part 5: delay and observe_on (one task per notification, handles
  collected in a `MultiSubscriptionThreads`) with the ORIGINAL order of their subscription.
-/
namespace Rx.Conc.TS
open Rx

/-- the operators whose subscription is `ZipSubscription(source, MultiSubscriptionThreads)` -/
def Kind.isM : Kind → Bool
  | .delay _ | .observeOn => true
  | _ => false

/-- program counters that occur with delay / observe_on in the original order -/
def Pc.okM : Pc → Bool
  | .db_trail _ | .db_hcell | .db_cancel _ | .hc_store _ | .th_trail _ | .th_hcell _ | .th_closed _ _
  | .th_ltrail _ | .th_ldown _ | .tc_trail | .tc_dnext _ | .tc_hcell | .tc_cancel _ | .tc_down | .te_hcell
  | .te_cancel _ | .p_trail _ _ | .p_down _ _ _ | .u_hcell _ | .u_cancel _ _ => false
  | .u_slot b => b
  | .u_multi b => !b
  | .u_mc _ b => !b
  | _ => true

/-- past `SubscriberThreads::unsubscribe` of the source half -/
def Pc.mLate : Pc → Bool
  | .u_multi _ | .u_mc _ _ | .u_end => true
  | _ => false

/-- inside `unsubscribe()` (the subscription value has been taken) -/
def Pc.inUnsub : Pc → Bool
  | .u_slot _ | .u_hcell _ | .u_cancel _ _ | .u_multi _ | .u_mc _ _ | .u_end => true
  | _ => false

structure MConf (K : Conf) : Prop where
  kind : K.kind.isM = true
  order : K.order = .original

@[simp] theorem deliver_multi (s : St) (n : Notif) : (s.deliver n).multi = s.multi := by
  unfold St.deliver; split <;> rfl
@[simp] theorem deliver_subHeld (s : St) (n : Notif) : (s.deliver n).subHeld = s.subHeld := by
  unfold St.deliver; split <;> rfl
@[simp] theorem fireTimer_multi (s : St) (j : Nat) : (s.fireTimer j).multi = s.multi := by
  unfold St.fireTimer; split
  · rfl
  · split <;> rfl
@[simp] theorem fireTimer_subHeld (s : St) (j : Nat) : (s.fireTimer j).subHeld = s.subHeld := by
  unfold St.fireTimer; split
  · rfl
  · split <;> rfl
@[simp] theorem foldl_fire_multi (l : List Nat) (s : St) : (l.foldl St.fireTimer s).multi = s.multi :=
  foldl_fire (fun x => x.multi = s.multi) (fun x j h => by simp [h]) l s rfl
@[simp] theorem foldl_fire_subHeld (l : List Nat) (s : St) : (l.foldl St.fireTimer s).subHeld = s.subHeld :=
  foldl_fire (fun x => x.subHeld = s.subHeld) (fun x j h => by simp [h]) l s rfl

/-- the harness hands the subscription out once -/
theorem ev_sub (K : Conf) (s : St) (p : Pc) (h : (step K s p).1.subHeld = true) : s.subHeld = true := by
  revert h
  cases p <;> simp only [step, thOver] <;> (repeat' split) <;> simp [St.upd, St.spawn, St.beginPoll] <;>
    try assumption

/-- an emptied composite stays empty -/
theorem ev_multi_none (K : Conf) (s : St) (p : Pc) (h : s.multi = none) : (step K s p).1.multi = none := by
  cases p <;> simp only [step, thOver] <;> (repeat' split) <;> simp_all [St.upd, St.spawn, St.beginPoll]

/-- a handle stays in the composite until `unsubscribe` takes the whole list -/
theorem ev_multi_mem (K : Conf) (s : St) (p : Pc) (l : List Nat) (k : Nat) (hl : s.multi = some l)
    (hk : k ∈ l) :
    (∃ l', (step K s p).1.multi = some l' ∧ k ∈ l') ∨ ∃ b, (step K s p).2 = .u_mc l b := by
  cases p
  case u_multi b =>
    cases l with
    | nil => cases hk
    | cons a r => right; exact ⟨b, by simp [step, hl]⟩
  all_goals
    simp only [step, thOver] <;> (repeat' split) <;> simp_all [St.upd, St.spawn, St.beginPoll]

/-- with delay / observe_on the only fresh tasks are those about to be appended to the composite -/
theorem ev_freshM (K : Conf) (s : St) (p : Pc) (k : Nat) (t' : Task)
    (h : (step K s p).1.tasks[k]? = some t') (h0 : s.tasks[k]? = none)
    (ok : p.okM = true) : (step K s p).2 = .dl_append k := by
  have hk : s.tasks.length ≤ k := by
    rcases Nat.lt_or_ge k s.tasks.length with h | h
    · rw [List.getElem?_eq_getElem h] at h0; cases h0
    · exact h
  revert h
  cases p <;> simp only [step, thOver] <;> (repeat' split) <;>
    simp_all [St.upd, St.spawn, St.beginPoll, Pc.okM]
  all_goals
    intro h
    obtain ⟨e1, _⟩ := append_one_get _ _ _ _ (by simpa using hk) h
    simp [e1]

/-- … and they carry a notification -/
theorem ev_freshM_body (K : Conf) (s : St) (p : Pc) (k : Nat) (t' : Task)
    (h : (step K s p).1.tasks[k]? = some t') (h0 : s.tasks[k]? = none)
    (ok : p.okM = true) : ∃ n, t'.body = .emit n := by
  have hk : s.tasks.length ≤ k := by
    rcases Nat.lt_or_ge k s.tasks.length with h | h
    · rw [List.getElem?_eq_getElem h] at h0; cases h0
    · exact h
  revert h
  cases p <;> simp only [step, thOver] <;> (repeat' split) <;>
    simp_all [St.upd, St.spawn, St.beginPoll, Pc.okM]
  all_goals
    intro h
    obtain ⟨_, e2⟩ := append_one_get _ _ _ _ (by simpa using hk) h
    subst e2
    simp

theorem ev_mLate (K : Conf) (hK : K.order = .original) (s : St) (p : Pc) (h : (step K s p).2.mLate = true) :
    p.mLate = true ∨ (∃ b, p = .u_slot b) ∨ p.okM = false := by
  revert h
  cases p <;> simp only [step, nextEntry, termEntry, afterTrail, thOver, uSecond, uAfter, retPc] <;>
    (repeat' split) <;> simp_all [Pc.mLate, Pc.okM]

theorem retPc_inUnsub (ret : Ret) : (retPc ret).inUnsub = false := by cases ret <;> rfl

/-- `unsubscribe()` is entered with the subscription value in hand, which is gone afterwards -/
theorem ev_inUnsub (K : Conf) (s : St) (p : Pc) (h : (step K s p).2.inUnsub = true) :
    p.inUnsub = true ∨ (p = .u_begin ∧ s.subHeld = true ∧ (step K s p).1.subHeld = false) := by
  revert h
  cases p
  case p_fin k r ret => simp [step, retPc_inUnsub]
  all_goals
    simp only [step, nextEntry, termEntry, afterTrail, thOver, uSecond, uAfter] <;>
    (repeat' split) <;> simp_all [Pc.inUnsub]

theorem cancel_unarmedM (K : Conf) (s : St) (p : Pc) (k : Nat)
    (hp : p = .dl_late k ∨ ∃ r b, p = .u_mc (k :: r) b) : (step K s p).1.armed k = false := by
  cases hx : (step K s p).1.armed k with
  | false => rfl
  | true =>
    obtain ⟨t', ht', hk', _⟩ := (armed_iff _ _).mp hx
    have key : ∀ ts : List Task, ts = updT s.tasks k cancel → ts[k]? = some t' → False := by
      intro ts e h
      rw [e, getElem?_updT] at h
      simp only [if_true] at h
      cases h0 : s.tasks[k]? with
      | none => rw [h0] at h; cases h
      | some t => rw [h0] at h; cases h; simp [cancel] at hk'
    rcases hp with rfl | ⟨r, b, rfl⟩
    · exact (key _ rfl (by simpa [step, St.upd] using ht')).elim
    · cases r with
      | nil => exact (key _ rfl (by simpa [step, St.upd] using ht')).elim
      | cons a r => exact (key _ rfl (by simpa [step, St.upd] using ht')).elim

/-- the next stage of the teardown loop -/
theorem mc_next (K : Conf) (s : St) (h : Nat) (r : List Nat) (b : Bool) :
    (step K s (.u_mc (h :: r) b)).1 = s.upd h cancel ∧
      ((r = [] ∧ (step K s (.u_mc (h :: r) b)).2 = uAfter b) ∨
        (r ≠ [] ∧ (step K s (.u_mc (h :: r) b)).2 = .u_mc r b)) := by
  cases r with
  | nil => simp [step]
  | cons a r => simp [step]

theorem down_casesM (p : Pc) (h : p.cell = some .down) :
    Cell.slot ∈ p.holds ∨ (∃ k n ret, p = .p_emit k n ret) ∨ p.okM = false := by
  cases p <;> simp_all [Pc.cell, Pc.holds, Pc.okM]

/-- what a thread standing at a program counter knows -/
def AssertM (s : St) : Pc → Prop
  | .dl_append k => k < s.tasks.length
  | .p_emit k _ _ => s.armed k = true
  | .u_multi _ => s.slotOpen = false
  | .u_mc hs _ => s.slotOpen = false ∧ s.multi = none ∧ ∀ k, s.armed k = true → k ∈ hs
  | .u_end => s.slotOpen = false ∧ ∀ k, s.armed k = false
  | _ => True

/-- after `unsubscribe()` has returned -/
structure QuietM (s : St) (f : Nat → Pc) : Prop where
  slot : s.slotOpen = false
  dead : ∀ k, s.armed k = false
  out : ∀ j, Cell.slot ∉ (f j).holds

structure MData (s : St) (f : Nat → Pc) : Prop where
  ok : ∀ j, (f j).okM = true
  body : ∀ t ∈ s.tasks, ∃ n, t.body = .emit n
  as : ∀ j, AssertM s (f j)
  poll : PollInv s f
  /-- one unsubscribing thread -/
  uu : ∀ j j', (f j).inUnsub = true → (f j').inUnsub = true → j = j'
  us : ∀ j, (f j).inUnsub = true → s.subHeld = false
  /-- an armed task is registered in the composite, or about to be, or about to be cancelled -/
  t1 : ∀ k, s.armed k = true →
    (∃ l, s.multi = some l ∧ k ∈ l) ∨
      ∃ j, f j = .dl_append k ∨ f j = .dl_late k ∨ ∃ hs b, f j = .u_mc hs b ∧ k ∈ hs
  /-- once the source half is closed nobody is inside the slot section -/
  u1 : ∀ j j', (f j).mLate = true → Cell.slot ∉ (f j').holds
  q : Item.R ∈ s.log → QuietM s f
  ql : quietAfterR s.log = true

structure MInv (s : St) (f : Nat → Pc) : Prop where
  ld : LD s f
  dd : MData s f

theorem task_bodyM (s : St) (hb : ∀ t ∈ s.tasks, ∃ n, t.body = .emit n) (k : Nat) (hk : k < s.tasks.length) :
    ∃ n, (s.task k).body = .emit n := by
  rw [task_eq, List.getElem?_eq_getElem hk]
  exact hb _ (List.getElem_mem hk)

theorem entry_okM {q : Pc} (h : q.isEntry = true) : q.okM = true := by
  cases q <;> simp_all [Pc.isEntry, Pc.okM]

theorem entry_assertM (s : St) {q : Pc} (h : q.isEntry = true) : AssertM s q := by
  cases q <;> simp_all [Pc.isEntry, AssertM]

theorem entry_mLate {q : Pc} (h : q.isEntry = true) : q.mLate = false := by
  cases q <;> simp_all [Pc.isEntry, Pc.mLate]

theorem entry_inUnsub {q : Pc} (h : q.isEntry = true) : q.inUnsub = false := by
  cases q <;> simp_all [Pc.isEntry, Pc.inUnsub]

theorem mLate_holds {q : Pc} (h : q.mLate = true) : Cell.slot ∉ q.holds := by
  cases q <;> simp_all [Pc.mLate, Pc.holds]

theorem mLate_assert {s : St} {p : Pc} (hl : p.mLate = true) (a : AssertM s p) : s.slotOpen = false := by
  cases p <;> simp_all [Pc.mLate, AssertM]

theorem mLate_inUnsub {p : Pc} (hl : p.mLate = true) : p.inUnsub = true := by
  cases p <;> simp_all [Pc.mLate, Pc.inUnsub]

section frameM
variable {K : Conf} {s : St} {f : Nat → Pc} {i : Nat}

theorem blocked_of_heldM (h : LD s f) {j : Nat} {c : Cell} (hc : c ∈ (f j).holds)
    (hp : (f i).cell = some c) : s.enabled (f i) = false := by
  unfold St.enabled; rw [hp]; exact h.not_free hc

theorem step_okM (hK : MConf K) (h : MInv s f) : (step K s (f i)).2.okM = true := by
  have ok := h.dd.ok i
  have h1 := hK.kind
  have h2 := hK.order
  cases hp : f i
  case p_handle k ret =>
    obtain ⟨t, ht, _⟩ := h.dd.poll.p2 k i (by rw [hp]; simp [Pc.inPoll])
    obtain ⟨n, hn⟩ := task_bodyM s h.dd.body k (List.getElem?_eq_some_iff.mp ht).1
    simp only [step, hn]
    (repeat' split) <;> simp [Pc.okM]
  all_goals
    rw [hp] at ok
    simp only [step, nextEntry, termEntry, afterTrail, thOver, uSecond, uAfter, retPc]
    (repeat' split) <;> simp_all [Pc.okM, Kind.isM]

theorem assertM_frame (h : MInv s f) (he : s.enabled (f i) = true) {j : Nat} (hj : j ≠ i) :
    AssertM (step K s (f i)).1 (f j) := by
  have a := h.dd.as j
  have hslot : s.slotOpen = false → (step K s (f i)).1.slotOpen = false := by
    intro hn
    cases hx : (step K s (f i)).1.slotOpen with
    | false => rfl
    | true => rw [ev_slot _ _ _ hx] at hn; cases hn
  have harm : ∀ k, Cell.handle k ∈ (f j).holds → s.armed k = true → (step K s (f i)).1.armed k = true := by
    intro k hh ha
    obtain ⟨t, ht, hk, hv⟩ := (armed_iff _ _).mp ha
    obtain ⟨t', ht', _, hkeep, _, hval⟩ := ev_old K s (f i) k t ht
    have hk' : t'.keep = true := by
      rcases hkeep with e | ⟨_, e⟩
      · rw [e, hk]
      · rw [blocked_of_heldM h.ld hh e] at he; cases he
    refine (armed_iff _ _).mpr ⟨t', ht', hk', ?_⟩
    rcases hval with e | ⟨_, e⟩ | ⟨_, e⟩
    · rw [e, hv]
    · rw [hk'] at e; cases e
    · exact absurd (h.ld.excl _ _ _ hh e) hj
  have hdead : (f j).mLate = true → ∀ k, (step K s (f i)).1.armed k = true → s.armed k = true := by
    intro hl k hx
    rcases ev_armed _ _ _ _ hx with e | ⟨_, e⟩
    · exact e
    · exact absurd e (h.dd.u1 j i hl)
  cases hfj : f j <;> rw [hfj] at a <;> simp only [AssertM] at a ⊢
  case dl_append k => exact Nat.lt_of_lt_of_le a (len_mono _ _ _)
  case p_emit k n ret => exact harm k (by rw [hfj]; simp [Pc.holds]) a
  case u_multi b => exact hslot a
  case u_mc hs b =>
    exact ⟨hslot a.1, ev_multi_none _ _ _ a.2.1, fun k hx => a.2.2 k (hdead (by rw [hfj]; rfl) k hx)⟩
  case u_end =>
    refine ⟨hslot a.1, fun k => ?_⟩
    cases hx : (step K s (f i)).1.armed k with
    | false => rfl
    | true => have := hdead (by rw [hfj]; rfl) k hx; rw [a.2 k] at this; cases this

/-- what is armed when the composite is taken is in the taken list (or there is nothing armed) -/
theorem armed_in_taken (h : MInv s f) {b : Bool} (hp : f i = .u_multi b) (k : Nat) (hk : s.armed k = true) :
    ∃ l, s.multi = some l ∧ k ∈ l := by
  have late : (f i).mLate = true := by rw [hp]; rfl
  rcases h.dd.t1 k hk with e | ⟨j, e | e | ⟨hs, b', e, _⟩⟩
  · exact e
  · exact absurd (by rw [e]; simp [Pc.holds]) (h.dd.u1 i j late)
  · exact absurd (by rw [e]; simp [Pc.holds]) (h.dd.u1 i j late)
  · have := h.dd.uu j i (by rw [e]; rfl) (by rw [hp]; rfl)
    subst this
    rw [hp] at e; cases e

theorem assertM_self (hK : MConf K) (h : MInv s f) :
    AssertM (step K s (f i)).1 (step K s (f i)).2 := by
  have a := h.dd.as i
  have ok := h.dd.ok i
  have h1 := hK.kind
  have h2 := hK.order
  cases hp : f i
  case p_handle k ret =>
    have := armed_at_body h.dd.poll hp
    simp only [step]
    (repeat' split) <;> simp_all [AssertM]
  case u_multi b =>
    have key := armed_in_taken h hp
    rw [hp] at a ok
    simp only [AssertM] at a
    simp only [step]
    have e1 : ∀ k, ({ s with multi := none } : St).armed k = s.armed k := fun k => rfl
    split
    · next h0 r hm =>
      simp only [AssertM]
      refine ⟨a, by first | trivial | rfl, fun k hk => ?_⟩
      rw [e1] at hk
      obtain ⟨l, hl, hkl⟩ := key k hk
      rw [hm] at hl; cases hl; exact hkl
    · next hne =>
      have dead : ∀ k, s.armed k = false := by
        intro k
        cases hx : s.armed k with
        | false => rfl
        | true =>
          obtain ⟨l, hl, hkl⟩ := key k hx
          cases l with
          | nil => cases hkl
          | cons a r => exact absurd hl (hne a r)
      cases b <;> simp_all [uAfter, AssertM, Pc.okM]
  case u_mc hs b =>
    rw [hp] at a ok
    simp only [AssertM] at a
    cases hs with
    | nil =>
      simp only [step]
      cases b <;> simp_all [uAfter, AssertM, Pc.okM]
    | cons h0 r =>
      obtain ⟨e1, e2⟩ := mc_next K s h0 r b
      have hcan : (s.upd h0 cancel).armed h0 = false := by
        have := cancel_unarmedM K s (.u_mc (h0 :: r) b) h0 (Or.inr ⟨r, b, rfl⟩)
        rw [e1] at this; exact this
      have hmono : ∀ k, (s.upd h0 cancel).armed k = true → s.armed k = true := by
        intro k hk
        have hk' : (step K s (.u_mc (h0 :: r) b)).1.armed k = true := by rw [e1]; exact hk
        rcases ev_armed _ _ _ _ hk' with e | ⟨_, e⟩
        · exact e
        · simp [Pc.holds] at e
      have hin : ∀ k, (s.upd h0 cancel).armed k = true → k ∈ r := by
        intro k hk
        have := a.2.2 k (hmono k hk)
        rcases List.mem_cons.mp this with e | e
        · subst e; rw [hcan] at hk; cases hk
        · exact e
      rcases e2 with ⟨er, e2⟩ | ⟨_, e2⟩
      · rw [e1, e2]
        subst er
        have dead : ∀ k, (s.upd h0 cancel).armed k = false := by
          intro k
          cases hx : (s.upd h0 cancel).armed k with
          | false => rfl
          | true => have := hin k hx; cases this
        have hb : b = false := by simpa [Pc.okM] using ok
        subst hb
        simp only [uAfter, AssertM]
        exact ⟨a.1, dead⟩
      · rw [e1, e2]
        simp only [AssertM]
        exact ⟨a.1, a.2.1, hin⟩
  all_goals
    rw [hp] at a ok
    simp only [step, nextEntry, termEntry, afterTrail, thOver, uSecond, uAfter, retPc]
    (repeat' split) <;> simp_all [AssertM, Pc.okM, St.spawn, Kind.isM]

theorem quietM_preserved (hq : QuietM s f) {q : Pc} (ha : After (step K s (f i)).2 q) :
    QuietM (step K s (f i)).1 (fun j => if j = i then q else f j) := by
  refine ⟨?_, ?_, ?_⟩
  · cases hx : (step K s (f i)).1.slotOpen with
    | false => rfl
    | true => have := ev_slot _ _ _ hx; rw [hq.slot] at this; cases this
  · intro k
    cases hx : (step K s (f i)).1.armed k with
    | false => rfl
    | true =>
      rcases ev_armed _ _ _ _ hx with e | ⟨_, e⟩
      · rw [hq.dead k] at e; cases e
      · exact absurd e (hq.out i)
  · intro j
    by_cases hj : j = i
    · simp only [hj, if_true]
      rcases ha with rfl | ⟨_, hent⟩
      · intro hm
        rcases ev_enter _ _ _ hm with e | e
        · exact hq.out i e
        · rw [hq.slot] at e; cases e
      · rw [isEntry_holds hent]; simp
    · simp only [hj, if_false]; exact hq.out j

/-- One step of thread `i` preserves the data clauses. -/
theorem mdata_preserved (hK : MConf K) (h : MInv s f) (he : s.enabled (f i) = true) {q : Pc}
    (ha : After (step K s (f i)).2 q) :
    MData (step K s (f i)).1 (fun j => if j = i then q else f j) := by
  have hb' : ∀ t ∈ (step K s (f i)).1.tasks, ∃ n, t.body = .emit n := by
    intro t' hm
    obtain ⟨k, ht'⟩ := List.getElem?_of_mem hm
    cases h0 : s.tasks[k]? with
    | some t =>
      obtain ⟨t'', ht'', hbd, _, _⟩ := ev_old K s (f i) k t h0
      rw [ht'] at ht''; cases ht''
      rw [hbd]; exact h.dd.body t (List.mem_of_getElem? h0)
    | none => exact ev_freshM_body K s (f i) k t' ht' h0 (h.dd.ok i)
  have hq_ok : q.okM = true := by
    rcases ha with rfl | ⟨_, hent⟩
    · exact step_okM hK h
    · exact entry_okM hent
  have hq_as : AssertM (step K s (f i)).1 q := by
    rcases ha with rfl | ⟨_, hent⟩
    · exact assertM_self hK h
    · exact entry_assertM _ hent
  have hq_un : q.inUnsub = true →
      (f i).inUnsub = true ∨ (f i = .u_begin ∧ s.subHeld = true ∧ (step K s (f i)).1.subHeld = false) := by
    intro hu
    rcases ha with rfl | ⟨_, hent⟩
    · exact ev_inUnsub _ _ _ hu
    · rw [entry_inUnsub hent] at hu; cases hu
  refine ⟨?_, hb', ?_, h.dd.poll.preserved ha, ?_, ?_, ?_, ?_, ?_, ?_⟩
  · intro j
    by_cases hj : j = i
    · simp only [hj, if_true]; exact hq_ok
    · simp only [hj, if_false]; exact h.dd.ok j
  · intro j
    by_cases hj : j = i
    · simp only [hj, if_true]; exact hq_as
    · simp only [hj, if_false]; exact assertM_frame h he hj
  · -- uu
    intro j j' h1 h2
    by_cases hj : j = i <;> by_cases hj' : j' = i
    · rw [hj, hj']
    · simp only [hj, hj', if_true, if_false] at h1 h2
      rcases hq_un h1 with e | ⟨_, e, _⟩
      · exact hj ▸ (h.dd.uu i j' e h2)
      · rw [h.dd.us j' h2] at e; cases e
    · simp only [hj, hj', if_true, if_false] at h1 h2
      rcases hq_un h2 with e | ⟨_, e, _⟩
      · exact hj' ▸ (h.dd.uu j i h1 e)
      · rw [h.dd.us j h1] at e; cases e
    · simp only [hj, hj', if_false] at h1 h2
      exact h.dd.uu j j' h1 h2
  · -- us
    intro j hu
    have keep : s.subHeld = false → (step K s (f i)).1.subHeld = false := by
      intro hn
      cases hx : (step K s (f i)).1.subHeld with
      | false => rfl
      | true => rw [ev_sub _ _ _ hx] at hn; cases hn
    by_cases hj : j = i
    · simp only [hj, if_true] at hu
      rcases hq_un hu with e | ⟨_, _, e⟩
      · exact keep (h.dd.us i e)
      · exact e
    · simp only [hj, if_false] at hu
      exact keep (h.dd.us j hu)
  · -- t1
    intro k hx
    rcases ev_armed _ _ _ _ hx with e | ⟨h0, _⟩
    · rcases h.dd.t1 k e with ⟨l, hl, hkl⟩ | ⟨j, hj⟩
      · rcases ev_multi_mem K s (f i) l k hl hkl with e1 | ⟨b, e1⟩
        · exact Or.inl e1
        · exact Or.inr ⟨i, Or.inr (Or.inr ⟨l, b, by simp only [if_true]; exact after_eq ha e1 (by simp), hkl⟩)⟩
      · by_cases hji : j = i
        · subst hji
          rcases hj with e1 | e1 | ⟨hs, b, e1, hk⟩
          · -- the append
            rw [e1] at hx ⊢
            simp only [step] at hx ⊢
            cases hm : s.multi with
            | some l => left; simp
            | none =>
              right
              refine ⟨j, Or.inr (Or.inl ?_)⟩
              simp only [if_true]
              exact after_eq ha (by rw [e1]; simp [step, hm]) (by simp)
          · rw [cancel_unarmedM K s (f j) k (Or.inl e1)] at hx; cases hx
          · cases hs with
            | nil => cases hk
            | cons h1 r =>
              rcases List.mem_cons.mp hk with e2 | e2
              · subst e2
                rw [cancel_unarmedM K s (f j) k (Or.inr ⟨r, b, e1⟩)] at hx; cases hx
              · obtain ⟨_, e3⟩ := mc_next K s h1 r b
                rcases e3 with ⟨er, _⟩ | ⟨_, e3⟩
                · subst er; cases e2
                · rw [← e1] at e3
                  exact Or.inr ⟨j, Or.inr (Or.inr ⟨r, b, by simp only [if_true]; exact after_eq ha e3 (by simp), e2⟩)⟩
        · exact Or.inr ⟨j, by simp only [hji, if_false]; exact hj⟩
    · obtain ⟨t', ht', _⟩ := (armed_iff _ _).mp hx
      have e2 := ev_freshM K s (f i) k t' ht' h0 (h.dd.ok i)
      exact Or.inr ⟨i, Or.inl (by simp only [if_true]; exact after_eq ha e2 (by simp))⟩
  · -- u1
    intro j j' hl
    by_cases hj : j = i <;> by_cases hj' : j' = i
    · simp only [hj, hj', if_true] at hl ⊢; exact mLate_holds hl
    · simp only [hj, hj', if_true, if_false] at hl ⊢
      rcases ha with rfl | ⟨_, hent⟩
      · rcases ev_mLate K hK.order s (f i) hl with e | ⟨b, e⟩ | e
        · exact h.dd.u1 i j' e
        · intro hm
          have : s.enabled (f i) = false := blocked_of_heldM h.ld hm (by rw [e]; rfl)
          rw [this] at he; cases he
        · rw [h.dd.ok i] at e; cases e
      · rw [entry_mLate hent] at hl; cases hl
    · simp only [hj, hj', if_true, if_false] at hl ⊢
      rcases ha with rfl | ⟨_, hent⟩
      · intro hm
        rcases ev_enter _ _ _ hm with e | e
        · exact h.dd.u1 j i hl e
        · rw [mLate_assert hl (h.dd.as j)] at e; cases e
      · rw [isEntry_holds hent]; simp
    · simp only [hj, hj', if_false] at hl ⊢; exact h.dd.u1 j j' hl
  · -- q
    intro hR
    have hq : QuietM s f := by
      rcases ev_log K s (f i) with e | ⟨e1, _⟩ | ⟨_, n, e2⟩
      · rw [e] at hR; exact h.dd.q hR
      · have a := h.dd.as i
        rw [e1] at a
        simp only [AssertM] at a
        exact ⟨a.1, a.2, fun j => h.dd.u1 i j (by rw [e1]; rfl)⟩
      · rw [e2] at hR
        simp only [List.mem_append, List.mem_singleton] at hR
        rcases hR with hR | hR
        · exact h.dd.q hR
        · cases hR
    exact quietM_preserved hq ha
  · -- ql
    rcases ev_log K s (f i) with e | ⟨_, e2⟩ | ⟨hc, n, e2⟩
    · rw [e]; exact h.dd.ql
    · rw [e2, quiet_append_R]; exact h.dd.ql
    · rw [e2]
      by_cases hR : Item.R ∈ s.log
      · have hq := h.dd.q hR
        rcases down_casesM (f i) hc with e | ⟨k, n', ret, e⟩ | e
        · exact absurd e (hq.out i)
        · have a := h.dd.as i
          rw [e] at a
          simp only [AssertM] at a
          rw [hq.dead k] at a; cases a
        · rw [h.dd.ok i] at e; cases e
      · exact quiet_append_n _ _ hR

end frameM

theorem MData.setHeld {s : St} {f : Nat → Pc} (h : MData s f) (i : Tid) (c : List Cell) :
    MData (s.setHeld i c) f :=
  ⟨h.ok, h.body, h.as, ⟨h.poll.p1, h.poll.p2, h.poll.v⟩, h.uu, h.us, h.t1, h.u1,
    fun hR => ⟨(h.q hR).slot, (h.q hR).dead, (h.q hR).out⟩, h.ql⟩

theorem MInv.preserved {K : Conf} (hK : MConf K) {s : St} {f : Nat → Pc} (h : MInv s f) (i : Nat) (q : Pc)
    (he : s.enabled (f i) = true) (ha : After (step K s (f i)).2 q) :
    MInv ((step K s (f i)).1.setHeld i q.holds) (fun j => if j = i then q else f j) :=
  ⟨h.ld.preserved K i q he ha, (mdata_preserved hK h he ha).setHeld i q.holds⟩

theorem MInv.init (live : Bool) (progs : List (List Op)) :
    MInv (St.subscribed live) (Cfg.init (St.subscribed live) progs).pcOf := by
  have hpc := init_pcOf (St.subscribed live) progs
  have hno : ∀ k, (St.subscribed live).armed k = false := by intro k; rfl
  refine ⟨LD.init _ rfl progs, ⟨?_, ?_, ?_, PollInv.init live progs, ?_, ?_, ?_, ?_, ?_, rfl⟩⟩
  · intro j; rcases hpc j with e | e
    · rw [e]; rfl
    · exact entry_okM e
  · intro t ht; cases ht
  · intro j; rcases hpc j with e | e
    · rw [e]; trivial
    · exact entry_assertM _ e
  · intro j j' h1; rcases hpc j with e | e
    · rw [e] at h1; cases h1
    · rw [entry_inUnsub e] at h1; cases h1
  · intro j h1; rcases hpc j with e | e
    · rw [e] at h1; cases h1
    · rw [entry_inUnsub e] at h1; cases h1
  · intro k hk; rw [hno k] at hk; cases hk
  · intro j j' h1; rcases hpc j with e | e
    · rw [e] at h1; cases h1
    · rw [entry_mLate e] at h1; cases h1
  · intro hR; cases hR

/-- The invariant holds along every schedule of every set of threads. -/
theorem MInv.exec {K : Conf} (hK : MConf K) (live : Bool) (progs : List (List Op)) (sched : List Nat) :
    MInv (exec K (Cfg.init (St.subscribed live) progs) sched).st
      (exec K (Cfg.init (St.subscribed live) progs) sched).pcOf :=
  view_induction K MInv (fun _ _ i q h he ha => h.preserved hK i q he ha) sched _ (MInv.init live progs)

theorem mconf_delay (d : Nat) : MConf ⟨.delay d, .original⟩ := ⟨rfl, rfl⟩
theorem mconf_observeOn : MConf ⟨.observeOn, .original⟩ := ⟨rfl, rfl⟩

end Rx.Conc.TS
