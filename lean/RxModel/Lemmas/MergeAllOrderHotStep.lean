import RxModel.Lemmas.MergeAllOrderHotEff
/-
  C05O — hot inner instances.  The exact effect of ONE external event on the
  bookkeeping of instance `t` of hot subject `j` (`Eff`), for every event, from
  every state that is not stuck.
-/
namespace Rx.MergeAll

/-- The event is the terminal of hot subject `j`. -/
def subjTerm (j : Nat) : Ev → Bool
  | .innerComplete j' => j' == j
  | .innerError j' _ => j' == j
  | _ => false

/-- What the operator delivers on behalf of instance `t` of subject `j` at
    this event: the item of subject `j`, once per `InnerObserver` of `t` the
    subject holds, if the subject and the merged stream are still going. -/
def heardNow (j t : Nat) (s : St) : Ev → List Val
  | .innerNext j' v =>
      if j' = j ∧ s.alive = true ∧ s.dead.contains j = false then
        List.replicate (s.subs.count (j, t)) v
      else []
  | _ => []

theorem restrict_targets_count (t j : Nat) (v : Val) (subs : List (Nat × Nat))
    (hown : ∀ p ∈ subs, p.2 = t → p.1 = j) :
    restrict t ((subs.filter (fun p => p.1 == j)).map (fun p => Out.item p.2 v)) =
      List.replicate (subs.count (j, t)) v := by
  induction subs with
  | nil => rfl
  | cons p r ih =>
    have ih' := ih (fun q hq => hown q (List.mem_cons_of_mem _ hq))
    obtain ⟨a, b⟩ := p
    by_cases h1 : a = j
    · by_cases h2 : b = t
      · subst h1; subst h2
        simp [restrict, ih', List.replicate_succ]
      · subst h1
        have : ¬ ((a, b) == (a, t)) = true := by simp [h2]
        simp [restrict, h2, ih']
    · have h2 : b ≠ t := fun h2 => h1 (hown (a, b) (List.mem_cons_self ..) h2)
      have : ¬ ((a, b) == (j, t)) = true := by simp [h1]
      simp [h1, ih']

theorem errorAll_out (e : Err) (ts : List (Nat × Nat)) : ∀ s : St,
    (errorAll s e ts).2 = (if s.alive = true ∧ ts ≠ [] then [Out.error e] else []) ∧
    (errorAll s e ts).1.alive = (s.alive && ts.isEmpty) ∧
    (errorAll s e ts).1.outerOpen = s.outerOpen := by
  induction ts with
  | nil => intro s; simp [errorAll]
  | cons p r ih =>
    intro s
    simp only [errorAll]
    have h2 := ih (innerError s e).1
    rw [h2.1, h2.2.1, h2.2.2]
    unfold innerError
    cases ha : s.alive <;> simp [ha]

theorem startTop_eff (f : Bool) (j t : Nat) (s : St) (i : Inst) (h : QPre j t s (i :: s.queue)) :
    QEff j t s (i :: s.queue) (startTop f s i) (startTopL f s i) := by
  have hsub : ∀ a ∈ s.queue, a ∈ i :: s.queue := fun a ha => List.mem_cons_of_mem _ ha
  simp only [startTop, startTopL]
  have hinner : St.inner { s with started := s.started + 1 } i.k = s.inner i.k := rfl
  rw [hinner]
  cases hin : s.inner i.k with
  | hot j' =>
    simp only
    have hcase : (i.tag = t ∧ j' = j) ∨ i.tag ≠ t := by
      by_cases hi : i.tag = t
      · have := h.key i (List.mem_cons_self ..) hi
        rw [hin] at this
        injection this with this
        exact Or.inl ⟨hi, this⟩
      · exact Or.inr hi
    refine ⟨rfl, ?_, ?_, ?_, hsub, ?_, ⟨by simp [hasTerm_cons, Lab.isTerm], fun _ => rfl⟩,
      rfl, rfl, rfl, rfl⟩
    · simp only [startsOf, List.count_append, List.count_singleton, nTag_single]
      rcases hcase with ⟨hi, hj⟩ | hi
      · simp [hi, hj]
      · have : ¬ ((j', i.tag) == (j, t)) = true := by simp; intro _; exact hi
        simp [hi, this]
    · simp only [startsOf, nTag_single]
      rcases hcase with ⟨hi, _⟩ | hi
      · rw [nTag_cons_same _ _ _ hi]; simp [hi]
      · rw [nTag_cons_ne _ _ _ hi]; simp [hi]
    · intro p hp hpt
      simp only [List.mem_append, List.mem_singleton] at hp
      rcases hp with hp | rfl
      · exact h.own p hp hpt
      · rcases hcase with ⟨_, hj⟩ | hi
        · exact hj
        · exact absurd hpt hi
    · intro p hp
      simp only [List.mem_append, List.mem_singleton] at hp
      rcases hp with hp | rfl
      · exact h.slt p hp
      · exact h.qlt i (List.mem_cons_self ..)
  | cold xs fin =>
    simp only
    have hi : i.tag ≠ t := by
      intro hi
      have := h.key i (List.mem_cons_self ..) hi
      rw [hin] at this; cases this
    have hn1 : nTag [i] t = 0 := by rw [nTag_single]; simp [hi]
    have hn2 : nTag (i :: s.queue) t = nTag s.queue t := nTag_cons_ne _ _ _ hi
    cases fin with
    | open_ =>
      simp only
      exact ⟨restrict_items_ne t _ xs hi, by simp [startsOf, hn1],
        by simp [startsOf, hn1, hn2], h.own, hsub, h.slt,
        ⟨by simp [hasTerm_cons, Lab.isTerm], fun _ => rfl⟩, rfl, rfl, rfl, rfl⟩
    | error e =>
      simp only
      exact ⟨by simp [restrict_append, restrict_items_ne t _ xs hi, restrict],
        by simp [startsOf, startsOf_append, hn1],
        by simp [startsOf, startsOf_append, hn1, hn2], h.own, hsub, h.slt,
        ⟨fun _ => rfl, by simp [hasTerm_cons, hasTerm_append, Lab.isTerm]⟩, rfl, rfl, rfl, rfl⟩
    | complete =>
      simp only
      have hp : QPre j t { s with started := s.started + 1 } s.queue :=
        ⟨h.own, fun a ha => h.key a (hsub a ha), fun a ha => h.qlt a (hsub a ha), h.slt⟩
      have := drain_eff f j t s.queue _ hp
      refine ⟨?_, ?_, ?_, this.own, fun a ha => hsub a (this.sub a ha), this.slt, ?_, this.inn,
        this.arr, this.dead, this.oo⟩
      · rw [restrict_append, restrict_items_ne t _ xs hi, this.res]; rfl
      · have hc := this.cnt
        simp only [startsOf, startsOf_append, startsOf_itemsL, List.nil_append] at hc ⊢
        rw [hc, nTag_cons_ne _ _ _ hi]
      · have hq := this.que
        simp only [startsOf, startsOf_append, startsOf_itemsL, List.nil_append] at hq ⊢
        rw [nTag_cons_ne _ _ _ hi, hn2]; exact hq
      · have ht := this.term
        refine ⟨?_, ?_⟩
        · intro hh
          apply ht.1
          simpa [hasTerm_cons, hasTerm_append, Lab.isTerm] using hh
        · intro hh
          exact ht.2 (by simpa [hasTerm_cons, hasTerm_append, Lab.isTerm] using hh)

/-- The exact effect of one event on instance `t` of subject `j`: `r` = new
    state and output, `l` = log of the event (`nTag (startsOf l) t` = starts of
    `t`, `nTag (arrivalsOf l) t` = arrivals of `t` in this event). -/
structure Eff (j t : Nat) (s : St) (ev : Ev) (r : St × List Out) (l : List Lab) : Prop where
  pre : QPre j t r.1 r.1.queue
  cntLe : r.1.subs.count (j, t) ≤ s.subs.count (j, t) + nTag (startsOf l) t
  cntGe : nTag (startsOf l) t ≤ r.1.subs.count (j, t)
  cntEq : subjTerm j ev = false → ev ≠ .unsub →
    r.1.subs.count (j, t) = s.subs.count (j, t) + nTag (startsOf l) t
  que : nTag r.1.queue t + nTag (startsOf l) t = nTag s.queue t + nTag (arrivalsOf l) t
  res : restrict t r.2 = heardNow j t s ev
  dead : r.1.dead.contains j = (s.dead.contains j || subjTerm j ev)
  term : TermEff s r.1 l
  arr : s.arrivals ≤ r.1.arrivals
  uns : ev = .unsub → r.1.outerOpen = false ∧ r.1.subs = []

theorem count_filter_ne (subs : List (Nat × Nat)) (j j' t : Nat) :
    (subs.filter (fun p => !(p.1 == j'))).count (j, t) = if j = j' then 0 else subs.count (j, t) := by
  by_cases h : j = j'
  · rw [if_pos h]
    rw [List.count_eq_zero]
    intro hm
    have := (List.mem_filter.mp hm).2
    simp [h] at this
  · rw [if_neg h]
    exact List.count_filter (by simp [h])

theorem QPre.filter {j t : Nat} {s : St} (h : QPre j t s s.queue) (j' : Nat) :
    QPre j t { s with dead := j' :: s.dead, subs := s.subs.filter (fun p => !(p.1 == j')) } s.queue :=
  ⟨fun p hp => h.own p (List.mem_filter.mp hp).1, h.key, h.qlt,
    fun p hp => h.slt p (List.mem_filter.mp hp).1⟩

end Rx.MergeAll
