import RxModel.Lemmas.ChainQuietWorld
/-
  C02 / C17 over the chain model, part 7: `setStage`, `pushB`, `subscribeNotifier`.
-/
namespace Rx.T
open Rx

theorem map_set_same {α β} (f : α → β) (l : List α) (j : Nat) (x y : α) (h : l[j]? = some x)
    (e : f y = f x) : (l.set j y).map f = l.map f := by
  rw [List.map_set]
  apply set_same'
  rw [List.getElem?_map, h, e]; rfl

@[simp] theorem setStage_info (w : TW) (j : Nat) (st : Stage) : (w.setStage j st).info = w.info := rfl
@[simp] theorem setStage_stages (w : TW) (j : Nat) (st : Stage) :
    (w.setStage j st).stages = w.stages.set j st := rfl
@[simp] theorem setStage_sched (w : TW) (j : Nat) (st : Stage) : (w.setStage j st).sched = w.sched := rfl

theorem setStage_fr (w : TW) (j : Nat) (st st1 : Stage) (h : w.stages[j]? = some st)
    (e1 : st1.subH = st.subH) (e2 : st1.n2 = st.n2) : Fr w (w.setStage j st1) :=
  ⟨map_set_same _ _ _ _ _ h e1, map_set_same _ _ _ _ _ h e2, SubKeep.refl _, rfl, ⟨rfl, rfl, rfl⟩⟩

theorem setStage_low (w : TW) (j : Nat) (st : Stage) (i : Nat) (hi : i ≠ j) :
    (w.setStage j st).stages[i]? = w.stages[i]? := set_get_ne _ _ _ _ hi

/-- Reached one level lower when the stage in between is not a subscribe_on with a handle. -/
theorem Reached.step_down {r : Option TaskId} {stages : List Stage} {s : Sched} {j : Nat}
    (h : Reached r stages s (j + 1)) (hn : ∀ st, stages[j]? = some st → st.subH = none) :
    Reached r stages s j := by
  intro i st hh hi hs e
  by_cases e' : i = j
  · subst e'; rw [hn st hs] at e; cases e
  · exact h i st hh (by omega) hs e

theorem pushB_low (w : TW) (j : Nat) (ns : List Notif) (i : Nat) (hi : i < j) :
    (w.pushB j ns).stages[i]? = w.stages[i]? := by
  unfold TW.pushB
  split
  · rw [push_low _ _ _ _ (by omega), setStage_low _ _ _ _ (by omega)]
  · rfl

theorem pushB_good {r : Option TaskId} {w : TW} (j : Nat) (ns : List Notif) (g : GoodW r w)
    (hr : ReachedW r w (j + 1)) : GoodW r (w.pushB j ns) ∧ Fr w (w.pushB j ns) := by
  unfold TW.pushB
  split
  · rename_i st nsrc na nt hj
    have hwf : Stage.wf (.op2n st nsrc na nt) := g.wf j _ hj
    have g1 : GoodW r (w.setStage j (.op2n (st.run .b ns).1 nsrc na nt)) :=
      Good.stage_same g hj (fun h hm => hm) (fun h hm _ _ _ => hm) rfl hwf
        (Or.inl (fun h => by simpa [Stage.handles, Stage.naOn] using h)) rfl
    have f1 := setStage_fr w j _ (.op2n (st.run .b ns).1 nsrc na nt) hj rfl rfl
    obtain ⟨g2, f2⟩ := push_good (j + 1) (st.run .b ns).2 g1 (hr.frame g f1)
    exact ⟨g2, f1.trans f2⟩
  · exact ⟨g, Fr.refl _⟩

theorem pulls_good {r : Option TaskId} {w : TW} (p : Nat) (g : GoodW r w) :
    GoodW r { w with pulls := p } ∧ Fr w { w with pulls := p } :=
  ⟨g, rfl, rfl, SubKeep.refl _, rfl, ⟨rfl, rfl, rfl⟩⟩

theorem loopB_good {r : Option TaskId} (j n : Nat) (fuel : Nat) :
    ∀ (k : Nat) (w : TW), GoodW r w → ReachedW r w (j + 1) →
      GoodW r (TW.subscribeNotifier.loopB j n fuel k w) ∧
      Fr w (TW.subscribeNotifier.loopB j n fuel k w) ∧
      ∀ i, i < j → (TW.subscribeNotifier.loopB j n fuel k w).stages[i]? = w.stages[i]? := by
  induction fuel with
  | zero => intro k w g _; exact ⟨g, Fr.refl _, fun _ _ => rfl⟩
  | succ fuel ih =>
    intro k w g hr
    unfold TW.subscribeNotifier.loopB
    split
    · split
      · exact ⟨g, Fr.refl _, fun _ _ => rfl⟩
      · split
        · obtain ⟨g0, f0⟩ := pulls_good (w.pulls + 1) g
          obtain ⟨g1, f1⟩ := pushB_good j [.next (.int k)] g0 (hr.frame g f0)
          obtain ⟨g2, f2, l2⟩ := ih (k + 1) _ g1 (hr.frame g (f0.trans f1))
          refine ⟨g2, (f0.trans f1).trans f2, ?_⟩
          intro i hi
          rw [l2 i hi, pushB_low _ _ _ _ hi]
        · obtain ⟨g1, f1⟩ := pushB_good j [.complete] g hr
          exact ⟨g1, f1, fun i hi => pushB_low _ _ _ _ hi⟩
    · exact ⟨g, Fr.refl _, fun _ _ => rfl⟩

end Rx.T
