import RxModel.Lemmas.ChainCompFold
import RxModel.Lemmas.ChainFifoObs
import RxModel.Lemmas.ChainFifoDelayMain
/-
  C07C, part 8: `observe_on` and `delay d` are mover kinds (their one-stage worlds under FIFO
  histories are `Open1`), from the one-stage theory (Lemmas/ChainFifo*.lean).
-/
set_option linter.unusedSimpArgs false
namespace Rx.T
open Rx Rx.Spec

theorem mem_mapK {α β} (f : Nat → α → β) (l : List α) (k : Nat) (y : β) (h : y ∈ mapK f k l) :
    ∃ i x, y = f i x := by
  induction l generalizing k with
  | nil => cases h
  | cons a r ih =>
    simp only [mapK, List.mem_cons] at h
    rcases h with rfl | h
    · exact ⟨k, a, rfl⟩
    · exact ih _ h

theorem oneW_obs : oneW (.observeOn true (some [])) = Obs.w₀.step .sub := by
  rw [← oneW_sub _ rfl]; rfl

theorem oneW_del (d : Nat) : oneW (.delay d true (some [])) = (Del.w₀ d).step .sub := by
  rw [← oneW_sub _ rfl]; rfl

theorem Kind_obs : Kind (oneW (.observeOn true (some []))) := by
  intro evs hall
  rw [oneW_obs]
  obtain ⟨a, ⟨base, m, hw, hsrc, hsub, halive, hterm⟩, hi⟩ := Obs.fifo_main evs hall
  rw [hw]
  refine ⟨hsrc, hsub, ⟨⟨_, rfl, rfl⟩, ?_⟩, by rw [← hi.term]; exact hterm, ?_⟩
  · intro t ht
    simp only [Obs.mkW, List.mem_append, List.mem_map] at ht
    rcases ht with ⟨n, _, rfl⟩ | ⟨n, _, rfl⟩
    · exact ⟨⟨n, rfl⟩, rfl⟩
    · exact ⟨⟨n, rfl⟩, rfl⟩
  · intro hs
    have hT : a.term = false := by rw [hi.term, hs]
    refine ⟨halive hT, ?_⟩
    intro T hT'
    have : T = .observeOn a.alive m := by
      simp only [Obs.mkW, List.cons.injEq, and_true] at hT'; exact hT'.symm
    subst this
    show a.alive = true
    have hD : terminated a.D = false := by
      have := terminated_append a.D a.F
      rw [hi.q, gate_eq_self_of_not_terminated _ hs, hs] at this
      cases h : terminated a.D with
      | false => rfl
      | true => rw [h] at this; simp at this
    rw [hi.alive, hD]; rfl

theorem Kind_del (d : Nat) : Kind (oneW (.delay d true (some []))) := by
  intro evs hall
  rw [oneW_del]
  obtain ⟨a, ⟨base, m, hw, hsrc, hsub, halive, hterm⟩, hnow, hat, hcase⟩ := Del.delay_main d evs hall
  have hg := Del.GI_ghost evs hall
  rw [hw]
  refine ⟨hsrc, hsub, ⟨⟨_, rfl, rfl⟩, ?_⟩, by rw [← hg.term, ← hat]; exact hterm, ?_⟩
  · intro t ht
    simp only [Del.mkW, Del.mkS, List.mem_append, List.mem_map] at ht
    rcases ht with ht | ⟨fe, _, rfl⟩
    · obtain ⟨i, x, rfl⟩ := mem_mapK _ _ _ _ ht
      obtain ⟨ph, e⟩ := x
      cases ph <;> exact ⟨⟨e.n, rfl⟩, rfl⟩
    · exact ⟨⟨fe.n, rfl⟩, rfl⟩
  · intro hs
    have hgt : (Del.ghost evs).term = false := by rw [hg.term, hs]
    have hT : a.term = false := by rw [hat, hgt]
    refine ⟨halive hT, ?_⟩
    intro T hT'
    have : T = .delay d a.alive m := by
      simp only [Del.mkW, List.cons.injEq, and_true] at hT'; exact hT'.symm
    subst this
    show a.alive = true
    rcases hcase with ⟨he, D, A, hq⟩ | ⟨e, pre, _, _, h3, _⟩
    · have hnt : terminated ((Del.ghost evs).q.map (·.n)) = false := by rw [← hq.term, hgt]
      have hDn : terminated (D.map (·.n)) = false := by
        have := hnt
        rw [hq.core.gqe] at this
        simp only [List.map_append, terminated_append, Bool.or_eq_false_iff] at this
        simpa [Del.stD, Function.comp_def] using this.1.1
      rw [hq.core.alive, hDn]; rfl
    · rw [hgt] at h3; cases h3

end Rx.T
