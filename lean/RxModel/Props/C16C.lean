import RxModel.Lemmas.ChainRetireCount
/-
  C16 over the chain (time) model — early termination retires producers through
  ANY chain of operators — for EVERY source of the chain model, EVERY list of
  stages and EVERY history (`sub`, emissions on any subject incl. malformed ones,
  `unsub`, clock jumps, `fire` / `poll` in any order, `run`; no bound, every
  cascade fuel).

  Vocabulary (Lemmas/ChainRetire*.lean):
  * `TW.start src stages` — the world `Driver/SuiteTime.lean` builds; `w.runEvs evs`;
  * `fin stages` — `is_finished()` of the observer the SOURCE holds (existing);
    `Stage.sf st` — the stage's own slot is empty (`fin (st :: r) = st.sf || fin r`
    for EVERY stage kind: single-input operators, delay, observe_on,
    subscribe_on, debounce, throttle, buffer_with_time, two-input cells in main
    position); `Stage.bfin st down` — `is_finished()` of the observer handed to
    the SECOND input of a two-input cell; `TW.obsFin w b` — the observer polled by
    the RepeatTask with body `b` (source interval, interval in second-input
    position, buffer_with_time's flush task);
  * `sealed stages` — a closed stage followed by single-input observers only;
    `nq stages` — every iterator in second-input position has a finished observer;
    `syncLen stages` — length of the synchronous head (the single-input observers
    the source calls directly); `TSrc.polls` — interval / counting iterator /
    stream driver; `TSrc.bound` — `max first_delay period` of the interval;
  * `TW.liveTicks`, `TW.pendingTickTimers` — live `interval_task`s of the source and
    the pending timers they await; `TW.callsAt w j` — call counter of the user
    closure at stage `j`.

  What is FALSE of the model (and of the code it was validated against) and
  therefore stated as `def … : Prop` + refutation + `_partial`:
  * the probe log is not frozen by `fin = true` alone: items in flight BELOW the
    cutter are still delivered (`C16C_log_frozen_full`);
  * user closures between an asynchronous boundary and the cutter still run for
    the items in flight (`C16C_closures_frozen_full`);
  * sources that never ask `is_finished()` (timer, from_future, every synchronous
    cold source behind a subscribe_on, a hot subject) push into a finished chain
    (`C16C_every_source_quiet_full`);
  * an iterator in second-input position BELOW the cutter is pulled
    (`C16C_pulls_frozen_full`);
  * a source that is subscribed only after the chain has finished (subscribe_on /
    delay_subscription whose task had not run) starts its interval and needs its
    own first expiry to retire (`C16C_no_live_tick_full`);
  * skip_until's notifier observer does not forward the downstream answer
    (`C16C_forward_notifier_full`); a stream driver that is pending without a
    wake-up is never polled again (`C16C_hung_driver_stays`).
-/
namespace Rx.T
open Rx Rx.Spec

/-! ## 1. `is_finished` is monotone -/

/-- **A finished chain never re-opens** — every source, every stage list (in ANY
    state, not only initial), every history. -/
theorem C16C_finished_monotone (src : TSrc) (stages : List Stage) (pre post : List TW.Ev)
    (h : fin ((TW.start src stages).runEvs pre).stages = true) :
    fin ((TW.start src stages).runEvs (pre ++ post)).stages = true := by
  rw [runEvs_append]
  exact (runEvs_ok post (reach_WI src stages pre)).2.stg.fin h

/-- Stage by stage: the same operators with the same parameters; every slot, once
    empty, stays empty; the answer handed to a second input, once `true`, stays `true`. -/
theorem C16C_stages_monotone (src : TSrc) (stages : List Stage) (pre post : List TW.Ev) :
    SLe ((TW.start src stages).runEvs pre).stages ((TW.start src stages).runEvs (pre ++ post)).stages := by
  rw [runEvs_append]
  exact (runEvs_ok post (reach_WI src stages pre)).2.stg

/-- … also for the observers the secondary producers poll (interval in second-input
    position, buffer_with_time's flush task). -/
theorem C16C_observer_finished_monotone (src : TSrc) (stages : List Stage) (pre post : List TW.Ev) (b : Body)
    (h : ((TW.start src stages).runEvs pre).obsFin b = true) :
    ((TW.start src stages).runEvs (pre ++ post)).obsFin b = true :=
  obsFin_mono (C16C_stages_monotone src stages pre post) b h

/-- One step, any world (reachable or not) in which the scheduler invariant holds. -/
theorem C16C_finished_monotone_step (w : TW) (hI : WI w) (e : TW.Ev) (h : fin w.stages = true) :
    fin (w.step e).stages = true := (step_ok hI e).2.stg.fin h

/-! ## 2. Nothing is produced once the source's observer is finished -/

/-- **No production after finished.**  From a world whose source observer is
    finished, for every continuation:
    * a source that polls its observer (interval, counting iterator, stream
      driver) calls it no more: the synchronous head of the chain is untouched —
      no `map`/`filter`/`tap`/… closure in it runs, no counter in it moves;
    * nothing is pulled from the iterator / stream (given that no iterator in
      second-input position sits below the cutter: `nq`);
    * if the chain is sealed the probe log does not grow. -/
theorem C16C_no_production_after_finished (src : TSrc) (stages : List Stage) (pre post : List TW.Ev)
    (h : fin ((TW.start src stages).runEvs pre).stages = true) :
    (src.polls = true →
      ((TW.start src stages).runEvs (pre ++ post)).stages.take (syncLen ((TW.start src stages).runEvs pre).stages) =
        ((TW.start src stages).runEvs pre).stages.take (syncLen ((TW.start src stages).runEvs pre).stages)) ∧
    (nq ((TW.start src stages).runEvs pre).stages = true →
      ((TW.start src stages).runEvs (pre ++ post)).pulls = ((TW.start src stages).runEvs pre).pulls) ∧
    (sealed ((TW.start src stages).runEvs pre).stages = true →
      ((TW.start src stages).runEvs (pre ++ post)).log = ((TW.start src stages).runEvs pre).log) := by
  rw [runEvs_append]
  have r := (runEvs_ok post (reach_WI src stages pre)).2
  exact ⟨fun hp => r.head h (by rw [reach_src]; exact hp), fun hq => r.pulls h hq, fun hs => r.log hs⟩

/-- The same for one step from ANY world satisfying the scheduler invariant. -/
theorem C16C_no_production_step (w : TW) (hI : WI w) (e : TW.Ev) (h : fin w.stages = true) :
    (w.src.polls = true → (w.step e).stages.take (syncLen w.stages) = w.stages.take (syncLen w.stages)) ∧
    (nq w.stages = true → (w.step e).pulls = w.pulls) ∧
    (sealed w.stages = true → (w.step e).log = w.log) :=
  ⟨(step_ok hI e).2.head h, (step_ok hI e).2.pulls h, (step_ok hI e).2.log⟩

/-- A probe at the source's observer: a `tap` as first stage counts the source's
    calls; once the chain is finished a polling source never calls it again. -/
theorem C16C_source_calls_frozen (src : TSrc) (rest : List Stage) (pre post : List TW.Ev)
    (hp : src.polls = true)
    (h : fin ((TW.start src (.op1 (.tap 0) :: rest)).runEvs pre).stages = true) :
    ((TW.start src (.op1 (.tap 0) :: rest)).runEvs (pre ++ post)).callsAt 0 =
      ((TW.start src (.op1 (.tap 0) :: rest)).runEvs pre).callsAt 0 := by
  have hh := (C16C_no_production_after_finished src _ pre post h).1 hp
  have hs : SLe (TW.start src (.op1 (.tap 0) :: rest)).stages
      ((TW.start src (.op1 (.tap 0) :: rest)).runEvs pre).stages :=
    (runEvs_ok pre (start_WI src _)).2.stg
  have hpos : 0 < syncLen ((TW.start src (.op1 (.tap 0) :: rest)).runEvs pre).stages := by
    rw [hs.syncLen]; simp [TW.start, syncLen, List.takeWhile_cons, Stage.isOp1]
  have h0 := congrArg (fun l => l[0]?) hh
  simp only [List.getElem?_take, hpos, if_true] at h0
  unfold TW.callsAt
  rw [h0]

/-- … and no call counter of a user closure (`tap`, `on_complete`, `on_error`) in the
    synchronous head moves. -/
theorem C16C_head_closures_frozen (src : TSrc) (stages : List Stage) (pre post : List TW.Ev) (j : Nat)
    (hp : src.polls = true) (h : fin ((TW.start src stages).runEvs pre).stages = true)
    (hj : j < syncLen ((TW.start src stages).runEvs pre).stages) :
    ((TW.start src stages).runEvs (pre ++ post)).callsAt j = ((TW.start src stages).runEvs pre).callsAt j := by
  have hh := (C16C_no_production_after_finished src stages pre post h).1 hp
  have h0 := congrArg (fun l => l[j]?) hh
  simp only [List.getElem?_take, hj, if_true] at h0
  unfold TW.callsAt
  rw [h0]

/-- **Sealed chains are silent**: a closed stage followed by single-input
    observers only — the log is frozen for every source (hot subjects and
    non-polling sources included) and every continuation. -/
theorem C16C_sealed_log_frozen (src : TSrc) (stages : List Stage) (pre post : List TW.Ev)
    (h : sealed ((TW.start src stages).runEvs pre).stages = true) :
    ((TW.start src stages).runEvs (pre ++ post)).log = ((TW.start src stages).runEvs pre).log := by
  rw [runEvs_append]
  exact (runEvs_ok post (reach_WI src stages pre)).2.log h

/-! ### what is false, with witnesses -/

/-- FALSE: "once the source's observer is finished the probe log never grows". -/
def C16C_log_frozen_full : Prop :=
  ∀ (src : TSrc) (stages : List Stage), (∀ st ∈ stages, st.Initial) → ∀ pre post : List TW.Ev,
    fin ((TW.start src stages).runEvs pre).stages = true →
    ((TW.start src stages).runEvs (pre ++ post)).log = ((TW.start src stages).runEvs pre).log

/-- hot → take(1) → delay(5): `take` completes the source side at once, its item and
    its completion are still in flight in `delay` and arrive 5 ms later. -/
theorem C16C_log_frozen_refuted : ¬ C16C_log_frozen_full := by
  intro h
  have := h (.hot 0) [.op1 (Op1.init (.take 1)), .delay 5 true (some [])]
    (by
      intro st hst; simp at hst
      rcases hst with rfl | rfl
      · exact ⟨.take 1, rfl⟩
      · exact ⟨rfl, rfl⟩)
    [.sub, .emit 0 (.next (.int 1))] [.run, .adv 5, .run] (by decide)
  revert this; decide

/-- FALSE: "no user closure of an intermediate stage runs after finished". -/
def C16C_closures_frozen_full : Prop :=
  ∀ (src : TSrc) (stages : List Stage), (∀ st ∈ stages, st.Initial) → ∀ (pre post : List TW.Ev) (j : Nat),
    fin ((TW.start src stages).runEvs pre).stages = true →
    ((TW.start src stages).runEvs (pre ++ post)).callsAt j = ((TW.start src stages).runEvs pre).callsAt j

/-- hot → delay(5) → tap → take(1): two items are in flight in `delay`; the first
    completes the chain, the second still runs the `tap` closure (the slot of
    `delay` is not emptied by a completion BELOW it, and `delay` does not ask
    `is_finished()` before it emits). -/
theorem C16C_closures_frozen_refuted : ¬ C16C_closures_frozen_full := by
  intro h
  have := h (.hot 0) [.delay 5 true (some []), .op1 (.tap 0), .op1 (Op1.init (.take 1))]
    (by
      intro st hst; simp at hst
      rcases hst with rfl | rfl | rfl
      · exact ⟨rfl, rfl⟩
      · exact ⟨.tap, rfl⟩
      · exact ⟨.take 1, rfl⟩)
    [.sub, .emit 0 (.next (.int 1)), .emit 0 (.next (.int 2)), .run, .adv 5, .fire 0, .fire 0, .poll 0]
    [.run] 1 (by decide)
  revert this; decide

/-- FALSE: "every source stops calling its observer once that observer is finished". -/
def C16C_every_source_quiet_full : Prop :=
  ∀ (src : TSrc) (rest : List Stage), (∀ st ∈ rest, st.Initial) → ∀ pre post : List TW.Ev,
    fin ((TW.start src (.op1 (.tap 0) :: rest)).runEvs pre).stages = true →
    ((TW.start src (.op1 (.tap 0) :: rest)).runEvs (pre ++ post)).callsAt 0 =
      ((TW.start src (.op1 (.tap 0) :: rest)).runEvs pre).callsAt 0

/-- timer(7, 5 ms) → tap → take_until(hot 1): the notifier fires at 0 ms, the timer
    task still delivers its item at 5 ms (`timer_task` never asks `is_finished()`). -/
theorem C16C_every_source_quiet_refuted : ¬ C16C_every_source_quiet_full := by
  intro h
  have := h (.timer (.int 7) 5) [.op2n (Kind2.init .takeUntil) (.hot 1) false none]
    (by intro st hst; simp at hst; subst hst; exact ⟨⟨.takeUntil, rfl⟩, rfl, rfl⟩)
    [.sub, .run, .emit 1 (.next (.int 0))] [.adv 5, .run] (by decide)
  revert this; decide

/-- … a synchronous cold source behind subscribe_on, subscribed after the chain has
    finished, plays its whole sequence into it (3 `tap` calls) … -/
theorem C16C_cold_source_not_quiet :
    let w0 := TW.start (.cold (.iter [.int 1, .int 2, .int 3]))
      [.op1 (.tap 0), .subscribeOn none none, .op2n (Kind2.init .takeUntil) (.hot 1) false none]
    fin (w0.runEvs [.sub, .emit 1 (.next (.int 0))]).stages = true ∧
    (w0.runEvs [.sub, .emit 1 (.next (.int 0))]).callsAt 0 = 0 ∧
    (w0.runEvs ([.sub, .emit 1 (.next (.int 0))] ++ [.run])).callsAt 0 = 3 := by decide

/-- … and a hot subject keeps calling a finished subscriber until its own terminal. -/
theorem C16C_hot_source_not_quiet :
    let w0 := TW.start (.hot 0) [.op1 (.tap 0), .op1 (Op1.init (.take 1))]
    fin (w0.runEvs [.sub, .emit 0 (.next (.int 1))]).stages = true ∧
    (w0.runEvs [.sub, .emit 0 (.next (.int 1))]).callsAt 0 = 1 ∧
    (w0.runEvs ([.sub, .emit 0 (.next (.int 1))] ++ [.emit 0 (.next (.int 2))])).callsAt 0 = 2 := by decide

/-- FALSE without `nq`: "nothing is pulled once the source's observer is finished". -/
def C16C_pulls_frozen_full : Prop :=
  ∀ (src : TSrc) (stages : List Stage) (pre post : List TW.Ev),
    fin ((TW.start src stages).runEvs pre).stages = true →
    ((TW.start src stages).runEvs (pre ++ post)).pulls = ((TW.start src stages).runEvs pre).pulls

/-- A closed take, then merge with an iterator: the iterator is a producer BELOW the
    cutter, `merge` is still open for it and all 5 items are pulled. -/
theorem C16C_pulls_frozen_refuted : ¬ C16C_pulls_frozen_full := by
  intro h
  have := h (.hot 0) [.op1 (.take 1 1 false), .op2n (Kind2.init .merge) (.iterc 5) false none] [] [.sub]
    (by decide)
  revert this; decide

/-! ## 3. The producer's task retires -/

/-- **One poll.**  A RepeatTask (the source's `interval_task`, an interval in
    second-input position, buffer_with_time's flush task) whose observer is finished,
    polled once its period timer has expired: the tick declines and the task is
    finished.  Any world satisfying the scheduler invariant, any other tasks. -/
theorem C16C_repeat_task_declines (w : TW) (hI : WI w) (k : TaskId) (t : Task) (fur iv seq : Nat)
    (ht : w.sched.tasks[k]? = some t) (hr : t.rep = some (fur, iv, seq))
    (hf : w.sched.timerFired fur = true) (hobs : w.obsFin t.body = true) :
    ∃ t', (w.pollTask k).sched.tasks[k]? = some t' ∧ t'.done = true :=
  pollTask_retires hI ht hr hf hobs

/-- **`run`, any RepeatTask.**  In a reachable world, a RepeatTask whose observer is
    finished and whose period timer is due is finished when `run` returns — in the
    first pass of the executor, whatever else is scheduled — and from then on, for
    every continuation, it stays finished and awaits no timer. -/
theorem C16C_repeat_task_retires (src : TSrc) (stages : List Stage) (pre post : List TW.Ev)
    (k : TaskId) (t : Task) (fur iv seq : Nat) (tm : Timer)
    (ht : ((TW.start src stages).runEvs pre).sched.tasks[k]? = some t) (hr : t.rep = some (fur, iv, seq))
    (htm : ((TW.start src stages).runEvs pre).sched.timers[fur]? = some tm)
    (hdue : tm.due ≤ ((TW.start src stages).runEvs pre).sched.now)
    (hobs : ((TW.start src stages).runEvs pre).obsFin t.body = true) :
    (∃ t', ((TW.start src stages).runEvs (pre ++ [.run] ++ post)).sched.tasks[k]? = some t' ∧ t'.done = true) ∧
    TimersFired ((TW.start src stages).runEvs (pre ++ [.run] ++ post)).sched k := by
  have hI := reach_WI src stages pre
  have hr1 := repeat_retired hI ht hr htm hdue hobs
  have hI1 : WI (((TW.start src stages).runEvs pre).step .run) := (step_ok hI .run).1
  have := retired_forever hI1 hr1.1 hr1.2 post
  rw [List.append_assoc, runEvs_append]
  exact this

/-- **The interval source, per task.**  Once the source's observer is finished, at
    most ONE more timer expiry is needed: after `adv d; run` with
    `d ≥ max first_delay period`, every `interval_task` that existed is finished
    and awaits no timer, for every continuation.  No side condition: every source,
    every stage list in any state, every history. -/
theorem C16C_producer_retires (src : TSrc) (stages : List Stage) (pre post : List TW.Ev) (d : Nat)
    (h : fin ((TW.start src stages).runEvs pre).stages = true) (hd : src.bound ≤ d)
    (k : TaskId) (t : Task) (ht : ((TW.start src stages).runEvs pre).sched.tasks[k]? = some t)
    (hb : t.body = .tick) :
    (∃ t', ((TW.start src stages).runEvs (pre ++ [.adv d, .run] ++ post)).sched.tasks[k]? = some t' ∧
      t'.done = true) ∧
    TimersFired ((TW.start src stages).runEvs (pre ++ [.adv d, .run] ++ post)).sched k := by
  have hI := reach_WI src stages pre
  have hr1 := tick_retired hI h d (by rw [reach_src]; exact hd) ht hb
  have hI2 : WI ((((TW.start src stages).runEvs pre).step (.adv d)).step .run) :=
    (step_ok (step_ok hI (.adv d)).1 .run).1
  have := retired_forever hI2 hr1.1 hr1.2 post
  rw [List.append_assoc, runEvs_append]
  exact this

/-- **The interval source, counted** ("run-until-idle terminates").  If the source
    had been subscribed when its observer finished, then after `adv d; run`
    (`d ≥ max first_delay period`) and for ALL later histories the number of live
    `interval_task`s is 0 and none of their timers is pending. -/
theorem C16C_no_live_tick (src : TSrc) (stages : List Stage) (hs : ∀ st ∈ stages, st.Initial)
    (pre post : List TW.Ev) (d : Nat)
    (h : fin ((TW.start src stages).runEvs pre).stages = true) (hd : src.bound ≤ d)
    (hsub : ((TW.start src stages).runEvs pre).srcSubscribed = true) :
    ((TW.start src stages).runEvs (pre ++ [.adv d, .run] ++ post)).liveTicks = 0 ∧
    ((TW.start src stages).runEvs (pre ++ [.adv d, .run] ++ post)).pendingTickTimers = 0 := by
  have hS : Sub ((TW.start src stages).runEvs pre) :=
    ⟨reach_WI src stages pre, reach_winv src stages hs pre, hsub⟩
  rw [List.append_assoc, runEvs_append]
  exact ticks_count_zero hS h d (by rw [reach_src]; exact hd) post

/-- FALSE without "the source had been subscribed". -/
def C16C_no_live_tick_full : Prop :=
  ∀ (src : TSrc) (stages : List Stage), (∀ st ∈ stages, st.Initial) → ∀ (pre post : List TW.Ev) (d : Nat),
    fin ((TW.start src stages).runEvs pre).stages = true → src.bound ≤ d →
    ((TW.start src stages).runEvs (pre ++ [.adv d, .run] ++ post)).liveTicks = 0

/-- interval(3) → subscribe_on → take_until(hot 1): the notifier fires before the
    subscribing task has run.  Nobody cancels that task: `run` subscribes the
    interval to a finished observer, and it takes the interval's own first expiry
    (a second `adv 3; run`) for it to retire.  It never emits. -/
theorem C16C_no_live_tick_refuted : ¬ C16C_no_live_tick_full := by
  intro h
  have := h (.interval none 3) [.subscribeOn none none, .op2n (Kind2.init .takeUntil) (.hot 1) false none]
    (by
      intro st hst; simp at hst
      rcases hst with rfl | rfl
      · rfl
      · exact ⟨⟨.takeUntil, rfl⟩, rfl, rfl⟩)
    [.sub, .emit 1 (.next (.int 0))] [] 3 (by decide) (by decide)
  revert this; decide

theorem C16C_late_subscription_retires_on_first_expiry :
    let w0 := TW.start (.interval none 3)
      [.subscribeOn none none, .op2n (Kind2.init .takeUntil) (.hot 1) false none]
    let pre : List TW.Ev := [.sub, .emit 1 (.next (.int 0))]
    (w0.runEvs pre).srcSubscribed = false ∧
    (w0.runEvs (pre ++ [.adv 3, .run])).liveTicks = 1 ∧
    (w0.runEvs (pre ++ [.adv 3, .run, .adv 3, .run])).liveTicks = 0 ∧
    (w0.runEvs (pre ++ [.adv 3, .run, .adv 3, .run])).liveCount = 0 ∧
    (w0.runEvs (pre ++ [.adv 3, .run, .adv 3, .run, .adv 30, .run])).log = [.complete] := by decide

/-- **The stream driver** (model of the repaired code): marked ready when its
    observer is finished, it is polled by the next `run`, returns `Ready`, and
    stays finished. -/
theorem C16C_stream_driver_retires (src : TSrc) (stages : List Stage) (pre post : List TW.Ev)
    (h : fin ((TW.start src stages).runEvs pre).stages = true)
    (k : TaskId) (t : Task) (ht : ((TW.start src stages).runEvs pre).sched.tasks[k]? = some t)
    (hb : t.body = .streamSrc) (hw : t.woken = true) :
    ∃ t', ((TW.start src stages).runEvs (pre ++ [.run] ++ post)).sched.tasks[k]? = some t' ∧ t'.done = true := by
  have hI := reach_WI src stages pre
  have hr1 := stream_retires hI h ht hb hw
  have hI1 : WI (((TW.start src stages).runEvs pre).step .run) := (step_ok hI .run).1
  rw [List.append_assoc, runEvs_append]
  exact hr1.fwd (runEvs_ok post hI1).2.fwd

/-- A driver that is pending WITHOUT a wake-up (the stream hangs) is never polled by
    the executor, so it cannot observe `is_finished()`: it stays live (a direct poll
    would retire it). -/
theorem C16C_hung_driver_stays :
    let w0 := TW.start (.stream false [.hang] false) [.op2n (Kind2.init .takeUntil) (.hot 1) false none]
    let pre : List TW.Ev := [.sub, .run, .emit 1 (.next (.int 0))]
    fin (w0.runEvs pre).stages = true ∧
    (w0.runEvs (pre ++ [.adv 100, .run, .run])).liveCount = 1 ∧
    (w0.runEvs (pre ++ [.poll 0])).liveCount = 0 := by decide

/-! ## 4. A closed cutter finishes the whole chain, at any position -/

/-- `is_finished` of every stage kind: its own slot, or the answer from below. -/
theorem C16C_fin_cons (st : Stage) (rest : List Stage) : fin (st :: rest) = (st.sf || fin rest) :=
  fin_cons st rest

/-- **Forwarding through ANY chain** (generalises `C16_forward_op1` from single-input
    operators to all stage kinds: delay, observe_on, subscribe_on, debounce,
    throttle, buffer_with_time, two-input cells in main position). -/
theorem C16C_forward (pre rest : List Stage) (h : fin rest = true) : fin (pre ++ rest) = true := by
  rw [fin_append, h]; simp

/-- **A closed cutter at any position** finishes the observer the source holds. -/
theorem C16C_cutter_finishes (pre post : List Stage) (c : Stage) (h : c.sf = true) :
    fin (pre ++ c :: post) = true :=
  C16C_forward pre (c :: post) (by rw [fin_cons, h]; rfl)

/-- … in a world: if after some history any stage has an empty slot, the source's
    observer is finished, and stays so. -/
theorem C16C_closed_stage_finishes_world (src : TSrc) (stages : List Stage) (pre post : List TW.Ev)
    (i : Nat) (c : Stage) (hc : ((TW.start src stages).runEvs pre).stages[i]? = some c) (h : c.sf = true) :
    fin ((TW.start src stages).runEvs (pre ++ post)).stages = true :=
  C16C_finished_monotone src stages pre post (fin_of_mem (List.mem_of_getElem? hc) h)

/-- The cutters close: take(n), n ≥ 1, after its n-th item … -/
theorem C16C_take_closes (n : Nat) (vs : List Val) (hn : 1 ≤ n) (hl : vs.length = n) (rest : List Stage) :
    ((Op1.init (.take n)).run (vs.map .next)).1 = .take n n false ∧
    fin (.op1 ((Op1.init (.take n)).run (vs.map .next)).1 :: rest) = true := by
  have h1 := take_run_closes n vs 0 (by intro e; subst e; simp at hl; omega) (by omega)
  refine ⟨h1, ?_⟩
  show fin (.op1 ((St1.take n 0 true).run (vs.map .next)).1 :: rest) = true
  rw [h1]; simp [fin, St1.finished]

/-- … take(0) never does (finding 19): it lets nothing through and never completes. -/
theorem C16C_take_zero_never_closes (vs : List Val) :
    (Op1.init (.take 0)).run (vs.map .next) = (.take 0 0 true, []) := by
  induction vs with
  | nil => rfl
  | cons v r ih =>
    have ih' : (St1.take 0 0 true).run (r.map .next) = (.take 0 0 true, []) := ih
    simp [Op1.init, St1.step, St1.onNext, ih']

/-- … take_while at the first failing item … -/
theorem C16C_takeWhile_closes (p : Val → Bool) (incl : Bool) (v : Val) (hp : p v = false) (rest : List Stage) :
    ((Op1.init (.takeWhile p incl)).step (.next v)).1 = .takeWhile p incl false ∧
    fin (.op1 ((Op1.init (.takeWhile p incl)).step (.next v)).1 :: rest) = true := by
  simp [Op1.init, St1.step, St1.onNext, hp, fin, St1.finished]

/-- … contains at a hit … -/
theorem C16C_contains_closes (tg : Val) (rest : List Stage) :
    ((Op1.init (.contains tg)).step (.next tg)).1 = .contains tg false ∧
    fin (.op1 ((Op1.init (.contains tg)).step (.next tg)).1 :: rest) = true := by
  simp [Op1.init, St1.step, St1.onNext, fin, St1.finished]

/-- … first = take(1) at the first item … -/
theorem C16C_first_closes (v : Val) :
    (runChain (Derived.first.map Op1.init) [.next v]).1 = [.take 1 1 false] := by
  simp [Derived.first, Op1.init, runChain, St1.run, St1.step, St1.onNext]

/-- … element_at(k) = skip(k) · take(1) at item k (0-based) … -/
theorem C16C_elementAt_closes (k : Nat) (vs : List Val) (v : Val) (hl : vs.length = k) :
    (runChain ((Derived.elementAt k).map Op1.init) ((vs ++ [v]).map .next)).1 =
      [.skip k (k + 1), .take 1 1 false] := by
  have h1 := skip_run k vs 0 (by omega)
  simp only [Derived.elementAt, List.map_cons, List.map_nil, Op1.init, runChain, List.map_append]
  rw [St1.run_append, h1]
  simp [St1.run, St1.step, St1.onNext]

/-- … all(p) = map · filter · take(1) · default_if_empty at the first counter-example … -/
theorem C16C_all_closes (p : Val → Bool) (v : Val) (hp : p v = false) (rest : List Stage) :
    fin (((runChain ((Derived.all p).map Op1.init) [.next v]).1.map Stage.op1) ++ rest) = true := by
  simp [Derived.all, Op1.init, runChain, St1.run, St1.step, St1.onNext, hp, Derived.isFalse, fin,
    St1.finished]

/-- … take_until when its notifier fires (two-input cell in main position). -/
theorem C16C_takeUntil_closes (al : Bool) (v : Val) (ns : TSrc) (na : Bool) (nt : Option TaskId)
    (pre post : List Stage) :
    ((St2.takeUntil al).step .b (.next v)).1 = .takeUntil false ∧
    fin (pre ++ .op2n ((St2.takeUntil al).step .b (.next v)).1 ns na nt :: post) = true := by
  refine ⟨rfl, C16C_cutter_finishes pre post _ ?_⟩
  simp [Stage.sf, St2.step, St2.alive]

/-! ### producers in second-input position -/

/-- FALSE: "the observer a two-input cell hands to its second input is finished as soon
    as the chain below the cell is". -/
def C16C_forward_notifier_full : Prop :=
  ∀ (st : St2) (ns : TSrc) (na : Bool) (nt : Option TaskId) (rest : List Stage),
    fin rest = true → (Stage.op2n st ns na nt).bfin (fin rest) = true

/-- skip_until while still skipping (and the main stream alive): its notifier observer
    answers from its own two flags and does not consult the downstream (known finding). -/
theorem C16C_forward_notifier_refuted : ¬ C16C_forward_notifier_full := by
  intro h
  have := h (.skipUntil true true) (.hot 0) false none [.op1 (.take 1 1 false)] (by decide)
  revert this; decide

/-- Every other cell — and skip_until once it has fired or its main stream has ended —
    forwards the answer to its second input. -/
theorem C16C_forward_notifier_partial (st : St2) (ns : TSrc) (na : Bool) (nt : Option TaskId)
    (rest : List Stage) (hs : skipping st = false) (h : fin rest = true) :
    (Stage.op2n st ns na nt).bfin (fin rest) = true := by
  rw [h]
  cases st with
  | skipUntil al sk => cases al <;> cases sk <;> simp_all [skipping, Stage.bfin, St2.finished]
  | _ => simp [Stage.bfin, St2.finished]

/-- skip_until's notifier retires anyway one item later: its own first item ends the
    skipping, after which its observer reports finished. -/
theorem C16C_skipUntil_notifier_one_more (al sk : Bool) (v : Val) (d : Bool) :
    ((St2.skipUntil al sk).step .b (.next v)).1.finished .b d = true := by
  simp [St2.step, St2.finished]

/-- An iterator in second-input position whose observer is finished is not pulled
    (world level: `pulls` is frozen under `nq`, see §2). -/
theorem C16C_nq_of_cutter_below (st : St2) (n : Nat) (na : Bool) (nt : Option TaskId) (rest : List Stage)
    (hs : skipping st = false) (h : fin rest = true) (hq : nq rest = true) :
    nq (.op2n st (.iterc n) na nt :: rest) = true := by
  simp only [nq, Bool.and_eq_true, Bool.or_eq_true]
  exact ⟨Or.inr (C16C_forward_notifier_partial st (.iterc n) na nt rest hs h), hq⟩

/-! ## 5. Headline -/

/-- **C16 over chains.**  Take any source, any list of stages in initial state, any
    history `pre` after which some stage — at ANY position — has an empty slot (a
    cutter has closed).  Then for every continuation `post`:
    1. the source's observer is finished, for good;
    2. a polling source (interval, iterator, stream driver) never calls its observer
       again — the synchronous head of the chain is untouched;
    3. nothing more is pulled from iterator / stream (no iterator below the cutter);
    4. if the chain is sealed the probe log is unchanged;
    5. every `interval_task` that exists is finished after ONE period + `run` and awaits
       no timer; if the source had been subscribed, the number of live `interval_task`s
       and of their pending timers is 0 after `adv d; run` and for ever after. -/
theorem C16C_retire (src : TSrc) (stages : List Stage) (hs : ∀ st ∈ stages, st.Initial)
    (pre : List TW.Ev) (i : Nat) (c : Stage)
    (hc : ((TW.start src stages).runEvs pre).stages[i]? = some c) (hcl : c.sf = true) :
    let w := (TW.start src stages).runEvs pre
    (∀ post, fin ((TW.start src stages).runEvs (pre ++ post)).stages = true) ∧
    (src.polls = true → ∀ post,
      ((TW.start src stages).runEvs (pre ++ post)).stages.take (syncLen w.stages) =
        w.stages.take (syncLen w.stages)) ∧
    (nq w.stages = true → ∀ post, ((TW.start src stages).runEvs (pre ++ post)).pulls = w.pulls) ∧
    (sealed w.stages = true → ∀ post, ((TW.start src stages).runEvs (pre ++ post)).log = w.log) ∧
    (∀ d, src.bound ≤ d → ∀ post (k : TaskId) (t : Task), w.sched.tasks[k]? = some t → t.body = .tick →
      (∃ t', ((TW.start src stages).runEvs (pre ++ [.adv d, .run] ++ post)).sched.tasks[k]? = some t' ∧
        t'.done = true) ∧
      TimersFired ((TW.start src stages).runEvs (pre ++ [.adv d, .run] ++ post)).sched k) ∧
    (w.srcSubscribed = true → ∀ d, src.bound ≤ d → ∀ post,
      ((TW.start src stages).runEvs (pre ++ [.adv d, .run] ++ post)).liveTicks = 0 ∧
      ((TW.start src stages).runEvs (pre ++ [.adv d, .run] ++ post)).pendingTickTimers = 0) := by
  intro w
  have hfin : fin w.stages = true := fin_of_mem (List.mem_of_getElem? hc) hcl
  refine ⟨fun post => C16C_finished_monotone src stages pre post hfin,
    fun hp post => (C16C_no_production_after_finished src stages pre post hfin).1 hp,
    fun hq post => (C16C_no_production_after_finished src stages pre post hfin).2.1 hq,
    fun hse post => C16C_sealed_log_frozen src stages pre post hse,
    fun d hd post k t ht hb => C16C_producer_retires src stages pre post d hfin hd k t ht hb,
    fun hsub d hd post => C16C_no_live_tick src stages hs pre post d hfin hd hsub⟩

/-! ## non-vacuity -/

/-- interval(3 ms) → map → buffer_with_time(5 ms) → take(2). -/
def C16C_world : TW :=
  TW.start (.interval none 3)
    [.op1 (.map (fun v => v)), .bufTime 5 none true [] none, .op1 (Op1.init (.take 2))]

/-- `sub`, then the prompt executor at 3, 5, 6, 9 and 10 ms. -/
def C16C_pre : List TW.Ev :=
  [.sub, .adv 3, .run, .adv 2, .run, .adv 1, .run, .adv 3, .run, .adv 1, .run]

theorem C16C_world_initial : ∀ st ∈ C16C_world.stages, st.Initial := by
  intro st hst
  simp [C16C_world, TW.start] at hst
  rcases hst with rfl | rfl | rfl
  · exact ⟨.map _, rfl⟩
  · exact ⟨rfl, rfl, rfl⟩
  · exact ⟨.take 2, rfl⟩

/-- Ticks at 3, 6, 9 ms; flushes at 5 and 10 ms; the second flush completes `take(2)`:
    the chain is finished and sealed, the source is subscribed, two RepeatTasks are
    live, one timer of the interval is pending. -/
example :
    (C16C_world.runEvs C16C_pre).log =
      [.next (Val.ofList [.int 0]), .next (Val.ofList [.int 1, .int 2]), .complete] ∧
    fin (C16C_world.runEvs C16C_pre).stages = true ∧
    sealed (C16C_world.runEvs C16C_pre).stages = true ∧
    nq (C16C_world.runEvs C16C_pre).stages = true ∧
    (C16C_world.runEvs C16C_pre).srcSubscribed = true ∧
    (C16C_world.runEvs C16C_pre).liveTicks = 1 ∧
    (C16C_world.runEvs C16C_pre).pendingTickTimers = 1 ∧
    (C16C_world.runEvs C16C_pre).liveCount = 2 := by decide

/-- The hypotheses of `C16C_retire` hold for it: some stage (`take`, index 2) has closed. -/
example : ((C16C_world.runEvs C16C_pre).stages.map Stage.sf)[2]? = some true := by decide

/-- The interval observes it at its next expiry (12 ms) and retires — one period
    (`bound = 3`) + `run` suffices —, the flush task of buffer_with_time at 15 ms;
    afterwards nothing is live, no timer of the interval is pending, and 200 more ms add
    nothing to the log. -/
example :
    TSrc.bound (.interval none 3) = 3 ∧
    (C16C_world.runEvs (C16C_pre ++ [.adv 2, .run])).liveTicks = 0 ∧
    (C16C_world.runEvs (C16C_pre ++ [.adv 3, .run])).liveTicks = 0 ∧
    (C16C_world.runEvs (C16C_pre ++ [.adv 3, .run])).pendingTickTimers = 0 ∧
    (C16C_world.runEvs (C16C_pre ++ [.adv 3, .run])).liveCount = 1 ∧
    (C16C_world.runEvs (C16C_pre ++ [.adv 3, .run, .adv 2, .run])).liveCount = 0 ∧
    (C16C_world.runEvs (C16C_pre ++ [.adv 3, .run, .adv 2, .run, .adv 100, .run, .adv 100, .run])).log =
      (C16C_world.runEvs C16C_pre).log := by decide

/-- Counting iterator 0..100 → tap → take(3): 3 pulls, 3 `tap` calls, then the loop
    observes `is_finished` and stops. -/
example :
    ((TW.start (.iterc 100) [.op1 (.tap 0), .op1 (Op1.init (.take 3))]).runEvs [.sub]).pulls = 3 ∧
    ((TW.start (.iterc 100) [.op1 (.tap 0), .op1 (Op1.init (.take 3))]).runEvs [.sub]).callsAt 0 = 3 := by
  decide

/-- A cyclic (unbounded) stream → take(2): the driver retires inside the poll that
    delivers the second item. -/
example :
    let w := (TW.start (.stream false [.ready (.int 1), .pending] true) [.op1 (Op1.init (.take 2))]).runEvs
      [.sub, .run]
    w.log = [.next (.int 1), .next (.int 1), .complete] ∧ w.pulls = 2 ∧ w.liveCount = 0 := by decide

/-- Interval in second-input position above the cutter: merge(hot, interval 2) → take(1). -/
example :
    let w0 := TW.start (.hot 0) [.op2n (Kind2.init .merge) (.interval none 2) false none, .op1 (Op1.init (.take 1))]
    (w0.runEvs [.sub, .emit 0 (.next (.int 9)), .run]).liveCount = 1 ∧
    (w0.runEvs [.sub, .emit 0 (.next (.int 9)), .run]).obsFin (.tickN 0) = true ∧
    (w0.runEvs [.sub, .emit 0 (.next (.int 9)), .run, .adv 2, .run]).liveCount = 0 ∧
    (w0.runEvs [.sub, .emit 0 (.next (.int 9)), .run, .adv 2, .run, .adv 20, .run]).log =
      [.next (.int 9), .complete] := by decide

end Rx.T
