import RxModel.Conc.HandleLts
/-
  C02 (threads clause) — after `unsubscribe()` returns the subscriber is never
  called again, with one emitting thread racing the unsubscribing thread.
  Model: RxModel/Conc/HandleLts.lean (the `SubscriberThreads` slot).
-/
namespace Rx
open Conc

/-- **Subscriber slot.**  In every interleaving of an emitting thread (two items
    and a completion) with a thread calling `unsubscribe()` — delivery and
    `unsubscribe` both take the slot mutex — at every moment of every schedule no
    callback starts, and none is still running, after `unsubscribe()` has
    returned. -/
theorem C02_threads {ts : List Tid} {s' : DState Handle.D}
    (r : DRun Handle.sem ⟨mkState Handle.slotSys, Handle.d0⟩ ts s') :
    Handle.quiet s'.d.log = true :=
  all_schedules (progs := Handle.slotSys) (P := fun _ d => Handle.quiet d.log = true) 19
    (by decide) Handle.visitedSlot r

theorem C02_threads_ranked : ∀ p ∈ Handle.slotSys, Ranked [] p := by decide

/-- Non-vacuity: an unsubscribe between the first and the second item: one
    callback, then silence. -/
example : (dexec Handle.sem (mkState Handle.slotSys) Handle.d0
    [0, 0, 0, 0, 0, 1, 1, 1, 1, 0, 0, 0, 0, 0, 0, 0, 0, 0, 0]).map (·.2.log) =
    some [0, 1, 2] := by decide

end Rx
