import RxModel.Lemmas.MergeAllGrammar
import RxModel.Lemmas.GroupByWorld
import RxModel.Lemmas.ShareLabel
/-
  C01M — the stream grammar (items, then at most one terminal, then nothing)
  for the three multicast / flattening mechanisms that are modelled outside the
  pipeline tree: merge_all / concat_all / flat_map, group_by, and
  share / publish+connect / ref_count.

  Property theorems only.  Models: RxModel/Ops/MergeAll.lean,
  RxModel/Ops/GroupBy.lean, RxModel/Subject/Share.lean (the executable
  transcriptions `rxdriver` runs against the real code).  Helper lemmas:
  RxModel/Lemmas/{MergeAllGrammar, St1WF, GroupByGrammar, GroupByWorld,
  ShareInstr, ShareGrammar, ShareGrammarStep, ShareLinear, ShareSilence,
  ShareLabel}.lean.

  Every theorem quantifies over ALL event lists of the model's vocabulary, so
  malformed histories are included: hot inners / hot sources that keep
  emitting after their own terminal, after the operator's terminal, after an
  error, after unsubscription; outer events after the outer terminal.
-/
namespace Rx

/-! ## merge_all(n) / concat_all / flatten / flat_map -/

/-- The downstream log of merge_all is well-formed: every table of inner
    observables (cold with any terminal, hot), every concurrency limit (0,
    1 = concat_all, `usizeMax` = flatten, …), every history, for the code as it
    is (`fixed = false`) and the repaired code (`fixed = true`). -/
theorem C01M_mergeall_grammar (fixed : Bool) (inners : List MergeAll.Inner) (n : Nat)
    (evs : List MergeAll.Ev) :
    WF ((MergeAll.runG fixed (MergeAll.init inners n) evs).2.map MergeAll.Out.toNotif) :=
  (MergeAll.runG_tr fixed evs (MergeAll.init inners n)).wf

/-- The code as it is. -/
theorem C01M_mergeall_grammar_code (inners : List MergeAll.Inner) (n : Nat)
    (evs : List MergeAll.Ev) :
    WF ((MergeAll.run (MergeAll.init inners n) evs).2.map MergeAll.Out.toNotif) :=
  C01M_mergeall_grammar false inners n evs

/-- The repaired code. -/
theorem C01M_mergeall_grammar_fixed (inners : List MergeAll.Inner) (n : Nat)
    (evs : List MergeAll.Ev) :
    WF ((MergeAll.Fixed.run (MergeAll.init inners n) evs).2.map MergeAll.Out.toNotif) :=
  C01M_mergeall_grammar true inners n evs

/-- Even from an arbitrary (unreachable) operator state. -/
theorem C01M_mergeall_grammar_any_state (fixed : Bool) (s : MergeAll.St) (evs : List MergeAll.Ev) :
    WF ((MergeAll.runG fixed s evs).2.map MergeAll.Out.toNotif) :=
  (MergeAll.runG_tr fixed evs s).wf

/-- Once a terminal has been delivered downstream, no continuation produces
    anything (the cell's `Option` is `None`). -/
theorem C01M_mergeall_after_terminal (fixed : Bool) (inners : List MergeAll.Inner) (n : Nat)
    (pre post : List MergeAll.Ev)
    (h : terminated ((MergeAll.runG fixed (MergeAll.init inners n) pre).2.map MergeAll.Out.toNotif)
      = true) :
    (MergeAll.runG fixed (MergeAll.runG fixed (MergeAll.init inners n) pre).1 post).2 = [] :=
  ((MergeAll.runG_tr fixed post _).dead ((MergeAll.runG_tr fixed pre _).term h)).1

/-! ## group_by -/

/-- The outer stream of group_by (the announcements of new groups and the
    terminal), seen through ANY chain of single-input operators in ANY state
    (`outer`; the suite uses none or `take n`), is well-formed: every key
    function, every drain order, every history. -/
theorem C01M_groupby_outer_grammar (key : Val → Val)
    (ord : List (Val × GroupBy.Subj) → List (Val × GroupBy.Subj))
    (outer : List St1) (skip : List Val) (evs : List GroupBy.Ev) :
    WF (GroupBy.outerLog (GroupBy.World.run key ord (GroupBy.World.init outer skip) evs).2) :=
  GroupBy.world_outer_wf key ord evs _

/-- What the subscriber of group `k` receives is well-formed, for every key
    `k`.  `ord` is the order in which `HashMap::drain` hands out the groups at
    the terminal: any permutation. -/
theorem C01M_groupby_group_grammar (key : Val → Val)
    (ord : List (Val × GroupBy.Subj) → List (Val × GroupBy.Subj)) (hord : ∀ l, (ord l).Perm l)
    (outer : List St1) (skip : List Val) (evs : List GroupBy.Ev) (k : Val) :
    WF (GroupBy.grpLog k (GroupBy.World.run key ord (GroupBy.World.init outer skip) evs).2) :=
  GroupBy.world_grp_wf key ord hord k evs _ (by
    intro st h
    simp only [GroupBy.World.init, Option.some.injEq] at h
    subst h
    exact GroupBy.GI_init)

/-- Both together. -/
theorem C01M_groupby_grammar (key : Val → Val)
    (ord : List (Val × GroupBy.Subj) → List (Val × GroupBy.Subj)) (hord : ∀ l, (ord l).Perm l)
    (outer : List St1) (skip : List Val) (evs : List GroupBy.Ev) :
    WF (GroupBy.outerLog (GroupBy.World.run key ord (GroupBy.World.init outer skip) evs).2) ∧
    ∀ k, WF (GroupBy.grpLog k (GroupBy.World.run key ord (GroupBy.World.init outer skip) evs).2) :=
  ⟨C01M_groupby_outer_grammar key ord outer skip evs,
   C01M_groupby_group_grammar key ord hord outer skip evs⟩

/-! ## share / publish + connect / ref_count

  A subscriber is a subscription = one `Subscriber` cell of the inner subject.
  The model prints deliveries under the probe's label; `W.runI` is the same
  run with every delivery tagged by the cell id it went through (ghost), and
  erasing the tags gives the model's own output (`C01M_share_tags`). -/

open Share in
/-- The tagged log is the model's log. -/
theorem C01M_share_tags (m : Model) (kind : Kind) (cold : Option (List Val)) (es : List Ev) :
    (W.runI (init m kind cold) es).map W.eraseId = W.dlvs ((init m kind cold).run es).2 :=
  W.runI_erase es _

open Share in
/-- Every subscription receives a well-formed stream: both transcriptions
    (`Model.code` = the code as it is, `Model.fixed`), share and publish, cold
    and hot source, every history (re-subscription, emissions after the
    source's terminal, connect before/after subscribe, …), every cell id. -/
theorem C01M_share_grammar (m : Model) (kind : Kind) (cold : Option (List Val)) (es : List Ev)
    (i : Nat) : WF (W.sel (W.byCell i) (W.runI (init m kind cold) es)) :=
  W.run_cell_wf m kind cold es i

open Share in
/-- Full-strength per-LABEL statement: the deliveries printed under label `k`
    form a well-formed stream, whatever the history. -/
def C01M_share_label_statement : Prop :=
  ∀ (m : Model) (kind : Kind) (cold : Option (List Val)) (es : List Ev) (k : Nat),
    WF (W.labelLog k (W.dlvs ((init m kind cold).run es).2))

open Share in
/-- It is false, for a reason that is not a defect of rxRust: `sub 0` issued
    twice without `unsub 0` creates two different probes that print under the
    same label (the harness overwrites and thereby leaks the first handle), and
    both receive the terminal. -/
theorem C01M_share_label_statement_false : ¬ C01M_share_label_statement := by
  intro h
  have := h .code .share none [.sub 0, .sub 0, .emit .complete] 0
  revert this
  decide

open Share in
/-- Per label, under the discipline of the case generator (`sub k` only for
    `k < 3` while slot `k` is free — then a label names one subscription at a
    time): the stream printed under every label is well-formed. -/
theorem C01M_share_grammar_label_partial (m : Model) (kind : Kind) (cold : Option (List Val))
    (es : List Ev) (k : Nat) (h : W.linear [] es = true) :
    WF (W.labelLog k (W.dlvs ((init m kind cold).run es).2)) :=
  W.run_label_wf m kind cold es k h

/-! ## Non-vacuity -/

/-- merge_all: hot inner 0 keeps emitting after hot inner 1 made the merged
    stream fail; the outer stream continues and completes; nothing passes. -/
example : (MergeAll.run (MergeAll.init [.hot 0, .hot 1, .cold [.int 9] .complete] MergeAll.usizeMax)
      [.outerNext 0, .outerNext 1, .innerNext 0 (.int 5), .innerError 1 7, .innerNext 0 (.int 6),
       .innerComplete 0, .outerNext 2, .outerComplete, .innerNext 1 (.int 8)]).2.map
        MergeAll.Out.toNotif = [.next (.int 5), .error 7] := by decide

/-- concat_all with a queued cold inner, events after the outer terminal. -/
example : (MergeAll.Fixed.run (MergeAll.init [.hot 0, .cold [.int 1, .int 2] .complete] 1)
      [.outerNext 0, .outerNext 1, .outerComplete, .outerNext 1, .innerNext 0 (.int 5),
       .innerComplete 0, .innerNext 0 (.int 6), .outerError 3]).2.map MergeAll.Out.toNotif =
    [.next (.int 5), .next (.int 1), .next (.int 2), .complete] := by decide

/-- limit 0: everything is queued for ever. -/
example : (MergeAll.run (MergeAll.init [.cold [.int 1] .complete] 0)
      [.outerNext 0, .outerComplete]).2.map MergeAll.Out.toNotif = [] := by decide

/-- group_by behind `take 1` on the outer stream: the source goes on after the
    outer stream completed; its completion reaches the announced group (and is
    swallowed by `take` on the outer stream), a second terminal is swallowed. -/
example : (GroupBy.World.run (fun v => v) id (GroupBy.World.init [.take 1 0 true] [])
      [.emit (.next (.int 1)), .emit (.next (.int 2)), .emit (.next (.int 1)), .emit .complete,
       .emit (.next (.int 1)), .emit (.error 4)]).2 =
    [.outer (.next (.int 1)), .outer .complete, .grp (.int 1) (.next (.int 1)),
     .grp (.int 1) (.next (.int 1)), .grp (.int 1) .complete] := by decide

example : (GroupBy.World.run (fun v => v) List.reverse (GroupBy.World.init [] [])
      [.emit (.next (.int 1)), .emit (.next (.int 2)), .emit (.error 4),
       .emit (.next (.int 1)), .emit .complete]).2 =
    [.outer (.next (.int 1)), .grp (.int 1) (.next (.int 1)),
     .outer (.next (.int 2)), .grp (.int 2) (.next (.int 2)),
     .grp (.int 2) (.error 4), .grp (.int 1) (.error 4), .outer (.error 4)] := by decide

open Share in
/-- share over a hot source that keeps emitting after its terminal; a late
    subscriber. -/
example : W.runI (init .code .share none)
      [.sub 0, .sub 1, .emit (.next (.int 5)), .unsub 0, .emit (.next (.int 6)), .emit .complete,
       .emit (.next (.int 7)), .sub 2, .emit (.error 3)] =
    [(0, 0, .next (.int 5)), (1, 1, .next (.int 5)), (1, 1, .next (.int 6)), (1, 1, .complete)] := by
  decide

open Share in
example : W.linear [] [.sub 0, .sub 1, .emit (.next (.int 5)), .unsub 0, .sub 0, .emit .complete] = true := by
  decide

open Share in
/-- publish over a cold source: everything is delivered inside `connect`. -/
example : W.runI (init .code .publish (some [.int 1, .int 2])) [.sub 0, .sub 1, .connect, .sub 2] =
    [(0, 0, .next (.int 1)), (1, 1, .next (.int 1)), (0, 0, .next (.int 2)), (1, 1, .next (.int 2)),
     (0, 0, .complete), (1, 1, .complete)] := by decide

end Rx
