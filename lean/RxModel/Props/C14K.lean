import RxModel.Conv.StatusTakeLemmas
/-
  C14 — `complete_status` reports completed / error exactly when the SOURCE has terminated, and
  `wait_for_end` becomes ready then — also when the downstream of the status operator (a `take`,
  `first`, `take_while`) has finished BEFORE the source reached its terminal.

  Property theorems only.  Model: RxModel/Conv/StatusTake.lean (`StatTW`: source → slot →
  `StatusObserver{observer = cutter → probe}`), reference = the source's own history
  (`Ref.thist`, `Ref.srcTerm`); helper lemmas: RxModel/Conv/StatusTakeLemmas.lean.

  Every theorem quantifies over ALL cutters (`id`, `take n` for every n, `take_while p` for every
  predicate, inclusive or not) and ALL event lists `es : List TEv` — source calls, subscription,
  polls and flag queries in any order, post-terminal calls included.  No bound.

  The sources: `create` (the producer calls the `Subscriber` slot directly), `from_iter(1..=k)`
  (subscribed by `sub`; calls `complete` unconditionally after its loop) and the hot `Subject`
  (hands its terminal to every subscriber — since `fix: Subject::error/complete hand the terminal to
  every subscriber`; before it, `Subject::error/complete` skipped subscribers whose observer
  `is_finished()`, `StatusObserver::is_finished` is the downstream's, so once `take` had finished
  the status observer never saw the source's terminal: the flag stayed 0 and a parked `wait_for_end`
  slept for ever — the last section records that behaviour, `StatTW.hotEmitBefore`).
-/
namespace Rx.Conv
open Ref

/-! ## Full-strength statements, parametrised by the source -/

/-- The flag follows the source's terminal, whatever the cutter is and whenever it finished. -/
def StatusTakeFlagSpec (src : TSrc) : Prop :=
  ∀ (c : Cutter) (es : List TEv), (StatTW.run src c {} es).1.flag = statFlag (srcTerm src es)

/-- `StatusFuture::poll` is Ready iff the source has terminated. -/
def StatusTakeReadySpec (src : TSrc) : Prop :=
  ∀ (c : Cutter) (es : List TEv),
    (StatTW.step src c (StatTW.run src c {} es).1 .poll).2 =
      (if (srcTerm src es).isSome then .ready else .pending)

/-- A waiter parked before the source's terminal is woken by the event that carries it. -/
def StatusTakeWakeSpec (src : TSrc) : Prop :=
  ∀ (c : Cutter) (es : List TEv) (e : TEv),
    srcTerm src es = none → srcTerm src (es ++ [e]) ≠ none →
    (StatTW.run src c {} es).1.parked = true →
      (StatTW.run src c {} (es ++ [e])).1.wakes = (StatTW.run src c {} es).1.wakes + 1 ∧
        (StatTW.run src c {} (es ++ [e])).1.parked = false

/-! ## Every source — `create`, `from_iter`, the hot `Subject` — at full strength -/

theorem C14_status_take_flag (src : TSrc) : StatusTakeFlagSpec src := by
  intro c es
  rw [flag_run]; rfl

/-- The three queries answer from the source's terminal. -/
theorem C14_status_take_query (src : TSrc) (c : Cutter) (es : List TEv) :
    (StatTW.step src c (StatTW.run src c {} es).1 .qStatus).2 =
      .status (srcTerm src es).isSome
        (match srcTerm src es with | some (.error _) => false | some _ => true | none => false)
        (match srcTerm src es with | some (.error _) => true | _ => false) := by
  have hf := C14_status_take_flag src c es
  simp only [StatTW.step, StatTW.isClosed, StatTW.isCompleted, StatTW.errorOccur, hf]
  cases srcTerm src es with
  | none => simp [statFlag]
  | some t => cases t <;> simp [statFlag]

theorem C14_status_take_ready (src : TSrc) : StatusTakeReadySpec src := by
  intro c es
  have hf := C14_status_take_flag src c es
  simp only [StatTW.step, StatTW.isClosed, hf, statFlag_ne_zero]
  cases (srcTerm src es).isSome <;> rfl

theorem C14_status_take_wake (src : TSrc) : StatusTakeWakeSpec src := by
  intro c es e hn ht hp
  rw [run_snoc]
  have hi := tinv_run src c es {} {} (TInv_init src c)
  refine wake_step src c _ _ e hi hn ?_ hp
  simpa [srcTerm, thist_snoc] using ht

/-- In particular the status never reports a terminal that did not happen, nor the wrong one. -/
theorem C14_status_take_sound (src : TSrc) (c : Cutter) (es : List TEv) :
    (StatTW.run src c {} es).1.flag = 0 ∨
      (StatTW.run src c {} es).1.flag = statFlag (srcTerm src es) :=
  Or.inr (C14_status_take_flag src c es)

/-- When has the cutter finished the downstream by itself (the situations the statements above are
    about)?  `take n`: `n ≥ 1` and at least `n` items; `take 0` and no cutter: never; `take_while p`:
    some item failed `p`. -/
theorem C14_cutter_done (xs : List Val) :
    Cutter.id.doneOn xs = false ∧
    (∀ n, (Cutter.take n).doneOn xs = (decide (0 < n) && decide (n ≤ xs.length))) ∧
    (∀ p incl, (Cutter.takeWhile p incl).doneOn xs = !xs.all p) :=
  ⟨Cutter.doneOn_id xs, fun n => Cutter.doneOn_take n xs, fun p incl => Cutter.doneOn_takeWhile p incl xs⟩

/-! ## Non-vacuity: the situations the theorems are about are reachable -/

-- create + take(2): the downstream finishes at the 2nd item, the waiter parks, the producer completes
-- later: flag 1, the waiter woken once, Ready.
example : (StatTW.run .create (.take 2) {}
      [.emit (.next (.int 1)), .emit (.next (.int 2)), .poll, .emit (.next (.int 3)), .emit .complete, .poll,
        .qStatus]).2 =
    [.out [.next (.int 1)], .out [.next (.int 2), .complete], .pending, .out [], .out [], .ready,
      .status true true false] := by decide
example : (StatTW.run .create (.take 2) {}
      [.emit (.next (.int 1)), .emit (.next (.int 2)), .poll]).1.parked = true ∧
    (Cutter.take 2).doneOn [.int 1, .int 2] = true := by decide
example : (StatTW.run .create (.take 2) {}
      [.emit (.next (.int 1)), .emit (.next (.int 2)), .poll, .emit (.error 7)]).1.wakes = 1 := by decide
-- the seed's demo: from_iter(1..=5).complete_status().take(2)
example : (StatTW.run (.iter 5) (.take 2) {} [.poll, .sub, .poll, .qStatus]).2 =
    [.pending, .out [.next (.int 1), .next (.int 2), .complete], .ready, .status true true false] := by
  decide
example : (StatTW.run (.iter 5) (.take 2) {} [.poll, .sub]).1.wakes = 1 := by decide
-- take(0) never completes by itself: the source's completion passes
example : (StatTW.run (.iter 3) (.take 0) {} [.sub, .qStatus]).2 =
    [.out [.complete], .status true true false] := by decide
-- take_while
example : (StatTW.run .create (.takeWhile (fun v => v == .int 1) false) {}
      [.emit (.next (.int 1)), .emit (.next (.int 2)), .emit (.error 9), .qStatus]).2 =
    [.out [.next (.int 1)], .out [.complete], .out [], .status true false true] := by decide
-- hot + take(2): the downstream finishes at the 2nd item, the waiter parks, the subject completes
-- later: the status observer is told, flag 1, the waiter woken, Ready
example : (StatTW.run .hot (.take 2) {}
      [.emit (.next (.int 1)), .emit (.next (.int 2)), .poll, .emit .complete, .poll, .qStatus]).2 =
    [.out [.next (.int 1)], .out [.next (.int 2), .complete], .pending, .out [], .ready,
      .status true true false] := by decide
example : (StatTW.run .hot (.take 2) {}
      [.emit (.next (.int 1)), .emit (.next (.int 2)), .poll, .emit (.error 7)]).1.wakes = 1 := by decide
example : srcTerm .hot [.emit (.next (.int 1)), .emit (.next (.int 2)), .poll, .emit .complete] =
    some .complete := by decide
-- hot, downstream still listening at the terminal
example : (StatTW.run .hot (.take 2) {} [.emit (.next (.int 1)), .poll, .emit (.error 3), .poll]).2 =
    [.out [.next (.int 1)], .pending, .out [.error 3], .ready] := by decide

/-! ## The hot `Subject` BEFORE `fix: Subject::error/complete hand the terminal to every subscriber`

  `StatTW.hotEmitBefore`: `subject.complete_status().take(1)`, an item, then the subject terminates —
  the status observer was filtered out of the fan-out (`p_is_closed()`): the flag stayed 0, a waiter
  that had parked after `take(1)` finished was not woken.  The same world under the code as it is
  (`StatTW.hotEmit`) next to it.  (Recorded in known_findings.json as fixed:
  `status-flag|convert|statustake/hot`, `pending-after-termination|…`, `lost-wakeup|convert|statuswait/hot`.) -/
example :
    let w := (StatTW.run .hot (.take 1) {} [.emit (.next (.int 1)), .poll]).1
    w.parked = true ∧ (Cutter.take 1).isFinished w.cut = true ∧
    ((StatTW.hotEmitBefore (.take 1) w .complete).1.flag = 0 ∧
      (StatTW.hotEmitBefore (.take 1) w .complete).1.parked = true ∧
      (StatTW.hotEmitBefore (.take 1) w .complete).1.wakes = 0) ∧
    ((StatTW.hotEmit (.take 1) w .complete).1.flag = 1 ∧
      (StatTW.hotEmit (.take 1) w .complete).1.parked = false ∧
      (StatTW.hotEmit (.take 1) w .complete).1.wakes = 1) := by decide
example :
    let w := (StatTW.run .hot (.take 1) {} [.emit (.next (.int 1))]).1
    (StatTW.hotEmitBefore (.take 1) w (.error 7)).1.flag = 0 ∧
      (StatTW.hotEmit (.take 1) w (.error 7)).1.flag = -1 := by decide
-- while the downstream is still listening the two agree
example :
    let w := (StatTW.run .hot (.take 2) {} [.emit (.next (.int 1)), .poll]).1
    StatTW.hotEmitBefore (.take 2) w .complete = StatTW.hotEmit (.take 2) w .complete := by decide

end Rx.Conv
