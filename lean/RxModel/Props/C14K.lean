import RxModel.Conv.StatusTakeLemmas
/-
  C14 — `complete_status` reports completed / error exactly when the SOURCE has terminated, and
  `wait_for_end` becomes ready then — also when the downstream of the status operator (a `take`,
  `first`, `take_while`) has finished BEFORE the source reached its terminal.

  Property theorems only.  Model: RxModel/Conv/StatusTake.lean (`StatTW`: source → slot →
  `StatusObserver{observer = cutter → probe}`), reference = the source's own history
  (`Ref.thist`, `Ref.srcTerm`); helper lemmas: RxModel/Conv/StatusTakeLemmas.lean.

  Every theorem quantifies over ALL cutters (`id`, `take n` for every n, `take_while p` for every
  predicate, inclusive or not) and ALL event lists `es : List TEv` — source calls, subscription,
  polls and flag queries in any order, post-terminal calls included.  No bound.

  The sources: `create` (the producer calls the `Subscriber` slot directly), `from_iter(1..=k)`
  (subscribed by `sub`; calls `complete` unconditionally after its loop) and the hot `Subject`.
  Over the hot `Subject` the code as it is VIOLATES the property: `Subject::error/complete` skip
  subscribers whose observer `is_finished()`, `StatusObserver::is_finished` is the downstream's, so
  once `take` has finished the status observer never sees the source's terminal: the flag stays 0 and
  a parked `wait_for_end` sleeps for ever.  For `hot` the full statements are kept as `def … : Prop`,
  refuted by concrete witnesses, and `_partial` theorems state exactly what the code does.
-/
namespace Rx.Conv
open Ref

/-! ## Full-strength statements, parametrised by the source -/

/-- The flag follows the source's terminal, whatever the cutter is and whenever it finished. -/
def StatusTakeFlagSpec (src : TSrc) : Prop :=
  ∀ (c : Cutter) (es : List TEv), (StatTW.run src c {} es).1.flag = statFlag (srcTerm src es)

/-- `StatusFuture::poll` is Ready iff the source has terminated. -/
def StatusTakeReadySpec (src : TSrc) : Prop :=
  ∀ (c : Cutter) (es : List TEv),
    (StatTW.step src c (StatTW.run src c {} es).1 .poll).2 =
      (if (srcTerm src es).isSome then .ready else .pending)

/-- A waiter parked before the source's terminal is woken by the event that carries it. -/
def StatusTakeWakeSpec (src : TSrc) : Prop :=
  ∀ (c : Cutter) (es : List TEv) (e : TEv),
    srcTerm src es = none → srcTerm src (es ++ [e]) ≠ none →
    (StatTW.run src c {} es).1.parked = true →
      (StatTW.run src c {} (es ++ [e])).1.wakes = (StatTW.run src c {} es).1.wakes + 1 ∧
        (StatTW.run src c {} (es ++ [e])).1.parked = false

/-! ## Sources that hand their terminal to the status observer: full strength -/

theorem C14_status_take_flag (src : TSrc) (hs : src ≠ .hot) : StatusTakeFlagSpec src := by
  intro c es
  rw [flag_run]
  cases src with
  | hot => exact absurd rfl hs
  | create => rfl
  | iter k => rfl

/-- The three queries answer from the source's terminal. -/
theorem C14_status_take_query (src : TSrc) (hs : src ≠ .hot) (c : Cutter) (es : List TEv) :
    (StatTW.step src c (StatTW.run src c {} es).1 .qStatus).2 =
      .status (srcTerm src es).isSome
        (match srcTerm src es with | some (.error _) => false | some _ => true | none => false)
        (match srcTerm src es with | some (.error _) => true | _ => false) := by
  have hf := C14_status_take_flag src hs c es
  simp only [StatTW.step, StatTW.isClosed, StatTW.isCompleted, StatTW.errorOccur, hf]
  cases srcTerm src es with
  | none => simp [statFlag]
  | some t => cases t <;> simp [statFlag]

theorem C14_status_take_ready (src : TSrc) (hs : src ≠ .hot) : StatusTakeReadySpec src := by
  intro c es
  have hf := C14_status_take_flag src hs c es
  simp only [StatTW.step, StatTW.isClosed, hf, statFlag_ne_zero]
  cases (srcTerm src es).isSome <;> rfl

theorem C14_status_take_wake (src : TSrc) (hs : src ≠ .hot) : StatusTakeWakeSpec src := by
  intro c es e hn ht hp
  rw [run_snoc]
  have hi := tinv_run src c es {} {} (TInv_init src c)
  refine wake_step src c _ _ e hi hn ?_ hp (fun h => absurd h hs)
  simpa [srcTerm, thist_snoc] using ht

/-! ## Every source: the status never reports a terminal that did not happen, nor the wrong one -/

theorem C14_status_take_sound (src : TSrc) (c : Cutter) (es : List TEv) :
    (StatTW.run src c {} es).1.flag = 0 ∨
      (StatTW.run src c {} es).1.flag = statFlag (srcTerm src es) := by
  rw [flag_run]
  cases src with
  | hot =>
    simp only [expFlag]
    split
    · exact Or.inl rfl
    · exact Or.inr rfl
  | create => exact Or.inr rfl
  | iter k => exact Or.inr rfl

/-! ## The hot `Subject`: counterexamples and what does hold -/

/-- `subject.complete_status().take(1)`: an item, then the subject completes — the flag stays 0. -/
theorem C14_status_take_hot_flag_counterexample : ¬ StatusTakeFlagSpec .hot := by
  intro h
  exact absurd (h (.take 1) [.emit (.next (.int 1)), .emit .complete]) (by decide)

theorem C14_status_take_hot_ready_counterexample : ¬ StatusTakeReadySpec .hot := by
  intro h
  exact absurd (h (.take 1) [.emit (.next (.int 1)), .emit (.error 7)]) (by decide)

/-- The waiter parks after `take(1)` has finished; the subject's completion does not wake it. -/
theorem C14_status_take_hot_wake_counterexample : ¬ StatusTakeWakeSpec .hot := by
  intro h
  have := h (.take 1) [.emit (.next (.int 1)), .poll] (.emit .complete) (by decide) (by decide) (by decide)
  revert this
  decide

/-- Exactly what the code does over a hot `Subject`: the flag follows the source's terminal unless the
    cutter had finished the downstream by itself on the items delivered before it — then it stays 0. -/
theorem C14_status_take_hot_flag_partial (c : Cutter) (es : List TEv) :
    (StatTW.run .hot c {} es).1.flag =
      (if c.doneOn (srcItems .hot es) then 0 else statFlag (srcTerm .hot es)) := by
  rw [flag_run]; rfl

theorem C14_status_take_hot_ready_partial (c : Cutter) (es : List TEv) :
    (StatTW.step .hot c (StatTW.run .hot c {} es).1 .poll).2 =
      (if (srcTerm .hot es).isSome && !c.doneOn (srcItems .hot es) then .ready else .pending) := by
  have hf := C14_status_take_hot_flag_partial c es
  simp only [StatTW.step, StatTW.isClosed, hf]
  cases c.doneOn (srcItems .hot es) with
  | true => simp
  | false =>
    simp only [Bool.false_eq_true, if_false, statFlag_ne_zero, Bool.not_false, Bool.and_true]
    cases (srcTerm .hot es).isSome <;> rfl

theorem C14_status_take_hot_wake_partial (c : Cutter) (es : List TEv) (e : TEv)
    (hn : srcTerm .hot es = none) (ht : srcTerm .hot (es ++ [e]) ≠ none)
    (hp : (StatTW.run .hot c {} es).1.parked = true)
    (hd : c.doneOn (srcItems .hot es) = false) :
    (StatTW.run .hot c {} (es ++ [e])).1.wakes = (StatTW.run .hot c {} es).1.wakes + 1 ∧
      (StatTW.run .hot c {} (es ++ [e])).1.parked = false := by
  rw [run_snoc]
  have hi := tinv_run .hot c es {} {} (TInv_init .hot c)
  refine wake_step .hot c _ _ e hi hn ?_ hp (fun _ => hd)
  simpa [srcTerm, thist_snoc] using ht

/-- When has the cutter finished by itself?  `take n`: `n ≥ 1` and at least `n` items; `take 0` and no
    cutter: never; `take_while p`: some item failed `p`. -/
theorem C14_cutter_done (xs : List Val) :
    Cutter.id.doneOn xs = false ∧
    (∀ n, (Cutter.take n).doneOn xs = (decide (0 < n) && decide (n ≤ xs.length))) ∧
    (∀ p incl, (Cutter.takeWhile p incl).doneOn xs = !xs.all p) :=
  ⟨Cutter.doneOn_id xs, fun n => Cutter.doneOn_take n xs, fun p incl => Cutter.doneOn_takeWhile p incl xs⟩

/-- … so with no cutter or `take 0` the hot source satisfies the full statement. -/
theorem C14_status_take_hot_never_done (c : Cutter) (hc : ∀ xs, c.doneOn xs = false) (es : List TEv) :
    (StatTW.run .hot c {} es).1.flag = statFlag (srcTerm .hot es) := by
  rw [C14_status_take_hot_flag_partial, hc]; rfl

/-! ## Non-vacuity: the situations the theorems are about are reachable -/

-- create + take(2): the downstream finishes at the 2nd item, the waiter parks, the producer completes
-- later: flag 1, the waiter woken once, Ready.
example : (StatTW.run .create (.take 2) {}
      [.emit (.next (.int 1)), .emit (.next (.int 2)), .poll, .emit (.next (.int 3)), .emit .complete, .poll,
        .qStatus]).2 =
    [.out [.next (.int 1)], .out [.next (.int 2), .complete], .pending, .out [], .out [], .ready,
      .status true true false] := by decide
example : (StatTW.run .create (.take 2) {}
      [.emit (.next (.int 1)), .emit (.next (.int 2)), .poll]).1.parked = true ∧
    (Cutter.take 2).doneOn [.int 1, .int 2] = true := by decide
example : (StatTW.run .create (.take 2) {}
      [.emit (.next (.int 1)), .emit (.next (.int 2)), .poll, .emit (.error 7)]).1.wakes = 1 := by decide
-- the seed's demo: from_iter(1..=5).complete_status().take(2)
example : (StatTW.run (.iter 5) (.take 2) {} [.poll, .sub, .poll, .qStatus]).2 =
    [.pending, .out [.next (.int 1), .next (.int 2), .complete], .ready, .status true true false] := by
  decide
example : (StatTW.run (.iter 5) (.take 2) {} [.poll, .sub]).1.wakes = 1 := by decide
-- take(0) never completes by itself: the source's completion passes
example : (StatTW.run (.iter 3) (.take 0) {} [.sub, .qStatus]).2 =
    [.out [.complete], .status true true false] := by decide
-- take_while
example : (StatTW.run .create (.takeWhile (fun v => v == .int 1) false) {}
      [.emit (.next (.int 1)), .emit (.next (.int 2)), .emit (.error 9), .qStatus]).2 =
    [.out [.next (.int 1)], .out [.complete], .out [], .status true false true] := by decide
-- hot: the defect
example : (StatTW.run .hot (.take 2) {}
      [.emit (.next (.int 1)), .emit (.next (.int 2)), .poll, .emit .complete, .poll, .qStatus]).2 =
    [.out [.next (.int 1)], .out [.next (.int 2), .complete], .pending, .out [], .pending,
      .status false false false] := by decide
example : srcTerm .hot [.emit (.next (.int 1)), .emit (.next (.int 2)), .poll, .emit .complete] =
    some .complete := by decide
-- hot, downstream still listening at the terminal: fine
example : (StatTW.run .hot (.take 2) {} [.emit (.next (.int 1)), .poll, .emit (.error 3), .poll]).2 =
    [.out [.next (.int 1)], .pending, .out [.error 3], .ready] := by decide

end Rx.Conv
