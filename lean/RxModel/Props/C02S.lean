import RxModel.Lemmas.TimeStepsQuiet
import RxModel.Lemmas.TimeStepsMulti
import RxModel.Lemmas.TimeStepsPar
/-
  C02 (thread-safe flavour, scheduler-using operators) — after `unsubscribe()` on the subscription
  returned by `subscribe` has returned, the subscriber receives no further notification: EVERY
  interleaving of emitting threads, an unsubscribing thread and executor threads, at the granularity
  of single `MutArc` acquisitions.

  Model: RxModel/Conc/TimeSteps.lean (`St`, `Pc`, `step`, `exec`): a hot `SubjectThreads` source, one
  operator (debounce | throttle | delay | observe_on), one probe; every lock acquisition is its own step,
  enabled only while the cell is free; any number of threads, each a list of operations
  (emit next/error/complete, unsubscribe, poll j, run, adv d, fire i), any schedule.
  Property theorems only; helper lemmas: RxModel/Lemmas/TimeSteps*.lean.

  Tie to /repo: suite `coop` (harness/src/suites/coop_suite.rs) runs the REAL code on two OS threads
  scheduled at every hooked `MutArc` acquisition (hook H2) under the policy `TS.par`; deliveries, the
  marker R, the executed schedule and the per-thread lock tokens are compared verbatim with this model
  (`C02S_coop_is_schedule`: what is replayed is a schedule of `exec`).  Modelled, not verified: that
  std `Mutex` sections are atomic and are exactly these steps.
-/
namespace Rx.Conc.TS
open Rx

/-! ### debounce, the order of the code: quiet after `unsubscribe()` -/

/-- **Nothing after `unsubscribe()` has returned — debounce, all interleavings.**  Any debounce window `d`,
    the subject alive or already terminated at subscription, ANY number of threads each running ANY list of
    operations (`emit next/error/complete` on the subject, `unsub`, `poll j` of any task incl. spurious polls,
    `run`, `adv`, `fire`), EVERY schedule at the granularity of single lock acquisitions (a blocked thread
    that is scheduled stutters): in the probe log no delivery stands behind the marker `R` that the
    unsubscribing thread writes when `unsubscribe()` has returned. -/
theorem C02S_debounce_quiet_after_unsub (d : Nat) (live : Bool) (progs : List (List Op)) (sched : List Nat) :
    quietAfterR (exec ⟨.debounce d, .original⟩ (Cfg.init (St.subscribed live) progs) sched).st.log = true :=
  (DInv.exec (hconf_debounce d) live progs sched).dd.ql

/-- The same, spelled out: whatever stands behind an `R` in the log is not a delivery. -/
theorem C02S_debounce_nothing_after_R (d : Nat) (live : Bool) (progs : List (List Op)) (sched : List Nat)
    (pre post : List Item)
    (h : (exec ⟨.debounce d, .original⟩ (Cfg.init (St.subscribed live) progs) sched).st.log = pre ++ .R :: post) :
    ∀ x ∈ post, x = .R := by
  have hq := C02S_debounce_quiet_after_unsub d live progs sched
  rw [h] at hq
  clear h
  induction pre with
  | nil =>
    simp only [List.nil_append, quietAfterR, List.all_eq_true, beq_iff_eq] at hq
    exact hq
  | cons y r ih =>
    cases y with
    | n z => exact ih hq
    | R =>
      simp only [List.cons_append, quietAfterR, List.all_eq_true, beq_iff_eq] at hq
      intro x hx
      exact hq x (List.mem_append_right _ (List.mem_cons_of_mem _ hx))

/-- The state behind it: once `R` is logged the slot is closed, the handler cell is empty, no task can still
    run its body (every task is cancelled or finished) and no thread is inside the slot section — for ever. -/
theorem C02S_debounce_dead_after_unsub (d : Nat) (live : Bool) (progs : List (List Op)) (sched : List Nat)
    (h : Item.R ∈ (exec ⟨.debounce d, .original⟩ (Cfg.init (St.subscribed live) progs) sched).st.log) :
    let c := exec ⟨.debounce d, .original⟩ (Cfg.init (St.subscribed live) progs) sched
    c.st.slotOpen = false ∧ c.st.hcell = none ∧ (∀ k, c.st.armed k = false) ∧
      ∀ j, Cell.slot ∉ (c.pcOf j).holds := by
  have q := (DInv.exec (hconf_debounce d) live progs sched).dd.q h
  exact ⟨q.slot, q.hcell, q.dead, q.out⟩

/-- At every moment of every schedule at most one task is armed outside the hands of a thread: an armed
    task is the one in the handler cell, or the one a thread inside the slot section is about to store /
    cancel, or the one `unsubscribe` is about to cancel (the fact that makes `unsubscribe` find the newest). -/
theorem C02S_debounce_armed_is_tracked (d : Nat) (live : Bool) (progs : List (List Op)) (sched : List Nat)
    (k : Nat) :
    let c := exec ⟨.debounce d, .original⟩ (Cfg.init (St.subscribed live) progs) sched
    c.st.armed k = true →
      c.st.hcell = some k ∨ ∃ j, c.pcOf j = .hc_store k ∨ c.pcOf j = .db_cancel k ∨ c.pcOf j = .tc_cancel k ∨
        c.pcOf j = .te_cancel k ∨ c.pcOf j = .u_cancel k false :=
  (DInv.exec (hconf_debounce d) live progs sched).dd.t1 k

/-! ### throttle (handler cell shared with the subscription since fix 0adcfc0), the order of the code -/

/-- **Nothing after `unsubscribe()` has returned — throttle, all interleavings.**  Any window `d`, any edge
    (leading / trailing / both), the subject alive or terminated at subscription, any number of threads each
    running any list of operations, every schedule at the granularity of single lock acquisitions: no delivery
    stands behind the marker `R`. -/
theorem C02S_throttle_quiet_after_unsub (d : Nat) (e : Edge) (live : Bool) (progs : List (List Op))
    (sched : List Nat) :
    quietAfterR (exec ⟨.throttle d e, .original⟩ (Cfg.init (St.subscribed live) progs) sched).st.log = true :=
  (DInv.exec (hconf_throttle d e) live progs sched).dd.ql

/-- Once `R` is logged: slot closed, handler cell empty, no task armed, nobody inside the slot section. -/
theorem C02S_throttle_dead_after_unsub (d : Nat) (e : Edge) (live : Bool) (progs : List (List Op))
    (sched : List Nat)
    (h : Item.R ∈ (exec ⟨.throttle d e, .original⟩ (Cfg.init (St.subscribed live) progs) sched).st.log) :
    let c := exec ⟨.throttle d e, .original⟩ (Cfg.init (St.subscribed live) progs) sched
    c.st.slotOpen = false ∧ c.st.hcell = none ∧ (∀ k, c.st.armed k = false) ∧
      ∀ j, Cell.slot ∉ (c.pcOf j).holds := by
  have q := (DInv.exec (hconf_throttle d e) live progs sched).dd.q h
  exact ⟨q.slot, q.hcell, q.dead, q.out⟩

/-- The window task is unique: an armed task is the one in the handler cell or the one a thread is about to
    store / cancel — `ThrottleObserver::next` schedules a new one only over a handle whose body has returned. -/
theorem C02S_throttle_armed_is_tracked (d : Nat) (e : Edge) (live : Bool) (progs : List (List Op))
    (sched : List Nat) (k : Nat) :
    let c := exec ⟨.throttle d e, .original⟩ (Cfg.init (St.subscribed live) progs) sched
    c.st.armed k = true →
      c.st.hcell = some k ∨ ∃ j, c.pcOf j = .hc_store k ∨ c.pcOf j = .db_cancel k ∨ c.pcOf j = .tc_cancel k ∨
        c.pcOf j = .te_cancel k ∨ c.pcOf j = .u_cancel k false :=
  (DInv.exec (hconf_throttle d e) live progs sched).dd.t1 k

/-- The same race as C02-3 with the halves of throttle's subscription swapped (what the code was before fix
    0adcfc0 did not even have the handler cell in the subscription): a window task survives `unsubscribe()`
    and delivers the trailing item after `R`. -/
theorem C02S_throttle_swapped_delivers_after_unsub :
    (exec ⟨.throttle 3 .trailing, .swapped⟩ (Cfg.init (St.subscribed true)
        [[.emit (.next (.int 2))], [.unsub], [.run, .adv 5, .run]])
      (List.replicate 4 0 ++ List.replicate 4 1 ++ List.replicate 4 0 ++ List.replicate 4 1 ++
        List.replicate 40 2)).st.log = [.R, .n (.next (.int 2))] := by
  decide +kernel

/-! ### delay and observe_on (one task per notification, handles in a `MultiSubscriptionThreads`) -/

/-- **Nothing after `unsubscribe()` has returned — delay, all interleavings.**  Every `next` / `complete`
    schedules its own task and appends the handle to the composite; `unsubscribe()` closes the slot, takes the
    whole list and cancels handle after handle (waiting for a task whose body is running).  Any delay, any
    threads, any operations, every schedule: no delivery behind `R`. -/
theorem C02S_delay_quiet_after_unsub (d : Nat) (live : Bool) (progs : List (List Op)) (sched : List Nat) :
    quietAfterR (exec ⟨.delay d, .original⟩ (Cfg.init (St.subscribed live) progs) sched).st.log = true :=
  (MInv.exec (mconf_delay d) live progs sched).dd.ql

/-- … and observe_on (no timer; `error` is scheduled too). -/
theorem C02S_observe_on_quiet_after_unsub (live : Bool) (progs : List (List Op)) (sched : List Nat) :
    quietAfterR (exec ⟨.observeOn, .original⟩ (Cfg.init (St.subscribed live) progs) sched).st.log = true :=
  (MInv.exec mconf_observeOn live progs sched).dd.ql

/-- Every armed task is registered: it is in the composite, or the emitter that scheduled it is about to
    append it (or, the composite being gone, to cancel it: fix f40172f), or `unsubscribe` has it in the list
    it is working off. -/
theorem C02S_delay_armed_is_tracked (d : Nat) (live : Bool) (progs : List (List Op)) (sched : List Nat)
    (k : Nat) :
    let c := exec ⟨.delay d, .original⟩ (Cfg.init (St.subscribed live) progs) sched
    c.st.armed k = true →
      (∃ l, c.st.multi = some l ∧ k ∈ l) ∨
        ∃ j, c.pcOf j = .dl_append k ∨ c.pcOf j = .dl_late k ∨ ∃ hs b, c.pcOf j = .u_mc hs b ∧ k ∈ hs :=
  (MInv.exec (mconf_delay d) live progs sched).dd.t1 k

/-- Once `R` is logged: slot closed, no task armed, nobody inside the slot section. -/
theorem C02S_delay_dead_after_unsub (d : Nat) (live : Bool) (progs : List (List Op)) (sched : List Nat)
    (h : Item.R ∈ (exec ⟨.delay d, .original⟩ (Cfg.init (St.subscribed live) progs) sched).st.log) :
    let c := exec ⟨.delay d, .original⟩ (Cfg.init (St.subscribed live) progs) sched
    c.st.slotOpen = false ∧ (∀ k, c.st.armed k = false) ∧ ∀ j, Cell.slot ∉ (c.pcOf j).holds := by
  have q := (MInv.exec (mconf_delay d) live progs sched).dd.q h
  exact ⟨q.slot, q.dead, q.out⟩

/-- "Append after unsubscribe" (fix f40172f), on the seed's schedule with the halves SWAPPED: `unsubscribe()`
    empties the composite while the emitter is inside `next`; the emitter's `append` finds it gone and cancels
    its own fresh task at once — nothing is delivered.  (Before the fix the late handle was dropped alive.) -/
theorem C02S_delay_swapped_late_append_is_cancelled :
    (exec ⟨.delay 3, .swapped⟩ (Cfg.init (St.subscribed true)
        [[.emit (.next (.int 2))], [.unsub], [.run, .adv 5, .run]])
      (List.replicate 4 0 ++ List.replicate 4 1 ++ List.replicate 4 0 ++ List.replicate 4 1 ++
        List.replicate 40 2)).st.log = [.R] := by
  decide +kernel

/-! ### every operator kind, both orders: lock discipline, no deadlock -/

/-- **Mutual exclusion.**  At every moment of every schedule `locks` says exactly what the program counters
    say, and no cell is held by two threads. -/
theorem C02S_mutual_exclusion (K : Conf) (s : St) (hs : s.locks = []) (progs : List (List Op))
    (sched : List Nat) (c : Cell) (j j' : Nat) :
    let cf := exec K (Cfg.init s progs) sched
    ((c, j) ∈ cf.st.locks ↔ c ∈ (cf.pcOf j).holds) ∧
      (c ∈ (cf.pcOf j).holds → c ∈ (cf.pcOf j').holds → j = j') :=
  ⟨(LD.exec K s hs progs sched).iff c j, (LD.exec K s hs progs sched).excl c j j'⟩

/-- **Ranked acquisition.**  Every program point of every operation asks for a cell whose rank is above the
    rank of everything the thread holds (observers < chamber < slot < handler cell / composite < handle <
    trailing value < downstream slot). -/
theorem C02S_ranked (p : Pc) (c : Cell) (hc : p.cell = some c) : ∀ h ∈ p.holds, h.rank < c.rank :=
  pc_ranked p c hc

/-- **No deadlock.**  Any operator kind, either order of the subscription halves, any threads, any schedule:
    if some thread has not finished, some thread can take a step. -/
theorem C02S_no_deadlock (K : Conf) (s : St) (hs : s.locks = []) (progs : List (List Op)) (sched : List Nat) :
    let c := exec K (Cfg.init s progs) sched
    (∃ i, c.finished i = false) → ∃ j, c.canRun j = true := by
  intro c ⟨i, hi⟩
  have ld := LD.exec K s hs progs sched
  apply Classical.byContradiction
  intro hno
  have blocked : ∀ j, c.pcOf j ≠ .fin → c.st.enabled (c.pcOf j) = false := by
    intro j hj
    cases he : c.st.enabled (c.pcOf j) with
    | false => rfl
    | true =>
      exfalso
      apply hno
      refine ⟨j, ?_⟩
      unfold Cfg.canRun Cfg.finished
      rw [he]
      cases hp : c.pcOf j <;> simp_all
  have hi' : c.pcOf i ≠ .fin := by
    intro e; unfold Cfg.finished at hi; rw [e] at hi; cases hi
  cases hc : (c.pcOf i).cell with
  | none => have := blocked i hi'; unfold St.enabled at this; rw [hc] at this; cases this
  | some cell => exact no_deadlock_view ld blocked 7 i cell hi' hc (by omega)

/-- What suite `coop` replays on the real code is a schedule of the interleaving system: thread 0 = A,
    thread 1 = B, each alone to its first yield point, then priority [A, B] until A has arrived at its
    (k+1)-th yield point, then [B, A]; a thread whose cell is held lets the other run. -/
theorem C02S_coop_is_schedule (K : Conf) (k fuel : Nat) (c : Cfg) :
    (par K k fuel c).cfg = exec K c (par K k fuel c).fine :=
  par_exec K k fuel c

/-! ### the order matters: seed C02-3 -/

/-- the seed's program: an emitter (two items), the unsubscribing thread, an executor -/
def seedProgs : List (List Op) :=
  [[.emit (.next (.int 1)), .emit (.next (.int 2))], [.unsub], [.run, .adv 5, .run]]

/-- the seed's schedule: the emitter delivers item 1 to debounce and is inside `DebounceObserver::next`
    of item 2 (4 acquisitions: observers, chamber, observers, slot); `unsubscribe()` runs as far as it
    can; the emitter finishes; `unsubscribe()` finishes; the executor lets the window pass. -/
def seedSched : List Nat :=
  List.replicate 11 0 ++ List.replicate 4 1 ++ List.replicate 4 0 ++ List.replicate 4 1 ++ List.replicate 40 2

/-- **Negative witness (C02-3).**  With the halves swapped — `ZipSubscription(handler cell, source)` —
    `unsubscribe()` empties the handler cell while the emitter is inside `next`, then waits for the slot;
    the emitter stores a fresh task in the emptied cell; nobody cancels it: item 2 is delivered after `R`. -/
theorem C02S_debounce_swapped_delivers_after_unsub :
    (exec ⟨.debounce 3, .swapped⟩ (Cfg.init (St.subscribed true) seedProgs) seedSched).st.log =
      [.R, .n (.next (.int 2))] := by
  decide +kernel

/-- … so the statement of `C02S_debounce_quiet_after_unsub` is false for the swapped order … -/
theorem C02S_debounce_swapped_not_quiet :
    ¬ ∀ (d : Nat) (live : Bool) (progs : List (List Op)) (sched : List Nat),
      quietAfterR (exec ⟨.debounce d, .swapped⟩ (Cfg.init (St.subscribed live) progs) sched).st.log = true := by
  intro h
  have := h 3 true seedProgs seedSched
  rw [C02S_debounce_swapped_delivers_after_unsub] at this
  cases this

/-- … while the code's order, on the very same threads and schedule, blocks `unsubscribe()` on the slot
    until the emitter has stored its task, then cancels it: nothing is delivered. -/
theorem C02S_debounce_original_same_schedule :
    (exec ⟨.debounce 3, .original⟩ (Cfg.init (St.subscribed true) seedProgs) seedSched).st.log = [.R] := by
  decide +kernel

/-! ### non-vacuity -/

/-- deliveries do happen before `R`: item 1 is debounced, its task fires and delivers, then `unsubscribe()`;
    a later item and a later run deliver nothing. -/
example :
    (exec ⟨.debounce 3, .original⟩
      (Cfg.init (St.subscribed true)
        [[.emit (.next (.int 1)), .run, .adv 3, .run, .unsub, .emit (.next (.int 2)), .adv 9, .run]])
      (List.replicate 60 0)).st.log = [.n (.next (.int 1)), .R] := by
  decide +kernel

/-- the executor mid-delivery when `unsubscribe()` arrives (it holds the task's handle): `unsubscribe()`
    closes the slot, empties the handler cell, then WAITS for the handle; the delivery lands before `R`. -/
example :
    (exec ⟨.debounce 3, .original⟩
      (Cfg.init (St.subscribed true) [[.emit (.next (.int 1)), .run, .adv 3, .fire 0, .poll 0], [.unsub]])
      (List.replicate 18 0 ++ List.replicate 9 1 ++ List.replicate 3 0 ++ List.replicate 3 1)).st.log =
      [.n (.next (.int 1)), .R] := by
  decide +kernel

/-- the policy of suite `coop` on the seed's prefix, `par 4 (emit 2) (unsub)`: the executed slices
    (A = 0, B = 1) as the harness prints them for the real code -/
example :
    (par ⟨.debounce 3, .original⟩ 4 64
      ⟨(exec ⟨.debounce 3, .original⟩ (Cfg.init (St.subscribed true) [[.emit (.next (.int 1))]])
          (List.replicate 7 0)).st,
        [Thread.mk' [.emit (.next (.int 2))], Thread.mk' [.unsub]]⟩).slices =
      [0, 0, 0, 0, 0, 0, 0, 0, 1, 1, 1] := by
  decide +kernel

end Rx.Conc.TS
