import RxModel.Lemmas.WorldWF
/-
  C01 — Every subscriber sees items, then at most one terminal, then nothing.

  `p : Pipe` ranges over ALL pipelines of the modelled catalogue (any depth, any
  shape: hot subjects, every cold source incl. `create` with malformed scripts,
  every single-input operator with any closure and parameter, start_with,
  defer, and the eight two-input combinators — RxModel/Pipe/World.lean);
  `es : List Ext` over ALL event lists: any notification on any hot input in any
  order (post-terminal events, repeated terminals), subscription and
  unsubscription at any point, queries.
-/
namespace Rx

/-- The probe log of every pipeline under every event history is well formed. -/
theorem C01_grammar (p : Pipe) (es : List Ext) : WF ((World.init p).run es).2 := by
  rcases World.run_unsubscribed (World.init p) rfl es with h | ⟨acts, h⟩
  · rw [h]; trivial
  · rw [h]; exact instantiate_wf p acts

/-- The same at the level of an instantiated pipeline and arbitrary node actions
    (deliveries through any subscriber slot with any `is_finished` answers,
    repeated starts, unsubscription anywhere). -/
theorem C01_node (p : Pipe) (acts : List Node.Act) : WF (p.instantiate.runActs acts).2 :=
  instantiate_wf p acts

/-- Two-input cells are well formed for ANY tagged input, even if their inputs
    are not (they own the downstream slot). -/
theorem C01_cell (k : Kind2) (tl : Timeline) : WF (k.init.runT tl).2 := runT_wf _ tl

/-- Single-input observers preserve well-formedness (and their input is always
    well formed: every source and every slot in front of them guarantees it). -/
theorem C01_preserving (o : Spec.Op1) (X : List Notif) (h : WF X) : WF (St1.run o.init X).2 :=
  run_init_wf o X h

/-! Non-vacuity: a pipeline with merge over one subject feeding both inputs,
    events continuing after the terminal. -/
example : ((World.init (.op1 (.take 2) (.op2 .merge (.hot 0) (.hot 0)))).run
    [.sub, .emit 0 (.next (.int 1)), .emit 0 (.next (.int 2)), .emit 0 .complete,
     .emit 0 (.next (.int 3))]).2 = [.next (.int 1), .next (.int 1), .complete] := by
  decide

end Rx
