import RxModel.Conc.HandleLts
/-
  C19 (threads clause) — after `unsubscribe()` on a task handle has returned the
  task body neither starts nor is still running.  Model: RxModel/Conc/HandleLts.lean.
-/
namespace Rx
open Conc

/-- **`TaskHandle::unsubscribe` waits for a running poll.**  In every interleaving
    of an executor thread polling the task (twice) with a thread cancelling it —
    both take the handle mutex — at every moment of every schedule the event log
    has no task-body start or end after the `unsub_return` event: the body does
    not start after the return, is not still running at the return, and stays
    cancelled at later polls. -/
theorem C19_threads_wait {ts : List Tid} {s' : DState Handle.D}
    (r : DRun Handle.sem ⟨mkState Handle.taskSys, Handle.d0⟩ ts s') :
    Handle.quiet s'.d.log = true :=
  all_schedules (progs := Handle.taskSys) (P := fun _ d => Handle.quiet d.log = true) 14
    (by decide) Handle.visitedTask r

/-- The lock discipline of the two programs is ranked: no schedule deadlocks. -/
theorem C19_threads_ranked : ∀ p ∈ Handle.taskSys, Ranked [] p := by decide

/-- Non-vacuity (1): the body does run when the poll wins, and is skipped when
    the cancel wins. -/
example : (dexec Handle.sem (mkState Handle.taskSys) Handle.d0
    [0, 0, 0, 0, 0, 1, 1, 1, 1, 0, 0, 0, 0, 0]).map (·.2.log) = some [0, 1, 2] := by decide
example : (dexec Handle.sem (mkState Handle.taskSys) Handle.d0
    [1, 1, 1, 1, 0, 0, 0, 0, 0, 0, 0, 0, 0, 0]).map (·.2.log) = some [2] := by decide

/-- Non-vacuity (2): the mutex is what makes it true — without it the body is
    still running when `unsubscribe()` returns. -/
example : (dexec Handle.sem (mkState Handle.unlockedSys) Handle.d0 [0, 0, 1, 1, 0]).map
    (fun x => Handle.quiet x.2.log) = some false := by decide

end Rx
