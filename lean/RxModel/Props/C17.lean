import RxModel.Lemmas.Quiet
/-
  C17 — is_closed() is sound; handles report closed after unsubscribe.

  Part proved here: the subscription algebra of the synchronous catalogue
  (`()`, Subscriber, ZipSubscription, boxed forms).  Composite
  (MultiSubscription) and task-handle subscriptions: RxModel/Props/C17S.lean
  (when present).
-/
namespace Rx

/-- If `is_closed()` answers true, nothing is ever delivered afterwards. -/
theorem C17_sound (p : Pipe) (es₁ es₂ : List Ext) (nd : Node)
    (hsub : ((World.init p).run es₁).1.root = some nd) (hc : nd.isClosed = true) :
    (((World.init p).run es₁).1.run es₂).2 = [] := by
  have hinv := World.inv_run (World.init p) es₁ (World.inv_init p)
  obtain ⟨acts, h⟩ := World.run_subscribed _ _ hsub es₂
  rw [h]
  exact (quiet_runActs _ acts (closed_quiet nd (hinv nd hsub) hc)).1

/-- Once true it never becomes false again. -/
theorem C17_monotone (nd : Node) (acts : List Node.Act) (hc : nd.isClosed = true) :
    (nd.runActs acts).1.isClosed = true := isClosed_runActs nd acts hc

/-- After `unsubscribe()` the subscription reports closed. -/
theorem C17_after_unsub (nd : Node) : nd.unsub.isClosed = true := isClosed_unsub nd

/-! Non-vacuity: merge of a finished cold source and a live subject is NOT closed. -/
example : (((World.init (.op2 .merge (.hot 0) (.src (.of (.int 1))))).run [.sub]).1.root.map
    Node.isClosed) = some false := by decide

end Rx
