import RxModel.Lemmas.Quiet
/-
  C02 — After unsubscribe() returns the subscriber is never called again.

  Part proved here: every pipeline of the synchronous catalogue
  (RxModel/Pipe/World.lean), every history before the cut, every continuation.
  Scheduler-using operators: RxModel/Props/C02S.lean (when present).
-/
namespace Rx

/-- After `unsubscribe()` on a subscribed pipeline nothing more is delivered,
    whatever the history before (`es₁`, any cut point) and after (`es₂`). -/
theorem C02_silent (p : Pipe) (es₁ es₂ : List Ext) (nd : Node)
    (hsub : ((World.init p).run es₁).1.root = some nd) :
    ((((World.init p).run es₁).1.step .unsub).1.run es₂).2 = [] := by
  have hinv := World.inv_run (World.init p) es₁ (World.inv_init p)
  have hstarted := hinv nd hsub
  have hroot : (((World.init p).run es₁).1.step .unsub).1.root = some nd.unsub := by
    simp [World.step, hsub, World.acts, Node.act]
  obtain ⟨acts, h⟩ := World.run_subscribed _ _ hroot es₂
  rw [h]
  exact (quiet_runActs _ acts (unsub_quiet nd hstarted)).1

/-- The unsubscription itself delivers nothing. -/
theorem C02_unsub_step_silent (w : World) : World.outOf (w.step .unsub).2 = [] := by
  simp only [World.step]; split <;> rfl

/-! Non-vacuity: the hypothesis is met, and before the cut the pipeline does deliver. -/
example : ((World.init (.op2 .merge (.hot 0) (.hot 1))).run
    [.sub, .emit 0 (.next (.int 1))]).1.root.isSome = true := by decide
example : ((World.init (.op2 .merge (.hot 0) (.hot 1))).run
    [.sub, .emit 0 (.next (.int 1))]).2 = [.next (.int 1)] := by decide

end Rx
