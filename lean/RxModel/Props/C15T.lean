import RxModel.Conc.FinalizeLts
/-
  C15 (threads clause) — finalize_threads runs its callback exactly once under a
  race between a terminating thread and an unsubscribing thread.

  Model: RxModel/Conc/FinalizeLts.lean (lock LTS + shared `Option` flag).
  The statements quantify over *all* schedules; the proof enumerates every
  reachable state of the two (three) tiny programs with a verified enumerator
  (`visited_sound`) and checks them by kernel evaluation.
-/
namespace Rx
open Conc

/-- **finalize_threads, terminal ∥ unsubscribe.**  In every interleaving the
    callback has run at most once at every moment, and exactly once when both
    calls have returned. -/
theorem C15_threads {ts : List Tid} {s' : DState Finalize.D}
    (r : DRun Finalize.sem ⟨mkState Finalize.progs2, Finalize.d0⟩ ts s') :
    s'.d.runs ≤ 1 ∧ ((∀ t, s'.l.prog t = []) → s'.d.runs = 1) := by
  have h := all_schedules (P := Finalize.Once) 10 (by decide) Finalize.visited2 r
  refine ⟨h.1, fun hd => h.2 ?_⟩
  exact (done?_iff (r.support (mkState_support Finalize.progs2))).2 hd

/-- The same with a third racing trigger (a cloned handle). -/
theorem C15_threads_three {ts : List Tid} {s' : DState Finalize.D}
    (r : DRun Finalize.sem ⟨mkState Finalize.progs3, Finalize.d0⟩ ts s') :
    s'.d.runs ≤ 1 ∧ ((∀ t, s'.l.prog t = []) → s'.d.runs = 1) := by
  have h := all_schedules (P := Finalize.Once) 15 (by decide) Finalize.visited3 r
  refine ⟨h.1, fun hd => h.2 ?_⟩
  exact (done?_iff (r.support (mkState_support Finalize.progs3))).2 hd

/-- The programs are ranked, so every schedule can be completed (no deadlock):
    the "exactly once" conclusion is reached by every maximal execution. -/
theorem C15_threads_no_deadlock : ∀ p ∈ Finalize.progs2, Ranked [] p := by decide

/-- Non-vacuity: a complete schedule in which the unsubscribing thread wins. -/
example : ∃ s', DRun Finalize.sem ⟨mkState Finalize.progs2, Finalize.d0⟩
    [1, 1, 0, 1, 1, 1, 0, 0, 0, 0] s' ∧ s'.d.runs = 1 ∧ s'.d.took 1 = true ∧ s'.d.took 0 = false := by
  have h : (dexec Finalize.sem (mkState Finalize.progs2) Finalize.d0
      [1, 1, 0, 1, 1, 1, 0, 0, 0, 0]).isSome = true := by decide
  obtain ⟨⟨l, d⟩, hx⟩ := Option.isSome_iff_exists.1 h
  refine ⟨⟨l, d⟩, dexec_sound hx, ?_⟩
  have : (dexec Finalize.sem (mkState Finalize.progs2) Finalize.d0
      [1, 1, 0, 1, 1, 1, 0, 0, 0, 0]).map (fun x => (x.2.runs, x.2.took 1, x.2.took 0)) =
      some (1, true, false) := by decide
  rw [hx] at this
  simpa using this

end Rx
