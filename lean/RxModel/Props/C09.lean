import RxModel.Sched.Chain
import RxModel.Lemmas.Multi
import RxModel.Lemmas.ChainRateMain
import RxModel.Lemmas.ChainRateLast
/-
  C09 — Rate-limiting operators never invent, duplicate or reorder items.
  (sample: RxModel/Props/C04.lean `C04_sample`; scheduler-using operators: the
  chain model of RxModel/Sched/Chain.lean; theorems are added as they are proved)
-/
namespace Rx.T
open Rx Rx.Spec

/-- buffer_with_time / buffer_with_count_and_time never release an empty buffer. -/
theorem C09_flush_nonempty (data : List Val) : ∀ n ∈ flushBuf data, ∃ v, n = .next (Val.ofList data) ∧ data ≠ [] ∧ v = data := by
  intro n hn
  unfold flushBuf at hn
  split at hn
  · cases hn
  · simp at hn; subst hn
    refine ⟨data, rfl, ?_, rfl⟩
    intro h; simp_all

/-- With a count limit `c ≥ 1` a buffer is released as soon as it holds `c` items:
    what is released is non-empty and no longer than `c`, what is kept is shorter than `c`. -/
theorem C09_buffer_bounded (d c j : Nat) (alive : Bool) (data : List Val) (task : Option TaskId)
    (v : Val) (s : Sched) (hc : 1 ≤ c) (hlen : data.length < c) :
    (∀ n ∈ ((Stage.bufTime d (some c) alive data task).onNotif j (.next v) s).2.1,
        ∃ l, n = .next (Val.ofList l) ∧ l.length ≤ c ∧ l ≠ []) ∧
    (∃ data', ((Stage.bufTime d (some c) alive data task).onNotif j (.next v) s).1
        = .bufTime d (some c) alive data' task ∧ data'.length < c) := by
  cases alive
  · simp [Stage.onNotif, hlen]
  · by_cases h : c ≤ data.length + 1
    · have hne : (data ++ [v]).isEmpty = false := by simp
      simp only [Stage.onNotif, List.length_append, List.length_singleton, ge_iff_le, h, if_true,
        flushBuf, hne]
      refine ⟨?_, ⟨[], rfl, by simp; omega⟩⟩
      intro n hn
      simp at hn; subst hn
      exact ⟨data ++ [v], rfl, by simp; omega, by simp⟩
    · simp only [Stage.onNotif, List.length_append, List.length_singleton, ge_iff_le, h, if_false,
        if_true]
      exact ⟨by simp, ⟨data ++ [v], rfl, by simp; omega⟩⟩

/-- sample releases only the latest gathered source item, once (list-level statement). -/
theorem C09_sample (tl : Timeline) :
    (Kind2.sample.init.runT tl).2 = mk (Spec.sampleFrom none (Spec.cutS tl).1) (Spec.cutS tl).2 :=
  sample_runT none tl

/-! ## The chain model, every event list

  World: `hot 0 → stage → probe` (`rateRun st evs`: subscribe, then the events
  `evs`).  `evs` is ANY list of `TW.Ev`: emissions of any subject, clock advances,
  `fire i` / `poll i` in any order (prompt, late, spurious, never), `run`, `unsub`,
  repeated `sub`.  No bound on its length.  `itemsEmitted evs` = the items subject 0
  emits before its first terminal.  (The proofs do not use scheduler timing: the
  invariant only needs that every task body in the scheduler is one of the
  stage's own — `Sched.Benign` — which every scheduler operation preserves.)

  The subsequence statements need no distinctness hypothesis; with distinct
  tags (`(itemsEmitted evs).Nodup`) they give "each source item at most once"
  (`…_nodup`). -/

/-- (S3) buffer_with_time (`cnt = none`) / buffer_with_count_and_time (`cnt = some c`,
    `1 ≤ c`): the concatenation of the delivered buffers is a PREFIX of the items the
    source emitted (nothing invented, duplicated, reordered or skipped) — also
    after `unsub`, so the hypothesis "no `.unsub` happened" is not needed —, every
    delivered value is a genuine non-empty buffer, and no buffer exceeds the
    count limit. -/
theorem C09_buffer_subsequence (d : Nat) (cnt : Option Nat) (hc : ∀ c, cnt = some c → 1 ≤ c)
    (evs : List TW.Ev) :
    released (rateRun (.bufTime d cnt true [] none) evs).log <+: itemsEmitted evs ∧
    (∀ b ∈ items (rateRun (.bufTime d cnt true [] none) evs).log,
        valToList b ≠ [] ∧ Val.ofList (valToList b) = b) ∧
    (∀ c, cnt = some c → ∀ b ∈ items (rateRun (.bufTime d cnt true [] none) evs).log,
        (valToList b).length ≤ c) := by
  obtain ⟨alive, data, a, T, I⟩ := buf_final d cnt hc evs
  exact ⟨prefix_left I.pre, fun b hb => ⟨(I.bufs b hb).1, (I.bufs b hb).2.1⟩,
    fun c h b hb => (I.bufs b hb).2.2 c h⟩

/-- (S3) with distinct tags no item is delivered twice (in any buffers). -/
theorem C09_buffer_nodup (d : Nat) (cnt : Option Nat) (hc : ∀ c, cnt = some c → 1 ≤ c)
    (evs : List TW.Ev) (hd : (itemsEmitted evs).Nodup) :
    (released (rateRun (.bufTime d cnt true [] none) evs).log).Nodup :=
  (C09_buffer_subsequence d cnt hc evs).1.sublist.nodup hd

/-- (S1) debounce: the items at the probe are a subsequence of the items the source
    emitted: only source items, in source order, none more often than emitted. -/
theorem C09_debounce_subsequence (d : Nat) (evs : List TW.Ev) :
    (items (rateRun (.debounce d true none none) evs).log).Sublist (itemsEmitted evs) :=
  (trail_final _ (init_debounce d) evs).1

theorem C09_debounce_nodup (d : Nat) (evs : List TW.Ev) (hd : (itemsEmitted evs).Nodup) :
    (items (rateRun (.debounce d true none none) evs).log).Nodup :=
  (C09_debounce_subsequence d evs).nodup hd

/-- (S2) throttle, every edge mode (leading, trailing, leading+trailing): the same.
    For `all` this is exactly what the fix "the item emitted on the leading edge
    is not also the trailing candidate" established. -/
theorem C09_throttle_subsequence (d : Nat) (e : Edge) (evs : List TW.Ev) :
    (items (rateRun (.throttle d e true none none) evs).log).Sublist (itemsEmitted evs) :=
  (trail_final _ (init_throttle d e) evs).1

theorem C09_throttle_nodup (d : Nat) (e : Edge) (evs : List TW.Ev) (hd : (itemsEmitted evs).Nodup) :
    (items (rateRun (.throttle d e true none none) evs).log).Nodup :=
  (C09_throttle_subsequence d e evs).nodup hd

/-- (S4) the probe log is well formed: items, at most one terminal, nothing after it. -/
theorem C09_debounce_wf (d : Nat) (evs : List TW.Ev) :
    WF (rateRun (.debounce d true none none) evs).log :=
  (trail_final _ (init_debounce d) evs).2

theorem C09_throttle_wf (d : Nat) (e : Edge) (evs : List TW.Ev) :
    WF (rateRun (.throttle d e true none none) evs).log :=
  (trail_final _ (init_throttle d e) evs).2

theorem C09_buffer_wf (d : Nat) (cnt : Option Nat) (hc : ∀ c, cnt = some c → 1 ≤ c) (evs : List TW.Ev) :
    WF (rateRun (.bufTime d cnt true [] none) evs).log := by
  obtain ⟨alive, data, a, T, I⟩ := buf_final d cnt hc evs
  exact I.wf

/-- No loss: once `complete` has reached the probe, the delivered buffers
    concatenate to the WHOLE sequence the source emitted. -/
theorem C09_buffer_complete (d : Nat) (cnt : Option Nat) (hc : ∀ c, cnt = some c → 1 ≤ c)
    (evs : List TW.Ev) (h : Notif.complete ∈ (rateRun (.bufTime d cnt true [] none) evs).log) :
    released (rateRun (.bufTime d cnt true [] none) evs).log = itemsEmitted evs := by
  obtain ⟨alive, data, a, T, I⟩ := buf_final d cnt hc evs
  exact (I.compl h).1

/-- Beyond the safety clause — debounce "always [delivers] the final one on
    completion": once `complete` is at the probe, the last item at the probe is the
    last item the source emitted (for every timing of the timers). -/
theorem C09_debounce_final (d : Nat) (evs : List TW.Ev)
    (h : Notif.complete ∈ (rateRun (.debounce d true none none) evs).log) :
    (items (rateRun (.debounce d true none none) evs).log).getLast? = (itemsEmitted evs).getLast? :=
  last_final (.debounce d true none none) rfl rfl rfl evs h

/-- The same for throttle with a trailing edge (`trailing`, `all`): the last source
    item is never lost when the source completes.  (`leading` drops it by design,
    see the `example` below.) -/
theorem C09_throttle_trailing_final (d : Nat) (e : Edge) (he : e.hasTrailing = true) (evs : List TW.Ev)
    (h : Notif.complete ∈ (rateRun (.throttle d e true none none) evs).log) :
    (items (rateRun (.throttle d e true none none) evs).log).getLast? = (itemsEmitted evs).getLast? :=
  last_final (.throttle d e true none none) rfl he rfl evs h

/-! ### Non-vacuity: concrete event lists (the model is executable) -/

/-- The formerly buggy case — throttle, leading+trailing, a lone item, the window
    expires, then completion: the item is at the probe exactly once. -/
example : (rateRun (.throttle 5 .all true none none)
      [.emit 0 (.next (.int 7)), .run, .adv 5, .run, .emit 0 .complete]).log
    = [.next (.int 7), .complete] := by decide

example : (rateRun (.throttle 5 .all true none none)
      [.emit 0 (.next (.int 1)), .emit 0 (.next (.int 2)), .run, .adv 5, .run,
       .emit 0 (.next (.int 3)), .emit 0 .complete]).log
    = [.next (.int 1), .next (.int 2), .next (.int 3), .complete] := by decide

example : (rateRun (.throttle 5 .trailing true none none)
      [.emit 0 (.next (.int 1)), .emit 0 (.next (.int 2)), .run, .adv 5, .run]).log
    = [.next (.int 2)] := by decide

example : (rateRun (.throttle 5 .leading true none none)
      [.emit 0 (.next (.int 1)), .emit 0 (.next (.int 2)), .run, .adv 5, .run,
       .emit 0 (.next (.int 3))]).log
    = [.next (.int 1), .next (.int 3)] := by decide

/-- throttle with an executor driven by hand (late fires, spurious polls). -/
example : (rateRun (.throttle 5 .all true none none)
      [.emit 0 (.next (.int 1)), .emit 0 (.next (.int 2)), .poll 0, .adv 9, .fire 0,
       .emit 0 (.next (.int 3)), .poll 0, .emit 0 (.next (.int 4)), .poll 0, .adv 5, .fire 0,
       .poll 0, .emit 0 .complete]).log
    = [.next (.int 1), .next (.int 3), .next (.int 4), .complete] := by decide

example : (rateRun (.debounce 5 true none none)
      [.emit 0 (.next (.int 1)), .run, .adv 2, .emit 0 (.next (.int 2)), .run, .adv 5, .run,
       .emit 0 (.next (.int 3)), .emit 0 .complete]).log
    = [.next (.int 2), .next (.int 3), .complete] := by decide

/-- debounce, hand-driven executor, error at the end: the pending item 3 is dropped. -/
example : (rateRun (.debounce 5 true none none)
      [.emit 0 (.next (.int 1)), .poll 0, .adv 9, .emit 0 (.next (.int 2)), .poll 1, .adv 5,
       .fire 1, .fire 0, .poll 0, .poll 0, .poll 0, .emit 0 (.next (.int 3)),
       .emit 0 (.error 4)]).log
    = [.next (.int 2), .error 4] := by decide

/-- buffer_with_count_and_time (count 2): [1,2] by count, [3] by the timer, [4] on completion;
    `complete` is in the log, the hypothesis of `C09_buffer_complete` is satisfiable. -/
example : (rateRun (.bufTime 5 (some 2) true [] none)
      [.emit 0 (.next (.int 1)), .emit 0 (.next (.int 2)), .emit 0 (.next (.int 3)), .adv 5, .run,
       .emit 0 (.next (.int 4)), .emit 0 .complete]).log
    = [.next (Val.ofList [.int 1, .int 2]), .next (Val.ofList [.int 3]),
       .next (Val.ofList [.int 4]), .complete] := by decide

/-- buffer_with_time with an `unsub`: the released buffers stay a (strict) prefix. -/
example : released (rateRun (.bufTime 5 none true [] none)
      [.emit 0 (.next (.int 1)), .emit 0 (.next (.int 2)), .adv 5, .run, .emit 0 (.next (.int 3)),
       .unsub, .emit 0 (.next (.int 4)), .adv 5, .run]).log
    = [.int 1, .int 2] := by decide

example : itemsEmitted [.emit 0 (.next (.int 1)), .emit 1 (.next (.int 9)), .adv 5, .run,
      .emit 0 (.next (.int 3)), .unsub, .emit 0 .complete, .emit 0 (.next (.int 4))]
    = [.int 1, .int 3] := by decide

/-- `leading` loses the last item of a window (documented behaviour): the hypothesis
    `hasTrailing` of `C09_throttle_trailing_final` cannot be dropped. -/
example : (rateRun (.throttle 5 .leading true none none)
      [.emit 0 (.next (.int 1)), .emit 0 (.next (.int 2)), .emit 0 .complete]).log
    = [.next (.int 1), .complete] := by decide

end Rx.T
