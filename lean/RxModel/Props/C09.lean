import RxModel.Sched.Chain
import RxModel.Lemmas.Multi
/-
  C09 — Rate-limiting operators never invent, duplicate or reorder items.
  (sample: RxModel/Props/C04.lean `C04_sample`; scheduler-using operators: the
  chain model of RxModel/Sched/Chain.lean; theorems are added as they are proved)
-/
namespace Rx.T
open Rx

/-- buffer_with_time / buffer_with_count_and_time never release an empty buffer. -/
theorem C09_flush_nonempty (data : List Val) : ∀ n ∈ flushBuf data, ∃ v, n = .next (Val.ofList data) ∧ data ≠ [] ∧ v = data := by
  intro n hn
  unfold flushBuf at hn
  split at hn
  · cases hn
  · simp at hn; subst hn
    refine ⟨data, rfl, ?_, rfl⟩
    intro h; simp_all

/-- With a count limit `c ≥ 1` a buffer is released as soon as it holds `c` items:
    what is released is non-empty and no longer than `c`, what is kept is shorter than `c`. -/
theorem C09_buffer_bounded (d c j : Nat) (alive : Bool) (data : List Val) (task : Option TaskId)
    (v : Val) (s : Sched) (hc : 1 ≤ c) (hlen : data.length < c) :
    (∀ n ∈ ((Stage.bufTime d (some c) alive data task).onNotif j (.next v) s).2.1,
        ∃ l, n = .next (Val.ofList l) ∧ l.length ≤ c ∧ l ≠ []) ∧
    (∃ data', ((Stage.bufTime d (some c) alive data task).onNotif j (.next v) s).1
        = .bufTime d (some c) alive data' task ∧ data'.length < c) := by
  cases alive
  · simp [Stage.onNotif, hlen]
  · by_cases h : c ≤ data.length + 1
    · have hne : (data ++ [v]).isEmpty = false := by simp
      simp only [Stage.onNotif, List.length_append, List.length_singleton, ge_iff_le, h, if_true,
        flushBuf, hne]
      refine ⟨?_, ⟨[], rfl, by simp; omega⟩⟩
      intro n hn
      simp at hn; subst hn
      exact ⟨data ++ [v], rfl, by simp; omega, by simp⟩
    · simp only [Stage.onNotif, List.length_append, List.length_singleton, ge_iff_le, h, if_false,
        if_true]
      exact ⟨by simp, ⟨data ++ [v], rfl, by simp; omega⟩⟩

/-- sample releases only the latest gathered source item, once (list-level statement). -/
theorem C09_sample (tl : Timeline) :
    (Kind2.sample.init.runT tl).2 = mk (Spec.sampleFrom none (Spec.cutS tl).1) (Spec.cutS tl).2 :=
  sample_runT none tl

end Rx.T
