import RxModel.Lemmas.Multi
/-
  C04 — Multi-input combinators follow the interleaving of their inputs.

  `tl : Timeline` is ANY merged sequence of the notifications of the two inputs
  (all interleavings, terminals anywhere, malformed inputs included): nothing
  below assumes well-formed inputs.  `St2` is the transcription of the Rust
  cells (RxModel/Ops/Multi.lean); the `Spec.*` functions are list-level
  definitions (RxModel/Spec/MultiSem.lean).
-/
namespace Rx
open Spec

/-- merge forwards every notification in arrival order except the completion of
    the input that finishes first; the first terminal that remains ends it. -/
theorem C04_merge (tl : Timeline) : (Kind2.merge.init.runT tl).2 = Spec.merge tl := by
  simpa [Kind2.init, Spec.merge] using merge_runT false tl

/-- merge, in the shape shared with zip/combine_latest: all items, in arrival
    order, up to the first error or the second completion, then that terminal —
    so it completes only when both inputs have. -/
theorem C04_merge_cut (tl : Timeline) :
    (Kind2.merge.init.runT tl).2 = mk ((cut2 false tl).1.map (·.2)) (cut2 false tl).2 :=
  merge_runT_cut false tl

/-- zip pairs the i-th item of one input with the i-th item of the other, in order. -/
theorem C04_zip (tl : Timeline) :
    (Kind2.zip.init.runT tl).2 =
      mk (pairUp (tagged .a (cut2 false tl).1) (tagged .b (cut2 false tl).1)) (cut2 false tl).2 := by
  simpa [Kind2.init] using zip_runT [] [] false tl (Or.inl rfl)

/-- combine_latest combines the latest values at each arrival. -/
theorem C04_combine_latest (tl : Timeline) :
    (Kind2.combine.init.runT tl).2 = mk (combineFrom none none (cut2 false tl).1) (cut2 false tl).2 :=
  combine_runT none none false tl

/-- with_latest_from pairs each source item with the latest `from` item. -/
theorem C04_with_latest_from (tl : Timeline) :
    (Kind2.withLatest.init.runT tl).2 = mk (withLatestFrom none (cutW tl).1) (cutW tl).2 :=
  withLatest_runT none tl

/-- take_until switches exactly at the notifier's first item. -/
theorem C04_take_until (tl : Timeline) :
    (Kind2.takeUntil.init.runT tl).2 = Spec.takeUntil tl := takeUntil_runT tl

/-- skip_until switches exactly at the notifier's first item (a notifier that
    completes without an item never opens the gate). -/
theorem C04_skip_until (tl : Timeline) :
    (Kind2.skipUntil.init.runT tl).2 = Spec.skipUntil tl := by
  simpa [Kind2.init, Spec.skipUntil] using skipUntil_runT true tl

/-- sample releases, at each tick, the latest item gathered since the previous tick. -/
theorem C04_sample (tl : Timeline) :
    (Kind2.sample.init.runT tl).2 = mk (sampleFrom none (cutS tl).1) (cutS tl).2 :=
  sample_runT none tl

/-- buffer(notifier) follows the timeline definition … -/
theorem C04_buffer (tl : Timeline) : (Kind2.buffer.init.runT tl).2 = bufferFrom [] tl :=
  buffer_runT [] tl

/-- … releases no empty buffer … -/
theorem C04_buffer_no_empty (tl : Timeline) :
    ∀ b ∈ items (Kind2.buffer.init.runT tl).2, valToList b ≠ [] := by
  rw [C04_buffer]; exact buffer_no_empty [] tl

/-- … releases only source items, each at most once, in order (the concatenation
    of the buffers is a prefix of what was gathered) … -/
theorem C04_buffer_no_dup (tl : Timeline) :
    ∃ rest, gathered tl = released (Kind2.buffer.init.runT tl).2 ++ rest := by
  rw [C04_buffer]; simpa using buffer_released_prefix [] tl

/-- … and loses nothing when the stream completes. -/
theorem C04_buffer_no_loss (tl : Timeline) (hc : firstTerminal tl = some .complete) :
    released (Kind2.buffer.init.runT tl).2 = gathered tl := by
  rw [C04_buffer]; simpa using buffer_released_all [] tl hc

/-- Whatever the interleaving — and even for malformed inputs — the output has at
    most one terminal and nothing after it. -/
theorem C04_one_terminal (k : Kind2) (tl : Timeline) : WF (k.init.runT tl).2 :=
  runT_wf _ tl

/-- An error on either input of merge (same shape for zip / combine_latest via
    `cut2`, with_latest_from via `cutW`, sample via `cutS`, buffer via `bufferFrom`)
    terminates the output with that error, exactly once. -/
theorem C04_error_once_merge (tl : Timeline) (e : Err) (h : (cut2 false tl).2 = some (.error e)) :
    (Kind2.merge.init.runT tl).2 = (cut2 false tl).1.map (fun p => .next p.2) ++ [.error e] := by
  rw [C04_merge_cut, h]; simp [mk]

/-! Non-vacuity -/
example : (Kind2.zip.init.runT
    [(.a, .next (.int 1)), (.b, .next (.int 7)), (.a, .complete), (.b, .next (.int 8)),
     (.a, .next (.int 2)), (.b, .complete)]).2 =
      [.next (.pair (.int 1) (.int 7)), .next (.pair (.int 2) (.int 8)), .complete] := by
  decide
example : (Kind2.skipUntil.init.runT
    [(.a, .next (.int 1)), (.b, .complete), (.a, .next (.int 2)), (.a, .complete)]).2 = [.complete] := by
  decide
example : firstTerminal [(.a, .next (.int 1)), (.b, .next .unit), (.a, .complete)] = some .complete := by
  decide

end Rx
