import RxModel.Lemmas.ChainSubMain
/-
  C09 over whole chains — rate-limiting operators never invent, duplicate or
  reorder items, wherever they sit in a pipeline.

  Props/C09.lean proves the subsequence property for ONE rate-limiting stage
  directly over a hot subject.  Here the world is `hot 0 → stages → probe`
  (`chainRun stages evs`: subscribe, then the events `evs`) for a LIST of stages:
  any number of debounce / throttle (every edge mode) stages and of *filtering*
  single-input operators (`Op1.filtering`: filter, tap, on_error_map, take,
  take_while, skip, skip_while, take_last, skip_last, last, distinct,
  distinct_key, distinct_until_changed, distinct_until_key_changed) in any order,
  optionally with one buffer_with_time / buffer_with_count_and_time stage among them.
  `evs` is ANY list of `TW.Ev`: emissions of any subject (post-terminal ones
  included), clock advances, `fire i` / `poll i` of any timer / task in any order
  (prompt, late, spurious, never), `run`, `unsub`, repeated `sub`; no bound on its
  length.  `itemsEmitted evs` = the items subject 0 emits before its first terminal.

  Proof (Lemmas/ChainSub*.lean): ghost histories, as for C01C.  `Chain9 up stages
  log`: every stage has so far processed a sublist `inp` of what its upstream
  emitted (the cascade may drop notifications when its fuel runs out — nothing is
  assumed about the fuel) and `Stage.Sub9 st inp out`: the items it emitted,
  followed by what it still holds (operator buffer / trailing value / time
  buffer), are a sublist of the items it received.  One notification at a stage,
  the cascade (every fuel value), every benign task body, `unsubscribe` and
  `actual_subscribe` keep it; only "all task bodies are benign" is needed from
  the scheduler, which every scheduler operation preserves.
-/
namespace Rx.T
open Rx Rx.Spec

/-! ## The filtering class -/

/-- One notification at an observer of the class, in ANY state and for ANY
    notification (no well-formedness of the input): the class is closed, and what is
    emitted followed by what is held afterwards is a sublist of what was held
    followed by the item that arrived. -/
theorem C09C_filtering_step (st : St1) (n : Notif) (h : st.filtering = true) :
    (st.step n).1.filtering = true ∧
      (items (st.step n).2 ++ (st.step n).1.held).Sublist (st.held ++ items [n]) :=
  St1.step_filtering st n h

/-- A filtering operator emits a subsequence of the items it receives (any input,
    well formed or not). -/
theorem C09C_filtering_sublist (op : Op1) (h : op.filtering = true) (inp : List Notif) :
    (items (St1.run op.init inp).2).Sublist (items inp) :=
  filtering_run_sublist op h inp

/-- … and so does a synchronous chain of them. -/
theorem C09C_filtering_chain_sublist (ops : List Op1) (h : ∀ op ∈ ops, op.filtering = true)
    (inp : List Notif) : (items (runChain (ops.map Op1.init) inp).2).Sublist (items inp) := by
  refine filtering_runChain_sublist _ (fun st hst => ?_) inp
  obtain ⟨op, hop, rfl⟩ := List.mem_map.mp hst
  exact ⟨by rw [op.init_filtering]; exact h op hop, op.init_held⟩

/-! ## Chains of debounce / throttle / filtering stages -/

/-- (S1, S2 over chains) EVERY list of stages each of which is a fresh debounce, a fresh
    throttle (any edge) or a fresh filtering operator — any number of them, in any
    order —, EVERY event list: the items at the probe are a subsequence of the items the
    source emitted. -/
theorem C09C_rate_subsequence (stages : List Stage) (hs : ∀ st ∈ stages, st.RateInit)
    (evs : List TW.Ev) :
    (items (chainRun stages evs).log).Sublist (itemsEmitted evs) :=
  rate_final stages (fun st h => (hs st h).start9) (fun st h => (hs st h).notBuf) evs

/-- With distinct tags no item reaches the probe twice. -/
theorem C09C_rate_nodup (stages : List Stage) (hs : ∀ st ∈ stages, st.RateInit)
    (evs : List TW.Ev) (hd : (itemsEmitted evs).Nodup) :
    (items (chainRun stages evs).log).Nodup :=
  (C09C_rate_subsequence stages hs evs).nodup hd

/-- (S4) The probe log is well formed (from `C01C_chain_grammar`'s invariant). -/
theorem C09C_rate_wf (stages : List Stage) (hs : ∀ st ∈ stages, st.RateInit) (evs : List TW.Ev) :
    WF (chainRun stages evs).log :=
  chainRun_wf stages (fun st h => (hs st h).initial) evs

/-- Stronger: the stages may start in ANY state that has nothing buffered (slot already
    empty, stale task handles, `take` half-way through its count, …); a throttle may even
    be caught between its leading emission and the scheduling of its window. -/
theorem C09C_rate_subsequence_any_state (stages : List Stage) (hs : ∀ st ∈ stages, st.Start9)
    (hb : ∀ st ∈ stages, st.isBuf = false) (evs : List TW.Ev) :
    (items (chainRun stages evs).log).Sublist (itemsEmitted evs) :=
  rate_final stages hs hb evs

/-! ## … with one buffer_with_time / buffer_with_count_and_time stage -/

/-- (S3 over chains) stages `A ++ [buffer] ++ B`, `A` and `B` as above: the concatenation
    of the buffers at the probe is a subsequence of the items the source emitted. -/
theorem C09C_buffer_subsequence (A B : List Stage) (d : Nat) (cnt : Option Nat)
    (hA : ∀ st ∈ A, st.RateInit) (hB : ∀ st ∈ B, st.RateInit) (evs : List TW.Ev) :
    (released (chainRun (A ++ [.bufTime d cnt true [] none] ++ B) evs).log).Sublist
      (itemsEmitted evs) := by
  rw [List.append_assoc, List.singleton_append]
  exact buf_final9 A B _ (fun st h => (hA st h).start9) (bufInit_bufTime d cnt).start9
    (fun st h => (hB st h).start9) (fun st h => (hA st h).notBuf) rfl
    (fun st h => (hB st h).notBuf) evs

theorem C09C_buffer_nodup (A B : List Stage) (d : Nat) (cnt : Option Nat)
    (hA : ∀ st ∈ A, st.RateInit) (hB : ∀ st ∈ B, st.RateInit) (evs : List TW.Ev)
    (hd : (itemsEmitted evs).Nodup) :
    (released (chainRun (A ++ [.bufTime d cnt true [] none] ++ B) evs).log).Nodup :=
  (C09C_buffer_subsequence A B d cnt hA hB evs).nodup hd

theorem C09C_buffer_wf (A B : List Stage) (d : Nat) (cnt : Option Nat)
    (hA : ∀ st ∈ A, st.RateInit) (hB : ∀ st ∈ B, st.RateInit) (evs : List TW.Ev) :
    WF (chainRun (A ++ [.bufTime d cnt true [] none] ++ B) evs).log := by
  rw [List.append_assoc, List.singleton_append]
  exact chainRun_wf _ (forall_mem_append3 (fun st h => (hA st h).initial) (bufInit_bufTime d cnt).initial
    (fun st h => (hB st h).initial)) evs

/-! ## Readable corollaries: `pre → rate limiter → post` -/

/-- `source.pre….debounce(d).post…` with filtering `pre` / `post`. -/
theorem C09C_debounce_subsequence (pre post : List Op1) (h : ∀ op ∈ pre ++ post, op.filtering = true)
    (d : Nat) (evs : List TW.Ev) :
    (items (chainRun (pre.map (Stage.op1 ∘ Op1.init) ++ [.debounce d true none none] ++
      post.map (Stage.op1 ∘ Op1.init)) evs).log).Sublist (itemsEmitted evs) := by
  rw [List.append_assoc, List.singleton_append]
  exact C09C_rate_subsequence _
    (forall_mem_append3 (rateInit_ops pre (fun op ho => h op (by simp [ho]))) (rateInit_debounce d)
      (rateInit_ops post (fun op ho => h op (by simp [ho])))) evs

/-- `source.pre….throttle(d, edge).post…`, every edge mode. -/
theorem C09C_throttle_subsequence (pre post : List Op1) (h : ∀ op ∈ pre ++ post, op.filtering = true)
    (d : Nat) (e : Edge) (evs : List TW.Ev) :
    (items (chainRun (pre.map (Stage.op1 ∘ Op1.init) ++ [.throttle d e true none none] ++
      post.map (Stage.op1 ∘ Op1.init)) evs).log).Sublist (itemsEmitted evs) := by
  rw [List.append_assoc, List.singleton_append]
  exact C09C_rate_subsequence _
    (forall_mem_append3 (rateInit_ops pre (fun op ho => h op (by simp [ho]))) (rateInit_throttle d e)
      (rateInit_ops post (fun op ho => h op (by simp [ho])))) evs

/-- `source.pre….buffer_with_time(d) / buffer_with_count_and_time(c, d).post…`: `post`
    filters whole buffers. -/
theorem C09C_bufTime_subsequence (pre post : List Op1) (h : ∀ op ∈ pre ++ post, op.filtering = true)
    (d : Nat) (cnt : Option Nat) (evs : List TW.Ev) :
    (released (chainRun (pre.map (Stage.op1 ∘ Op1.init) ++ [.bufTime d cnt true [] none] ++
      post.map (Stage.op1 ∘ Op1.init)) evs).log).Sublist (itemsEmitted evs) :=
  C09C_buffer_subsequence _ _ d cnt (rateInit_ops pre (fun op ho => h op (by simp [ho])))
    (rateInit_ops post (fun op ho => h op (by simp [ho]))) evs

/-- Two rate limiters in a row. -/
theorem C09C_throttle_debounce_subsequence (d1 d2 : Nat) (e : Edge) (evs : List TW.Ev) :
    (items (chainRun [.throttle d1 e true none none, .debounce d2 true none none] evs).log).Sublist
      (itemsEmitted evs) :=
  C09C_rate_subsequence _ (by
    intro st hst
    simp only [List.mem_cons, List.not_mem_nil, or_false] at hst
    rcases hst with rfl | rfl
    · exact rateInit_throttle d1 e
    · exact rateInit_debounce d2) evs

/-! ### Non-vacuity: concrete chains and event lists (the model is executable) -/

/-- filter(even) → debounce 5 → take 2, executor driven by hand (late fire, spurious
    polls): 2 after the quiet period, 4 superseded by 6, 6 superseded by 8, 8 flushed by the
    completion, `take 2` completes. -/
example : (chainRun [.op1 (Op1.init (.filter (fun v => match v with | .int i => i % 2 == 0 | _ => false))),
      .debounce 5 true none none, .op1 (Op1.init (.take 2))]
    [.emit 0 (.next (.int 1)), .emit 0 (.next (.int 2)), .run, .adv 5, .run,
     .emit 0 (.next (.int 4)), .emit 0 (.next (.int 6)), .poll 0, .adv 9, .fire 0, .poll 1, .poll 1,
     .emit 0 (.next (.int 8)), .emit 0 .complete]).log
    = [.next (.int 2), .next (.int 8), .complete] := by decide

example : ∀ op ∈ [Op1.filter (fun v => match v with | .int i => i % 2 == 0 | _ => false)] ++ [Op1.take 2],
    op.filtering = true := by
  intro op h
  simp only [List.cons_append, List.nil_append, List.mem_cons, List.not_mem_nil, or_false] at h
  rcases h with rfl | rfl <;> rfl

/-- The hypothesis of `C09C_rate_subsequence` on that chain. -/
example : ∀ st ∈ [Stage.op1 (Op1.init (.filter (fun v => match v with | .int i => i % 2 == 0 | _ => false))),
    .debounce 5 true none none, .op1 (Op1.init (.take 2))], st.RateInit := by
  intro st h
  simp only [List.mem_cons, List.not_mem_nil, or_false] at h
  rcases h with rfl | rfl | rfl
  · exact ⟨.filter _, rfl, rfl⟩
  · exact rateInit_debounce 5
  · exact ⟨.take 2, rfl, rfl⟩

/-- throttle(5, leading+trailing) → debounce 3, with an `unsub`: item 3 is lost, nothing is
    invented or duplicated. -/
example : (chainRun [.throttle 5 .all true none none, .debounce 3 true none none]
    [.emit 0 (.next (.int 1)), .emit 0 (.next (.int 2)), .run, .adv 3, .run, .adv 2, .run, .adv 3, .run,
     .emit 0 (.next (.int 3)), .unsub, .emit 0 (.next (.int 4)), .adv 10, .run]).log
    = [.next (.int 1), .next (.int 2)] := by decide

/-- skip 1 → buffer_with_count_and_time(2, 5) → take 2: [2,3] by count, [4] by the timer
    (fired and polled by hand), then `take 2` completes. -/
example : (chainRun [.op1 (Op1.init (.skip 1)), .bufTime 5 (some 2) true [] none, .op1 (Op1.init (.take 2))]
    [.emit 0 (.next (.int 1)), .emit 0 (.next (.int 2)), .emit 0 (.next (.int 3)), .emit 0 (.next (.int 4)),
     .adv 5, .fire 0, .poll 0, .emit 0 (.next (.int 5)), .emit 0 (.next (.int 6)), .emit 0 .complete]).log
    = [.next (Val.ofList [.int 2, .int 3]), .next (Val.ofList [.int 4]), .complete] := by decide

/-- take_last 2 → throttle(5, trailing) → distinct_until_changed; another subject's
    emission is ignored. -/
example : (chainRun [.op1 (Op1.init (.takeLast 2)), .throttle 5 .trailing true none none,
      .op1 (Op1.init .distinctUntilChanged)]
    [.emit 0 (.next (.int 1)), .emit 0 (.next (.int 2)), .emit 0 (.next (.int 2)), .emit 1 (.next (.int 9)),
     .emit 0 .complete, .run, .adv 5, .run]).log
    = [.next (.int 2), .complete] := by decide

/-- skip 1 → buffer_with_time 5 → take_last 1 (the last BUFFER), spurious `poll` / `fire`. -/
example : released (chainRun [.op1 (Op1.init (.skip 1)), .bufTime 5 none true [] none,
      .op1 (Op1.init (.takeLast 1))]
    [.emit 0 (.next (.int 1)), .emit 0 (.next (.int 2)), .emit 0 (.next (.int 3)), .adv 5, .run,
     .emit 0 (.next (.int 4)), .poll 7, .fire 3, .emit 0 (.next (.int 5)), .adv 5, .run,
     .emit 0 (.next (.int 6)), .emit 0 .complete]).log
    = [.int 6] := by decide

/-- The class cannot be enlarged by `map`: it invents items. -/
example : ¬ (items (St1.run (Op1.init (.map (fun _ => .int 7))) [.next (.int 1)]).2).Sublist
    (items [.next (.int 1)]) := by decide

end Rx.T
