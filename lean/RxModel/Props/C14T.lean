import RxModel.Conc.StatusLts
/-
  C14 (schedules clause) — "Whenever the source has terminated, … `wait_for_end`
  become ready rather than staying pending forever, under every interleaving of
  the producing and the waiting side."  FALSE for `complete_status` as written
  (check-then-register), TRUE for register-then-recheck.

  Model: RxModel/Conc/StatusLts.lean.
-/
namespace Rx
open Conc

/-- For a given poll body of the waiter: in every interleaving of the producer's
    terminal with one poll, once both have returned the waiter is Ready or has
    been woken with the flag set (hence Ready at its next poll). -/
def C14_NoLostWakeup (waiter : List Act) : Prop :=
  ∀ (ts : List Tid) (s' : DState Status.D),
    DRun Status.sem ⟨mkState [Status.producer, waiter], Status.d0⟩ ts s' →
    (∀ t, s'.l.prog t = []) →
    s'.d.res = some true ∨ (s'.d.woken = true ∧ s'.d.flag = true)

/-- **Lost wakeup in the code as written.**  Schedule: the waiter reads the flag
    (0), the producer delivers, stores the flag and calls `wake()` — nobody is
    registered, nothing happens — then the waiter registers and returns
    `Pending`.  Nobody will ever wake it: `wait_for_end` hangs although the
    source has terminated. -/
theorem C14_lost_wakeup_counterexample : ¬ C14_NoLostWakeup Status.waiterAsWritten := by
  intro h
  have hx : dexec Status.sem (mkState [Status.producer, Status.waiterAsWritten]) Status.d0
      [1, 0, 0, 0, 1] =
      some ((dexec Status.sem (mkState [Status.producer, Status.waiterAsWritten]) Status.d0
        [1, 0, 0, 0, 1]).getD (mkState [], Status.d0)) := rfl
  have hr := dexec_sound hx
  have hsup := hr.support (mkState_support [Status.producer, Status.waiterAsWritten])
  have hdone : done? 2 ((dexec Status.sem (mkState [Status.producer, Status.waiterAsWritten])
      Status.d0 [1, 0, 0, 0, 1]).getD (mkState [], Status.d0)).1 = true := by decide
  have := h _ _ hr ((done?_iff hsup).1 hdone)
  revert this
  decide

/-- The witness end state: flag set, a waker registered and never woken, poll
    result Pending. -/
example : (dexec Status.sem (mkState [Status.producer, Status.waiterAsWritten]) Status.d0
    [1, 0, 0, 0, 1]).map (·.2) = some ⟨true, true, false, false, some false⟩ := by decide

/-- **No lost wakeup with the repaired order** (register, then re-check the
    flag): for every schedule. -/
theorem C14_no_lost_wakeup_fixed : C14_NoLostWakeup Status.waiterFixed := by
  intro ts s' r hd
  have h := all_schedules (progs := [Status.producer, Status.waiterFixed]) (P := Status.Good) 5
    (by decide) Status.visitedFixed r
  exact h ((done?_iff (r.support (mkState_support _))).2 hd)

/-- Non-vacuity of the fixed statement: both outcomes occur — Ready directly … -/
example : (dexec Status.sem (mkState [Status.producer, Status.waiterFixed]) Status.d0
    [0, 0, 0, 1, 1]).map (·.2.res) = some (some true) := by decide
/-- … and Pending-then-woken. -/
example : (dexec Status.sem (mkState [Status.producer, Status.waiterFixed]) Status.d0
    [1, 1, 0, 0, 0]).map (fun x => (x.2.res, x.2.woken, x.2.flag)) =
    some (some false, true, true) := by decide

end Rx
