import RxModel.Conv.ConvLemmas
/-
  C14 — Conversions and completion status report the real outcome and never hang
  (sequential part; the waiter/producer race of `complete_status` is the LTS part).

  Property theorems only.  Models: RxModel/Conv/Convert.lean (`Code.*` = /repo as it
  is, `Fixed.*` = repaired code); reference semantics written from the docs:
  RxModel/Conv/ConvSpec.lean; helper lemmas: RxModel/Conv/ConvLemmas.lean.

  Every theorem quantifies over ALL event lists `es : List Ev`: any source script
  (items, terminal or none, post-terminal calls) with polls and flag queries placed
  anywhere before, between and after the source events.

  The code as it is violates the property in two places (DESIGN §7 findings 2, 3):
  `to_future` (also behind `collect`) never resolves after a source error, `to_stream`
  stays Pending after yielding the error.  For those the full statement is kept as a
  `def … : Prop`, refuted for `Code` by a concrete witness, proved for `Fixed`, and a
  `_partial` theorem states what the code does satisfy.
-/
namespace Rx.Conv
open Ref

/-! ## Full-strength statements, parametrised by the transcription -/

/-- to_future: on every event list the polls answer exactly as the reference does —
    Pending until the source has terminated, then Ready (once) with the documented result
    `futureResult items terminal`. -/
def FutureSpec (m : Model) : Prop :=
  ∀ es : List Ev, (FutW.run m {} es).2.map fobs = (futRun futureResult {} es).2.map fobs

/-- collect + to_future: Ready with all items as one collection, or with the error. -/
def CollectSpec (m : Model) : Prop :=
  ∀ es : List Ev, (CFW.run m {} es).2.map fobs = (futRun collectResult {} es).2.map fobs

/-- to_stream: every item and the error in order, then `None`; Pending only while nothing is due. -/
def StreamSpec (m : Model) : Prop :=
  ∀ es : List Ev, (StrW.run m {} es).2.map sobs = (strRun m {} es).2.map sobs

/-- Liveness: once the source has terminated, a poll of a future that has not resolved yet is
    Ready, and a poll of a stream that has not ended yet yields. -/
def ReadyWhenTerminated (m : Model) : Prop :=
  ∀ es : List Ev, (hist {} es).term.isSome = true →
    ((∀ r, FOut.ready r ∉ (FutW.run m {} es).2) →
        ∃ r, (FutW.step m (FutW.run m {} es).1 .poll).2 = .ready r) ∧
    ((∀ r, FOut.ready r ∉ (CFW.run m {} es).2) →
        ∃ r, (CFW.step m (CFW.run m {} es).1 .poll).2 = .ready r) ∧
    (SOut.yield none ∉ (StrW.run m {} es).2 →
        ∃ x, (StrW.step m (StrW.run m {} es).1 .poll).2 = .yield x)

/-! ## The repaired code: full strength -/

theorem C14_future : FutureSpec .fixed :=
  fun es => (fut_sim .fixed es (fun e _ => okEv_fixed e)).2

theorem C14_collect : CollectSpec .fixed :=
  fun es => (cf_sim .fixed es (fun e _ => okEv_fixed e)).2

theorem C14_stream : StreamSpec .fixed :=
  fun es => (str_sim .fixed es (fun e _ => okEv_fixed e)).2

theorem C14_ready_when_terminated : ReadyWhenTerminated .fixed := by
  intro es ht
  have hok : ∀ e ∈ es, okEv .fixed e := fun e _ => okEv_fixed e
  refine ⟨fun hn => ?_, fun hn => ?_, fun hn => str_ready .fixed es hok ht hn⟩
  · obtain ⟨t, _, h⟩ := fut_ready .fixed es hok ht hn; exact ⟨_, h⟩
  · obtain ⟨t, _, h⟩ := cf_ready .fixed es hok ht hn; exact ⟨_, h⟩

/-- … and the value a future resolves with is the documented one. -/
theorem C14_future_result (es : List Ev) (t : Notif) (ht : (hist {} es).term = some t)
    (hn : ∀ r, FOut.ready r ∉ (FutW.run .fixed {} es).2) :
    (FutW.step .fixed (FutW.run .fixed {} es).1 .poll).2 =
      .ready (futureResult (hist {} es).items t) := by
  obtain ⟨t', ht', h⟩ := fut_ready .fixed es (fun e _ => okEv_fixed e) (by simp [ht]) hn
  rw [ht] at ht'; cases ht'; exact h

/-- complete_status (code as it is = repaired code): the downstream sees the source unchanged,
    `StatusFuture::poll` is Ready exactly when the source has terminated, and the flag queries
    answer from the terminal. -/
theorem C14_status_flag (es : List Ev) :
    (StatW.run {} es).2 = (statRun {} es).2 ∧
      (StatW.run {} es).1.flag = statFlag (hist {} es).term := by
  obtain ⟨hR, hO⟩ := stat_sim es
  refine ⟨hO, ?_⟩
  rw [← statRun_hist es {}]
  exact hR.2.2.2

/-- Readiness for complete_status: after the source's terminal the waiter's poll is Ready,
    before it Pending. -/
theorem C14_status_ready (es : List Ev) :
    (StatW.step (StatW.run {} es).1 .poll).2 =
      (if (hist {} es).term.isSome then .ready else .pending) := by
  obtain ⟨hR, _⟩ := stat_sim es
  have h := (stat_step _ _ .poll hR).2
  rw [h, statRun_hist]
  simp [statStep]

/-! ## The code as it is: counterexamples and what does hold -/

/-- Finding 3: after a source error `to_future` never resolves. -/
theorem C14_future_code_counterexample : ¬ FutureSpec .code := by
  intro h
  exact absurd (h [.emit (.error 3), .poll]) (by decide)

theorem C14_collect_code_counterexample : ¬ CollectSpec .code := by
  intro h
  exact absurd (h [.emit (.error 3), .poll]) (by decide)

/-- Finding 2 shows as a liveness failure (below); the per-poll answers of the code agree with
    the reference except for that last `None`. -/
theorem C14_stream_code_counterexample : ¬ StreamSpec .code := by
  intro h
  exact absurd (h [.emit (.error 3), .poll, .poll]) (by decide)

/-- Findings 2 and 3 as liveness failures: source terminated, nothing handed out, yet Pending. -/
theorem C14_ready_when_terminated_code_counterexample : ¬ ReadyWhenTerminated .code := by
  intro h
  have hrun : (FutW.run .code {} [.emit (.error 3)]).2 = [.woke 0] := by decide
  have hpoll : (FutW.step .code (FutW.run .code {} [.emit (.error 3)]).1 .poll).2 = .pending := by
    decide
  obtain ⟨r, hr⟩ := (h [.emit (.error 3)] (by decide)).1 (by intro r; rw [hrun]; simp)
  rw [hpoll] at hr
  cases hr

theorem C14_stream_hangs_after_error :
    (StrW.run .code {} [.emit (.error 3), .poll, .poll, .poll]).2 =
      [.woke 0, .yield (some (.err 3)), .pending, .pending] := by decide

/-- What the code as it is does satisfy: everything, as long as the source does not fail. -/
theorem C14_future_partial (es : List Ev) (h : NoErrorEmit es) :
    (FutW.run .code {} es).2.map fobs = (futRun futureResult {} es).2.map fobs :=
  (fut_sim .code es (okEv_code_of_noError h)).2

theorem C14_collect_partial (es : List Ev) (h : NoErrorEmit es) :
    (CFW.run .code {} es).2.map fobs = (futRun collectResult {} es).2.map fobs :=
  (cf_sim .code es (okEv_code_of_noError h)).2

theorem C14_stream_partial (es : List Ev) (h : NoErrorEmit es) :
    (StrW.run .code {} es).2.map sobs = (strRun .code {} es).2.map sobs :=
  (str_sim .code es (okEv_code_of_noError h)).2

theorem C14_ready_when_terminated_partial (es : List Ev) (h : NoErrorEmit es)
    (ht : (hist {} es).term.isSome = true) :
    ((∀ r, FOut.ready r ∉ (FutW.run .code {} es).2) →
        ∃ r, (FutW.step .code (FutW.run .code {} es).1 .poll).2 = .ready r) ∧
    ((∀ r, FOut.ready r ∉ (CFW.run .code {} es).2) →
        ∃ r, (CFW.step .code (CFW.run .code {} es).1 .poll).2 = .ready r) ∧
    (SOut.yield none ∉ (StrW.run .code {} es).2 →
        ∃ x, (StrW.step .code (StrW.run .code {} es).1 .poll).2 = .yield x) := by
  have hok := okEv_code_of_noError h
  refine ⟨fun hn => ?_, fun hn => ?_, fun hn => str_ready .code es hok ht hn⟩
  · obtain ⟨t, _, h⟩ := fut_ready .code es hok ht hn; exact ⟨_, h⟩
  · obtain ⟨t, _, h⟩ := cf_ready .code es hok ht hn; exact ⟨_, h⟩

/-! ## Non-vacuity: concrete instances of the hypotheses and of the statements -/
example : (hist {} [.poll, .emit (.next (.int 5)), .poll, .emit .complete]).term = some .complete := by
  decide
example : (FutW.run .fixed {} [.poll, .emit (.next (.int 5)), .poll, .emit .complete, .poll]).2 =
    [.pending, .woke 0, .pending, .woke 1, .ready (.ok (.int 5))] := by decide
example : (FutW.run .fixed {} [.emit (.error 3), .poll]).2 = [.woke 0, .ready (.err 3)] := by decide
example : (FutW.run .code {} [.emit (.error 3), .poll]).2 = [.woke 0, .pending] := by decide
example : (StrW.run .fixed {} [.emit (.next (.int 1)), .emit (.error 3), .poll, .poll, .poll]).2 =
    [.woke 0, .woke 0, .yield (some (.ok (.int 1))), .yield (some (.err 3)), .yield none] := by decide
example : (CFW.run .fixed {} [.emit (.next (.int 1)), .emit (.next (.int 2)), .emit .complete, .poll]).2 =
    [.woke 0, .woke 0, .woke 0, .ready (.ok (Val.ofList [.int 1, .int 2]))] := by decide
example : NoErrorEmit [.emit (.next (.int 1)), .poll, .emit .complete] := by
  intro x hx; simp at hx

end Rx.Conv
