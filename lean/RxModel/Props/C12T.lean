import RxModel.Conc.BehaviorLts
/-
  C12 (threads clause) — "Over the thread-safe subject with concurrent producers,
  the most recent value is the one delivered last in the common order that all
  subscribers observe."  FALSE for the code as it is: the store into the value
  cell and the broadcast are two critical sections.

  Model: RxModel/Conc/BehaviorLts.lean.
-/
namespace Rx
open Conc

/-- The clause, for two producer threads emitting 1 and 2: whenever both `next`
    calls have returned, the stored value (what a late subscriber / `peek()`
    gets) is the value delivered last in the common order. -/
def C12_threads_clause : Prop :=
  ∀ (init : Nat) (ts : List Tid) (s' : DState Behavior.D),
    DRun Behavior.sem ⟨mkState Behavior.progs2, Behavior.d0 init⟩ ts s' →
    (∀ t, s'.l.prog t = []) → s'.d.log.getLast? = some s'.d.value

/-- **Counterexample** (4 critical sections: store₁, store₂, broadcast₂,
    broadcast₁): the stored value is 2, the value delivered last is 1. -/
theorem C12_race_counterexample : ¬ C12_threads_clause := by
  intro h
  have hx : dexec Behavior.sem (mkState Behavior.progs2) (Behavior.d0 0)
      [0, 0, 0, 1, 1, 1, 1, 1, 1, 0, 0, 0] =
      some ((dexec Behavior.sem (mkState Behavior.progs2) (Behavior.d0 0)
        [0, 0, 0, 1, 1, 1, 1, 1, 1, 0, 0, 0]).getD (mkState [], Behavior.d0 0)) := rfl
  have hr := dexec_sound hx
  have hsup := hr.support (mkState_support Behavior.progs2)
  have hdone : done? 2 ((dexec Behavior.sem (mkState Behavior.progs2) (Behavior.d0 0)
        [0, 0, 0, 1, 1, 1, 1, 1, 1, 0, 0, 0]).getD (mkState [], Behavior.d0 0)).1 = true := by
    decide
  have := h 0 _ _ hr ((done?_iff hsup).1 hdone)
  revert this
  decide

/-- The witness state, spelled out: value 2, deliveries [2, 1]. -/
example : (dexec Behavior.sem (mkState Behavior.progs2) (Behavior.d0 0)
    [0, 0, 0, 1, 1, 1, 1, 1, 1, 0, 0, 0]).map (·.2) = some ⟨2, [2, 1]⟩ := by decide

/-- **What does hold**: with a single producer thread — any script of `next`s, of
    any length, under any schedule — when the script has returned, the deliveries
    are exactly the script in order and the stored value is the last one
    delivered (the initial value if nothing was emitted). -/
theorem C12_threads_partial (init : Nat) (xs : List Nat) {ts : List Tid}
    {s' : DState Behavior.D}
    (r : DRun Behavior.sem ⟨mkState [xs.flatMap Behavior.next], Behavior.d0 init⟩ ts s')
    (hd : ∀ t, s'.l.prog t = []) :
    s'.d.log = xs ∧ s'.d.value = (xs.getLast?).getD init := by
  have ho : ∀ t, t ≠ 0 → (mkState [xs.flatMap Behavior.next]).prog t = [] := by
    intro t ht
    cases t with
    | zero => exact (ht rfl).elim
    | succ t => simp [mkState]
  have := single_thread_run (t0 := 0) ho r (hd 0)
  have e : (mkState [xs.flatMap Behavior.next]).prog 0 = xs.flatMap Behavior.next := rfl
  simp only [e] at this
  rw [Behavior.fold_script] at this
  rw [this]
  simp [Behavior.d0]

/-- In particular the clause holds for one producer. -/
theorem C12_threads_single_producer (init : Nat) (xs : List Nat) (hne : xs ≠ []) {ts : List Tid}
    {s' : DState Behavior.D}
    (r : DRun Behavior.sem ⟨mkState [xs.flatMap Behavior.next], Behavior.d0 init⟩ ts s')
    (hd : ∀ t, s'.l.prog t = []) : s'.d.log.getLast? = some s'.d.value := by
  obtain ⟨h1, h2⟩ := C12_threads_partial init xs r hd
  rw [h1, h2]
  cases h : xs.getLast? with
  | none => exact (hne (List.getLast?_eq_none_iff.1 h)).elim
  | some v => rfl

/-- The two-producer programs are ranked: the race is not a deadlock, every
    schedule completes. -/
theorem C12_threads_ranked : ∀ p ∈ Behavior.progs2, Ranked [] p := by decide

end Rx
