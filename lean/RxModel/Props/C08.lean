import RxModel.Sched.Chain
import RxModel.Lemmas.Async
import RxModel.Lemmas.ChainSourcesMain
import RxModel.Lemmas.ChainSourcesPromptIv
import RxModel.Lemmas.ChainSourcesPromptTm
/-
  C08 — Time and async sources emit exactly what and when they promise.

  Model: the world `TW` of suite `time` (RxModel/Sched/Chain.lean, checked against
  the real crate on every run) with NO operator between the source and the probe
  (`TW.start src`, i.e. `stages := []`): every tick / item goes straight to the
  probe log `TW.log`.  `TW.run w evs = evs.foldl TW.step w`, `TW.clock w` is the
  virtual clock, `TW.ticks m = [next 0, …, next (m-1)]`.

  The event lists are ARBITRARY lists of `TW.Ev`: `sub`, `unsub`, `adv k` (the
  clock jumps by any amount), `fire i` (the executor fires the i-th due timer),
  `poll i` (it polls the i-th live task, woken or not), `run` (the prompt FIFO
  loop), and even `emit` (ignored by these sources): every order in which the
  executor fires due timers and polls tasks, every way the clock advances.

  `t_sub` is the clock value at the first `sub`: the event list is written
  `pre ++ sub :: post` with no `sub` in `pre`, and `t_sub = clock (run w pre)`.
  For `interval delay p`: `delay = none` is `interval(p)` (first tick one period
  after subscription), `delay = some a` is `interval_at` (first tick `a` after
  subscription); `first = delay.getD p`.
-/
namespace Rx.T
open Rx TW

/-- The interval source numbers its ticks with the RepeatTask sequence counter:
    a tick that continues bumps it by exactly one. -/
theorem C08_tick_seq (s : Sched) (k : TaskId) (t : Task) (fur iv seq : Nat)
    (h : s.tasks[k]? = some t) (hr : t.rep = some (fur, iv, seq)) :
    ∃ t' fur', (s.continueRepeat k).tasks[k]? = some t' ∧ t'.rep = some (fur', iv, seq + 1) := by
  have hk : k < s.tasks.length := by
    rcases List.getElem?_eq_some_iff.mp h with ⟨hk, _⟩; exact hk
  simp only [Sched.continueRepeat, h, hr, Sched.newTimer, Sched.registerTimer, Sched.setTask,
    Sched.setTimer]
  split <;> simp [hk]

/-! ## interval / interval_at: what -/

/-- (I1) Whatever the executor and the clock do, the probe of `interval` / `interval_at` has
    seen exactly `next 0, next 1, …, next (m-1)` for some `m`: consecutive integers from 0,
    in order, nothing else, no terminal. -/
theorem C08_interval_seq (delay : Option Nat) (p : Nat) (evs : List Ev) :
    ∃ m, (run (start (.interval delay p)) evs).log = ticks m :=
  interval_seq_main delay p evs

/-- Nothing is emitted before `sub` (any source that is not a subject). -/
theorem C08_silent_before_sub (src : TSrc) (hsrc : ∀ i, src ≠ .hot i) (pre : List Ev)
    (hpre : ∀ e ∈ pre, e ≠ .sub) : (run (start src) pre).log = [] :=
  presub_log src hsrc pre hpre

/-! ## timer: what -/

/-- (I4, what) The probe of `timer(v, d)` has seen nothing, or exactly `next v, complete`. -/
theorem C08_timer_once (v : Val) (d : Nat) (evs : List Ev) :
    (run (start (.timer v d)) evs).log = [] ∨
    (run (start (.timer v d)) evs).log = [.next v, .complete] :=
  timer_once_main v d evs

/-- (I4, when) … and nothing while the clock is below `t_sub + d`, however the executor
    runs and whatever happened before the subscription. -/
theorem C08_timer_never_early (v : Val) (d : Nat) (pre post : List Ev)
    (hpre : ∀ e ∈ pre, e ≠ .sub)
    (h : (run (start (.timer v d)) (pre ++ .sub :: post)).clock <
      (run (start (.timer v d)) pre).clock + d) :
    (run (start (.timer v d)) (pre ++ .sub :: post)).log = [] :=
  timer_never_early_main v d pre post hpre h

/-! ## interval / interval_at: never early -/

/-- (I2) Tick `k` is not in the log while the clock is below `t_sub + first + k·p`
    (`interval`: `first = p`, one period after subscription; `interval_at`: `first` = the
    given offset), however late or in whatever order the executor runs. -/
theorem C08_interval_never_early (delay : Option Nat) (p : Nat) (pre post : List Ev)
    (hpre : ∀ e ∈ pre, e ≠ .sub) (k : Nat)
    (h : (run (start (.interval delay p)) (pre ++ .sub :: post)).clock <
      (run (start (.interval delay p)) pre).clock + delay.getD p + k * p) :
    (run (start (.interval delay p)) (pre ++ .sub :: post)).log.length ≤ k :=
  interval_never_early_main delay p pre post hpre k h

/-- (I2, by prefixes) The same for every prefix `q` of the event list, including those that
    end before the `sub`. -/
theorem C08_interval_never_early_prefix (delay : Option Nat) (p : Nat) (pre post : List Ev)
    (hpre : ∀ e ∈ pre, e ≠ .sub) (q : List Ev) (hq : q <+: pre ++ .sub :: post) (k : Nat)
    (h : (run (start (.interval delay p)) q).clock <
      (run (start (.interval delay p)) pre).clock + delay.getD p + k * p) :
    (run (start (.interval delay p)) q).log.length ≤ k :=
  interval_never_early_prefix_main delay p pre post hpre q hq k h

/-- (spacing) Never earlier than one period after the previous tick, however late the
    executor runs: if tick `k` has not been delivered when `pre` ends (at clock `c`), then tick
    `k+1` is not delivered while the clock is below `c + p` — in every window shorter than a
    period there is at most one tick.  (A late executor does not catch up, see the examples.) -/
theorem C08_interval_spacing (delay : Option Nat) (p : Nat) (pre post : List Ev) (k : Nat)
    (hk : (run (start (.interval delay p)) pre).log.length ≤ k)
    (h : (run (start (.interval delay p)) (pre ++ post)).clock <
      (run (start (.interval delay p)) pre).clock + p) :
    (run (start (.interval delay p)) (pre ++ post)).log.length ≤ k + 1 :=
  interval_spacing_main delay p pre post k hk h

/-! ## unsubscribe -/

/-- (I5) After `unsub` of a subscribed `interval` / `interval_at` the log never grows. -/
theorem C08_unsub_stops_interval (delay : Option Nat) (p : Nat) (pre mid post : List Ev) :
    (run (start (.interval delay p)) ((pre ++ .sub :: mid) ++ .unsub :: post)).log =
    (run (start (.interval delay p)) (pre ++ .sub :: mid)).log :=
  interval_unsub_main delay p pre mid post

/-- (I5) After `unsub` of a subscribed `timer` the log never grows. -/
theorem C08_unsub_stops_timer (v : Val) (d : Nat) (pre mid post : List Ev) :
    (run (start (.timer v d)) ((pre ++ .sub :: mid) ++ .unsub :: post)).log =
    (run (start (.timer v d)) (pre ++ .sub :: mid)).log :=
  timer_unsub_main v d pre mid post

/-! ## exactly when: the prompt executor -/

/-- (I3) The prompt unit-step schedule: subscribe at `t0`, run the executor, then `n` rounds of
    "the clock advances by 1, the executor runs" (`prompt n`).  For a period `p ≥ 1` the log
    after round `n` has exactly one tick for every instant `t0 + first + k·p ≤ t0 + n`:
    none while `n < first`, then `(n - first)/p + 1`.  Together with (I1) and (I2): tick `k` is
    delivered exactly at `t_sub + first + k·p` — `interval`: one period after subscription and
    every period after that; `interval_at`: at the given offset and every period after that.
    (`p = 0` is excluded: the real RepeatTask then re-arms an already-due timer for ever; the
    model's `run` stops only because `runLoop` has fuel.) -/
theorem C08_interval_prompt (delay : Option Nat) (p t0 n : Nat) (hp : 1 ≤ p) :
    (run (start (.interval delay p)) ([.adv t0, .sub, .run] ++ prompt n)).log =
      ticks (if n < delay.getD p then 0 else (n - delay.getD p) / p + 1) :=
  interval_prompt_main delay p t0 n hp

/-- (I4, exactly when) Under the prompt schedule `timer(v, d)` has delivered nothing before
    round `d` and `next v, complete` from round `d` on (in particular for `d = 0`: at the first
    run of the executor). -/
theorem C08_timer_prompt (v : Val) (d t0 n : Nat) :
    (run (start (.timer v d)) ([.adv t0, .sub, .run] ++ prompt n)).log =
      if n < d then [] else [.next v, .complete] :=
  timer_prompt_main v d t0 n

/-! ## non-vacuity (concrete event lists, evaluated) -/

/-- `interval(2)` subscribed at 0, prompt executor: ticks 0, 1, 2 at 2, 4, 6 — not at 1, 3, 5. -/
example : (run (start (.interval none 2)) ([.sub, .run] ++ prompt 1)).log = [] := by decide
example : (run (start (.interval none 2)) ([.sub, .run] ++ prompt 2)).log = ticks 1 := by decide
example : (run (start (.interval none 2)) ([.sub, .run] ++ prompt 3)).log = ticks 1 := by decide
example : (run (start (.interval none 2)) ([.sub, .run] ++ prompt 4)).log = ticks 2 := by decide
example : (run (start (.interval none 2)) ([.sub, .run] ++ prompt 5)).log = ticks 2 := by decide
example : (run (start (.interval none 2)) ([.sub, .run] ++ prompt 6)).log = ticks 3 := by decide

/-- `interval_at(now + 0, 3)`: ticks at 0, 3, 6 (the first one at the first run of the executor). -/
example : (run (start (.interval (some 0) 3)) [.sub, .run]).log = ticks 1 := by decide
example : (run (start (.interval (some 0) 3)) ([.sub, .run] ++ prompt 2)).log = ticks 1 := by decide
example : (run (start (.interval (some 0) 3)) ([.sub, .run] ++ prompt 3)).log = ticks 2 := by decide
example : (run (start (.interval (some 0) 3)) ([.sub, .run] ++ prompt 5)).log = ticks 2 := by decide
example : (run (start (.interval (some 0) 3)) ([.sub, .run] ++ prompt 6)).log = ticks 3 := by decide

/-- `interval_at(now + 5, 2)` subscribed at 10: nothing at 14, tick 0 at 15, tick 1 at 17. -/
example : (run (start (.interval (some 5) 2)) ([.adv 10, .sub, .run] ++ prompt 4)).log = [] := by decide
example : (run (start (.interval (some 5) 2)) ([.adv 10, .sub, .run] ++ prompt 5)).log = ticks 1 := by
  decide
example : (run (start (.interval (some 5) 2)) ([.adv 10, .sub, .run] ++ prompt 7)).log = ticks 2 := by
  decide

/-- A late executor does NOT catch up: after a jump over three and a half periods `interval(2)`
    delivers ONE tick (at 7), re-arms from there, and tick 1 comes at 9 = 7 + 2, not at 8:
    "one period after the previous", never earlier. -/
example : (run (start (.interval none 2)) [.sub, .run, .adv 7, .run]).log = ticks 1 := by decide
example : (run (start (.interval none 2)) [.sub, .run, .adv 7, .run, .adv 1, .run]).log = ticks 1 := by
  decide
example : (run (start (.interval none 2)) [.sub, .run, .adv 7, .run, .adv 2, .run]).log = ticks 2 := by
  decide

/-- By hand, in a "wrong" order: polling before the timer fired, firing twice, polling twice. -/
example : (run (start (.interval none 2))
    [.sub, .poll 0, .adv 1, .fire 0, .poll 0, .adv 1, .poll 0, .fire 0, .fire 0, .poll 0, .poll 0]).log
    = ticks 1 := by decide

/-- `timer(7, 3)`: nothing at 2, `next 7, complete` at 3, nothing more afterwards. -/
example : (run (start (.timer (.int 7) 3)) ([.sub, .run] ++ prompt 2)).log = [] := by decide
example : (run (start (.timer (.int 7) 3)) ([.sub, .run] ++ prompt 3)).log
    = [.next (.int 7), .complete] := by decide
example : (run (start (.timer (.int 7) 3)) ([.sub, .run] ++ prompt 9)).log
    = [.next (.int 7), .complete] := by decide

/-- The delay of `timer` starts when the spawned task is first polled (`new_timer(d).await`
    inside the future), not at `subscribe`: an executor that polls it for the first time at 2
    delivers at 5, not at 3 — late, never early. -/
example : (run (start (.timer (.int 7) 3))
    [.sub, .adv 2, .poll 0, .adv 1, .fire 0, .poll 0]).log = [] := by decide
example : (run (start (.timer (.int 7) 3))
    [.sub, .adv 2, .poll 0, .adv 1, .fire 0, .poll 0, .adv 2, .fire 0, .poll 0]).log
    = [.next (.int 7), .complete] := by decide

/-- `unsub` between two ticks / before the timer is due: nothing more, although the armed
    timer still fires. -/
example : (run (start (.interval none 2)) ([.sub, .run] ++ prompt 2 ++ [.unsub] ++ prompt 6)).log
    = ticks 1 := by decide
example : (run (start (.timer (.int 7) 3)) ([.sub, .run] ++ prompt 2 ++ [.unsub] ++ prompt 6)).log
    = [] := by decide

/-! ### Async sources: from_future(_result), from_stream(_result)

  `relayStream res script` / `relayFuture res script` (Lemmas/Async.lean) are what the
  property promises, read off the script alone: the values in order up to the
  first `Err`, then that error, else `complete` at the end (a future: its single
  output, then `complete`, or the error); `pending` steps do not show.  A *bare*
  source (`stages = []`) has the probe as its observer, so the log is what the
  driver handed to its observer.  `drivePolls poll n` = the executor polls the
  task `n` times, whenever it likes (what other tasks do in between does not
  touch the script position or a bare source's observer). -/

/-- One lap of the stream driver loop (induction over the script): whatever the
    outcome — finished, script exhausted, `Pending` at a `pending` step — what has
    been delivered so far followed by what the rest of the script promises is
    exactly what the script promised at the start of the lap. -/
theorem C08_stream_lap (res : Bool) (rest : List AStep) (w : TW) (h : w.stages = []) :
    LapOK res rest w (TW.streamLap res rest w) :=
  streamLap_bare res rest w h

/-- from_stream / from_stream_result never deliver anything but a prefix of the
    promise, however often and whenever the executor polls the driver (`n`
    arbitrary, any number of `pending` steps anywhere in the script); when the
    driver has finished, exactly the promise has been delivered: the scripted
    values up to the first `Err`, then the terminal, nothing after. -/
theorem C08_stream_relay (res : Bool) (script : List AStep) (f n : Nat) (w : TW)
    (h : w.stages = []) (hs : w.srcRest = script) (hl : w.log = []) :
    let r := drivePolls (TW.pollStream res script false (f + 1)) n w
    (r.2 = true → r.1.log = relayStream res script) ∧
    (r.2 = false → r.1.log ++ relayStream res r.1.srcRest = relayStream res script) := by
  have := drivePolls_ok (relayStream res) noHang (TW.pollStream res script false (f + 1))
    (fun w hw => pollStream_bare res script f w hw) n w h
  simp only [hs, hl, List.nil_append] at this
  exact ⟨this.2.1, this.2.2⟩

/-- … and it does get there: a stream that does not stay silent for ever is
    relayed completely, terminal included, once the driver has been polled more
    often than the script has `pending` steps — for ANY number of them. -/
theorem C08_stream_completes (res : Bool) (script : List AStep) (f n : Nat) (w : TW)
    (h : w.stages = []) (hs : w.srcRest = script) (hl : w.log = [])
    (hg : noHang script = true) (hn : pendings script < n) :
    let r := drivePolls (TW.pollStream res script false (f + 1)) n w
    r.2 = true ∧ r.1.log = relayStream res script := by
  have hp := fun w hw => pollStream_bare res script f w hw
  have hd := drivePolls_complete (relayStream res) noHang _ hp n w h (by rw [hs]; exact hg)
    (by rw [hs]; exact hn)
  exact ⟨hd, (C08_stream_relay res script f n w h hs hl).1 hd⟩

/-- The promise of a stream is well-formed and stops at the first error: values,
    then exactly one terminal (if the stream does not hang), nothing after. -/
theorem C08_stream_promise_wf (res : Bool) (script : List AStep) : WF (relayStream res script) := by
  induction script with
  | nil => simp [relayStream, WF]
  | cons st r ih =>
    cases st with
    | ready v => simpa [relayStream, WF] using ih
    | pending => simpa [relayStream] using ih
    | hang => simp [relayStream, WF]
    | err e => cases res <;> simp [relayStream, WF, ih]

/-- from_future / from_future_result: at any moment a prefix of the promise;
    when the FutureTask has finished: its single value then `complete`, or the
    error — exactly once. -/
theorem C08_future_relay (res : Bool) (script : List AStep) (n : Nat) (w : TW)
    (h : w.stages = []) (hs : w.srcRest = script) (hl : w.log = []) :
    let r := drivePolls (fun w => w.pollFuture res) n w
    (r.2 = true → r.1.log = relayFuture res script) ∧
    (r.2 = false → r.1.log ++ relayFuture res r.1.srcRest = relayFuture res script) := by
  have := drivePolls_ok (relayFuture res) resolves (fun w => w.pollFuture res)
    (fun w hw => pollFuture_bare res w hw) n w h
  simp only [hs, hl, List.nil_append] at this
  exact ⟨this.2.1, this.2.2⟩

/-- A future that becomes ready with `v` after `k` pending polls (any `k`):
    polled more than `k` times, the source has emitted `v` once and completed. -/
theorem C08_future_once (res : Bool) (k n : Nat) (v : Val) (w : TW)
    (h : w.stages = []) (hs : w.srcRest = List.replicate k .pending ++ [.ready v])
    (hl : w.log = []) (hn : k < n) :
    let r := drivePolls (fun w => w.pollFuture res) n w
    r.2 = true ∧ r.1.log = [.next v, .complete] := by
  have hrel : ∀ k, relayFuture res (List.replicate k .pending ++ [.ready v]) = [.next v, .complete] := by
    intro k; induction k with
    | zero => simp [relayFuture]
    | succ k ih => simpa [List.replicate_succ, relayFuture] using ih
  have hres : ∀ k, resolves (List.replicate k .pending ++ [.ready v]) = true := by
    intro k; induction k with
    | zero => simp [resolves]
    | succ k ih => simpa [List.replicate_succ, resolves] using ih
  have hpen : ∀ k, pendings (List.replicate k .pending ++ [.ready v]) = k := by
    intro k; induction k with
    | zero => simp [pendings]
    | succ k ih => simp [List.replicate_succ, pendings, ih]
  have hd := drivePolls_complete (relayFuture res) resolves (fun w => w.pollFuture res)
    (fun w hw => pollFuture_bare res w hw) n w h (by rw [hs]; exact hres k)
    (by rw [hs, hpen k]; exact hn)
  refine ⟨hd, ?_⟩
  rw [(C08_future_relay res _ n w h hs hl).1 hd, hrel k]

/-- The scheduler side (`Remote::poll`): an async task that was cancelled
    (`keep_running = false`) finishes at its next poll without touching its
    future / stream: nothing is delivered. -/
theorem C08_async_cancelled_silent (w : TW) (k : TaskId) (t : Task)
    (hk : w.sched.tasks[k]? = some t) (hd : t.done = false) (hod : t.outerDelay = none)
    (hot : t.outerTimer = none) (hr : t.rep = none) (hc : t.keepRunning = false) :
    (w.pollTask k).log = w.log ∧ (w.pollTask k).srcRest = w.srcRest := by
  unfold TW.pollTask
  rw [pollPre_plain w.sched k t hk hd hod hot hr]
  simp [hc]

/-- … and one that was not cancelled polls its body (`FutureTask::poll` / the
    stream driver) exactly once per poll of the task: `Ready` stores the value in
    the handle and finishes the task, `Pending` leaves it in the executor, ready
    again iff it woke itself (`TW.afterAsync`). -/
theorem C08_async_task_poll (w : TW) (k : TaskId) (t : Task)
    (hk : w.sched.tasks[k]? = some t) (hd : t.done = false) (hod : t.outerDelay = none)
    (hot : t.outerTimer = none) (hr : t.rep = none) (hc : t.keepRunning = true)
    (hb : t.body.isAsync = true) :
    w.pollTask k =
      ({ w with sched := w.sched.setTask k { t with woken := false, outerTimer := none } } : TW).afterAsync
        k t.body := by
  unfold TW.pollTask
  rw [pollPre_plain w.sched k t hk hd hod hot hr]
  simp only [hc, if_true, hb, TW.afterAsync]
  generalize TW.runAsync _ t.body = r
  obtain ⟨w1, o⟩ := r
  cases o <;> rfl

/-! Non-vacuity: a concrete script with a pending step and an error in the middle. -/
example : relayStream true [.ready (.int 1), .pending, .err 5, .ready (.int 2)]
    = [.next (.int 1), .error 5] := rfl
example : relayStream false [.ready (.int 1), .pending, .ready (.int 2)]
    = [.next (.int 1), .next (.int 2), .complete] := rfl
example :
    (drivePolls (TW.pollStream true [.ready (.int 1), .pending, .err 5, .ready (.int 2)] false 1) 2
      { src := .stream true [.ready (.int 1), .pending, .err 5, .ready (.int 2)] false, stages := [],
        srcRest := [.ready (.int 1), .pending, .err 5, .ready (.int 2)] }).1.log
      = [.next (.int 1), .error 5] := by decide
example :
    (drivePolls (fun w => w.pollFuture false) 3
      { src := .future false [.pending, .pending, .ready (.int 7)], stages := [],
        srcRest := [.pending, .pending, .ready (.int 7)] }).1.log
      = [.next (.int 7), .complete] := by decide

end Rx.T
