import RxModel.Sched.Chain
/-
  C08 — Time and async sources emit exactly what and when they promise.
  (theorems are added as they are proved; see DESIGN §6 C08)
-/
namespace Rx.T

/-- The interval source numbers its ticks with the RepeatTask sequence counter:
    a tick that continues bumps it by exactly one. -/
theorem C08_tick_seq (s : Sched) (k : TaskId) (t : Task) (fur iv seq : Nat)
    (h : s.tasks[k]? = some t) (hr : t.rep = some (fur, iv, seq)) :
    ∃ t' fur', (s.continueRepeat k).tasks[k]? = some t' ∧ t'.rep = some (fur', iv, seq + 1) := by
  have hk : k < s.tasks.length := by
    rcases List.getElem?_eq_some_iff.mp h with ⟨hk, _⟩; exact hk
  simp only [Sched.continueRepeat, h, hr, Sched.newTimer, Sched.registerTimer, Sched.setTask,
    Sched.setTimer]
  split <;> simp [hk]

end Rx.T
