import RxModel.Lemmas.SubjectSteps
import RxModel.Lemmas.SubjectStepsGrammar
import RxModel.Lemmas.SubjectStepsSeqSim
/-
  C06 / C10 — `SubjectThreads` at the granularity of critical sections, WITH data.

  Model: RxModel/Conc/SubjectSteps.lean (`St`, `Step`, `Op.steps`, `exec`): one
  atomic step per top-level critical section of src/subject.rs, any number of
  threads, each a list of operations, any schedule.  Property theorems only;
  helper lemmas: RxModel/Lemmas/SubjectSteps*.lean.

  Tie to /repo: suite `inject` replays every one-preemption interleaving
  "first k sections of A, all of B, rest of A" on the real `SubjectThreads`
  through hook H2 and compares with `St.inject` (`C06S_inject_is_schedule`: that
  IS a schedule of `exec`); the section boundaries are the ones of the lock traces
  (suite `locks`).  Modelled, not verified: that the Rust critical sections are
  atomic (std `Mutex`) and are exactly these.
-/
namespace Rx.Conc.SS
open Rx

/-! ### C10: no panic under any interleaving -/

/-- **No schedule panics.**  Any number of threads, any operation lists (next, error,
    complete, unsubscribe, subscribe, handle.unsubscribe, retain, len/is_empty), any
    schedule of their critical sections: the `unwrap()`s on the chamber in `load`, `len`
    and `is_empty` never meet `None`. -/
theorem C10S_no_panic (progs : List (List Op)) (sched : List Nat) :
    (exec Op.steps (Cfg.init progs) sched).st.panicked = false :=
  (Inv.exec sched (Inv.init progs)).np

/-- The reason: at every moment of every schedule `observers = Some → chamber = Some`
    (`unsubscribe` empties `observers` FIRST, and nothing ever re-creates `observers`). -/
theorem C10S_chamber_outlives_observers (progs : List (List Op)) (sched : List Nat) :
    (exec Op.steps (Cfg.init progs) sched).st.obs = none ∨
      (exec Op.steps (Cfg.init progs) sched).st.chamber ≠ none :=
  (Inv.exec sched (Inv.init progs)).oc

/-- `observers = None` is final: no section of any thread re-creates the live list. -/
theorem C10S_done_is_final (s : St) (x : Step) (h : s.obs = none) : (s.step x).obs = none :=
  step_obs_none s x h

/-- **The order of the two `take()`s in `unsubscribe` matters** (negative witness): with
    `chamber.take()` first, thread 0 = `unsubscribe()`, thread 1 = `next(0)`, schedule
    "takeChamber of 0, then 1's load": `load` unwraps an absent chamber. -/
theorem C10S_swapped_unsub_panics :
    (exec Op.stepsSwapped (Cfg.init [[.unsubAll], [.next (.int 0)]]) [0, 1]).st.panicked = true := by
  decide

/-- … so the no-panic statement is false for the swapped variant … -/
theorem C10S_swapped_not_safe :
    ¬ ∀ (progs : List (List Op)) (sched : List Nat),
      (exec Op.stepsSwapped (Cfg.init progs) sched).st.panicked = false := by
  intro h
  have := h [[.unsubAll], [.next (.int 0)]] [0, 1]
  rw [C10S_swapped_unsub_panics] at this
  cases this

/-- … while it needs a preemption: each swapped operation run back to back is harmless
    in that program (the same two threads, thread 0 not preempted). -/
theorem C10S_swapped_needs_preemption :
    (exec Op.stepsSwapped (Cfg.init [[.unsubAll], [.next (.int 0)]]) [0, 0, 1, 1]).st.panicked = false := by
  decide

/-! ### C06: who receives what, under any interleaving -/

/-- Every section appends exactly its `emits` to the global log (only broadcasts emit). -/
theorem C06S_step_log (s : St) (x : Step) : (s.step x).log = s.log ++ s.emits x :=
  step_log s x

/-- The log of a whole schedule is the concatenation, in schedule order, of what its executed
    sections emitted from the states they started in: deliveries happen only inside broadcast
    sections, broadcasts are serialised, nothing else is ever delivered. -/
theorem C06S_log_is_sections (steps : Op → List Step) (progs : List (List Op)) (sched : List Nat) :
    (exec steps (Cfg.init progs) sched).st.log =
      (trace steps (Cfg.init progs) sched).flatMap (fun p => p.1.emits p.2) := by
  rw [exec_log]; rfl

/-- **Exactly the current subscribers, in list order.**  In every state any schedule can
    reach, an item broadcast delivers the item to exactly the entries of the live list whose
    slot is open, in list order, and a terminal broadcast delivers the terminal to exactly the
    same set (the lazy `filter` cannot differ from the eager one because no subscriber is
    listed twice). -/
theorem C06S_exactly_current (progs : List (List Op)) (sched : List Nat) :
    let s := (exec Op.steps (Cfg.init progs) sched).st
    (∀ v, s.emits (.bcastNext v) = ((s.obs.getD []).filter s.isOpen).map (·, Notif.next v)) ∧
      (∀ t, s.emits (.bcastTerm t) = ((s.obs.getD []).filter s.isOpen).map (·, t.toNotif)) ∧
      (s.obs.getD [] ++ s.chamber.getD []).Nodup := by
  intro s
  have hr : Reach s := Reach.exec sched Reach.init
  have hp : s.panicked = false := C10S_no_panic progs sched
  have hnd := hr.entries.nodup
  refine ⟨fun v => by simp [St.emits, hp], fun t => ?_, hnd⟩
  simp only [St.emits, hp, Bool.false_eq_true, if_false]
  rw [termLoop_exact _ _ _ (List.nodup_append.mp hnd).1]
  rfl

/-- **At most once.**  In every state reachable under any schedule (whatever the step lists
    of the operations), one section calls each subscriber at most once. -/
theorem C06S_at_most_once (steps : Op → List Step) (progs : List (List Op)) (sched : List Nat)
    (x : Step) : (((exec steps (Cfg.init progs) sched).st.emits x).map (·.1)).Nodup := by
  have hr : Reach (exec steps (Cfg.init progs) sched).st := Reach.exec sched Reach.init
  rw [emits_receivers hr]
  have hnd := (List.nodup_append.mp hr.entries.nodup).1
  cases x <;> simp only [] <;> try exact List.nodup_nil
  all_goals
    split
    · exact List.nodup_nil
    · exact List.filter_sublist.nodup hnd

/-- **Per subscriber: items, at most one terminal, nothing after it**, under every schedule
    (whatever the step lists); and once a subscriber has its terminal its slot is closed. -/
theorem C06S_grammar (steps : Op → List Step) (progs : List (List Op)) (sched : List Nat) (u : Nat) :
    WF (proj u (exec steps (Cfg.init progs) sched).st.log) ∧
      (terminated (proj u (exec steps (Cfg.init progs) sched).st.log) = true →
        (exec steps (Cfg.init progs) sched).st.isOpen u = false) := by
  have h := (Reach.exec (steps := steps) sched (c := Cfg.init progs) Reach.init).grammar u
  exact ⟨h.1, h.2.1⟩

/-- A subscriber whose slot is closed (its terminal arrived, or `handle.unsubscribe()`
    returned) is never called again: no section emits to it, and the slot stays closed. -/
theorem C06S_closed_is_silent (s : St) (x : Step) (u : Nat) (h : s.isOpen u = false) :
    proj u (s.emits x) = [] ∧ (u < s.slots.length → (s.step x).isOpen u = false) := by
  refine ⟨?_, fun hu => (step_slots s x).2 u hu h⟩
  rcases emits_proj s x u with e | ⟨ho, _⟩
  · exact e
  · rw [h] at ho; cases ho

/-- After a terminal broadcast or `unsubscribe()` (observers = None) nothing is delivered to
    anybody by any section, for ever (`C10S_done_is_final`). -/
theorem C06S_done_is_silent (s : St) (x : Step) (h : s.obs = none) : s.emits x = [] := by
  cases x <;> simp [St.emits, h, termLoop]

/-- A subscriber that does not exist yet has received nothing (no delivery is invented). -/
theorem C06S_no_early_delivery (steps : Op → List Step) (progs : List (List Op)) (sched : List Nat)
    (u : Nat) (h : (exec steps (Cfg.init progs) sched).st.slots.length ≤ u) :
    proj u (exec steps (Cfg.init progs) sched).st.log = [] :=
  ((Reach.exec (steps := steps) sched (c := Cfg.init progs) Reach.init).grammar u).2.2 h

/-! ### no preemption = the sequential model -/

/-- One operation run without preemption is the operation of the sequential subject model
    (Subject/Subject.lean, plain probes): related states stay related, the deliveries are the
    same in the same order, `len()` / `is_empty()` answer the same. -/
theorem C06S_seq_op {s : St} {j : Subj.State} (h : Rel s j) (op : Op) :
    Rel (s.runOp op) (j.apply op.toSubj).1 ∧
      (s.runOp op).log = s.log ++ (j.apply op.toSubj).2 ∧
      (s.runOp op).sizes = s.sizes ++ sizeAns j op :=
  runOp_sim h op

/-- Whole histories of any length, back to back, from `default()`. -/
theorem C06S_seq (ops : List Op) :
    Rel (St.init.runOps ops) (Subj.exec Subj.State.init (ops.map Op.toSubj)) ∧
      (St.init.runOps ops).log = delivs Subj.State.init (ops.map Op.toSubj) ∧
      (St.init.runOps ops).sizes = sizeAnss Subj.State.init ops := by
  have := runOps_sim ops Rel.init
  exact ⟨this.1, by simpa [St.init] using this.2.1, by simpa [St.init] using this.2.2⟩

/-- A single thread (its only schedule) is "back to back": the interleaving system restricted
    to one thread is the sequential model. -/
theorem C06S_seq_single_thread (ops : List Op) :
    (exec Op.steps (Cfg.init [ops]) (List.replicate (ops.flatMap Op.steps).length 0)).st.log =
      delivs Subj.State.init (ops.map Op.toSubj) := by
  have h := exec_single (ops.flatMap Op.steps).length St.init [] ops (by simp)
  have e : Cfg.init [ops] = ⟨St.init, [⟨[], ops⟩]⟩ := rfl
  rw [e, h, List.nil_append, ← runOps_eq_runSteps]
  exact (C06S_seq ops).2.1

/-- What suite `inject` replays on the real code is a schedule of the interleaving system:
    thread 0 = A, thread 1 = B, "k sections of 0, all of 1, the rest of 0". -/
theorem C06S_inject_is_schedule (s : St) (k : Nat) (a b : Op) (hk : k < a.steps.length) :
    (exec Op.steps ⟨s, [⟨[], [a]⟩, ⟨[], [b]⟩]⟩
        (List.replicate k 0 ++ List.replicate b.steps.length 1 ++
          List.replicate (a.steps.length - k) 0)).st = (s.inject k a b).1 := by
  match k, hk with
  | 0, _ => cases a <;> cases b <;> rfl
  | 1, hk => cases a <;> first | (simp [Op.steps] at hk; done) | (cases b <;> rfl)
  | k + 2, hk => cases a <;> simp [Op.steps] at hk <;> omega

/-! ### non-vacuity -/

/-- two producers and a late subscriber: thread 0 subscribes and emits 1, 2; thread 1 subscribes and
    completes; schedule: push₀ push₁ load₀ bcast₀(1) load₁ load₀ bcast₁(C) bcast₀(2): item 1 to both in
    subscription order, the terminal to both, item 2 to nobody (it lost the race against `complete`). -/
example : (exec Op.steps (Cfg.init [[.subscribe, .next (.int 1), .next (.int 2)], [.subscribe, .complete]])
      [0, 1, 0, 0, 1, 0, 1, 0]).st.log =
    [(0, .next (.int 1)), (1, .next (.int 1)), (0, .complete), (1, .complete)] := by
  decide

/-- a subscription that lands between a producer's `load` and its broadcast misses the item and gets
    the next one; an `unsub` between them suppresses the delivery. -/
example : ((St.init.runOps [.subscribe, .subscribe]).inject 1 (.next (.int 5)) .subscribe).1.log =
      [(0, .next (.int 5)), (1, .next (.int 5))] ∧
    (((St.init.runOps [.subscribe, .subscribe]).inject 1 (.next (.int 5)) (.unsub 0)).1.log =
      [(1, .next (.int 5))]) := by
  decide

/-- the hypotheses of `C06S_seq_op` are satisfiable with live subscribers -/
example : ∃ s j, Rel s j ∧ s.obs = some [0, 1] :=
  ⟨St.init.runOps [.subscribe, .subscribe, .next (.int 1)], _, (C06S_seq _).1, by decide⟩

end Rx.Conc.SS
