import RxModel.Lemmas.Finalize
/-
  C15 — finalize runs its callback exactly once per subscription (sequential
  part; the race of a terminating with an unsubscribing thread is
  `C15_threads`, proved over the lock-level model).

  Property theorems only; helper lemmas: RxModel/Lemmas/Finalize.lean.  The
  machine (`Finalize.Fin`, `Elem`, `World`) is the transcription of
  src/ops/finalize.rs behind the `Subscriber` slot of a hot subject and is what
  `rxdriver` executes against the real code (suite `finalize`).

  `C15_once` … : the plain pipeline `subject.finalize(f)`.  `C15_chain_once`,
  `C15_chain_not_before`, `C15_chain_full`: any operators below `finalize` (full strength
  since `fix: Subject::error/complete hand the terminal to every subscriber`; before it the
  callback did not run at the source's terminal once an operator below had completed by itself).
-/
namespace Rx
open Finalize

/-- `subject.finalize(f)`: ANY item prefix `pre`, then a first trigger `e`
    (complete, error or unsubscribe), then ANY further events `post` (items,
    terminals through cloned subject handles, unsubscribe — repeated at will).
    The whole log is: the items, what the trigger itself delivers downstream,
    then the callback — and nothing else, ever.  So the callback runs right
    after the first trigger's downstream delivery, not before, and never again;
    its run counter ends at 1 and the cell is empty. -/
theorem C15_once (id : Nat) (pre : List Val) (e : Ev) (he : e.isTrigger = true) (post : List Ev) :
    let r := (World.init [.fin (Fin.new id)]).run
      (pre.map (fun v => Ev.emit (.next v)) ++ e :: post)
    r.2 = pre.map (fun v => FOut.n (.next v)) ++ triggerDelivery e ++ [.f id] ∧
    r.1.chain = [.fin ⟨id, false, 1⟩] := by
  intro r
  have h0 := fresh_init id
  have hr : r = (World.init [.fin (Fin.new id)]).run
      (pre.map (fun v => Ev.emit (.next v)) ++ e :: post) := rfl
  rw [run_append, fresh_items h0] at hr
  simp only [World.run] at hr
  obtain ⟨hs, ho⟩ := fresh_trigger h0 e he
  obtain ⟨hs', ho'⟩ := spent_run hs post
  rw [hr]
  refine ⟨?_, hs'.2⟩
  simp only [ho, ho', List.append_nil, List.append_assoc]

/-- Before the first trigger the callback has not run: items only leave it
    armed with run counter 0 and no marker in the log. -/
theorem C15_not_before (id : Nat) (pre : List Val) :
    let r := (World.init [.fin (Fin.new id)]).run (pre.map fun v => Ev.emit (.next v))
    r.2 = pre.map (fun v => FOut.n (.next v)) ∧ countF id r.2 = 0 ∧
    r.1.chain = [.fin ⟨id, true, 0⟩] := by
  intro r
  have hr : r = (World.init [.fin (Fin.new id)]).run (pre.map fun v => Ev.emit (.next v)) := rfl
  rw [fresh_items (fresh_init id)] at hr
  rw [hr]
  exact ⟨rfl, countF_items id pre, rfl⟩

/-- Counting form: 0 runs before the first trigger (above), exactly 1 in every
    history that contains one, however it continues. -/
theorem C15_once_count (id : Nat) (pre : List Val) (e : Ev) (he : e.isTrigger = true)
    (post : List Ev) :
    countF id ((World.init [.fin (Fin.new id)]).run
      (pre.map (fun v => Ev.emit (.next v)) ++ e :: post)).2 = 1 := by
  have h := (C15_once id pre e he post).1
  rw [h, countF_append, countF_append, countF_items, countF_triggerDelivery]
  simp [countF]

/-- Every event sequence has one of the two shapes above. -/
theorem C15_shapes (evs : List Ev) :
    (∃ pre : List Val, evs = pre.map fun v => Ev.emit (.next v)) ∨
    (∃ (pre : List Val) (e : Ev) (post : List Ev), e.isTrigger = true ∧ evs = pre.map (fun v => Ev.emit (.next v)) ++ e :: post) := by
  induction evs with
  | nil => exact .inl ⟨[], rfl⟩
  | cons x r ih =>
    cases hx : x.isTrigger
    · -- an item
      have : ∃ v, x = .emit (.next v) := by
        cases x with
        | unsub => cases hx
        | emit n => cases n <;> first | exact ⟨_, rfl⟩ | cases hx
      obtain ⟨v, rfl⟩ := this
      rcases ih with ⟨pre, rfl⟩ | ⟨pre, e, post, he, rfl⟩
      · exact .inl ⟨v :: pre, rfl⟩
      · exact .inr ⟨v :: pre, e, post, he, rfl⟩
    · exact .inr ⟨[], x, r, hx, rfl⟩

/-- At most once, everywhere: in ANY chain of operators and finalizers (finalize
    in the middle of a chain, nested finalizers), from ANY state, under ANY
    events, the markers of `id` in the log are exactly the new runs of its
    callbacks, and runs + armed cells is constant: a callback never re-arms. -/
theorem C15_chain_at_most_once (id : Nat) (w : World) (evs : List Ev) :
    countF id (w.run evs).2 + callsOf id w.chain = callsOf id (w.run evs).1.chain ∧
    callsOf id (w.run evs).1.chain + armedOf id (w.run evs).1.chain =
      callsOf id w.chain + armedOf id w.chain :=
  run_count id w evs

/-- In particular with one fresh finalizer `id` anywhere in a chain of operators. -/
theorem C15_chain_le_one (id : Nat) (up down : List St1) (evs : List Ev) :
    countF id ((World.init (up.map .op ++ .fin (Fin.new id) :: down.map .op)).run evs).2 ≤ 1 := by
  have h := run_count id (World.init (up.map .op ++ .fin (Fin.new id) :: down.map .op)) evs
  have h0 := one_fin_init id up down
  omega

/-- `subject.finalize(f)` followed by ANY operators (`down`: map, filter, … and the ones that
    complete the downstream by themselves: take, take_while, first, contains, …), ANY item
    prefix, a first trigger `e` (complete, error or unsubscribe), then ANY further events: the
    log is the log of the same pipeline WITHOUT `finalize` up to and including the trigger,
    then the callback, and nothing else, ever.  So the callback runs right after what the first
    trigger itself delivers downstream — also when `take` had completed the probe long before
    the source's terminal — never before it and never again. -/
theorem C15_chain_once (id : Nat) (down : List St1) (pre : List Val) (e : Ev)
    (he : e.isTrigger = true) (post : List Ev) :
    ((World.init (.fin (Fin.new id) :: down.map .op)).run
        (pre.map (fun v => Ev.emit (.next v)) ++ e :: post)).2 =
      ((World.init (down.map .op)).run (pre.map (fun v => Ev.emit (.next v)) ++ [e])).2 ++ [.f id] := by
  obtain ⟨h1, e1⟩ := headSim_items pre (headSim_init id down)
  obtain ⟨h2, e2⟩ := headSim_trigger h1 e he
  have e3 := headSpent_run post h2
  rw [run_append, run_append]
  simp only [World.run, e1, e2, e3, List.append_nil, List.append_assoc]

/-- Before the first trigger a chain is as silent about the callback as the plain pipeline:
    items only give the log of the pipeline without `finalize` — no marker. -/
theorem C15_chain_not_before (id : Nat) (down : List St1) (pre : List Val) :
    ((World.init (.fin (Fin.new id) :: down.map .op)).run (pre.map fun v => Ev.emit (.next v))).2 =
      ((World.init (down.map .op)).run (pre.map fun v => Ev.emit (.next v))).2 ∧
    countF id ((World.init (.fin (Fin.new id) :: down.map .op)).run
      (pre.map fun v => Ev.emit (.next v))).2 = 0 := by
  obtain ⟨_, e1⟩ := headSim_items pre (headSim_init id down)
  exact ⟨e1, by rw [e1]; exact ops_no_marker id down _⟩

/-- Full-strength statement for chains: whenever the history contains a trigger, the callback
    has run exactly once — whatever operators follow `finalize`.  (FALSE of the code before `fix:
    Subject::error/complete hand the terminal to every subscriber`, see the end of this file.) -/
theorem C15_chain_full (id : Nat) (down : List St1) (evs : List Ev)
    (h : ∃ e ∈ evs, e.isTrigger = true) :
    countF id ((World.init (.fin (Fin.new id) :: down.map .op)).run evs).2 = 1 := by
  rcases C15_shapes evs with ⟨pre, rfl⟩ | ⟨pre, e, post, he, rfl⟩
  · obtain ⟨e, hm, he⟩ := h
    obtain ⟨v, _, rfl⟩ := List.mem_map.1 hm
    cases he
  · rw [C15_chain_once id down pre e he post, countF_append, ops_no_marker]
    simp [countF]

/-- With operators ABOVE `finalize` as well (`up`; some of them, e.g. `on_error`, keep a terminal
    of the source away from the finalizer, so that for the finalizer's own subscription only the
    unsubscription is a trigger in general): never twice (`C15_chain_le_one`), and exactly once
    as soon as the subscription is unsubscribed — whatever happened before. -/
theorem C15_chain_unsub (id : Nat) (up down : List St1) (pre post : List Ev) :
    countF id ((World.init (up.map .op ++ .fin (Fin.new id) :: down.map .op)).run
      (pre ++ .unsub :: post)).2 = 1 := by
  have h0 := one_fin_init id up down
  rw [run_append]
  simp only [World.run, countF_append]
  -- w0 --pre--> w1 --unsub--> w2 --post--> w3
  have hp := run_count id (World.init (up.map .op ++ .fin (Fin.new id) :: down.map .op)) pre
  have hi := heldOrSpent_run id _ pre
    (.inl rfl : HeldOrSpent id (World.init (up.map .op ++ .fin (Fin.new id) :: down.map .op)))
  have hu := step_count id
    ((World.init (up.map .op ++ .fin (Fin.new id) :: down.map .op)).run pre).1 .unsub
  have ha := unsub_armed id _ hi
  have hq := run_count id
    (((World.init (up.map .op ++ .fin (Fin.new id) :: down.map .op)).run pre).1.step .unsub).1 post
  omega

/-! Non-vacuity. -/
example : ((World.init [.fin (Fin.new 0)]).run
    [.emit (.next (.int 1)), .emit .complete, .emit .complete, .unsub]).2 =
    [.n (.next (.int 1)), .n .complete, .f 0] := by decide
example : ((World.init [.fin (Fin.new 0)]).run
    [.emit (.next (.int 1)), .unsub, .emit (.error 3)]).2 = [.n (.next (.int 1)), .f 0] := by decide
example : ((World.init [.fin (Fin.new 0), .op (.last none), .fin (Fin.new 1)]).run
    [.emit (.next (.int 1)), .emit (.next (.int 2)), .emit .complete]).2 =
    [.n (.next (.int 2)), .n .complete, .f 1, .f 0] := by decide
example : (Ev.emit (.error 3)).isTrigger = true ∧ Ev.unsub.isTrigger = true ∧
    (Ev.emit (.next .unit)).isTrigger = false := by decide
-- `subject.finalize(f).take(1)`: `take` completes the probe at the item; the callback runs at the
-- source's completion (and not at a later unsubscribe)
example : ((World.init [.fin (Fin.new 0), .op (.take 1 0 true)]).run
    [.emit (.next (.int 1)), .emit .complete, .unsub]).2 =
    [.n (.next (.int 1)), .n .complete, .f 0] := by decide

/-! The code BEFORE `fix: Subject::error/complete hand the terminal to every subscriber`
    (`World.runBefore`): `subject.finalize(f).take(1)`, item, complete — `take` completes the probe
    at the item; the FinalizerObserver then reported `is_finished()`, the subject filtered it out of
    its completion fan-out and dropped it: the callback never ran (unless somebody still called
    `unsubscribe`).  `C15_chain_full` was false of that code. -/
example : countF 0 ((World.init [.fin (Fin.new 0), .op (.take 1 0 true)]).runBefore
    [.emit (.next (.int 1)), .emit .complete]).2 = 0 := by decide
example : ((World.init [.fin (Fin.new 0), .op (.take 1 0 true)]).run
    [.emit (.next (.int 1)), .emit .complete]).2 = [.n (.next (.int 1)), .n .complete, .f 0] := by decide

end Rx
