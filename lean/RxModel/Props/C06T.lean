import RxModel.Conc.SubjectLts
/-
  C06 (threads clause) — `SubjectThreads` with concurrent producers and
  subscribers.  Model: RxModel/Conc/SubjectLts.lean.

  What is modelled-not-verified: that the Rust critical sections are the ones of
  the LTS (checked by lock-trace correspondence, H2).
-/
namespace Rx
open Conc

/-- **Per-subscriber logs are subsequences of one global broadcast order.**  Any
    number of threads whose programs follow the broadcast discipline of
    `SubjectThreads` (`Bc`: callbacks only inside a marked section of the
    observers cell, each receiver at most once per section — `next`, `error`,
    `complete`, `load`, `subscribe`, `unsubscribe`, `retain`, `len` all do), under
    every schedule, at every moment: the emissions subscriber `u` has received,
    in order, are a subsequence of the global order fixed by the acquisition
    order of the observers mutex. -/
theorem C06_threads {obs : Cell} {s0 s : State} {tr : List (Tid × Act)} (h0 : Init s0)
    (hp : ∀ t, Bc obs .out (s0.prog t)) (r : TRun s0 tr s) (u : Nat) :
    (logOf u tr).Sublist (gorder tr) :=
  common_order h0 hp r u

/-- **Each item at most once**: with emissions labelled distinctly, no
    subscriber log contains a repetition. -/
theorem C06_threads_no_repetition {obs : Cell} {s0 s : State} {tr : List (Tid × Act)}
    (h0 : Init s0) (hp : ∀ t, Bc obs .out (s0.prog t)) (r : TRun s0 tr s)
    (hlab : (gorder tr).Nodup) (u : Nat) : (logOf u tr).Nodup :=
  (common_order h0 hp r u).nodup hlab

/-- Scripts of `next`s (with the chamber and the slots distinct from the
    observers cell and no subscriber listed twice) follow the discipline. -/
theorem C06_threads_next_discipline {obs chamber : Cell} {slot : Nat → Cell}
    (hc : chamber ≠ obs) (hs : ∀ u, slot u ≠ obs) (es : List (Nat × List Nat))
    (hnd : ∀ e ∈ es, e.2.Nodup) : Bc obs .out (subjScript obs chamber slot es) :=
  bc_script hc hs es hnd

/-- **Receiver set of an emission.**  Sections taken as atomic events (justified
    by mutual exclusion: `observers` is only touched under its cell, `chamber`
    only under its cell, `load` holds both).  For the thread emitting `n` with
    program order `call n … load … bcast n`, and arbitrary events of other
    threads (`push`es = subscriptions, other `load`s, other emissions) before
    and in between: the receivers of `n` include every subscriber whose
    `subscribe` completed before the call began, and only subscribers whose
    `subscribe` completed before the broadcast section began. -/
theorem C06_threads_receivers (pre m1 m2 : List SEv) (n : Nat) :
    let tr := pre ++ [.call n] ++ m1 ++ [.load] ++ m2
    let recv := (srun ⟨[], []⟩ tr).obs
    (∀ u ∈ pushes pre, u ∈ recv) ∧ (∀ u ∈ recv, u ∈ pushes tr) :=
  receivers_between pre m1 m2 n

/-- Non-vacuity: both bounds are attained and differ.  Subscriber 7 subscribes
    between the call and the emitter's own `load`: received.  Subscriber 8
    subscribes after the emitter's `load` but another thread's `load` moves it
    into `observers` before the broadcast section: also received.  Subscriber 9
    subscribes after that and stays in the chamber: not received. -/
example : (srun ⟨[], []⟩ ([.push 1] ++ [.call 5] ++ [.push 7] ++ [.load] ++
    [.push 8, .load, .push 9])).obs = [1, 7, 8] := by decide

end Rx
