import RxModel.Conv.Dropped
/-
  C14, robustness corner — a conversion whose consumer (the future / the stream) has been DROPPED
  never makes a terminal of the source panic.

  Property theorems only.  Model: RxModel/Conv/Dropped.lean over RxModel/Conv/Convert.lean (suite
  `convert`, event `drop`).  `sendFailed` is the model's record of "an `unbounded_send` that the
  observer `expect`s has returned `Err`" = the panic `failed to send …` of src/ops/future.rs /
  src/ops/stream.rs.

  Background: with `fix: Subject::error/complete hand the terminal to every subscriber` a subject
  calls `error` / `complete` also on an observer that reports `is_finished()` — for these two
  observers `sender.is_closed()`, i.e. exactly the dropped consumer — where it used to skip it.  The
  companion `fix: a dropped future/stream cannot make a terminal panic` makes the terminal paths
  ignore the failed send; cold sources (`create`, `interval().take(n)` …) always called them and
  panicked there before.
-/
namespace Rx.Conv

/-- `to_future`: no history whatever — items, terminals, post-terminal events, polls, the drop of
    the future at any moment, repeated — makes a send fail. -/
theorem C14_dropped_future_no_panic (m : Model) (es : List DEv) (d : DW FutW) :
    (runD (futDStep m) d es).1.w.chan.sendFailed = d.w.chan.sendFailed := by
  induction es generalizing d with
  | nil => rfl
  | cons e r ih =>
    simp only [runD, runM] at ih ⊢
    rw [ih]
    cases e with
    | drop => simp only [futDStep, dstep]; split <;> rfl
    | ev x =>
      have := FutW.step_sendFailed m d.w x
      cases x <;> simp only [futDStep, dstep] <;> (try split) <;> first | exact this | rfl

/-- `collect().to_future()`: the same. -/
theorem C14_dropped_collect_no_panic (m : Model) (es : List DEv) (d : DW CFW) :
    (runD (cfDStep m) d es).1.w.chan.sendFailed = d.w.chan.sendFailed := by
  induction es generalizing d with
  | nil => rfl
  | cons e r ih =>
    simp only [runD, runM] at ih ⊢
    rw [ih]
    cases e with
    | drop => simp only [cfDStep, dstep]; split <;> rfl
    | ev x =>
      have := CFW.step_sendFailed m d.w x
      cases x <;> simp only [cfDStep, dstep] <;> (try split) <;> first | exact this | rfl

/-- An event that is not an item of the source. -/
def DEv.noItem : DEv → Bool
  | .ev (.emit (.next _)) => false
  | _ => true

/-- `to_stream`: from ANY state — in particular after the stream has been dropped — terminals of
    the source (first or repeated), polls, queries and drops never make a send fail. -/
theorem C14_dropped_stream_terminal_no_panic (m : Model) (es : List DEv)
    (h : ∀ e ∈ es, e.noItem = true) (d : DW StrW) :
    (runD (strDStep m) d es).1.w.chan.sendFailed = d.w.chan.sendFailed := by
  induction es generalizing d with
  | nil => rfl
  | cons e r ih =>
    have hr : ∀ e ∈ r, e.noItem = true := fun x hx => h x (List.mem_cons_of_mem _ hx)
    have he := h e List.mem_cons_self
    simp only [runD, runM] at ih ⊢
    rw [ih hr]
    cases e with
    | drop => simp only [strDStep, dstep]; split <;> rfl
    | ev x =>
      have hx : ∀ v, x ≠ .emit (.next v) := by
        intro v hv; subst hv; cases he
      have := StrW.step_sendFailed m d.w x hx
      cases x <;> simp only [strDStep, dstep] <;> (try split) <;> first | exact this | rfl

/-! Non-vacuity, and what is NOT claimed. -/

-- `subject.to_future()`, an item, the future is dropped, the subject completes / fails: nothing
-- fails, the channel is closed, a registered waker is woken by the sender's `close_channel`
example : ((runD (futDStep .fixed) {w := {}}
    [.ev (.emit (.next (.int 1))), .drop, .ev (.emit .complete)]).1.w.chan.sendFailed,
  (runD (futDStep .fixed) {w := {}}
    [.ev (.emit (.next (.int 1))), .drop, .ev (.emit .complete)]).1.w.obs.isNone) = (false, true) := by
  decide
example : (runD (futDStep .fixed) {w := {}}
    [.ev .poll, .drop, .ev (.emit (.error 7)), .ev .poll]).2 =
    [some .pending, none, some (.woke 1), none] := by decide
-- the dropped observer reports `is_finished()` (= `sender.is_closed()`) while it still sits in the
-- subject's list: the situation the first fix changed
example : ((runD (futDStep .fixed) {w := {}} [.drop]).1.w.chan.isOpen,
  (runD (futDStep .fixed) {w := {}} [.drop]).1.w.obs.isSome) = (false, true) := by decide
-- NOT claimed: a dropped stream whose source emits another ITEM — `ObservableStreamObserver::next`
-- still `expect`s the send (before and after both fixes)
example : (runD (strDStep .fixed) {w := {}} [.drop, .ev (.emit (.next (.int 1)))]).1.w.chan.sendFailed
    = true := by decide
example : (runD (strDStep .fixed) {w := {}} [.ev (.emit (.next (.int 1))), .drop, .ev (.emit (.error 3)),
    .ev (.emit (.next (.int 2)))]).1.w.chan.sendFailed = false := by decide

end Rx.Conv
