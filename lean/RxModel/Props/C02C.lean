import RxModel.Lemmas.ChainQuietMain
import RxModel.Lemmas.ChainSources
/-
  C02 over the chain (time) model — nothing is delivered after `unsubscribe()`
  returned — for EVERY source, EVERY list of stages in initial per-subscription
  state and EVERY history (sub, emissions on any subject incl. post-terminal,
  unsub, clock jumps, fire / poll in any order, run; no bound, every cascade fuel).

  `TW.init src stages` is the world `Driver/SuiteTime.lean` builds;
  `Stage.Initial` (Lemmas/ChainQuietDefs.lean): handler cells / task handles empty,
  `MultiSubscription`s `some []`, notifier slots unset; operator parameters and
  cell contents are arbitrary.

  Side condition: the subscription that is unsubscribed exists
  (`(TW.run w0 pre).subscribed = true`, e.g. because `.sub ∈ pre`).  Before `sub`
  the event `unsub` is a no-op of the harness and a later `sub` delivers, see
  `C02C_needs_subscription`.
-/
namespace Rx.T
open Rx

/-- The full statement. -/
def C02C_silent_after_unsub_full : Prop :=
  ∀ (src : TSrc) (stages : List Stage), (∀ st ∈ stages, st.Initial) → ∀ pre post : List TW.Ev,
    (TW.run (TW.init src stages) pre).subscribed = true →
    (TW.run (TW.init src stages) (pre ++ [.unsub] ++ post)).log =
      (TW.run (TW.init src stages) (pre ++ [.unsub])).log

/-- **Silence after unsubscribe.**  Whatever happened before (`pre`), whatever is
    pending in the scheduler at that moment and whatever happens afterwards
    (`post`): once `unsub` has returned the probe log never grows. -/
theorem C02C_silent_after_unsub (src : TSrc) (stages : List Stage) (h : ∀ st ∈ stages, st.Initial)
    (pre post : List TW.Ev) (hs : (TW.run (TW.init src stages) pre).subscribed = true) :
    (TW.run (TW.init src stages) (pre ++ [.unsub] ++ post)).log =
      (TW.run (TW.init src stages) (pre ++ [.unsub])).log := by
  have I := (init_qinv src stages h).run pre
  rw [TW.run_append, TW.run_append]
  have q : Quiet (TW.run (TW.run (TW.init src stages) pre) [.unsub]) := I.unsub_quiet hs
  exact (q.run post).2.1

theorem C02C_full : C02C_silent_after_unsub_full := C02C_silent_after_unsub

/-- The same with the side condition in event form: `sub` happened before. -/
theorem C02C_silent_after_sub_unsub (src : TSrc) (stages : List Stage) (h : ∀ st ∈ stages, st.Initial)
    (pre post : List TW.Ev) (hs : TW.Ev.sub ∈ pre) :
    (TW.run (TW.init src stages) (pre ++ [.unsub] ++ post)).log =
      (TW.run (TW.init src stages) (pre ++ [.unsub])).log :=
  C02C_silent_after_unsub src stages h pre post (subscribed_of_mem (init_qinv src stages h) pre hs)

/-- `unsubscribe()` itself delivers nothing — in EVERY world, reachable or not. -/
theorem C02C_unsub_delivers_nothing (w : TW) : (TW.step w .unsub).log = w.log := step_unsub_log w

/-- After `unsub` the world is quiet for good: every task is cancelled or finished,
    no subject holds a slot of the chain (the invariant behind the theorem). -/
theorem C02C_quiet_after_unsub (src : TSrc) (stages : List Stage) (h : ∀ st ∈ stages, st.Initial)
    (pre post : List TW.Ev) (hs : (TW.run (TW.init src stages) pre).subscribed = true) :
    Quiet (TW.run (TW.init src stages) (pre ++ [.unsub] ++ post)) := by
  have I := (init_qinv src stages h).run pre
  rw [TW.run_append, TW.run_append]
  exact ((I.unsub_quiet hs).run post).1

/-- Without a subscription `unsub` is a no-op and a later `sub` delivers: the side
    condition is needed (this is about the harness script, not a defect). -/
theorem C02C_needs_subscription :
    (TW.run (TW.init (.cold (.of (.int 1))) []) ([] ++ [.unsub] ++ [.sub])).log ≠
      (TW.run (TW.init (.cold (.of (.int 1))) []) ([] ++ [.unsub])).log := by decide

/-! ### non-vacuity -/

/-- hot source → delay(5) → debounce(3) → map(+0 as `mapTo`)… : three stages, two of them timed. -/
def C02C_world : TW :=
  TW.init (.hot 0) [.delay 5 true (some []), .debounce 3 true none none, .op1 (.tap 0)]

theorem C02C_world_initial :
    ∀ st ∈ [Stage.delay 5 true (some []), .debounce 3 true none none, .op1 (.tap 0)], st.Initial := by
  intro st hst
  simp only [List.mem_cons, List.not_mem_nil, or_false] at hst
  rcases hst with rfl | rfl | rfl <;> simp [Stage.Initial]

/-- Two items are in flight in `delay` (tasks pending, timers armed) when `unsub` happens;
    without the `unsub` the same continuation delivers, with it nothing arrives. -/
example :
    let pre : List TW.Ev := [.sub, .emit 0 (.next (.int 1)), .run, .adv 2, .emit 0 (.next (.int 2)), .run]
    let post : List TW.Ev := [.adv 10, .run, .adv 10, .run, .emit 0 (.next (.int 3)), .adv 20, .run]
    (TW.run C02C_world pre).subscribed = true ∧
    (TW.run C02C_world pre).sched.liveTasks.length = 2 ∧
    (TW.run C02C_world (pre ++ post)).log = [.next (.int 2)] ∧
    (TW.run C02C_world (pre ++ [.unsub] ++ post)).log = [] := by decide

/-- The debounce task is pending at the time of `unsub`. -/
example :
    let pre : List TW.Ev := [.sub, .emit 0 (.next (.int 1)), .run, .adv 5, .run]
    let post : List TW.Ev := [.adv 3, .run, .fire 0, .poll 0, .poll 1, .run]
    (TW.run C02C_world pre).sched.liveTasks.length = 1 ∧
    (TW.run C02C_world (pre ++ post)).log = [.next (.int 1)] ∧
    (TW.run C02C_world (pre ++ [.unsub] ++ post)).log = [] := by decide

/-- subscribe_on whose task has not run yet: `unsub` cancels the subscribing task, the
    source is never subscribed. -/
example :
    let w0 := TW.init (.cold (.of (.int 7))) [.subscribeOn (some 4) none, .observeOn true (some [])]
    (TW.run w0 [.sub, .run, .adv 4, .run]).log = [.next (.int 7), .complete] ∧
    (TW.run w0 ([.sub, .run] ++ [.unsub] ++ [.adv 4, .run])).log = [] := by decide

end Rx.T
