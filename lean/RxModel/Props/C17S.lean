import RxModel.Lemmas.CompositeFlat
/-
  C17, composite part — `is_closed()` of MultiSubscription / ZipSubscription /
  BoxSubscription / task handles and the teardown of late additions, over the
  model of src/subscription.rs in RxModel/Sub/Composite.lean.

  `Model.code`  = `MultiSubscription::append` as it is in /repo (a handle appended to an
                  unsubscribed composite is dropped without being unsubscribed);
  `Model.fixed` = the repaired `append` (unsubscribes it at once).

  What holds of the code as it is: soundness (a), "after unsubscribe" (c).
  What does not: (d) late append (counterexample, holds for `fixed`), and the literal
  reading of monotonicity (b): a composite whose vector is empty, or holds only closed
  entries, answers `true` while it can still be appended to — in `code` and in `fixed`.
-/
namespace Rx.Comp

/-! ### (a) soundness -/

/-- If `is_closed()` answers true, no leaf that is reachable through the value at that moment
    ever receives anything again — whatever happens afterwards (any model, any world, any history). -/
theorem C17_composite_sound (m : Model) (w : W) (s : Sub) (h : isClosed w s = true)
    (i : Nat) (hi : i ∈ reach w s) (es : List Op) : (run m w es).1.alive i = false :=
  (run_aliveLe m es w).dead (isClosed_sound w s h i hi)

/-- The same along a history from the initial world: a `closed` question answered `true`
    silences the reachable leaves for every continuation. -/
theorem C17_composite_sound_history (m : Model) (n : Nat) (es₁ es₂ : List Op) (s : Sub)
    (h : (step m (run m (init n) es₁).1 (.closed s)).2 = .closed true)
    (i : Nat) (hi : i ∈ reach (run m (init n) es₁).1 s) :
    (run m (run m (init n) es₁).1 es₂).1.alive i = false := by
  have h' : isClosed (run m (init n) es₁).1 s = true := by
    simpa [step] using h
  exact C17_composite_sound m _ s h' i hi es₂

/-- A dead leaf stays dead: no operation of the universe revives a subscriber. -/
theorem C17_leaf_monotone (m : Model) (w : W) (i : Nat) (h : isClosed w (.leaf i) = true) (es : List Op) :
    isClosed (run m w es).1 (.leaf i) = true := by
  have hd : w.alive i = false := by simpa [isClosed, isClosedAt] using h
  have := (run_aliveLe m es w).dead hd
  simp [isClosed, isClosedAt, this]

/-! ### (b) monotonicity -/

/-- Full-strength statement: once true, never false again, along every history. -/
def MonotoneSpec (m : Model) : Prop :=
  ∀ (es₁ es₂ : List Op) (s : Sub), isClosed (run m init es₁).1 s = true →
    isClosed (run m init (es₁ ++ es₂)).1 s = true

/-- It fails, before and after the repair of `append`: an empty composite answers `true`
    (vacuously: all of its zero entries are closed), then accepts a live subscription. -/
theorem C17_composite_monotone_counterexample (m : Model) : ¬ MonotoneSpec m := by
  intro h
  cases m with
  | code =>
    have h' := h [] [.append 0 (.leaf 0)] (.multi 0) (by decide)
    revert h'
    decide
  | fixed =>
    have h' := h [] [.append 0 (.leaf 0)] (.multi 0) (by decide)
    revert h'
    decide

/-- … and the appended subscription then receives (literal reading of soundness). -/
theorem C17_vacuous_closed_then_delivers (m : Model) :
    (run m init [.closed (.multi 0), .append 0 (.leaf 0), .emit 5]).2 =
      [.closed true, .ok, .out [(0, 5), (1, 5), (2, 5)]] := by
  cases m <;> decide

/-- What does hold (partial): a composite that has been UNSUBSCRIBED (its cell is gone) answers
    `true` for ever, whatever is done afterwards — appends included. -/
theorem C17_composite_monotone_partial (m : Model) (w : W) (j : Nat) (h : w.cell j = none) (es : List Op) :
    isClosed (run m w es).1 (.multi j) = true :=
  isClosed_multi_of_none _ j (run_noneLe m es w j h)

/-! ### (c) after unsubscribe -/

/-- After `unsubscribe()` every remaining clone of the composite reports closed, for ever. -/
theorem C17_after_unsub_closed (m : Model) (w : W) (j : Nat) (es : List Op) :
    isClosed (run m w (.unsub (.multi j) :: es)).1 (.multi j) = true := by
  simp only [run]
  exact C17_composite_monotone_partial m _ j (unsub_multi_cell_none j w) es

/-- After `unsubscribe()` of a value every leaf that was reachable through it is dead, for ever
    (worlds without a composite inside a composite; nested composites: correspondence + oracle). -/
theorem C17_after_unsub_children_dead (m : Model) (w : W) (hw : Flat w) (s : Sub) (i : Nat)
    (hi : i ∈ reach w s) (es : List Op) : (run m w (.unsub s :: es)).1.alive i = false := by
  simp only [run]
  exact (run_aliveLe m es _).dead (unsub_kills_flat w hw s i hi)

/-- One level of composites, any world (cyclic ones included): the entries of an unsubscribed
    composite that are not composites themselves are dead. -/
theorem C17_after_unsub_direct_children_dead (w : W) (s : Sub) (i : Nat) (hi : i ∈ reach1 w s) :
    (unsub1 s w).alive i = false := unsub1_kills w s i hi

/-! ### (d) late append -/

/-- Whatever is appended to a composite that has already been unsubscribed is unsubscribed at
    once: every leaf reachable through it is dead right after the `append`. -/
def LateAppendSpec (m : Model) : Prop :=
  ∀ (w : W), Flat w → ∀ (j : Nat) (s : Sub) (i : Nat), w.cell j = none → i ∈ reach w s →
    (step m w (.append j s)).1.alive i = false

/-- The repaired `append` satisfies it. -/
theorem C17_late_append : LateAppendSpec .fixed := by
  intro w hw j s i hc hi
  show (appendChild .fixed j (.sub s) w).alive i = false
  unfold appendChild
  rw [hc]
  exact unsub_kills_flat w hw s i hi

/-- The code as it is does not: `unsubscribe m0; m0.append(l0)` leaves subscriber 0 alive. -/
theorem C17_late_append_code_counterexample : ¬ LateAppendSpec .code := by
  intro h
  have hflat : Flat (run .code init [.unsub (.multi 0)]).1 := by
    intro j cs hc
    match j with
    | 0 =>
      have h0 : (run .code init [.unsub (.multi 0)]).1.cell 0 = none := by decide
      rw [h0] at hc
      cases hc
    | 1 =>
      have : cs = [] := by
        have h1 : (run .code init [.unsub (.multi 0)]).1.cell 1 = some [] := by decide
        rw [h1] at hc
        cases hc
        rfl
      subst this
      intro s hs
      simp at hs
    | (n + 2) => exact absurd hc (by simp [W.cell])
  have h' := h _ hflat 0 (.leaf 0) 0 (by decide) (by decide)
  revert h'
  decide

/-- The same as a trace of the model of the code: the late subscriber still receives. -/
theorem C17_late_append_code_trace :
    (run .code init [.unsub (.multi 0), .append 0 (.leaf 0), .closed (.multi 0), .closed (.leaf 0), .emit 5]).2 =
      [.ok, .ok, .closed true, .closed false, .out [(0, 5), (1, 5), (2, 5)]] := by
  decide

/-- … and a task handle appended late (what delay / observe_on / merge_all do) still runs. -/
theorem C17_late_append_task_code_trace :
    (run .code init [.unsub (.multi 0), .appendTask 0 7, .run]).2 = [.ok, .ok, .ran [7]] := by
  decide

theorem C17_late_append_fixed_trace :
    (run .fixed init [.unsub (.multi 0), .append 0 (.leaf 0), .appendTask 0 7, .closed (.leaf 0), .emit 5, .run]).2 =
      [.ok, .ok, .ok, .closed true, .out [(1, 5), (2, 5)], .ran []] := by
  decide

/-- What the code as it is does guarantee (partial): a late `append` changes nothing at all —
    the handle is dropped, nothing is unsubscribed, nothing is stored. -/
theorem C17_late_append_partial (w : W) (j : Nat) (s : Sub) (h : w.cell j = none) :
    (step .code w (.append j s)).1 = w := by
  show appendChild .code j (.sub s) w = w
  unfold appendChild
  rw [h]

/-! ### the same along ALL histories (from the initial world, no composite put into a composite) -/

/-- (c) along every history: after `unsubscribe()` of a value, every leaf that was reachable
    through it is dead for every continuation. -/
theorem C17_after_unsub_children_dead_history (m : Model) (n : Nat) (es₁ es₂ : List Op)
    (h₁ : ∀ e ∈ es₁, FlatOp e) (s : Sub) (i : Nat) (hi : i ∈ reach (run m (init n) es₁).1 s) :
    (run m (run m (init n) es₁).1 (.unsub s :: es₂)).1.alive i = false :=
  C17_after_unsub_children_dead m _ (run_flat m es₁ _ (flat_init n) h₁) s i hi es₂

/-- (d) along every history of the repaired code: a value appended to an unsubscribed composite
    is dead at once and stays dead. -/
theorem C17_late_append_history (n : Nat) (es₁ es₂ : List Op) (h₁ : ∀ e ∈ es₁, FlatOp e)
    (j : Nat) (s : Sub) (i : Nat) (hc : (run .fixed (init n) es₁).1.cell j = none)
    (hi : i ∈ reach (run .fixed (init n) es₁).1 s) :
    (run .fixed (run .fixed (init n) es₁).1 (.append j s :: es₂)).1.alive i = false := by
  simp only [run]
  exact (run_aliveLe .fixed es₂ _).dead
    (C17_late_append _ (run_flat .fixed es₁ _ (flat_init n) h₁) j s i hc hi)

/-- (d) in the words of the property: unsubscribe the composite, do anything, append: dead. -/
theorem C17_late_append_after_unsub (n : Nat) (es₀ es₁ es₂ : List Op)
    (h₀ : ∀ e ∈ es₀, FlatOp e) (h₁ : ∀ e ∈ es₁, FlatOp e) (j : Nat) (s : Sub) (i : Nat)
    (hi : i ∈ reach (run .fixed (run .fixed (init n) es₀).1 (.unsub (.multi j) :: es₁)).1 s) :
    (run .fixed (run .fixed (run .fixed (init n) es₀).1 (.unsub (.multi j) :: es₁)).1
      (.append j s :: es₂)).1.alive i = false := by
  have hflat : Flat (run .fixed (run .fixed (init n) es₀).1 (.unsub (.multi j) :: es₁)).1 :=
    run_flat .fixed _ _ (run_flat .fixed es₀ _ (flat_init n) h₀)
      (fun e he => by
        cases he with
        | head => exact trivial
        | tail _ h => exact h₁ e h)
  have hnone : (run .fixed (run .fixed (init n) es₀).1 (.unsub (.multi j) :: es₁)).1.cell j = none := by
    simp only [run]
    exact run_noneLe .fixed es₁ _ j (unsub_multi_cell_none j _)
  simp only [run]
  exact (run_aliveLe .fixed es₂ _).dead (C17_late_append _ hflat j s i hnone hi)

/-- (d') a late addition made WHILE the composite is being torn down — by an entry whose own
    `unsubscribe()` appends to the same composite — is torn down too: once `m_j.unsubscribe()` has
    returned, every leaf reachable through the addition is dead, for every continuation. -/
theorem C17_reentrant_append_torn_down (w : W) (hw : Flat w) (j : Nat) (s : Sub) (i : Nat)
    (hi : i ∈ reach (unsub (.multi j) w) s) (es : List Op) :
    (run .fixed w (.unsubReapp j s :: es)).1.alive i = false := by
  simp only [run, step]
  exact (run_aliveLe .fixed es _).dead
    (unsub_kills_flat _ (hw.of_cellLe (unsub_cellLe (.multi j) w)) s i hi)

/-! ### non-vacuity -/

example : (run .fixed init [.append 0 (.leaf 0), .unsubReapp 0 (.leaf 1), .closed (.multi 0), .emit 4]).2 =
    [.ok, .ok, .closed true, .out [(2, 4)]] := by decide

example : Flat (init 3) := flat_init 3

example : (run .code init [.append 0 (.leaf 0), .append 0 (.zip (.leaf 1) (.multi 1)), .append 1 (.leaf 2),
    .closed (.multi 0), .unsub (.multi 0), .closed (.multi 0), .closed (.multi 1), .emit 1]).2 =
    [.ok, .ok, .ok, .closed false, .ok, .closed true, .closed true, .out []] := by decide

example : reach (run .code init [.append 0 (.leaf 0), .append 0 (.multi 1), .append 1 (.leaf 2)]).1 (.multi 0)
    = [0, 2] := by decide

end Rx.Comp
