import RxModel.Lemmas.MergeAllCompletion
import RxModel.Lemmas.MergeAllOnce
/-
  C05 — Flattening (merge_all(n), concat_all, flatten, flat_map, concat_map)
  delivers every inner item once and honours the concurrency limit.

  Property theorems only.  Model: RxModel/Ops/MergeAll.lean (transcription of
  src/ops/merge_all.rs; `MergeAll.run` = the code as it is, `MergeAll.Fixed.run`
  = the repaired code, both instances of `runG fixed`).  Helper lemmas:
  RxModel/Lemmas/MergeAll*.lean.  The theorems quantify over every table of
  inner observables (any mix of cold and hot), every limit and every list of
  external events (= every outer script and every interleaving).
-/
namespace Rx
open MergeAll

/-! ### Concurrency limit -/

/-- The code's counter never exceeds the limit, and neither does the number of
    inner observables subscribed and not yet completed (ghost counters `started`
    / `completed`, incremented at the `actual_subscribe` and `complete` calls).
    Code as it is; any limit, any history (errors and unsubscription included). -/
theorem C05_limit (inners : List Inner) (n : Nat) (evs : List Ev) :
    (run (init inners n) evs).1.subscribed ≤ n ∧
    (run (init inners n) evs).1.started - (run (init inners n) evs).1.completed ≤ n := by
  have h := runG_limit false evs (init inners n) (init_limit inners n)
  have hc : (runG false (init inners n) evs).1.concurrent = n := h.2
  unfold run
  obtain ⟨⟨h1, h2⟩, _⟩ := h
  rw [hc] at h1
  omega

/-- The same for the repaired code. -/
theorem C05_limit_fixed (inners : List Inner) (n : Nat) (evs : List Ev) :
    (Fixed.run (init inners n) evs).1.subscribed ≤ n ∧
    (Fixed.run (init inners n) evs).1.started - (Fixed.run (init inners n) evs).1.completed ≤ n := by
  have h := runG_limit true evs (init inners n) (init_limit inners n)
  have hc : (runG true (init inners n) evs).1.concurrent = n := h.2
  unfold Fixed.run
  obtain ⟨⟨h1, h2⟩, _⟩ := h
  rw [hc] at h1
  omega

/-! ### No panic, no re-lock -/

/-- Full-strength statement: no history makes the operator panic (`RefCell
    already borrowed`) or re-lock its own mutex. -/
def C05_no_stuck_statement (run : St → List Ev → St × List Out) : Prop :=
  ∀ (inners : List Inner) (n : Nat) (evs : List Ev), (run (init inners n) evs).1.stuck = false

/-- It is FALSE for the code as it is: with limit 1, a hot inner followed by a
    queued cold inner; the completion of the first starts the second while the
    cell is still borrowed (merge_all.rs:160-163).  This is the replay
    `limit 1; inners (hot 0) (cold () c); outer (o 0); outer (o 1); inner 0 c`. -/
theorem C05_no_stuck_counterexample :
    (run (init [.hot 0, .cold [] .complete] 1)
      [.outerNext 0, .outerNext 1, .innerComplete 0]).1.stuck = true := by decide

theorem C05_no_stuck_false : ¬ C05_no_stuck_statement run := by
  intro h
  have := h [.hot 0, .cold [] .complete] 1 [.outerNext 0, .outerNext 1, .innerComplete 0]
  rw [C05_no_stuck_counterexample] at this
  cases this

/-- What does hold of the code as it is: an event cannot get stuck when no queued
    inner observable emits or terminates inside `actual_subscribe` (all queued
    inners hot, or cold and silent).  Missing: queued synchronous inners. -/
theorem C05_no_stuck_partial_step (s : St) (ev : Ev) (h : s.stuck = false) (hq : QueueQuiet s) :
    (step s ev).1.stuck = false :=
  stepG_stuck false s ev h (Or.inr hq)

/-- … and hence a history cannot, if the queue is quiet before each of its events. -/
theorem C05_no_stuck_partial (inners : List Inner) (n : Nat) (evs : List Ev)
    (hq : ∀ pre ev post, evs = pre ++ ev :: post → QueueQuiet (run (init inners n) pre).1) :
    (run (init inners n) evs).1.stuck = false :=
  runG_stuck_quiet evs (init inners n) rfl hq

/-- The repaired code (borrow released before the deferred subscription runs)
    satisfies the full-strength statement. -/
theorem C05_no_stuck : C05_no_stuck_statement Fixed.run :=
  fun inners n evs => runG_stuck_fixed evs (init inners n) rfl

/-! ### Completion

  Error-free histories: no cold inner of the table ends with an error
  (`NoErrTable`), no error event on the outer stream or a hot inner, no
  unsubscription (`Ev.benign`).  `arrivals` counts the inner observables the
  outer stream delivered, `completed` the inner completions the operator
  received (ghost counters of the model); `outsideCompleted` is the code's flag.
  The theorems hold for every history, hence for every prefix of a history:
  downstream has completed after exactly those prefixes after which the outer
  stream and all inner streams have completed — not before, and without delay. -/

/-- Repaired code, any limit `1 ≤ n`. -/
theorem C05_completion (inners : List Inner) (n : Nat) (evs : List Ev) (hn : 1 ≤ n)
    (ht : NoErrTable inners) (hb : ∀ ev ∈ evs, Ev.benign ev = true) :
    Out.complete ∈ (Fixed.run (init inners n) evs).2 ↔
      ((Fixed.run (init inners n) evs).1.outsideCompleted = true ∧
       (Fixed.run (init inners n) evs).1.completed = (Fixed.run (init inners n) evs).1.arrivals) := by
  have h := runG_inv true evs (init inners n) (init_inv inners n hn ht) hb
    (runG_stuck_fixed evs _ rfl)
  unfold Fixed.run
  rw [h.2.1, h.1.done]
  have h1 := h.1.cnt; have h2 := h.1.arr
  constructor
  · rintro ⟨_, ho, hs, hq⟩
    rw [hq] at h2
    exact ⟨ho, by simp at h2; omega⟩
  · rintro ⟨ho, hc⟩
    refine ⟨rfl, ho, by omega, ?_⟩
    apply List.eq_nil_of_length_eq_zero; omega

/-- The code as it is, on the histories on which it does not get stuck. -/
theorem C05_completion_partial (inners : List Inner) (n : Nat) (evs : List Ev) (hn : 1 ≤ n)
    (ht : NoErrTable inners) (hb : ∀ ev ∈ evs, Ev.benign ev = true)
    (hs : (run (init inners n) evs).1.stuck = false) :
    Out.complete ∈ (run (init inners n) evs).2 ↔
      ((run (init inners n) evs).1.outsideCompleted = true ∧
       (run (init inners n) evs).1.completed = (run (init inners n) evs).1.arrivals) := by
  have h := runG_inv false evs (init inners n) (init_inv inners n hn ht) hb hs
  unfold run
  rw [h.2.1, h.1.done]
  have h1 := h.1.cnt; have h2 := h.1.arr
  constructor
  · rintro ⟨_, ho, hs, hq⟩
    rw [hq] at h2
    exact ⟨ho, by simp at h2; omega⟩
  · rintro ⟨ho, hc⟩
    refine ⟨rfl, ho, by omega, ?_⟩
    apply List.eq_nil_of_length_eq_zero; omega

/-- On error-free histories the code's counter *is* the number of inner
    observables subscribed and not yet completed, and every arrived inner is
    either started or queued (repaired code; `1 ≤ n`). -/
theorem C05_accounting (inners : List Inner) (n : Nat) (evs : List Ev) (hn : 1 ≤ n)
    (ht : NoErrTable inners) (hb : ∀ ev ∈ evs, Ev.benign ev = true) :
    (Fixed.run (init inners n) evs).1.started =
      (Fixed.run (init inners n) evs).1.subscribed + (Fixed.run (init inners n) evs).1.completed ∧
    (Fixed.run (init inners n) evs).1.arrivals =
      (Fixed.run (init inners n) evs).1.started + (Fixed.run (init inners n) evs).1.queue.length := by
  have h := runG_inv true evs (init inners n) (init_inv inners n hn ht) hb
    (runG_stuck_fixed evs _ rfl)
  exact ⟨h.1.cnt, h.1.arr⟩

/-! ### Every item once, in order

  An inner observable is identified by its arrival: the history is split at
  the outer event `outerNext k` that delivers it; the tag it receives is the
  arrival counter at that moment (ghost, attached by the model to every item).
  `restrict t out` is the sub-sequence of the output produced by instance `t`.
  For a cold inner with script `xs` it is `xs` — every item, once, in order —
  as soon as the instance has left the queue, and empty while it is queued;
  in particular nothing of it is emitted before its arrival, nothing twice.
  Any limit, any history (errors and unsubscription included: they can only
  keep the instance queued for ever). -/

/-- Repaired code. -/
theorem C05_once_in_order (inners : List Inner) (n : Nat) (pre post : List Ev) (k : Nat)
    (xs : List Val) (fin : Fin) (hk : (init inners n).inner k = .cold xs fin)
    (ho : (Fixed.run (init inners n) pre).1.outerOpen = true)
    (ha : (Fixed.run (init inners n) pre).1.alive = true) :
    restrict (Fixed.run (init inners n) pre).1.arrivals
        (Fixed.run (init inners n) (pre ++ .outerNext k :: post)).2 =
      if nTag (Fixed.run (init inners n) (pre ++ .outerNext k :: post)).1.queue
            (Fixed.run (init inners n) pre).1.arrivals = 0 then xs else [] :=
  runG_once true inners n pre post k xs fin hk ho ha (runG_stuck_fixed _ _ rfl)

/-- The code as it is, on the histories on which it does not get stuck. -/
theorem C05_once_in_order_partial (inners : List Inner) (n : Nat) (pre post : List Ev) (k : Nat)
    (xs : List Val) (fin : Fin) (hk : (init inners n).inner k = .cold xs fin)
    (ho : (run (init inners n) pre).1.outerOpen = true)
    (ha : (run (init inners n) pre).1.alive = true)
    (hs : (run (init inners n) (pre ++ .outerNext k :: post)).1.stuck = false) :
    restrict (run (init inners n) pre).1.arrivals
        (run (init inners n) (pre ++ .outerNext k :: post)).2 =
      if nTag (run (init inners n) (pre ++ .outerNext k :: post)).1.queue
            (run (init inners n) pre).1.arrivals = 0 then xs else [] :=
  runG_once false inners n pre post k xs fin hk ho ha hs

/-- Once downstream has completed (error-free history, `1 ≤ n`), every cold
    inner that arrived has delivered its whole script (repaired code). -/
theorem C05_once_when_complete (inners : List Inner) (n : Nat) (pre post : List Ev) (k : Nat)
    (xs : List Val) (fin : Fin) (hn : 1 ≤ n) (ht : NoErrTable inners)
    (hb : ∀ ev ∈ pre ++ .outerNext k :: post, Ev.benign ev = true)
    (hk : (init inners n).inner k = .cold xs fin)
    (ho : (Fixed.run (init inners n) pre).1.outerOpen = true)
    (ha : (Fixed.run (init inners n) pre).1.alive = true)
    (hc : Out.complete ∈ (Fixed.run (init inners n) (pre ++ .outerNext k :: post)).2) :
    restrict (Fixed.run (init inners n) pre).1.arrivals
        (Fixed.run (init inners n) (pre ++ .outerNext k :: post)).2 = xs := by
  rw [C05_once_in_order inners n pre post k xs fin hk ho ha]
  have h := runG_inv true _ (init inners n) (init_inv inners n hn ht) hb (runG_stuck_fixed _ _ rfl)
  have hq : (Fixed.run (init inners n) (pre ++ .outerNext k :: post)).1.queue = [] :=
    (h.1.done.mp ((h.2.1.mp hc).2)).2.2
  rw [hq]; simp [nTag]

/-! ### Non-vacuity and the excluded limit 0 -/

-- the counterexample history is fine on the repaired code and delivers the queued inner
example : (Fixed.run (init [.hot 0, .cold [.int 1, .int 2] .complete] 1)
      [.outerNext 0, .outerNext 1, .innerNext 0 (.int 9), .innerComplete 0, .outerComplete]).2
    = [.item 0 (.int 9), .item 1 (.int 1), .item 1 (.int 2), .complete] := by decide

-- a history with a non-empty quiet queue (hypothesis of the partial theorem is satisfiable)
example : QueueQuiet (run (init [.hot 0, .hot 1] 1) [.outerNext 0, .outerNext 1]).1
    ∧ (run (init [.hot 0, .hot 1] 1) [.outerNext 0, .outerNext 1]).1.queue ≠ [] := by
  constructor
  · intro i hi
    have : i = ⟨1, 1⟩ := by simpa [run, runG, stepG, outerNext, startTop, init, St.inner] using hi
    subst this; rfl
  · decide

-- the hypotheses of the completion theorem are satisfiable, with a completing history
example : NoErrTable [.hot 0, .cold [.int 1, .int 2] .complete] := by
  intro xs e h; simp at h
example : Out.complete ∈ (Fixed.run (init [.hot 0, .cold [.int 1, .int 2] .complete] 1)
      [.outerNext 0, .outerNext 1, .outerComplete, .innerComplete 0]).2
    ∧ Out.complete ∉ (Fixed.run (init [.hot 0, .cold [.int 1, .int 2] .complete] 1)
      [.outerNext 0, .outerNext 1, .outerComplete]).2 := by decide

-- an instance of `C05_once_in_order` with a queued, then started, cold inner
example : restrict 1 (Fixed.run (init [.hot 0, .cold [.int 1, .int 2] .complete] 1)
      ([.outerNext 0] ++ .outerNext 1 :: [.innerNext 0 (.int 9), .innerComplete 0])).2
    = [.int 1, .int 2] := by decide
example : (Fixed.run (init [.hot 0, .cold [.int 1, .int 2] .complete] 1) [.outerNext 0]).1.outerOpen = true
    ∧ (Fixed.run (init [.hot 0, .cold [.int 1, .int 2] .complete] 1) [.outerNext 0]).1.alive = true
    ∧ (Fixed.run (init [.hot 0, .cold [.int 1, .int 2] .complete] 1) [.outerNext 0]).1.arrivals = 1 := by
  decide

-- limit 0 is excluded: the code queues every inner forever and never completes
example : (run (init [.cold [.int 1] .complete] 0) [.outerNext 0, .outerComplete]).2 = []
    ∧ (run (init [.cold [.int 1] .complete] 0) [.outerNext 0, .outerComplete]).1.queue = [⟨0, 0⟩] := by
  decide

end Rx
