import RxModel.Lemmas.ChainFifoSubMain
import RxModel.Props.C01C
/-
  C07C (multi) — order / subsequence under the FIFO executor for chains with SEVERAL
  scheduler-using stages.

  C07 is about ONE `observe_on` / `delay d` stage, C07C about one such stage between synchronous
  operators.  Here the chain

      hot subject 0 → stage₁ → … → stageₙ → probe

  is ANY list of stages (any number, any order), each in its per-subscription initial state and
  each one of

    * a *filtering* single-input operator (`Op1.filtering`: filter, tap, on_error_map, take,
      take_while, skip, skip_while, take_last, skip_last, last, the distinct family), any
      parameters / closures;
    * `debounce d`;  `throttle d edge` (all three edge modes);
    * `observe_on`;  `delay d`

  so `[delay d₁, delay d₂]`, `[debounce d, observe_on]`, `[observe_on, observe_on]`,
  `[throttle, observe_on, filter, delay 3, debounce 2]` … ; histories are ALL lists of
  FIFO-executor events (`FifoEv`: emissions of any subject / any notification also after a
  terminal, clock advances, `run` = fire all due timers, poll all woken tasks in spawn order,
  repeat), no bound.

  * `C07C_multi_subsequence` — the items at the probe are, in order, a SUBSEQUENCE of the items
    subject 0 emitted before its first terminal: nothing is invented, duplicated or reordered by
    any combination of movers, rate limiters and filters;
  * `C07C_multi_nodup`, `C07C_multi_mem`, `C07C_multi_length`, `C07C_multi_wf` — corollaries;
  * `C07C_multi_delay_delay`, `C07C_multi_debounce_observeOn`, `C07C_multi_observeOn_observeOn`,
    `C07C_multi_mixed`, `C07C_multi_pre_mover_post` — readable instances;
  * `C07C_multi_fifo_needed` — for an executor that may poll tasks in another order the
    statement is FALSE already for `[observe_on, observe_on]` (cf. `C07_reorder_counterexample`).

  Proof (Lemmas/ChainFifoSub*.lean): ghost histories as in C09C, but the relation of a mover
  mentions the scheduler: `items out ++ items (pend j s) ⊑ items inp`, where `pend j s` are the
  notifications the mover at position `j` has handed to the scheduler and that are still to be
  delivered (tasks not finished / not cancelled), in spawn order.  Delivering the notification of
  a task is sound iff that task is the FIRST pending one of its mover — which is what the FIFO
  executor guarantees: `Disc` (every pending task is fresh or armed; armed ones come first, with
  non-decreasing due times, fired timers before unfired ones) is an invariant of emissions,
  clock advances, "fire all due timers" and of every single poll of a pass (`Rdy`: the woken
  tasks not yet polled in this pass are exactly those still in the list).  The cascade's fuel
  plays no role (only sublist facts are claimed).
-/
namespace Rx.T
open Rx Rx.Spec

/-- Items are neither invented nor duplicated nor reordered by ANY chain of filtering
    operators, debounce, throttle, observe_on and delay stages under the FIFO executor. -/
theorem C07C_multi_subsequence (stages : List Stage)
    (hs : ∀ st ∈ stages,
      (∃ op : Op1, op.filtering = true ∧ st = .op1 (Op1.init op)) ∨
      (∃ d, st = .debounce d true none none) ∨
      (∃ d e, st = .throttle d e true none none) ∨
      st = .observeOn true (some []) ∨
      (∃ d, st = .delay d true (some [])))
    (evs : List TW.Ev) (h : ∀ e ∈ evs, FifoEv e) :
    (items (evs.foldl TW.step (TW.step { src := .hot 0, stages := stages } .sub)).log).Sublist
      (items (gate (script evs))) :=
  multi_final stages (fun st hst => Stage.initF_of_cases (hs st hst)) evs h

/-- The same with the stage class as one predicate (`Stage.InitF`). -/
theorem C07C_multi_subsequence_initF (stages : List Stage) (hs : ∀ st ∈ stages, st.InitF)
    (evs : List TW.Ev) (h : ∀ e ∈ evs, FifoEv e) :
    (items (chainRunF stages evs).log).Sublist (items (gate (script evs))) :=
  multi_final stages hs evs h

/-- Stage 1 of the development, kept for the record: the movers are `observe_on` only. -/
theorem C07C_multi_subsequence_obs (stages : List Stage)
    (hs : ∀ st ∈ stages,
      (∃ op : Op1, op.filtering = true ∧ st = .op1 (Op1.init op)) ∨
      (∃ d, st = .debounce d true none none) ∨
      (∃ d e, st = .throttle d e true none none) ∨
      st = .observeOn true (some []))
    (evs : List TW.Ev) (h : ∀ e ∈ evs, FifoEv e) :
    (items (evs.foldl TW.step (TW.step { src := .hot 0, stages := stages } .sub)).log).Sublist
      (items (gate (script evs))) :=
  C07C_multi_subsequence stages
    (fun st hst => by
      rcases hs st hst with h | h | h | h
      · exact Or.inl h
      · exact Or.inr (Or.inl h)
      · exact Or.inr (Or.inr (Or.inl h))
      · exact Or.inr (Or.inr (Or.inr (Or.inl h)))) evs h

/-- Distinct source items stay distinct at the probe. -/
theorem C07C_multi_nodup (stages : List Stage) (hs : ∀ st ∈ stages, st.InitF)
    (evs : List TW.Ev) (h : ∀ e ∈ evs, FifoEv e) (hn : (items (gate (script evs))).Nodup) :
    (items (chainRunF stages evs).log).Nodup :=
  (multi_final stages hs evs h).nodup hn

/-- Every item at the probe was emitted by subject 0 before its first terminal. -/
theorem C07C_multi_mem (stages : List Stage) (hs : ∀ st ∈ stages, st.InitF)
    (evs : List TW.Ev) (h : ∀ e ∈ evs, FifoEv e) (v : Val) (hv : v ∈ items (chainRunF stages evs).log) :
    v ∈ items (gate (script evs)) :=
  (multi_final stages hs evs h).subset hv

theorem C07C_multi_length (stages : List Stage) (hs : ∀ st ∈ stages, st.InitF)
    (evs : List TW.Ev) (h : ∀ e ∈ evs, FifoEv e) :
    (items (chainRunF stages evs).log).length ≤ (items (gate (script evs))).length :=
  (multi_final stages hs evs h).length_le

/-- … and the probe log is well formed (items, at most one terminal, then nothing): C01C. -/
theorem C07C_multi_wf (stages : List Stage) (hs : ∀ st ∈ stages, st.InitF) (evs : List TW.Ev) :
    WF (chainRunF stages evs).log := by
  rw [chainRunF_eq]
  exact C01C_chain_grammar (.hot 0) stages (fun st h => (hs st h).initial) (.sub :: evs)

/-! ### readable instances -/

/-- Two delays in a row. -/
theorem C07C_multi_delay_delay (d1 d2 : Nat) (evs : List TW.Ev) (h : ∀ e ∈ evs, FifoEv e) :
    (items (evs.foldl TW.step (TW.step
      { src := .hot 0, stages := [.delay d1 true (some []), .delay d2 true (some [])] } .sub)).log).Sublist
      (items (gate (script evs))) :=
  C07C_multi_subsequence _ (by
    intro st hst
    simp only [List.mem_cons, List.not_mem_nil, or_false] at hst
    rcases hst with rfl | rfl <;> exact Or.inr (Or.inr (Or.inr (Or.inr ⟨_, rfl⟩)))) evs h

theorem C07C_multi_debounce_observeOn (d : Nat) (evs : List TW.Ev) (h : ∀ e ∈ evs, FifoEv e) :
    (items (evs.foldl TW.step (TW.step
      { src := .hot 0, stages := [.debounce d true none none, .observeOn true (some [])] } .sub)).log).Sublist
      (items (gate (script evs))) :=
  C07C_multi_subsequence _ (by
    intro st hst
    simp only [List.mem_cons, List.not_mem_nil, or_false] at hst
    rcases hst with rfl | rfl
    · exact Or.inr (Or.inl ⟨_, rfl⟩)
    · exact Or.inr (Or.inr (Or.inr (Or.inl rfl)))) evs h

theorem C07C_multi_observeOn_observeOn (evs : List TW.Ev) (h : ∀ e ∈ evs, FifoEv e) :
    (items (evs.foldl TW.step (TW.step
      { src := .hot 0, stages := [.observeOn true (some []), .observeOn true (some [])] } .sub)).log).Sublist
      (items (gate (script evs))) :=
  C07C_multi_subsequence _ (by
    intro st hst
    simp only [List.mem_cons, List.not_mem_nil, or_false] at hst
    rcases hst with rfl | rfl <;> exact Or.inr (Or.inr (Or.inr (Or.inl rfl)))) evs h

/-- throttle → observe_on → filter → delay → debounce. -/
theorem C07C_multi_mixed (dt : Nat) (e : Edge) (p : Val → Bool) (dd db : Nat)
    (evs : List TW.Ev) (h : ∀ e ∈ evs, FifoEv e) :
    (items (evs.foldl TW.step (TW.step
      { src := .hot 0,
        stages := [.throttle dt e true none none, .observeOn true (some []), .op1 (Op1.init (.filter p)),
                   .delay dd true (some []), .debounce db true none none] } .sub)).log).Sublist
      (items (gate (script evs))) :=
  C07C_multi_subsequence _ (by
    intro st hst
    simp only [List.mem_cons, List.not_mem_nil, or_false] at hst
    rcases hst with rfl | rfl | rfl | rfl | rfl
    · exact Or.inr (Or.inr (Or.inl ⟨_, _, rfl⟩))
    · exact Or.inr (Or.inr (Or.inr (Or.inl rfl)))
    · exact Or.inl ⟨_, rfl, rfl⟩
    · exact Or.inr (Or.inr (Or.inr (Or.inr ⟨_, rfl⟩)))
    · exact Or.inr (Or.inl ⟨_, rfl⟩)) evs h

/-- One mover between filtering operators (cf. C07C, where `pre` / `post` are arbitrary
    synchronous operators and the statement is an exact simulation). -/
theorem C07C_multi_pre_mover_post (pre post : List Op1) (hpre : ∀ o ∈ pre, o.filtering = true)
    (hpost : ∀ o ∈ post, o.filtering = true) (mover : Stage)
    (hm : mover = .observeOn true (some []) ∨ ∃ d, mover = .delay d true (some []))
    (evs : List TW.Ev) (h : ∀ e ∈ evs, FifoEv e) :
    (items (evs.foldl TW.step (TW.step
      { src := .hot 0,
        stages := pre.map (fun o => Stage.op1 (Op1.init o)) ++ mover ::
          post.map (fun o => Stage.op1 (Op1.init o)) } .sub)).log).Sublist
      (items (gate (script evs))) :=
  C07C_multi_subsequence _ (by
    intro st hst
    simp only [List.mem_append, List.mem_map, List.mem_cons] at hst
    rcases hst with ⟨o, ho, rfl⟩ | rfl | ⟨o, ho, rfl⟩
    · exact Or.inl ⟨o, hpre o ho, rfl⟩
    · rcases hm with rfl | ⟨d, rfl⟩
      · exact Or.inr (Or.inr (Or.inr (Or.inl rfl)))
      · exact Or.inr (Or.inr (Or.inr (Or.inr ⟨d, rfl⟩)))
    · exact Or.inl ⟨o, hpost o ho, rfl⟩) evs h

/-! ### FIFO is essential -/

/-- NEGATIVE result for arbitrary executors: with `poll` events (the executor picks another
    run order) two `observe_on`s deliver `2, 1` for the source `1, 2`. -/
theorem C07C_multi_fifo_needed :
    ¬ ∀ evs : List TW.Ev,
      (items (evs.foldl TW.step (TW.step
        { src := .hot 0, stages := [.observeOn true (some []), .observeOn true (some [])] } .sub)).log).Sublist
        (items (gate (script evs))) := by
  intro h
  have := h [.emit 0 (.next (.int 1)), .emit 0 (.next (.int 2)), .poll 1, .run]
  revert this
  decide

/-! ### non-vacuity -/

/-- throttle 4 → observe_on → skip 0 → delay 3 → debounce 2 under the FIFO executor: `2` is
    swallowed by the throttle window, `1` and `3` get through all five stages, in order. -/
example :
    ([TW.Ev.sub, .emit 0 (.next (.int 1)), .emit 0 (.next (.int 2)), .run, .adv 2,
      .emit 0 (.next (.int 3)), .run, .adv 5, .run, .emit 0 .complete, .run, .adv 9, .run].foldl TW.step
      { src := .hot 0,
        stages := [.throttle 4 .all true none none, .observeOn true (some []), .op1 (Op1.init (.skip 0)),
                   .delay 3 true (some []), .debounce 2 true none none] }).log
      = [.next (.int 1), .next (.int 3), .complete] := by decide

/-- delay 2 → delay 1: everything arrives, in order, once both delays are over. -/
example :
    ([TW.Ev.sub, .emit 0 (.next (.int 1)), .emit 0 (.next (.int 2)), .run, .adv 1,
      .emit 0 (.next (.int 3)), .run, .adv 1, .run, .emit 0 .complete, .adv 7, .run, .adv 5, .run,
      .adv 5, .run].foldl TW.step
      { src := .hot 0, stages := [.delay 2 true (some []), .delay 1 true (some [])] }).log
      = [.next (.int 1), .next (.int 2), .next (.int 3), .complete] := by decide

example : ∀ e ∈ [TW.Ev.emit 0 (.next (.int 1)), .emit 0 (.next (.int 2)), .run, .adv 2,
      .emit 0 (.next (.int 3)), .run, .adv 5, .run, .emit 0 .complete, .run, .adv 9, .run], FifoEv e := by
  intro e he
  simp only [List.mem_cons, List.not_mem_nil, or_false] at he
  rcases he with rfl | rfl | rfl | rfl | rfl | rfl | rfl | rfl | rfl | rfl | rfl | rfl <;> constructor

example : ∀ st ∈ [Stage.throttle 4 .all true none none, .observeOn true (some []), .op1 (Op1.init (.skip 0)),
    .delay 3 true (some []), .debounce 2 true none none], st.InitF := by
  intro st hst
  simp only [List.mem_cons, List.not_mem_nil, or_false] at hst
  rcases hst with rfl | rfl | rfl | rfl | rfl
  · exact ⟨rfl, rfl, rfl⟩
  · exact ⟨rfl, rfl⟩
  · exact ⟨.skip 0, rfl, rfl⟩
  · exact ⟨rfl, rfl⟩
  · exact ⟨rfl, rfl, rfl⟩

end Rx.T
