import RxModel.Lemmas.SingleChain
import RxModel.Ops.Source
/-
  C03 — Sources and single-input operators compute their documented sequence.

  Property theorems only.  Helper lemmas: RxModel/Lemmas/Single*.lean.
  The machines (`St1`, `Src.emit`) are the transcription of the Rust observers
  and are what `rxdriver` executes against the real code; the specs
  (`Spec.apply`, `Spec.src`, `Spec.first` …) are written from the documentation.
-/
namespace Rx
open Spec

/-- Every single-input operator, on every finite input (any items, any
    terminal or none), emits exactly its documented sequence. -/
theorem C03_operator (op : Op1) (s : Stream) (hv : s.Valid) :
    (St1.run op.init s.toNotifs).2 = (apply op s).toNotifs :=
  run_spec op s hv

/-- Every chain of single-input operators, of any length. -/
theorem C03_chain (ops : List Op1) (s : Stream) (hv : s.Valid) :
    (runChain (ops.map Op1.init) s.toNotifs).2 = (applyChain ops s).toNotifs :=
  runChain_spec ops s hv

/-- The output of every chain is again a well-formed stream. -/
theorem C03_chain_wf (ops : List Op1) (s : Stream) (hv : s.Valid) :
    WF (runChain (ops.map Op1.init) s.toNotifs).2 := by
  rw [C03_chain ops s hv]; exact toNotifs_WF _ (applyChain_valid ops s hv)

/-- An input error is forwarded (mapped where asked) as the only terminal, after
    exactly what had been streamed before it: no aggregate, default or buffered
    result computed from the truncated input is emitted with it. -/
theorem C03_error_only (op : Op1) (xs : List Val) (e : Err) :
    (St1.run op.init (Stream.mk xs (some (.error e))).toNotifs).2 =
      gate ((St1.run op.init (Stream.mk xs none).toNotifs).2 ++ [.error (op.mapErr e)]) := by
  rw [C03_operator _ _ (by intro n hn; cases hn; rfl),
      C03_operator _ _ (by intro n hn; cases hn)]
  exact error_only_spec op xs e

/-- Sources. -/
theorem C03_source (src : Src) : src.emit = (Spec.src src).toNotifs := by
  cases src with
  | ofOption o => cases o <;> rfl
  | ofResult r => cases r <;> rfl
  | create script =>
    simp only [Src.emit, Spec.src, Stream.toNotifs]
    induction script with
    | nil => rfl
    | cons n r ih => cases n <;> simp_all [gate, itemsBefore, firstTerm, mk]
  | _ => simp [Src.emit, Spec.src, Stream.toNotifs, mk]

theorem C03_source_valid (src : Src) : (Spec.src src).Valid := by
  cases src with
  | ofResult r => cases r <;> (intro n hn; cases hn; rfl)
  | never => intro n hn; cases hn
  | create script =>
    intro n hn
    simp only [Spec.src] at hn
    induction script with
    | nil => cases hn
    | cons m r ih =>
      cases m with
      | next v => exact ih hn
      | error e => simp [firstTerm] at hn; subst hn; rfl
      | complete => simp [firstTerm] at hn; subst hn; rfl
  | _ => intro n hn; cases hn; rfl

/-- Source followed by any chain. -/
theorem C03_pipeline (src : Src) (ops : List Op1) :
    (runChain (ops.map Op1.init) src.emit).2 = (applyChain ops (Spec.src src)).toNotifs := by
  rw [C03_source]; exact C03_chain ops _ (C03_source_valid src)

/-! Derived operators: the composition the library builds has the documented behaviour. -/
theorem C03_first (s : Stream) : applyChain Derived.first s = Spec.first s := derived_first s
theorem C03_firstOr (d : Val) (s : Stream) : applyChain (Derived.firstOr d) s = Spec.firstOr d s :=
  derived_firstOr d s
theorem C03_lastOr (d : Val) (s : Stream) : applyChain (Derived.lastOr d) s = Spec.lastOr d s :=
  derived_lastOr d s
theorem C03_elementAt (n : Nat) (s : Stream) :
    applyChain (Derived.elementAt n) s = Spec.elementAt n s := derived_elementAt n s
theorem C03_ignoreElements (s : Stream) :
    applyChain Derived.ignoreElements s = Spec.ignoreElements s := derived_ignoreElements s
theorem C03_all (p : Val → Bool) (s : Stream) : applyChain (Derived.all p) s = Spec.all p s :=
  derived_all p s
/-- reduce / reduce_initial / sum / count. -/
theorem C03_reduce (op : Val → Val → Val) (init : Val) (s : Stream) :
    applyChain (Derived.reduceInitial op init) s = Spec.reduceInitial op init s :=
  derived_reduceInitial op init s
/-- min / max / average (`scan · last · map`). -/
theorem C03_aggregate (op : Val → Val → Val) (init : Val) (fin : Val → Val) (s : Stream) :
    applyChain (Derived.aggregate op init fin) s = Spec.aggregate op init fin s :=
  derived_aggregate op init fin s

/-! Non-vacuity: concrete, non-trivial instances of the hypotheses and statements. -/
example : (Stream.mk [.int 1, .int 2, .int 3] (some (.error 7))).Valid := by
  intro n hn; cases hn; rfl
example : (runChain ([Op1.skip 1, .take 1].map Op1.init)
    (Stream.mk [.int 1, .int 2, .int 3] (some .complete)).toNotifs).2 = [.next (.int 2), .complete] := by
  decide
example : (St1.run (Op1.init .last) (Stream.mk [.int 1, .int 2] (some (.error 7))).toNotifs).2
    = [.error 7] := by decide

end Rx
