import RxModel.Lemmas.ChainWFMain
/-
  C01 over the chain (time) model — the probe log of EVERY chain world is well
  formed: items, then at most one terminal, then nothing.

  `src` ranges over all sources of the model (hot subject, every cold source incl.
  `create` with a malformed script, interval / interval_at, timer, from_iter over a
  counting iterator, from_future(_result) and from_stream(_result) over any script,
  cyclic or not); `stages` over all lists of stages in their initial
  per-subscription state: every single-input operator of the sync catalogue, delay,
  observe_on, subscribe_on / delay_subscription, debounce, throttle (all edges),
  buffer_with_time / buffer_with_count_and_time, and the eight two-input
  combinators with any source as second input; `evs` over all event lists:
  `sub`, emissions on any subject (post-terminal ones included), `unsub`, clock
  jumps, `fire` / `poll` of any timer / task in any order, `run`.

  Proof (Lemmas/ChainWF*.lean): ghost histories.  `Chain up stages log` says that
  every stage has so far processed a sublist of what its upstream emitted (the
  cascade may drop notifications when its fuel runs out — no assumption on the
  fuel is made) and is consistent with it: a single-input observer is
  `run init input` (C01_preserving applies), every slot-owning stage (delay,
  observe_on, debounce, throttle, buffer_with_time, two-input cell) is a gate —
  cumulative output well formed whatever arrives, slot empty after a terminal.
  `SrcOK` says that what the source has handed to stage 0 is well formed and stays
  so: the source is subscribed at most once and its terminal is final, because at
  most one *critical* task (subscribing task of subscribe_on, timer_task,
  FutureTask, stream driver) is ever live, and a finished task never runs again.
-/
namespace Rx
open Rx.T

/-- The full statement. -/
def C01C_chain_grammar_full : Prop :=
  ∀ (src : TSrc) (stages : List Stage), (∀ st ∈ stages, st.Initial) → ∀ evs : List TW.Ev,
    WF (evs.foldl TW.step { src := src, stages := stages }).log

/-- The probe log of every chain world under every event list is well formed. -/
theorem C01C_chain_grammar (src : TSrc) (stages : List Stage) (hs : ∀ st ∈ stages, st.Initial)
    (evs : List TW.Ev) : WF (evs.foldl TW.step { src := src, stages := stages }).log :=
  TW.WInv.wf_log (TW.fold_inv evs (TW.init_inv src stages (fun st h => (hs st h).ok)))

theorem C01C_chain_grammar_full_holds : C01C_chain_grammar_full := C01C_chain_grammar

/-- Stronger: only the single-input observers have to start fresh; the slot-owning stages may
    start in ANY state (slot already empty, a trailing value pending, stale task handles, a
    two-input cell in any state). -/
theorem C01C_chain_grammar_any_gate_state (src : TSrc) (stages : List Stage)
    (hs : ∀ st ∈ stages, st.Fresh) (evs : List TW.Ev) :
    WF (evs.foldl TW.step { src := src, stages := stages }).log :=
  TW.WInv.wf_log (TW.fold_inv evs (TW.init_inv src stages (fun st h => (hs st h).ok)))

/-- The slot-owning stages are gates: for such a last stage the log is well formed whatever
    is upstream — corollary of the above, stated for the record via `Stage.OK`. -/
theorem C01C_stage_preserves (st : Stage) (inp out : List Notif) (h : st.OK inp out) (hi : WF inp) :
    WF out := h.wf hi

/-! ### non-vacuity -/

/-- hot → delay 5 → take 2: the post-terminal emission is ignored, the completion arrives
    after the delay. -/
example :
    ([TW.Ev.sub, .emit 0 (.next (.int 1)), .emit 0 .complete, .emit 0 (.next (.int 2)),
      .emit 0 .complete, .run, .adv 5, .run, .emit 0 (.error 3), .run].foldl TW.step
      { src := .hot 0,
        stages := [.delay 5 true (some []), .op1 (Spec.Op1.init (.take 2))] }).log
      = [.next (.int 1), .complete] := by decide

example : ∀ st ∈ [Stage.delay 5 true (some []), .op1 (Spec.Op1.init (.take 2))], st.Initial := by
  intro st h
  simp at h
  rcases h with rfl | rfl
  · exact ⟨rfl, rfl⟩
  · exact ⟨.take 2, rfl⟩

/-- hot → last → observe_on → debounce 3: the terminal makes `last` emit item + completion
    as two tasks; polling the completion first closes the slot, the item is dropped. -/
example :
    ([TW.Ev.sub, .emit 0 (.next (.int 1)), .emit 0 .complete, .emit 0 (.next (.int 2)),
      .poll 1, .poll 0, .adv 3, .run].foldl TW.step
      { src := .hot 0,
        stages := [.op1 (Spec.Op1.init .last), .observeOn true (some []),
                   .debounce 3 true none none] }).log
      = [.complete] := by decide

/-- timer source → subscribe_on → throttle → two-input cell (take_until a hot notifier). -/
example :
    ([TW.Ev.sub, .run, .adv 2, .run, .emit 7 (.next (.int 0)), .adv 9, .run].foldl TW.step
      { src := .timer (.int 4) 2,
        stages := [.subscribeOn none none, .throttle 1 .all true none none,
                   .op2n (Kind2.init .takeUntil) (.hot 7) false none] }).log
      = [.next (.int 4), .complete] := by decide

end Rx
