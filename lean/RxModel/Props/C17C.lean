import RxModel.Lemmas.ChainQuietMain
import RxModel.Lemmas.ChainSources
/-
  C17 over the chain (time) model — `is_closed()` of the case's subscription is
  sound: once it answered `true` nothing is delivered any more and the answer
  stays `true` — for EVERY source, EVERY list of stages in initial per-subscription
  state and EVERY history (no bound, every cascade fuel).

  `TW.isClosed` answers `true` by convention while there is no handle (before
  `sub`) and after `unsub` consumed it; the statements are about the handle, hence
  the side condition `(TW.run w0 pre).subscribed = true` (see `C17C_needs_subscription`).
-/
namespace Rx.T
open Rx

def C17C_sound_full : Prop :=
  ∀ (src : TSrc) (stages : List Stage), (∀ st ∈ stages, st.Initial) → ∀ pre post : List TW.Ev,
    (TW.run (TW.init src stages) pre).subscribed = true →
    (TW.run (TW.init src stages) pre).isClosed = true →
    (TW.run (TW.init src stages) (pre ++ post)).log = (TW.run (TW.init src stages) pre).log

/-- **Soundness of `is_closed`.**  If the handle answers `true` after `pre`, no
    continuation `post` delivers anything. -/
theorem C17C_sound (src : TSrc) (stages : List Stage) (h : ∀ st ∈ stages, st.Initial)
    (pre post : List TW.Ev) (hs : (TW.run (TW.init src stages) pre).subscribed = true)
    (hc : (TW.run (TW.init src stages) pre).isClosed = true) :
    (TW.run (TW.init src stages) (pre ++ post)).log = (TW.run (TW.init src stages) pre).log := by
  have I := (init_qinv src stages h).run pre
  rw [TW.run_append]
  exact ((I.closed_quiet hs hc).run post).2.1

theorem C17C_full : C17C_sound_full := C17C_sound

/-- **Monotonicity.**  A `true` answer is never taken back. -/
theorem C17C_monotone (src : TSrc) (stages : List Stage) (h : ∀ st ∈ stages, st.Initial)
    (pre post : List TW.Ev) (hs : (TW.run (TW.init src stages) pre).subscribed = true)
    (hc : (TW.run (TW.init src stages) pre).isClosed = true) :
    (TW.run (TW.init src stages) (pre ++ post)).isClosed = true := by
  have I := (init_qinv src stages h).run pre
  rw [TW.run_append]
  exact ((I.closed_quiet hs hc).run post).2.2 hc

/-- After `unsubscribe()` the handle is closed — in every world. -/
theorem C17C_after_unsub (w : TW) (pre : List TW.Ev) : (TW.run w (pre ++ [.unsub])).isClosed = true := by
  rw [TW.run_append]; exact step_unsub_closed _

/-- … and stays closed, and the log is frozen (C02C), for a subscribed reachable world. -/
theorem C17C_after_unsub_stays (src : TSrc) (stages : List Stage) (h : ∀ st ∈ stages, st.Initial)
    (pre post : List TW.Ev) (hs : (TW.run (TW.init src stages) pre).subscribed = true) :
    (TW.run (TW.init src stages) (pre ++ [.unsub] ++ post)).isClosed = true := by
  have I := (init_qinv src stages h).run pre
  rw [TW.run_append, TW.run_append]
  exact ((I.unsub_quiet hs).run post).2.2 (step_unsub_closed _)

/-- `is_closed() = true` on a subscribed reachable world means: every task of the
    scheduler is cancelled or finished and no subject holds a slot of the chain. -/
theorem C17C_closed_is_quiet (src : TSrc) (stages : List Stage) (h : ∀ st ∈ stages, st.Initial)
    (pre : List TW.Ev) (hs : (TW.run (TW.init src stages) pre).subscribed = true)
    (hc : (TW.run (TW.init src stages) pre).isClosed = true) :
    Quiet (TW.run (TW.init src stages) pre) :=
  ((init_qinv src stages h).run pre).closed_quiet hs hc

/-- Before `sub` there is no handle; the model answers `true` by convention and a
    later `sub` delivers: the side condition is needed. -/
theorem C17C_needs_subscription :
    (TW.run (TW.init (.cold (.of (.int 1))) []) []).isClosed = true ∧
    (TW.run (TW.init (.cold (.of (.int 1))) []) ([] ++ [.sub])).log ≠
      (TW.run (TW.init (.cold (.of (.int 1))) []) []).log := by decide

/-! ### non-vacuity -/

/-- hot source → delay(5) → observe_on → tap. -/
def C17C_world : TW :=
  TW.init (.hot 0) [.delay 5 true (some []), .observeOn true (some []), .op1 (.tap 0)]

/-- While the delayed notifications are in flight the handle is open; once the
    completion has been delivered it is closed, and later events (a post-terminal
    emission, clock jumps, polls, run) change neither the log nor the answer. -/
example :
    let pre : List TW.Ev := [.sub, .emit 0 (.next (.int 1)), .emit 0 .complete, .run, .adv 5, .run]
    let post : List TW.Ev := [.emit 0 (.next (.int 2)), .adv 7, .fire 0, .poll 0, .run, .emit 1 .complete]
    (TW.run C17C_world [.sub, .emit 0 (.next (.int 1)), .emit 0 .complete, .run]).isClosed = false ∧
    (TW.run C17C_world [.sub, .emit 0 (.next (.int 1)), .emit 0 .complete, .run]).sched.liveTasks.length = 2 ∧
    (TW.run C17C_world pre).subscribed = true ∧
    (TW.run C17C_world pre).unsubscribed = false ∧
    (TW.run C17C_world pre).isClosed = true ∧
    (TW.run C17C_world pre).log = [.next (.int 1), .complete] ∧
    (TW.run C17C_world (pre ++ post)).log = [.next (.int 1), .complete] ∧
    (TW.run C17C_world (pre ++ post)).isClosed = true := by decide

/-- timer source → delay(5) → take_until(interval(2)): closed once the notifier's first
    tick has completed the chain and every task has retired. -/
example :
    let w0 := TW.init (.timer (.int 9) 3)
      [.delay 5 true (some []), .op2n (Kind2.init .takeUntil) (.interval none 2) false none]
    let pre : List TW.Ev := [.sub, .run, .adv 2, .run, .adv 2, .run, .adv 2, .run, .adv 2, .run, .adv 2, .run]
    (TW.run w0 [.sub, .run, .adv 2, .run]).isClosed = false ∧
    (TW.run w0 pre).isClosed = true ∧ (TW.run w0 pre).unsubscribed = false ∧
    (TW.run w0 (pre ++ [.adv 10, .run])).log = (TW.run w0 pre).log := by decide

/-- `unsub` with tasks pending: closed at once. -/
example :
    (TW.run C17C_world [.sub, .emit 0 (.next (.int 1)), .run]).isClosed = false ∧
    (TW.run C17C_world ([.sub, .emit 0 (.next (.int 1)), .run] ++ [.unsub])).isClosed = true := by decide

end Rx.T
