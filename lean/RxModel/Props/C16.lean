import RxModel.Sched.Chain
/-
  C16 — Ending a stream early retires the producers that feed it.
  `fin` is `is_finished` as forwarded by every stage of a chain.
-/
namespace Rx.T
open Rx

/-- `is_finished` is forwarded upstream through every chain of intermediate
    single-input operators: if the observer below them is finished, so is the
    observer the producer holds. -/
theorem C16_forward_op1 (ops : List St1) (rest : List Stage) (h : fin rest = true) :
    fin (ops.map Stage.op1 ++ rest) = true := by
  induction ops with
  | nil => simpa using h
  | cons o os ih =>
    simp only [List.map_cons, List.cons_append, fin, ih]
    cases o <;> simp [St1.finished]

/-- An early-terminating operator that has completed answers `finished` whatever
    is below it. -/
theorem C16_take_closed (count hits : Nat) (rest : List Stage) :
    fin (.op1 (.take count hits false) :: rest) = true := by simp [fin, St1.finished]
theorem C16_takeWhile_closed (p : Val → Bool) (i : Bool) (rest : List Stage) :
    fin (.op1 (.takeWhile p i false) :: rest) = true := by simp [fin, St1.finished]
theorem C16_contains_closed (tg : Val) (rest : List Stage) :
    fin (.op1 (.contains tg false) :: rest) = true := by simp [fin, St1.finished]

/-- A repeating producer whose observer is finished declines its next tick, and a
    task that declined is finished for good. -/
theorem C16_tick_declines (w : TW) (seq : Nat) (h : fin w.stages = true) :
    w.runTick .tick seq = (w, false) := by simp [TW.runTick, h]

/-- The iterator source stops pulling once its observer is finished. -/
theorem C16_iter_stops_when_finished (w : TW) (h : fin w.stages = true) (n fuel k : Nat) :
    TW.subscribeSource.loop n (fuel + 1) k w = w := by
  simp [TW.subscribeSource.loop, h]

end Rx.T
