import RxModel.Sched.Chain
import RxModel.Lemmas.Async
import RxModel.Lemmas.Sched
/-
  C16 — Ending a stream early retires the producers that feed it.
  `fin` is `is_finished` as forwarded by every stage of a chain.
-/
namespace Rx.T
open Rx

/-- `is_finished` is forwarded upstream through every chain of intermediate
    single-input operators: if the observer below them is finished, so is the
    observer the producer holds. -/
theorem C16_forward_op1 (ops : List St1) (rest : List Stage) (h : fin rest = true) :
    fin (ops.map Stage.op1 ++ rest) = true := by
  induction ops with
  | nil => simpa using h
  | cons o os ih =>
    simp only [List.map_cons, List.cons_append, fin, ih]
    cases o <;> simp [St1.finished]

/-- An early-terminating operator that has completed answers `finished` whatever
    is below it. -/
theorem C16_take_closed (count hits : Nat) (rest : List Stage) :
    fin (.op1 (.take count hits false) :: rest) = true := by simp [fin, St1.finished]
theorem C16_takeWhile_closed (p : Val → Bool) (i : Bool) (rest : List Stage) :
    fin (.op1 (.takeWhile p i false) :: rest) = true := by simp [fin, St1.finished]
theorem C16_contains_closed (tg : Val) (rest : List Stage) :
    fin (.op1 (.contains tg false) :: rest) = true := by simp [fin, St1.finished]

/-- A repeating producer whose observer is finished declines its next tick, and a
    task that declined is finished for good. -/
theorem C16_tick_declines (w : TW) (seq : Nat) (h : fin w.stages = true) :
    w.runTick .tick seq = (w, false) := by simp [TW.runTick, h]

/-- The iterator source stops pulling once its observer is finished. -/
theorem C16_iter_stops_when_finished (w : TW) (h : fin w.stages = true) (n fuel k : Nat) :
    TW.subscribeSource.loop n (fuel + 1) k w = w := by
  simp [TW.subscribeSource.loop, h]

/-- … also as the second input of a two-input operator (merge, zip, …): when the
    observer that operator hands to its second input is finished at subscription
    time — e.g. the first input emitted synchronously and a `take` below has
    already completed — nothing is pulled at all. -/
theorem C16_iter_notifier_stops_when_finished (w : TW) (j : Nat) (st : St2) (nsrc : TSrc)
    (na : Bool) (nt : Option TaskId) (hj : w.stages[j]? = some (.op2n st nsrc na nt))
    (h : st.finished .b (fin (w.stages.drop (j + 1))) = true) (n fuel k : Nat) :
    TW.subscribeNotifier.loopB j n (fuel + 1) k w = w := by
  simp [TW.subscribeNotifier.loopB, hj, h]

/-- The stream drivers (from_stream / from_stream_result; model of the REPAIRED
    code, DESIGN §7 finding 18) ask `is_finished()` before every `poll_next`: once
    the observer is finished a poll of the driver returns `Ready` at once, pulls
    nothing from the stream and delivers nothing — bounded, unbounded (`cyc`) or
    silent stream alike. -/
theorem C16_stream_retires (res cyc : Bool) (script : List AStep) (f : Nat) (w : TW)
    (h : fin w.stages = true) :
    (TW.pollStream res script cyc (f + 1) w).2 = .done ∧
    (TW.pollStream res script cyc (f + 1) w).1.log = w.log ∧
    (TW.pollStream res script cyc (f + 1) w).1.pulls = w.pulls ∧
    (TW.pollStream res script cyc (f + 1) w).1.sched = w.sched := by
  exact pollStream_finished res cyc script f w h

/-- … and through the scheduler: the driver's task, polled after the subscriber
    has terminated, is finished (it leaves the executor: run-until-idle ends). -/
theorem C16_stream_task_finishes (w : TW) (k : TaskId) (t : Task) (res cyc : Bool) (script : List AStep)
    (hsrc : w.src = .stream res script cyc)
    (hk : w.sched.tasks[k]? = some t) (hb : t.body = .streamSrc) (hd : t.done = false)
    (hod : t.outerDelay = none) (hot : t.outerTimer = none) (hr : t.rep = none)
    (h : fin w.stages = true) :
    ∃ t', (w.pollTask k).sched.tasks[k]? = some t' ∧ t'.done = true ∧ (w.pollTask k).log = w.log := by
  unfold TW.pollTask
  rw [pollPre_plain w.sched k t hk hd hod hot hr]
  cases hkr : t.keepRunning with
  | false =>
    refine ⟨{ t with woken := false, done := true }, ?_, rfl, rfl⟩
    simp [hkr, Sched.setTask_get_self _ _ _ _ hk]
  | true =>
    have hk' := Sched.setTask_get_self w.sched k { t with woken := false, outerTimer := none } t hk
    have key := afterAsync_stream_finished
      ({ w with sched := w.sched.setTask k { t with woken := false, outerTimer := none } } : TW)
      k _ res cyc script hsrc hk' h
    simp only [TW.afterAsync, hkr, hb] at key
    simp only [hkr, if_true, hb, Body.isAsync]
    exact key

end Rx.T
