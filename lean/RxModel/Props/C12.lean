import RxModel.Lemmas.BehaviorRefine
import RxModel.Lemmas.SubjectSpecFacts
/-
  C12 — BehaviorSubject hands every new subscriber the current value first
  (sequential part).  `BState`/`bstep` (Subject/Behavior.lean) transcribes
  src/subject/behavior_subject.rs + src/behavior.rs; clones share both cells, so an
  operation "through a clone" is the same operation.  `BAbs` is the abstract spec
  (abstract subject of C06 + the latest value); `latest` computes the latest value
  from the operations alone.
-/
namespace Rx.Subj

/-- Refinement for every history of any length of next / next_by / subscribe (any
    callback script) / unsubscribe-one / error / complete / unsubscribe / clone /
    peek: deliveries, finished flag and `peek()` are those of the abstract spec, in
    which a subscription delivers the latest value to the newcomer first and the
    newcomer then is a current subscriber of the C06 spec (every later item once). -/
theorem C12_refines (v0 : Val) (ops : List BOp) : (brun v0 ops).map BOutput.vis = BAbs.run v0 ops :=
  brunFrom_refines ops (BState.init v0) Inv.init rfl

/-- `peek()` after any history is the most recent value passed to `next` (or computed
    by `next_by`) through any clone, or the initial value. -/
theorem C12_peek (ops : List BOp) : ∀ (b : BState), (bexec b ops).peek = latest b.value ops := by
  induction ops with
  | nil => intro b; rfl
  | cons op r ih =>
    intro b
    have h := ih (bstep b op).1
    cases op <;> exact h

/-- A new subscriber's first (and, at subscription, only) notification is that latest value. -/
theorem C12_subscribe_gets_latest (v0 : Val) (ops : List BOp) (script : List Act) :
    (bstep (bexec (BState.init v0) ops) (.subscribe script)).2.out.deliveries =
      [((bexec (BState.init v0) ops).subject.slots.length, Notif.next (latest v0 ops))] := by
  have h := C12_peek ops (BState.init v0)
  simp only [BState.peek] at h
  simp only [bstep, BState.apply, BState.subscribe, State.output, h]
  rfl

/-- `next_by f` is `next (f peek)`. -/
theorem C12_next_by (b : BState) (f : Val → Val) : bstep b (.nextBy f) = bstep b (.next (f b.peek)) := rfl

/-- `next v` stores `v` (so a later `peek`/subscription sees it) whatever happens in the broadcast. -/
theorem C12_next_stores (b : BState) (v : Val) : (bstep b (.next v)).1.peek = v := rfl

/-- In the spec a newcomer of an open subject is current right after its subscription … -/
theorem C12_spec_newcomer_current (b : BAbs) (script : List Act) (hd : b.abs.done = false) :
    b.abs.scripts.length ∈ (b.apply (.subscribe script)).1.abs.live := by
  simp [BAbs.apply, Abs.subscribe, hd]

/-- … and a current subscriber receives every later item exactly once (all current
    subscribers do, when no callback interferes), the value being stored as latest. -/
theorem C12_spec_later_items (b : BAbs) (v : Val) (hd : b.abs.done = false) (hq : b.abs.Quiet)
    (hp : b.abs.panicked = false) :
    (b.apply (.next v)).2 = b.abs.live.map (·, Notif.next v) ∧ (b.apply (.next v)).1.abs.live = b.abs.live ∧
    (b.apply (.next v)).1.value = v := by
  simp only [BAbs.apply, BAbs.next, Abs.next, hd, Bool.false_eq_true, if_false]
  have h := abcast_quiet (some v) v b.abs.live b.abs hq hp (fun _ h => h)
  exact ⟨h.1, h.2.1, trivial⟩

-- Non-vacuity:

/-- initial value to the first subscriber; the latest to a later one; next_by; greeting even after the error -/
example : (brun (.int 42) [.subscribe [], .next (.int 1), .nextBy (fun _ => .int 7), .subscribe [], .next (.int 9),
      .error 3, .subscribe []]).map (fun o => (o.out.deliveries, o.peek)) =
    [([(0, .next (.int 42))], .int 42), ([(0, .next (.int 1))], .int 1), ([(0, .next (.int 7))], .int 7),
     ([(1, .next (.int 7))], .int 7), ([(0, .next (.int 9)), (1, .next (.int 9))], .int 9),
     ([(0, .error 3), (1, .error 3)], .int 9), ([(2, .next (.int 9))], .int 9)] := by
  decide

/-- a subscription made inside a callback of the broadcast of 5 is greeted with 5 (already stored) -/
example : (brun (.int 0) [.subscribe [.sub], .next (.int 5)]).map (·.out.deliveries) =
    [[(0, .next (.int 0))], [(0, .next (.int 5)), (1, .next (.int 5))]] := by
  decide

end Rx.Subj
