import RxModel.Pipe.MultiSub
/-
  C13 — Cold pipelines are lazy and every subscription is independent.

  In the model a pipeline description (`Pipe`) is immutable data and every
  `actual_subscribe` instantiates its own observer states; the theorems below
  say what follows from that.  Their force comes from the correspondence check,
  which subscribes clones of ONE real pipeline value several times (successive
  and nested) and compares every log and closure-call counter with this model.
-/
namespace Rx
open MWorld

/-- Building a pipeline does nothing: no subscription exists, no closure has run,
    and events on its hot inputs reach nobody. -/
theorem C13_lazy (p : Pipe) (i : Nat) (n : Notif) :
    ({ pipe := p } : MWorld).roots = [] ∧ ({ pipe := p } : MWorld).calls = 0 ∧
    (({ pipe := p } : MWorld).emit i n).2 = [] := by
  refine ⟨rfl, rfl, ?_⟩
  simp only [emit, List.contains_nil, Bool.false_eq_true, if_false]
  split <;> simp [deliverRoots]

theorem absorb_plain (w : MWorld) (r : Nat) (root : MRoot) (h : w.roots[r]? = some root)
    (hn : root.nest = none) (ns : List Notif) :
    (w.absorb r ns).2 = ns.map (fun n => (r, n)) ∧ (w.absorb r ns).1.calls = w.calls ∧
    (w.absorb r ns).1.roots.length = w.roots.length := by
  induction ns generalizing w root with
  | nil => simp [absorb]
  | cons n rest ih =>
    have hr : r < w.roots.length := (List.getElem?_eq_some_iff.mp h).1
    simp only [absorb, h]
    have hne : (n.isNext && root.nest == some root.seen) = false := by simp [hn]
    simp only [hne, Bool.false_eq_true, if_false]
    generalize hroot' : (if n.isNext = true then ({ root with seen := root.seen + 1 } : MRoot) else root)
      = root'
    have h' : ({ w with roots := w.roots.set r root' } : MWorld).roots[r]? = some root' := by
      simp [hr]
    have hn' : root'.nest = none := by
      rw [← hroot']; split <;> simp [hn]
    have := ih _ root' h' hn'
    simp [this.1, this.2.1, this.2.2]

/-- Every plain subscription runs the subscription-time closures exactly once, and its log is
    exactly the output of a freshly instantiated pipeline — whatever other subscriptions
    exist, whatever state they are in (`w` is arbitrary). -/
theorem C13_independent (w : MWorld) :
    (w.subscribe none).2 = (w.pipe.instantiate.start).2.map (fun n => (w.roots.length, n)) ∧
    (w.subscribe none).1.calls = w.calls + w.pipe.callCount := by
  simp only [subscribe]
  have h : ({ w with roots := w.roots ++ [({ node := w.pipe.instantiate.start.1, nest := none } : MRoot)],
                     calls := w.calls + w.pipe.callCount } : MWorld).roots[w.roots.length]? =
      some ({ node := w.pipe.instantiate.start.1, nest := none } : MRoot) := by
    simp
  have := absorb_plain _ w.roots.length _ h rfl (w.pipe.instantiate.start).2
  exact ⟨this.1, this.2.1⟩

/-- After k plain subscriptions the subscription-time closures have run k times each. -/
theorem C13_once_per_subscription (p : Pipe) (k : Nat) :
    ((List.range k).foldl (fun w _ => (w.subscribe none).1) ({ pipe := p } : MWorld)).calls
      = k * p.callCount ∧
    ((List.range k).foldl (fun w _ => (w.subscribe none).1) ({ pipe := p } : MWorld)).pipe = p := by
  induction k with
  | zero => simp
  | succ k ih =>
    rw [List.range_succ, List.foldl_append]
    simp only [List.foldl_cons, List.foldl_nil]
    have hp : ∀ w : MWorld, (w.subscribe none).1.pipe = w.pipe := by
      intro w
      simp only [subscribe]
      have : ∀ (w : MWorld) r ns, (w.absorb r ns).1.pipe = w.pipe := by
        intro w r ns
        induction ns generalizing w with
        | nil => simp [absorb]
        | cons n rest ih =>
          simp only [absorb]
          split
          · rfl
          · split <;> simp [ih]
      simp [this]
    refine ⟨?_, ?_⟩
    · rw [(C13_independent _).2, ih.1, ih.2]; simp [Nat.succ_mul]
    · rw [hp, ih.2]

/-! Non-vacuity: scan's accumulator is per subscription. -/
example : ((({ pipe := .op1 (.scan (fun a b => match a, b with | .int x, .int y => .int (x + y) | _, v => v)
      (.int 0)) (.src (.iter [.int 1, .int 2])) } : MWorld).subscribe none).1.subscribe none).2
    = [(1, .next (.int 1)), (1, .next (.int 3)), (1, .complete)] := by decide

end Rx
