import RxModel.Lemmas.SchedMain
/-
  C19 — Scheduled tasks run at most once, never early, and stay cancelled.

  Model: `Sched` (RxModel/Sched/Core.lean, the transcription of src/scheduler.rs
  that suite `time` checks against the real crate) driven by ANY list of
  `SAct`s (RxModel/Sched/Exec.lean): scheduling, cancelling, advancing the
  clock, firing due timers and polling happen in any order, any number of
  times, spurious polls included; a tick body may decline at any tick.  Nothing
  below bounds the number of tasks, of steps, or the time.

  Vocabulary.  `runLog as` is the list of body executions of history `as`
  (`Run.task`, `Run.seq` = the sequence number handed to a RepeatTask tick,
  `none` for a OnceTask, `Run.time` = the clock value), `runsOf k log` the runs
  of task `k` in order, `stateAfter as` / `clockAfter as` the scheduler / the
  clock after `as`.  Task ids are spawn order: the task scheduled by the action
  that follows the prefix `pre` has id `nextTask pre`, and it was scheduled at
  clock value `clockAfter pre`.

  The model is single-threaded: a body is one atomic step, so "the body is not
  still running once `unsubscribe()` has returned" is the statement that no run
  of the task follows the `cancel` in the log (`C19_cancelled_stays`); the
  mutual exclusion of `Remote::poll` and `unsubscribe` under threads is the LTS
  statement `C19_threads_wait` (not in this file).
-/
namespace Rx.T
open Sched

/-! ## at most once -/

/-- A OnceTask's body runs at most once, whatever the executor does. -/
theorem C19_once (pre post : List SAct) (b : Body) (d : Option Nat) :
    (runsOf (nextTask pre) (runLog (pre ++ .scheduleOnce b d :: post))).length ≤ 1 :=
  once_main pre post b d

/-- ... and that run is not a tick (it carries no sequence number). -/
theorem C19_once_no_seq (pre post : List SAct) (b : Body) (d : Option Nat) :
    ∀ r ∈ runsOf (nextTask pre) (runLog (pre ++ .scheduleOnce b d :: post)), r.seq = none :=
  once_no_seq_main pre post b d

/-! ## repeating tasks -/

/-- The ticks of a RepeatTask get the sequence numbers 0, 1, 2, … consecutively, in order. -/
theorem C19_repeat_seq (pre post : List SAct) (b : Body) (p : Nat) (d : Option Nat) :
    (runsOf (nextTask pre) (runLog (pre ++ .scheduleRepeat b p d :: post))).map (·.seq) =
      (List.range (runsOf (nextTask pre)
        (runLog (pre ++ .scheduleRepeat b p d :: post))).length).map some :=
  repeat_seq_main pre post b p d

/-- Any two ticks of a RepeatTask with period `p` (in particular consecutive ones) are at
    least `p` apart: at most one tick per period. -/
theorem C19_repeat_spacing (pre post : List SAct) (b : Body) (p : Nat) (d : Option Nat) :
    List.Pairwise (fun r1 r2 : Run => r1.time + p ≤ r2.time)
      (runsOf (nextTask pre) (runLog (pre ++ .scheduleRepeat b p d :: post))) :=
  repeat_spacing_main pre post b p d

/-- A tick that declines (the body returned `false`) is the last run of its task. -/
theorem C19_decline_stops (pre post : List SAct) (k : Nat)
    (h : ((stateAfter pre).exec (.poll k false)).2 ≠ []) :
    runsOf k (runLog (pre ++ .poll k false :: post)) =
      runsOf k (runLog pre) ++ ((stateAfter pre).exec (.poll k false)).2 :=
  decline_stops_main pre post k h

/-! ## never early -/

/-- A OnceTask scheduled at clock value `t₀ = clockAfter pre` with delay `d` (none = 0)
    never runs before `t₀ + d`. -/
theorem C19_never_early (pre post : List SAct) (b : Body) (d : Option Nat) :
    ∀ r ∈ runsOf (nextTask pre) (runLog (pre ++ .scheduleOnce b d :: post)),
      clockAfter pre + d.getD 0 ≤ r.time :=
  never_early_once_main pre post b d

/-- Tick number `n` of a RepeatTask scheduled at `t₀` with period `p` and outer delay `d`
    never happens before `t₀ + max d p + n·p`: the first period timer is armed by
    `RepeatTask::new`, i.e. at scheduling time and concurrently with the outer delay (hence
    `max`, not `+`), each later one when the previous tick has run. -/
theorem C19_never_early_repeat (pre post : List SAct) (b : Body) (p : Nat) (d : Option Nat) :
    ∀ r ∈ runsOf (nextTask pre) (runLog (pre ++ .scheduleRepeat b p d :: post)),
      ∀ n, r.seq = some n → clockAfter pre + max (d.getD 0) p + n * p ≤ r.time :=
  never_early_repeat_main pre post b p d

/-- The same by position in the log: the `i`-th run (from 0) of the task is tick number `i`
    and does not happen before `t₀ + max d p + i·p`. -/
theorem C19_never_early_repeat_nth (pre post : List SAct) (b : Body) (p : Nat) (d : Option Nat)
    (i : Nat) (r : Run)
    (h : (runsOf (nextTask pre) (runLog (pre ++ .scheduleRepeat b p d :: post)))[i]? = some r) :
    r.seq = some i ∧ clockAfter pre + max (d.getD 0) p + i * p ≤ r.time :=
  ⟨repeat_nth_seq_main pre post b p d i r h, never_early_repeat_nth_main pre post b p d i r h⟩

/-! ## cancelled / finished / closed -/

/-- Once `unsubscribe()` on the handle of an existing task has returned, the body never
    starts: the log gains no run of that task, whatever follows. -/
theorem C19_cancelled_stays (pre post : List SAct) (k : Nat) (hk : k < nextTask pre) :
    runsOf k (runLog (pre ++ .cancel k :: post)) = runsOf k (runLog pre) :=
  cancelled_stays_main pre post k hk

/-- `done` (the spawned future returned) and `keep_running = false` are never undone. -/
theorem C19_flags_monotone (pre post : List SAct) (k : Nat) (t : Task)
    (h : (stateAfter pre).tasks[k]? = some t) :
    ∃ t', (stateAfter (pre ++ post)).tasks[k]? = some t' ∧
      (t.done = true → t'.done = true) ∧ (t.keepRunning = false → t'.keepRunning = false) :=
  flags_monotone_main pre post k t h

/-- A finished task never runs again. -/
theorem C19_done_stays (pre post : List SAct) (k : Nat) (t : Task)
    (h : (stateAfter pre).tasks[k]? = some t) (hd : t.done = true) :
    runsOf k (runLog (pre ++ post)) = runsOf k (runLog pre) :=
  done_stays_main pre post k t h hd

/-- `is_closed()` of a `TaskHandle<NormalReturn<_>>` is sound: it reports closed only when
    the spawned future has returned … -/
theorem C19_closed_done (pre : List SAct) (k : Nat) (h : (stateAfter pre).handleClosed k = true) :
    ∃ t, (stateAfter pre).tasks[k]? = some t ∧ t.done = true :=
  closed_done pre k h

/-- … hence the task can no longer act. -/
theorem C19_closed_sound (pre post : List SAct) (k : Nat)
    (h : (stateAfter pre).handleClosed k = true) :
    runsOf k (runLog (pre ++ post)) = runsOf k (runLog pre) :=
  closed_sound_main pre post k h

/-! ## clock and timers -/

/-- The clock never goes back. -/
theorem C19_clock_monotone (pre post : List SAct) : clockAfter pre ≤ clockAfter (pre ++ post) :=
  clock_monotone_main pre post

/-- The run log is in clock order. -/
theorem C19_log_clock_order (as : List SAct) :
    List.Pairwise (fun r1 r2 : Run => r1.time ≤ r2.time) (runLog as) :=
  execFrom_sorted _ as

/-- Only existing tasks run. -/
theorem C19_runs_exist (as : List SAct) (r : Run) (h : r ∈ runLog as) : r.task < nextTask as :=
  (execFrom_runs _ as r h).1

/-- A timer that has fired was due (`due` = creation time + requested duration, `newTimer`). -/
theorem C19_fired_was_due (as : List SAct) (tm : Nat) (t : Timer)
    (h : (stateAfter as).timers[tm]? = some t) (hf : t.fired = true) : t.due ≤ clockAfter as :=
  fired_was_due_main as tm t h hf

/-- An early `fire` does nothing. -/
theorem C19_fire_only_due (s : Sched) (tm : Nat) (h : tm ∉ s.dueTimers) :
    s.exec (.fire tm) = (s, []) := by
  simp [Sched.exec, h]

/-- A timer fires at most once: once fired it stays fired and is never due again, so every
    later `fire` of it is ignored. -/
theorem C19_timer_fires_once (pre post : List SAct) (tm : Nat)
    (h : (stateAfter pre).timerFired tm = true) :
    (stateAfter (pre ++ post)).timerFired tm = true ∧ tm ∉ (stateAfter (pre ++ post)).dueTimers :=
  timer_fires_once_main pre post tm h

/-- Timers are never removed and their due time never changes. -/
theorem C19_timer_due_fixed (pre post : List SAct) (tm : Nat) (t : Timer)
    (h : (stateAfter pre).timers[tm]? = some t) :
    ∃ t', (stateAfter (pre ++ post)).timers[tm]? = some t' ∧ t'.due = t.due :=
  timer_due_fixed_main pre post tm t h

/-! ## non-vacuity (concrete histories, evaluated) -/

/-- A delayed OnceTask runs exactly when due (the bound of `C19_never_early` is attained);
    polls before that, an early `fire`, and polls afterwards do nothing. -/
example : runLog [.scheduleOnce .tick (some 5), .poll 0 true, .adv 4, .fire 0, .poll 0 true,
      .adv 1, .fire 0, .poll 0 true, .poll 0 true, .adv 3, .poll 0 true]
    = [⟨0, none, 5⟩] := by decide

/-- Without a delay it runs at its first poll. -/
example : runLog [.adv 7, .scheduleOnce .tick none, .poll 0 true, .poll 0 true] = [⟨0, none, 7⟩] := by
  decide

/-- A RepeatTask (period 2, scheduled at 1) ticks 0, 1, 2 at 3, 5, 8, declines at the third
    tick, and is not run after that although a timer it would have armed could fire. -/
example : runLog [.adv 1, .scheduleRepeat .tick 2 none, .poll 0 true, .adv 2, .fire 0, .poll 0 true,
      .adv 2, .fire 1, .poll 0 true, .poll 0 true, .adv 3, .fire 2, .poll 0 false,
      .adv 3, .fire 3, .poll 0 true]
    = [⟨0, some 0, 3⟩, ⟨0, some 1, 5⟩, ⟨0, some 2, 8⟩] := by decide

/-- Outer delay 5 and period 2 run concurrently: tick 0 at max 5 2 = 5 (the bound of
    `C19_never_early_repeat` is attained), tick 1 one period later. -/
example : runLog [.scheduleRepeat .tick 2 (some 5), .poll 0 true, .adv 2, .fire 0, .poll 0 true,
      .adv 3, .fire 1, .poll 0 true, .adv 2, .fire 2, .poll 0 true]
    = [⟨0, some 0, 5⟩, ⟨0, some 1, 7⟩] := by decide

/-- Outer delay 1 shorter than the period 4: tick 0 at 4. -/
example : runLog [.scheduleRepeat .tick 4 (some 1), .poll 0 true, .adv 1, .fire 1, .poll 0 true,
      .adv 3, .fire 0, .poll 0 true]
    = [⟨0, some 0, 4⟩] := by decide

/-- Cancelled while pending on its delay timer: the timer still fires, the body never runs,
    and the handle does not report closed. -/
example : runLog [.scheduleOnce .tick (some 5), .poll 0 true, .adv 2, .cancel 0, .adv 3, .fire 0,
      .poll 0 true, .poll 0 true] = [] := by decide
example : (stateAfter [.scheduleOnce .tick (some 5), .poll 0 true, .adv 2, .cancel 0, .adv 3, .fire 0,
      .poll 0 true]).handleClosed 0 = false := by decide

/-- Cancelled before the first poll; cancelled between two ticks. -/
example : runLog [.scheduleOnce .tick none, .cancel 0, .poll 0 true] = [] := by decide
example : runLog [.scheduleRepeat .tick 1 none, .adv 1, .fire 0, .poll 0 true, .cancel 0,
      .adv 1, .fire 1, .poll 0 true] = [⟨0, some 0, 1⟩] := by decide

/-- The handle of a task that ran reports closed; the one of a pending task does not. -/
example : (stateAfter [.scheduleOnce .tick none, .poll 0 true]).handleClosed 0 = true := by decide
example : (stateAfter [.scheduleOnce .tick (some 1), .poll 0 true]).handleClosed 0 = false := by decide

/-- Two tasks, polled in the "wrong" order, each at most once and not before its delay. -/
example : runLog [.scheduleOnce .tick (some 3), .scheduleOnce .tick (some 1), .poll 1 true, .poll 0 true,
      .adv 3, .fire 1, .fire 0, .poll 0 true, .poll 1 true, .poll 0 true]
    = [⟨0, none, 3⟩, ⟨1, none, 3⟩] := by decide

end Rx.T
