import RxModel.Lemmas.TimeStepsOnce
/-
  C09 (thread-safe flavour) — throttle against its window task on ANOTHER thread, at the granularity of single
  `MutArc` acquisitions (model: RxModel/Conc/TimeSteps.lean, the step model of C02S; tie to /repo: suite `coop`,
  family `coop-rate` of the C09 check: the REAL code on two OS threads, the emitter preempted at each of its lock
  acquisitions while the window task is polled, and the other way round; deliveries, executed schedule and lock
  tokens compared verbatim with this model).

  The defect this family found in /repo (repaired by a1fa54c): `ThrottleObserver::next` stores the item as the
  trailing candidate, THEN looks whether the window is over.  The task of the window that is just ending can run in
  between: it takes the stored item and delivers it on the trailing edge; `next` then finds the window over and
  delivered the same item AGAIN on the leading edge of the new window ("each at most once" fails).  Since the fix the
  leading edge emits the item only if it is still the stored candidate.  `Order.leadAlways` is the code before it.
-/
namespace Rx.Conc.TS
open Rx

/-- thread 2 opens a window with item 1 and lets its timer fire; thread 0 emits item 7; thread 1 is the executor
    polling the window task -/
def dupProgs : List (List Op) :=
  [[.emit (.next (.int 7))], [.poll 0], [.emit (.next (.int 1)), .run, .adv 3, .fire 0]]

/-- the emitter (thread 0) is preempted after it has stored its candidate and before it asks the handle; the window
    task runs completely; the emitter goes on -/
def dupSched : List Nat :=
  List.replicate 60 2 ++ List.replicate 5 0 ++ List.replicate 30 1 ++ List.replicate 30 0

/-- **Negative witness (the code before a1fa54c).**  Item 7 is delivered twice: by the window task on the trailing
    edge of the window item 1 opened, and by its own `next` on the leading edge of the next window. -/
theorem C09S_throttle_leadAlways_duplicates :
    (exec ⟨.throttle 3 .all, .leadAlways⟩ (Cfg.init (St.subscribed true) dupProgs) dupSched).st.log =
      [.n (.next (.int 1)), .n (.next (.int 7)), .n (.next (.int 7))] := by
  decide +kernel

/-- … the repaired code on the very same threads and schedule: once. -/
theorem C09S_throttle_same_schedule_once :
    (exec ⟨.throttle 3 .all, .original⟩ (Cfg.init (St.subscribed true) dupProgs) dupSched).st.log =
      [.n (.next (.int 1)), .n (.next (.int 7))] := by
  decide +kernel

/-- … and when the emitter is NOT preempted, item 7 falls into the window item 1 opened and replaces nothing that
    was delivered: 1 on the leading edge, 7 on the trailing edge (both variants agree: the change is invisible to a
    single thread). -/
theorem C09S_throttle_sequential_same (o : Order) (h : o = .original ∨ o = .leadAlways) :
    (exec ⟨.throttle 3 .all, o⟩ (Cfg.init (St.subscribed true) dupProgs)
      (List.replicate 60 2 ++ List.replicate 30 0 ++ List.replicate 30 1)).st.log =
      [.n (.next (.int 1)), .n (.next (.int 7))] := by
  rcases h with rfl | rfl <;> decide +kernel

/-! ### at most once, for every interleaving -/

/-- **No item is delivered more often than it was emitted — debounce and throttle (every edge mode), ALL
    interleavings.**  Any window length, the subject alive or already terminated at subscription, ANY number of
    threads each running ANY list of operations (`emit next/error/complete`, `unsub`, `poll j` incl. spurious polls,
    `run`, `adv`, `fire`), EVERY schedule at the granularity of single lock acquisitions: the number of times the item
    `v` stands in the probe log is at most the number of `emit (next v)` operations in the programs.
    (Token argument: Lemmas/TimeStepsOnce.lean — an emitted item is in at most one place, and between its store of
    the candidate and its decision about the leading edge the emitter finds its own item in the cell or nothing.) -/
theorem C09S_at_most_once {K : Conf} (hK : HConf K) (live : Bool) (progs : List (List Op)) (sched : List Nat)
    (v : Val) :
    (exec K (Cfg.init (St.subscribed live) progs) sched).st.log.count (.n (.next v)) ≤
      (progs.map fun ops => ops.count (.emit (.next v))).sum := by
  have h := (Phi_exec hK v live progs sched).2
  unfold Phi tokS at h
  exact Nat.le_trans (by omega) h

theorem C09S_throttle_at_most_once (d : Nat) (e : Edge) (live : Bool) (progs : List (List Op)) (sched : List Nat)
    (v : Val) :
    (exec ⟨.throttle d e, .original⟩ (Cfg.init (St.subscribed live) progs) sched).st.log.count (.n (.next v)) ≤
      (progs.map fun ops => ops.count (.emit (.next v))).sum :=
  C09S_at_most_once (hconf_throttle d e) live progs sched v

theorem C09S_debounce_at_most_once (d : Nat) (live : Bool) (progs : List (List Op)) (sched : List Nat) (v : Val) :
    (exec ⟨.debounce d, .original⟩ (Cfg.init (St.subscribed live) progs) sched).st.log.count (.n (.next v)) ≤
      (progs.map fun ops => ops.count (.emit (.next v))).sum :=
  C09S_at_most_once (hconf_debounce d) live progs sched v

/-- **Nothing is invented**: an item nobody emits is never delivered. -/
theorem C09S_only_source_items {K : Conf} (hK : HConf K) (live : Bool) (progs : List (List Op)) (sched : List Nat)
    (v : Val) (hv : ∀ ops ∈ progs, Op.emit (.next v) ∉ ops) :
    Item.n (.next v) ∉ (exec K (Cfg.init (St.subscribed live) progs) sched).st.log := by
  have h := C09S_at_most_once hK live progs sched v
  have h0 : (progs.map fun ops => ops.count (.emit (.next v))).sum = 0 := by
    clear h
    induction progs with
    | nil => rfl
    | cons a r ih =>
      simp only [List.map_cons, List.sum_cons]
      rw [ih (fun ops ho => hv ops (List.mem_cons_of_mem _ ho)),
        List.count_eq_zero.mpr (hv a List.mem_cons_self)]
  rw [h0] at h
  exact List.count_eq_zero.mp (Nat.le_zero.mp h)

/-- **No duplicates**: an item emitted once is delivered at most once. -/
theorem C09S_no_duplicate {K : Conf} (hK : HConf K) (live : Bool) (progs : List (List Op)) (sched : List Nat)
    (v : Val) (h1 : (progs.map fun ops => ops.count (.emit (.next v))).sum ≤ 1) :
    (exec K (Cfg.init (St.subscribed live) progs) sched).st.log.count (.n (.next v)) ≤ 1 :=
  Nat.le_trans (C09S_at_most_once hK live progs sched v) h1

/-- The statement is FALSE for the code before a1fa54c (`Order.leadAlways`): item 7, emitted once, twice in the log. -/
theorem C09S_leadAlways_not_at_most_once :
    ¬ ∀ (progs : List (List Op)) (sched : List Nat) (v : Val),
      (exec ⟨.throttle 3 .all, .leadAlways⟩ (Cfg.init (St.subscribed true) progs) sched).st.log.count (.n (.next v)) ≤
        (progs.map fun ops => ops.count (.emit (.next v))).sum := by
  intro h
  have := h dupProgs dupSched (.int 7)
  rw [C09S_throttle_leadAlways_duplicates] at this
  revert this
  decide

/-- non-vacuity: deliveries do happen (two items through a leading+trailing throttle on three threads) -/
example :
    (exec ⟨.throttle 3 .all, .original⟩ (Cfg.init (St.subscribed true) dupProgs) dupSched).st.log.count
      (.n (.next (.int 7))) = 1 := by
  rw [C09S_throttle_same_schedule_once]; decide

end Rx.Conc.TS
