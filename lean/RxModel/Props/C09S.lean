import RxModel.Conc.TimeSteps
/-
  C09 (thread-safe flavour) — throttle against its window task on ANOTHER thread, at the granularity of single
  `MutArc` acquisitions (model: RxModel/Conc/TimeSteps.lean, the step model of C02S; tie to /repo: suite `coop`,
  family `coop-rate` of the C09 check: the REAL code on two OS threads, the emitter preempted at each of its lock
  acquisitions while the window task is polled, and the other way round; deliveries, executed schedule and lock
  tokens compared verbatim with this model).

  The defect this family found in /repo (repaired by a1fa54c): `ThrottleObserver::next` stores the item as the
  trailing candidate, THEN looks whether the window is over.  The task of the window that is just ending can run in
  between: it takes the stored item and delivers it on the trailing edge; `next` then finds the window over and
  delivered the same item AGAIN on the leading edge of the new window ("each at most once" fails).  Since the fix the
  leading edge emits the item only if it is still the stored candidate.  `Order.leadAlways` is the code before it.
-/
namespace Rx.Conc.TS
open Rx

/-- thread 2 opens a window with item 1 and lets its timer fire; thread 0 emits item 7; thread 1 is the executor
    polling the window task -/
def dupProgs : List (List Op) :=
  [[.emit (.next (.int 7))], [.poll 0], [.emit (.next (.int 1)), .run, .adv 3, .fire 0]]

/-- the emitter (thread 0) is preempted after it has stored its candidate and before it asks the handle; the window
    task runs completely; the emitter goes on -/
def dupSched : List Nat :=
  List.replicate 60 2 ++ List.replicate 5 0 ++ List.replicate 30 1 ++ List.replicate 30 0

/-- **Negative witness (the code before a1fa54c).**  Item 7 is delivered twice: by the window task on the trailing
    edge of the window item 1 opened, and by its own `next` on the leading edge of the next window. -/
theorem C09S_throttle_leadAlways_duplicates :
    (exec ⟨.throttle 3 .all, .leadAlways⟩ (Cfg.init (St.subscribed true) dupProgs) dupSched).st.log =
      [.n (.next (.int 1)), .n (.next (.int 7)), .n (.next (.int 7))] := by
  decide +kernel

/-- … the repaired code on the very same threads and schedule: once. -/
theorem C09S_throttle_same_schedule_once :
    (exec ⟨.throttle 3 .all, .original⟩ (Cfg.init (St.subscribed true) dupProgs) dupSched).st.log =
      [.n (.next (.int 1)), .n (.next (.int 7))] := by
  decide +kernel

/-- … and when the emitter is NOT preempted, item 7 falls into the window item 1 opened and replaces nothing that
    was delivered: 1 on the leading edge, 7 on the trailing edge (both variants agree: the change is invisible to a
    single thread). -/
theorem C09S_throttle_sequential_same (o : Order) (h : o = .original ∨ o = .leadAlways) :
    (exec ⟨.throttle 3 .all, o⟩ (Cfg.init (St.subscribed true) dupProgs)
      (List.replicate 60 2 ++ List.replicate 30 0 ++ List.replicate 30 1)).st.log =
      [.n (.next (.int 1)), .n (.next (.int 7))] := by
  rcases h with rfl | rfl <;> decide +kernel

end Rx.Conc.TS
