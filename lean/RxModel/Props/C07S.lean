import RxModel.Lemmas.TimeStepsOnceM
/-
  C07 (thread-safe flavour) — delay / observe_on against the executor and `unsubscribe()` on other threads, at the
  granularity of single `MutArc` acquisitions (step model RxModel/Conc/TimeSteps.lean, shared with C02S / C09S; tie to
  /repo: suite `coop`, the real code on two OS threads scheduled at every hooked acquisition, deliveries, executed
  schedule and lock tokens compared with this model).

  "observe_on, delay … deliver exactly the source's items": the half of it that no interleaving can break — NOTHING IS
  DELIVERED TWICE AND NOTHING IS INVENTED, whatever the threads do.  (Order and completeness depend on the executor's
  run order: theorems C07_* over the chain model, known finding for non-FIFO executors.)
-/
namespace Rx.Conc.TS
open Rx

/-- **No item is delivered more often than it was emitted — delay and observe_on, ALL interleavings.**  Any delay, the
    subject alive or already terminated at subscription, ANY number of threads each running ANY list of operations
    (`emit next/error/complete`, `unsub`, `poll j` incl. spurious polls, `run`, `adv`, `fire`), EVERY schedule: the
    number of times the item `v` stands in the probe log is at most the number of `emit (next v)` operations.
    (Token argument, Lemmas/TimeStepsOnceM.lean: an item that has passed the operator sits in the task scheduled for
    it — armed: `keep_running` and not yet run — until that task's body hands it over; one poller per task.) -/
theorem C07S_at_most_once {K : Conf} (hK : MConf K) (live : Bool) (progs : List (List Op)) (sched : List Nat)
    (v : Val) :
    (exec K (Cfg.init (St.subscribed live) progs) sched).st.log.count (.n (.next v)) ≤
      (progs.map fun ops => ops.count (.emit (.next v))).sum := by
  have h := (PhiM_exec hK v live progs sched).2
  unfold PhiM tokM at h
  exact Nat.le_trans (by omega) h

theorem C07S_delay_at_most_once (d : Nat) (live : Bool) (progs : List (List Op)) (sched : List Nat) (v : Val) :
    (exec ⟨.delay d, .original⟩ (Cfg.init (St.subscribed live) progs) sched).st.log.count (.n (.next v)) ≤
      (progs.map fun ops => ops.count (.emit (.next v))).sum :=
  C07S_at_most_once (mconf_delay d) live progs sched v

theorem C07S_observe_on_at_most_once (live : Bool) (progs : List (List Op)) (sched : List Nat) (v : Val) :
    (exec ⟨.observeOn, .original⟩ (Cfg.init (St.subscribed live) progs) sched).st.log.count (.n (.next v)) ≤
      (progs.map fun ops => ops.count (.emit (.next v))).sum :=
  C07S_at_most_once mconf_observeOn live progs sched v

/-- **Nothing is invented**: an item nobody emits is never delivered. -/
theorem C07S_only_source_items {K : Conf} (hK : MConf K) (live : Bool) (progs : List (List Op)) (sched : List Nat)
    (v : Val) (hv : ∀ ops ∈ progs, Op.emit (.next v) ∉ ops) :
    Item.n (.next v) ∉ (exec K (Cfg.init (St.subscribed live) progs) sched).st.log := by
  have h := C07S_at_most_once hK live progs sched v
  have h0 : (progs.map fun ops => ops.count (.emit (.next v))).sum = 0 := by
    clear h
    induction progs with
    | nil => rfl
    | cons a r ih =>
      simp only [List.map_cons, List.sum_cons]
      rw [ih (fun ops ho => hv ops (List.mem_cons_of_mem _ ho)),
        List.count_eq_zero.mpr (hv a List.mem_cons_self)]
  rw [h0] at h
  exact List.count_eq_zero.mp (Nat.le_zero.mp h)

/-- non-vacuity: two items through `observe_on` with an emitter and an executor thread interleaved: both arrive, once -/
example :
    (exec ⟨.observeOn, .original⟩
      (Cfg.init (St.subscribed true)
        [[.emit (.next (.int 1)), .emit (.next (.int 2))], [.run, .run, .run]])
      (List.replicate 9 0 ++ List.replicate 8 1 ++ List.replicate 30 0 ++ List.replicate 80 1)).st.log =
      [.n (.next (.int 1)), .n (.next (.int 2))] := by
  decide +kernel

end Rx.Conc.TS
