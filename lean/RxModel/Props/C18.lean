import RxModel.Pipe.World
import RxModel.Sched.Chain
/-
  C18 — Local and thread-safe variants are observationally equivalent.

  The library stamps both forms out of one macro per operator (`Rc<RefCell>` vs
  `Arc<Mutex>` cells), so the model has ONE definition per operator: replacing
  every type by its thread-safe counterpart is the identity on descriptions.
  The statement below makes that explicit; it is shallow by design — the force
  of the check is the three-way comparison (real local code, real thread-safe
  code, this model) run by `./check C18`, which is what ties the claim to the
  hand-duplicated Rust (skip_until's flag, Subscriber(Threads), box_it,
  MultiSubscription(Threads)).
-/
namespace Rx

inductive Flavor where
  | local | threads
  deriving DecidableEq, Repr

/-- `_threads` / `Threads` counterpart of a pipeline description. -/
def Pipe.toThreads (p : Pipe) : Pipe := p

/-- The probe log of a single-threaded history, per flavour. -/
def runFlavor (_ : Flavor) (p : Pipe) (es : List Ext) : List Notif := ((World.init p).run es).2

theorem C18_equiv (p : Pipe) (es : List Ext) :
    runFlavor .local p es = runFlavor .threads p.toThreads es := rfl

/-- The same for scheduler chains. -/
def runChainFlavor (_ : Flavor) (w : T.TW) (evs : List T.TW.Ev) : List Notif :=
  (evs.foldl T.TW.step w).log

theorem C18_equiv_time (w : T.TW) (evs : List T.TW.Ev) :
    runChainFlavor .local w evs = runChainFlavor .threads w evs := rfl

end Rx
