import RxModel.Lemmas.MergeAllOrderAt
/-
  C05O — the ORDER clauses of C05 (flattening: merge_all(n), concat_all,
  flat_map, concat_map): hot inner instances exactly once and in order, start
  order = arrival order (FIFO queue), concatenation for the limit 1, an error
  anywhere terminates once, per-inner order for every limit.

  Property theorems only.  Model: RxModel/Ops/MergeAll.lean (unchanged).
  Ghost log: RxModel/Lemmas/MergeAllOrderLog.lean — `runL fixed s evs` is the
  output of `runG fixed s evs` interleaved, at the exact program points, with
  `arrive i` (the outer `next` accepted instance `i`) and `start i`
  (`actual_subscribe` is called on instance `i`); `trace` is the same per
  external event.  `C05O_log_faithful`: erasing the ghost labels gives the
  model's output, for every table, limit and history.
  Helper lemmas: RxModel/Lemmas/MergeAllOrder*.lean.

  `fixed = true` is the repaired code (`Fixed.run`), `fixed = false` the code
  before the fix (`run`); statements that need it carry the hypothesis that
  the run did not get stuck (always true of the repaired code: `C05_no_stuck`).
  All theorems quantify over every table of inner observables, every history
  (no bound), and — unless said otherwise — every limit.
-/
namespace Rx
open MergeAll

/-! ## 0. The ghost log is the model's output -/

theorem C05O_log_faithful (fixed : Bool) (inners : List Inner) (n : Nat) (evs : List Ev) :
    outs (runL fixed (init inners n) evs) = (runG fixed (init inners n) evs).2 ∧
    runL fixed (init inners n) evs = (trace fixed (init inners n) evs).flatMap (fun p => p.2) ∧
    (trace fixed (init inners n) evs).map (fun p => p.1) = evs :=
  ⟨outs_runL fixed evs _, runL_eq_trace fixed evs _, trace_events fixed evs _⟩

/-! ## 1. Hot inner instances: every item exactly once, in order

  `hotSpec j t` computes, from the trace alone, what instance `t` (the t-th
  accepted arrival), an instance of hot subject `j`, must contribute: the items
  subject `j` emits while the instance is `live` — from the event whose log
  contains `start t` (arrival with a free slot, or the completion that takes it
  from the queue), provided subject `j` has not terminated by then, until the
  terminal of subject `j`, a terminal of the merged stream, or `unsub`. -/

/-- Any limit, any history: the output restricted to instance `t` IS the
    specified contribution — every item once, in emission order, nothing else.
    `hkey`: the arrivals carrying tag `t` are instances of hot subject `j`. -/
theorem C05O_hot_once (fixed : Bool) (inners : List Inner) (n : Nat) (evs : List Ev) (j t : Nat)
    (hs : (runG fixed (init inners n) evs).1.stuck = false)
    (hkey : ∀ i ∈ arrivalsOf (runL fixed (init inners n) evs), i.tag = t →
      (init inners n).inner i.k = .hot j) :
    restrict t (runG fixed (init inners n) evs).2 =
      hotSpec j t (.idle false) (trace fixed (init inners n) evs) :=
  (runG_hot fixed j t evs _ _ hs (init_qpre j t inners n) hkey (init_phase j t inners n)).1

/-- The repaired code, no side condition. -/
theorem C05O_hot_once_fixed (inners : List Inner) (n : Nat) (evs : List Ev) (j t : Nat)
    (hkey : ∀ i ∈ arrivalsOf (runL true (init inners n) evs), i.tag = t →
      (init inners n).inner i.k = .hot j) :
    restrict t (Fixed.run (init inners n) evs).2 =
      hotSpec j t (.idle false) (trace true (init inners n) evs) :=
  C05O_hot_once true inners n evs j t (runG_stuck_fixed evs _ rfl) hkey

/-- In the form of `C05_once_in_order`: the instance is identified by the outer
    event `outerNext k` that delivers it (table entry `k` = hot subject `j`);
    its tag is the arrival counter at that moment. -/
theorem C05O_hot_once_at (fixed : Bool) (inners : List Inner) (n : Nat) (pre post : List Ev)
    (k j : Nat) (hk : (init inners n).inner k = .hot j)
    (ho : (runG fixed (init inners n) pre).1.outerOpen = true)
    (ha : (runG fixed (init inners n) pre).1.alive = true)
    (hs : (runG fixed (init inners n) (pre ++ .outerNext k :: post)).1.stuck = false) :
    restrict (runG fixed (init inners n) pre).1.arrivals
        (runG fixed (init inners n) (pre ++ .outerNext k :: post)).2 =
      hotSpec j (runG fixed (init inners n) pre).1.arrivals (.idle false)
        (trace fixed (init inners n) (pre ++ .outerNext k :: post)) := by
  apply C05O_hot_once fixed inners n _ j _ hs
  intro i hi ht
  have := (arrival_tag_unique fixed (init inners n) pre post k
    (not_stuck_prefix fixed pre _ _ hs) ho ha).1 i hi ht
  rw [this]; exact hk

/-- The phase the specification computes is `live` exactly when, in the model,
    subject `j` holds an `InnerObserver` of instance `t`, the subject has not
    terminated and the merged stream is alive. -/
theorem C05O_hot_live_iff (fixed : Bool) (inners : List Inner) (n : Nat) (evs : List Ev) (j t : Nat)
    (hs : (runG fixed (init inners n) evs).1.stuck = false)
    (hkey : ∀ i ∈ arrivalsOf (runL fixed (init inners n) evs), i.tag = t →
      (init inners n).inner i.k = .hot j) :
    phaseAfter j t (.idle false) (trace fixed (init inners n) evs) = .live ↔
      Listening (runG fixed (init inners n) evs).1 j t :=
  phase_live_iff j t _ _
    (runG_hot fixed j t evs _ _ hs (init_qpre j t inners n) hkey (init_phase j t inners n)).2.1

/-- When an accepted instance starts: at arrival if a slot is free; otherwise
    it goes to the back of the queue and nothing starts in that event. -/
theorem C05O_start_now_or_queued (fixed : Bool) (s : St) (k : Nat) (hs : s.stuck = false)
    (ho : s.outerOpen = true) (ha : s.alive = true) :
    (s.subscribed < s.concurrent →
      ∃ l, stepL fixed s (.outerNext k) =
        .arrive ⟨s.arrivals, k⟩ :: .start ⟨s.arrivals, k⟩ :: l) ∧
    (¬ s.subscribed < s.concurrent →
      stepL fixed s (.outerNext k) = [.arrive ⟨s.arrivals, k⟩] ∧
      (stepG fixed s (.outerNext k)).1.queue = s.queue ++ [⟨s.arrivals, k⟩]) :=
  start_now_or_queued fixed s k hs ho ha

/-! ## 2. Start order = arrival order (FIFO), every limit, every history -/

/-- The instances started so far, followed by the instances waiting in the
    queue, are exactly the instances accepted so far, in arrival order.  (Both
    codes, errors / unsubscription / the stuck state included.) -/
theorem C05O_start_order (fixed : Bool) (inners : List Inner) (n : Nat) (evs : List Ev) :
    startsOf (runL fixed (init inners n) evs) ++ (runG fixed (init inners n) evs).1.queue =
      arrivalsOf (runL fixed (init inners n) evs) := by
  have := (runG_fifo fixed evs _ (init_ginv inners n)).2
  simpa [init] using this

/-- Hence the sequence of starts is a prefix of the arrival sequence … -/
theorem C05O_start_prefix (fixed : Bool) (inners : List Inner) (n : Nat) (evs : List Ev) :
    startsOf (runL fixed (init inners n) evs) <+: arrivalsOf (runL fixed (init inners n) evs) :=
  ⟨_, C05O_start_order fixed inners n evs⟩

/-- … arrival tags are strictly increasing … -/
theorem C05O_arrival_tags_increasing (fixed : Bool) (inners : List Inner) (n : Nat) (evs : List Ev) :
    (arrivalsOf (runL fixed (init inners n) evs)).Pairwise (fun a b => a.tag < b.tag) :=
  (runL_arrivals_sorted fixed evs _).1

/-- … so instances start in strictly increasing arrival number, and the queue
    holds later arrivals than everything started. -/
theorem C05O_start_tags_increasing (fixed : Bool) (inners : List Inner) (n : Nat) (evs : List Ev) :
    (startsOf (runL fixed (init inners n) evs)).Pairwise (fun a b => a.tag < b.tag) ∧
    ∀ a ∈ startsOf (runL fixed (init inners n) evs),
      ∀ b ∈ (runG fixed (init inners n) evs).1.queue, a.tag < b.tag := by
  have h := C05O_arrival_tags_increasing fixed inners n evs
  rw [← C05O_start_order, List.pairwise_append] at h
  exact ⟨h.1, h.2.2⟩

/-- No overtaking: if an instance has started, every instance accepted before
    it has started too (and, by the previous theorem, earlier). -/
theorem C05O_no_overtake (fixed : Bool) (inners : List Inner) (n : Nat) (evs : List Ev)
    (a b : Inst) (ha : a ∈ arrivalsOf (runL fixed (init inners n) evs))
    (hb : b ∈ startsOf (runL fixed (init inners n) evs)) (hab : a.tag < b.tag) :
    a ∈ startsOf (runL fixed (init inners n) evs) := by
  rw [← C05O_start_order, List.mem_append] at ha
  rcases ha with ha | ha
  · exact ha
  · have := (C05O_start_tags_increasing fixed inners n evs).2 b hb a ha
    omega

/-- Instances wait only while all `n` slots are taken, and never more than `n`
    are taken: an instance arriving while the queue is non-empty is queued. -/
theorem C05O_queue_only_when_full (fixed : Bool) (inners : List Inner) (n : Nat) (evs : List Ev) :
    (runG fixed (init inners n) evs).1.subscribed ≤ n ∧
    ((runG fixed (init inners n) evs).1.queue ≠ [] → (runG fixed (init inners n) evs).1.subscribed = n) := by
  have h := (runG_fifo fixed evs _ (init_ginv inners n)).1
  have hc : (runG fixed (init inners n) evs).1.concurrent = n :=
    (runG_limit fixed evs _ (init_limit inners n)).2
  have h1 := h.le; have h2 := h.full
  rw [hc] at h1 h2
  exact ⟨h1, fun hq => by have := h2 hq; omega⟩

/-- The start log only grows: what a history has started, every extension has
    started in the same order. -/
theorem C05O_start_log_extends (fixed : Bool) (inners : List Inner) (n : Nat) (pre post : List Ev) :
    startsOf (runL fixed (init inners n) pre) <+: startsOf (runL fixed (init inners n) (pre ++ post)) := by
  rw [runL_append, startsOf_append]; exact List.prefix_append _ _

/-! ## 3. Concat order (limit 1) -/

/-- With limit 1 (`concat_all`, `concat_map`) the output is a sequence of
    blocks in arrival order: no item of a later instance precedes an item of an
    earlier one.  Any table (hot and cold), any history, both codes. -/
theorem C05O_concat_blocks (fixed : Bool) (inners : List Inner) (n : Nat) (hn : n ≤ 1)
    (evs : List Ev) :
    (itemTags (runG fixed (init inners n) evs).2).Pairwise (· ≤ ·) := by
  have h := (runG_blk fixed evs _ (init_blk inners n hn)).2.mono
  rw [← outs_runL]
  exact h.sublist (itemTags_outs_sublist _)

/-- The same on the log: starts and items together never go back — the items
    of an instance lie between its own start and the start of the next one. -/
theorem C05O_concat_blocks_log (fixed : Bool) (inners : List Inner) (n : Nat) (hn : n ≤ 1)
    (evs : List Ev) : (tagsL (runL fixed (init inners n) evs)).Pairwise (· ≤ ·) :=
  (runG_blk fixed evs _ (init_blk inners n hn)).2.mono

/-- Cold inners that terminate inside their subscription: for EVERY limit
    `1 ≤ n` (in particular `concat_all`), both codes, every history, the output
    is exactly `coldExpected`: the scripts in arrival order, cut after the first
    script that ends with an error, then the outer terminal. -/
theorem C05O_concat_cold_exact (fixed : Bool) (inners : List Inner) (n : Nat) (hn : 1 ≤ n)
    (evs : List Ev)
    (hc : ∀ k, Ev.outerNext k ∈ evs →
      ∃ xs fin, (init inners n).inner k = .cold xs fin ∧ fin ≠ .open_) :
    (runG fixed (init inners n) evs).2 = coldExpected (init inners n).inner 0 evs :=
  runG_cold fixed evs _ (init_coldIdle inners n hn) hc

/-- … spelled out for an error-free table and a completed outer stream:
    the items are the concatenation of the scripts in outer order, then `complete`. -/
theorem C05O_concat_cold_scripts (fixed : Bool) (inners : List Inner) (n : Nat) (hn : 1 ≤ n)
    (ks : List Nat) (hc : ∀ k ∈ ks, ∃ xs, (init inners n).inner k = .cold xs .complete) :
    (runG fixed (init inners n) (ks.map Ev.outerNext ++ [.outerComplete])).2.map Out.toNotif =
      (ks.flatMap (fun k => ((init inners n).inner k).script)).map Notif.next ++ [.complete] := by
  rw [C05O_concat_cold_exact fixed inners n hn]
  · exact coldExpected_all_complete _ ks 0 hc
  · intro k hk
    simp only [List.mem_append, List.mem_map, List.mem_singleton, reduceCtorEq, or_false] at hk
    obtain ⟨k', hk', he⟩ := hk
    cases he
    obtain ⟨xs, hx⟩ := hc k hk'
    exact ⟨xs, .complete, hx, by simp⟩

/-! ## 4. An error anywhere terminates the merged stream once -/

/-- At most one terminal, and it is the LAST entry of the whole log: after it
    nothing is delivered, no instance is started, no arrival accepted. -/
theorem C05O_terminal_last (fixed : Bool) (inners : List Inner) (n : Nat) (evs : List Ev) :
    hasTerm (runL fixed (init inners n) evs) = false ∨
    ∃ l' x, runL fixed (init inners n) evs = l' ++ [x] ∧ x.isTerm = true ∧ hasTerm l' = false := by
  rcases runG_shape fixed evs (init inners n) with ⟨a, _⟩ | ⟨l', x, e, hx, a, _⟩
  · exact Or.inl a
  · exact Or.inr ⟨l', x, e, hx, a⟩

/-- Nothing follows a terminal, whatever the continuation. -/
theorem C05O_nothing_after_terminal (fixed : Bool) (inners : List Inner) (n : Nat)
    (pre post : List Ev) (h : hasTerm (runL fixed (init inners n) pre) = true) :
    runL fixed (init inners n) (pre ++ post) = runL fixed (init inners n) pre ∧
    (runG fixed (init inners n) (pre ++ post)).2 = (runG fixed (init inners n) pre).2 := by
  have := runL_after_term fixed (init inners n) pre post h
  exact ⟨this, by rw [← outs_runL, this, outs_runL]⟩

/-- `hasTerm` of the log = a terminal in the model's output. -/
theorem C05O_hasTerm_iff (fixed : Bool) (inners : List Inner) (n : Nat) (evs : List Ev) :
    hasTerm (runL fixed (init inners n) evs) = true ↔
      (Out.complete ∈ (runG fixed (init inners n) evs).2 ∨
        ∃ e, Out.error e ∈ (runG fixed (init inners n) evs).2) := by
  rw [← outs_runL]; exact hasTerm_iff_outs _

/-- An error on the outer stream (slot open, merged stream alive): exactly that
    error is appended, and nothing follows. -/
theorem C05O_error_outer (fixed : Bool) (inners : List Inner) (n : Nat) (pre post : List Ev) (e : Err)
    (hs : (runG fixed (init inners n) pre).1.stuck = false)
    (ho : (runG fixed (init inners n) pre).1.outerOpen = true)
    (ha : (runG fixed (init inners n) pre).1.alive = true) :
    (runG fixed (init inners n) (pre ++ .outerError e :: post)).2 =
      (runG fixed (init inners n) pre).2 ++ [.error e] := by
  have h1 := error_outer_step fixed _ e hs ho ha
  rw [runG_append]
  simp only [runG, h1.1, (runG_deadO fixed post _ h1.2).2.1, List.append_nil]

/-- An error of hot subject `j` while some instance `t` is subscribed to it
    (`Listening` = the `live` phase, `C05O_hot_live_iff`): exactly that error,
    once — however many instances listen —, and nothing follows. -/
theorem C05O_error_hot (fixed : Bool) (inners : List Inner) (n : Nat) (pre post : List Ev)
    (j t : Nat) (e : Err) (hs : (runG fixed (init inners n) pre).1.stuck = false)
    (hl : Listening (runG fixed (init inners n) pre).1 j t) :
    (runG fixed (init inners n) (pre ++ .innerError j e :: post)).2 =
      (runG fixed (init inners n) pre).2 ++ [.error e] := by
  have h1 := error_hot_step fixed _ j t e hs hl
  rw [runG_append]
  simp only [runG, h1.1, (runG_deadO fixed post _ h1.2).2.1, List.append_nil]

/-- An error of a subject nobody is subscribed to — its instances are still
    queued, have not arrived, or are over — is not delivered. -/
theorem C05O_error_hot_unheard (fixed : Bool) (inners : List Inner) (n : Nat) (pre : List Ev)
    (j : Nat) (e : Err) (hn : ∀ t, ¬ Listening (runG fixed (init inners n) pre).1 j t) :
    (runG fixed (init inners n) (pre ++ [.innerError j e])).2 = (runG fixed (init inners n) pre).2 := by
  rw [runG_append]
  simp only [runG, error_hot_unheard fixed _ j e hn, List.append_nil]

/-- A STARTED cold inner whose script ends with an error (started at arrival or
    from the queue; repaired code): the log ends with its start, its items and
    exactly that error; no terminal before. -/
theorem C05O_error_cold (inners : List Inner) (n : Nat) (evs : List Ev) (i : Inst) (xs : List Val)
    (e : Err) (hst : Lab.start i ∈ runL true (init inners n) evs)
    (hk : (init inners n).inner i.k = .cold xs (.error e)) :
    ∃ L1, runL true (init inners n) evs =
        L1 ++ Lab.start i :: (itemsL i.tag xs ++ [Lab.out (.error e)]) ∧ hasTerm L1 = false ∧
      (Fixed.run (init inners n) evs).2 = outs L1 ++ xs.map (Out.item i.tag) ++ [.error e] := by
  obtain ⟨L1, h⟩ := runG_errblock i xs e evs _ hst hk
  refine ⟨L1, h, errblock_prefix_clean true _ evs i xs e L1 h, ?_⟩
  show (runG true (init inners n) evs).2 = _
  rw [← outs_runL, h]
  simp [outs_append, outs]

/-- Where an error in the output can come from: an error event of the outer
    stream, an error event of a hot subject, or a cold inner that was STARTED.
    The error of an inner that is still queued is never delivered. -/
theorem C05O_error_source (fixed : Bool) (inners : List Inner) (n : Nat) (evs : List Ev) (e : Err)
    (h : Out.error e ∈ (runG fixed (init inners n) evs).2) :
    Ev.outerError e ∈ evs ∨ (∃ j, Ev.innerError j e ∈ evs) ∨
      ∃ i xs, Lab.start i ∈ runL fixed (init inners n) evs ∧
        (init inners n).inner i.k = .cold xs (.error e) := by
  rw [← outs_runL, mem_outs_iff] at h
  rcases runG_err_src fixed e evs _ h with h | h | ⟨i, hi, xs, hx⟩
  · exact Or.inl h
  · exact Or.inr (Or.inl h)
  · exact Or.inr (Or.inr ⟨i, xs, hi, hx⟩)

/-- In particular: no error events and no failing inner among the STARTED
    instances ⇒ no error downstream, whatever is waiting in the queue. -/
theorem C05O_error_queued_silent (fixed : Bool) (inners : List Inner) (n : Nat) (evs : List Ev)
    (hev : ∀ ev ∈ evs, (∀ e, ev ≠ .outerError e) ∧ (∀ j e, ev ≠ .innerError j e))
    (hst : ∀ i, Lab.start i ∈ runL fixed (init inners n) evs →
      ∀ xs e, (init inners n).inner i.k ≠ .cold xs (.error e)) (e : Err) :
    Out.error e ∉ (runG fixed (init inners n) evs).2 := by
  intro h
  rcases C05O_error_source fixed inners n evs e h with h | ⟨j, h⟩ | ⟨i, xs, hi, hx⟩
  · exact (hev _ h).1 e rfl
  · exact (hev _ h).2 j e rfl
  · exact hst i hi xs e hx

/-! ## 5. Per-inner order, every limit -/

/-- For the instance delivered by `outerNext k` after `pre` (cold or hot): what
    it contributes to the output is a sub-sequence of what the inner observable
    produces (`innerSeq`: the script of a cold inner, the emissions of the
    subject of a hot one) — same relative order, nothing twice. -/
theorem C05O_inner_order (fixed : Bool) (inners : List Inner) (n : Nat) (pre post : List Ev) (k : Nat)
    (ho : (runG fixed (init inners n) pre).1.outerOpen = true)
    (ha : (runG fixed (init inners n) pre).1.alive = true)
    (hs : (runG fixed (init inners n) (pre ++ .outerNext k :: post)).1.stuck = false) :
    (restrict (runG fixed (init inners n) pre).1.arrivals
        (runG fixed (init inners n) (pre ++ .outerNext k :: post)).2).Sublist
      (innerSeq ((init inners n).inner k) (pre ++ .outerNext k :: post)) := by
  cases hk : (init inners n).inner k with
  | cold xs fin =>
    rw [runG_once fixed inners n pre post k xs fin hk ho ha hs]
    simp only [innerSeq]
    split
    · exact List.Sublist.refl _
    · exact List.nil_sublist _
  | hot j =>
    rw [C05O_hot_once_at fixed inners n pre post k j hk ho ha hs]
    exact hotSpec_sublist fixed j _ _ _ _

/-! ## A finding: a hot inner that terminates while it waits in the queue

  Full-strength reading of "the flattened stream completes when the outer and
  all inner observables have completed", stated on the HISTORY (the existing
  `C05_completion` is stated on the operator's counters: it completes when it
  has RECEIVED a `complete` for every arrival). -/

/-- Error-free history, `1 ≤ n`, the outer stream completes, every inner
    observable it delivered is a cold one that completes or a hot one whose
    subject completes during the history ⇒ the merged stream completes. -/
def C05O_completion_by_history_statement (run : St → List Ev → St × List Out) : Prop :=
  ∀ (inners : List Inner) (n : Nat) (evs : List Ev), 1 ≤ n → NoErrTable inners →
    (∀ ev ∈ evs, Ev.benign ev = true) → Ev.outerComplete ∈ evs →
    (∀ k, Ev.outerNext k ∈ evs →
      (∃ xs, (init inners n).inner k = .cold xs .complete) ∨
      (∃ j, (init inners n).inner k = .hot j ∧ Ev.innerComplete j ∈ evs)) →
    Out.complete ∈ (run (init inners n) evs).2

/-- It is FALSE (both codes): `concat_all` over two hot inners; the second
    subject completes while its instance is still queued.  When the first
    completes, the instance is subscribed to a finished `Subject`, which drops
    the late `InnerObserver` without calling it (subject.rs `actual_subscribe`,
    `chamber` is `None`): the slot is never released, the merged stream never
    completes and every later inner observable waits for ever.
    Replay: `limit 1; inners (hot 0) (hot 1); outer (o 0); outer (o 1); outer c;
    inner 1 c; inner 0 c` (real crate: no `C`; confirmed with `rxharness`). -/
theorem C05O_completion_by_history_counterexample :
    Out.complete ∉ (Fixed.run (init [.hot 0, .hot 1] 1)
      [.outerNext 0, .outerNext 1, .outerComplete, .innerComplete 1, .innerComplete 0]).2 ∧
    Out.complete ∉ (run (init [.hot 0, .hot 1] 1)
      [.outerNext 0, .outerNext 1, .outerComplete, .innerComplete 1, .innerComplete 0]).2 := by
  decide

theorem C05O_completion_by_history_false :
    ¬ C05O_completion_by_history_statement Fixed.run ∧ ¬ C05O_completion_by_history_statement run := by
  have hargs : (1 ≤ 1) ∧ NoErrTable [.hot 0, .hot 1] ∧
      (∀ ev ∈ [Ev.outerNext 0, .outerNext 1, .outerComplete, .innerComplete 1, .innerComplete 0],
        Ev.benign ev = true) ∧
      Ev.outerComplete ∈ [Ev.outerNext 0, .outerNext 1, .outerComplete, .innerComplete 1, .innerComplete 0] ∧
      (∀ k, Ev.outerNext k ∈ [Ev.outerNext 0, .outerNext 1, .outerComplete, .innerComplete 1,
          .innerComplete 0] →
        (∃ xs, (init [.hot 0, .hot 1] 1).inner k = .cold xs .complete) ∨
        (∃ j, (init [.hot 0, .hot 1] 1).inner k = .hot j ∧
          Ev.innerComplete j ∈ [Ev.outerNext 0, .outerNext 1, .outerComplete, .innerComplete 1,
            .innerComplete 0])) := by
    refine ⟨Nat.le_refl _, ?_, by decide, by decide, ?_⟩
    · intro xs e h; simp at h
    · intro k hk
      simp only [List.mem_cons, Ev.outerNext.injEq, reduceCtorEq, List.not_mem_nil, or_false] at hk
      rcases hk with rfl | rfl
      · exact Or.inr ⟨0, rfl, by decide⟩
      · exact Or.inr ⟨1, rfl, by decide⟩
  obtain ⟨h1, h2, h3, h4, h5⟩ := hargs
  exact ⟨fun h => C05O_completion_by_history_counterexample.1 (h _ _ _ h1 h2 h3 h4 h5),
    fun h => C05O_completion_by_history_counterexample.2 (h _ _ _ h1 h2 h3 h4 h5)⟩

/-- The same history continued: the cold inner that arrived third is never
    started and its items are lost, whatever the dead subject does later. -/
theorem C05O_completion_by_history_items_lost :
    (Fixed.run (init [.hot 0, .hot 1, .cold [.int 5] .complete] 1)
      [.outerNext 0, .outerNext 1, .outerNext 2, .outerComplete, .innerComplete 1,
       .innerNext 0 (.int 1), .innerComplete 0, .innerNext 1 (.int 2), .innerComplete 1]).2 =
      [.item 0 (.int 1)] := by decide

/-- What does hold of the history-level statement: tables in which the outer
    stream delivers cold inners only (both codes, any limit `1 ≤ n`); and, for
    hot inners, `C05_completion` (completion exactly when a `complete` has been
    RECEIVED for every arrival).  Missing: hot subjects that terminate before
    their instance is subscribed. -/
theorem C05O_completion_by_history_partial (fixed : Bool) (inners : List Inner) (n : Nat)
    (evs : List Ev) (hn : 1 ≤ n) (hb : ∀ ev ∈ evs, Ev.benign ev = true)
    (ho : Ev.outerComplete ∈ evs)
    (hc : ∀ k, Ev.outerNext k ∈ evs → ∃ xs, (init inners n).inner k = .cold xs .complete) :
    Out.complete ∈ (runG fixed (init inners n) evs).2 := by
  rw [C05O_concat_cold_exact fixed inners n hn evs
    (fun k hk => by obtain ⟨xs, hx⟩ := hc k hk; exact ⟨xs, .complete, hx, by simp⟩)]
  exact coldExpected_complete_mem _ evs 0 hc hb ho

/-- The instance subscribed late stays silent: the specification's phase goes
    from `idle true` (subject finished while waiting) straight to `over`. -/
example : phaseAfter 1 1 (.idle false) (trace true (init [.hot 0, .hot 1] 1)
      [.outerNext 0, .outerNext 1, .outerComplete, .innerComplete 1]) = .idle true
    ∧ phaseAfter 1 1 (.idle false) (trace true (init [.hot 0, .hot 1] 1)
      [.outerNext 0, .outerNext 1, .outerComplete, .innerComplete 1, .innerComplete 0]) = .over
    ∧ (Fixed.run (init [.hot 0, .hot 1] 1)
      [.outerNext 0, .outerNext 1, .outerComplete, .innerComplete 1, .innerComplete 0]).1.subs
        = [(1, 1)] := by decide

/-! ## Non-vacuity -/

/-- limit 2, three hot inners and a cold one, interleaved emissions: instance 2
    (subject 2) waits in the queue until instance 0 completes, misses the item
    `7` emitted meanwhile, then hears `3` and `5`; the cold instance 3 starts
    when instance 1 completes. -/
example :
    (Fixed.run (init [.hot 0, .hot 1, .hot 2, .cold [.int 8, .int 9] .complete] 2)
      [.outerNext 0, .outerNext 1, .outerNext 2, .innerNext 0 (.int 1), .innerNext 2 (.int 7),
       .innerNext 1 (.int 2), .outerNext 3, .innerComplete 0, .innerNext 2 (.int 3),
       .innerNext 1 (.int 4), .innerComplete 1, .innerNext 2 (.int 5), .outerComplete,
       .innerComplete 2]).2 =
    [.item 0 (.int 1), .item 1 (.int 2), .item 2 (.int 3), .item 1 (.int 4), .item 3 (.int 8),
     .item 3 (.int 9), .item 2 (.int 5), .complete] := by decide

example :
    hotSpec 2 2 (.idle false)
      (trace true (init [.hot 0, .hot 1, .hot 2, .cold [.int 8, .int 9] .complete] 2)
      [.outerNext 0, .outerNext 1, .outerNext 2, .innerNext 0 (.int 1), .innerNext 2 (.int 7),
       .innerNext 1 (.int 2), .outerNext 3, .innerComplete 0, .innerNext 2 (.int 3),
       .innerNext 1 (.int 4), .innerComplete 1, .innerNext 2 (.int 5), .outerComplete,
       .innerComplete 2]) = [.int 3, .int 5] := by decide

example :
    startsOf (runL true (init [.hot 0, .hot 1, .hot 2, .cold [.int 8, .int 9] .complete] 2)
      [.outerNext 0, .outerNext 1, .outerNext 2, .innerNext 0 (.int 1), .innerNext 2 (.int 7),
       .innerNext 1 (.int 2), .outerNext 3, .innerComplete 0, .innerNext 2 (.int 3),
       .innerNext 1 (.int 4), .innerComplete 1]) = [⟨0, 0⟩, ⟨1, 1⟩, ⟨2, 2⟩, ⟨3, 3⟩] := by decide

/-- the hypothesis `hkey` of `C05O_hot_once` is satisfiable (tag 2 is the instance of `hot 2`) -/
example : ∀ i ∈ arrivalsOf (runL true (init [.hot 0, .hot 1, .hot 2] 2)
      [.outerNext 0, .outerNext 1, .outerNext 2]), i.tag = 2 →
      (init [.hot 0, .hot 1, .hot 2] 2).inner i.k = .hot 2 := by decide

/-- n = 1, hot — cold — hot: blocks in outer order; the third instance misses
    the item `7` its subject emits while it waits. -/
example :
    (Fixed.run (init [.hot 0, .cold [.int 8, .int 9] .complete, .hot 1] 1)
      [.outerNext 0, .outerNext 1, .outerNext 2, .innerNext 1 (.int 7), .innerNext 0 (.int 1),
       .innerNext 0 (.int 2), .innerComplete 0, .innerNext 1 (.int 3), .outerComplete,
       .innerNext 1 (.int 4), .innerComplete 1]).2 =
    [.item 0 (.int 1), .item 0 (.int 2), .item 1 (.int 8), .item 1 (.int 9), .item 2 (.int 3),
     .item 2 (.int 4), .complete] := by decide

/-- the same subject delivered twice: the second instance is started when the
    subject has already completed, and contributes nothing -/
example :
    hotSpec 0 2 (.idle false) (trace true (init [.hot 0, .cold [.int 8] .complete] 1)
      [.outerNext 0, .outerNext 1, .outerNext 0, .innerNext 0 (.int 1), .innerComplete 0,
       .innerNext 0 (.int 2)]) = []
    ∧ (Fixed.run (init [.hot 0, .cold [.int 8] .complete] 1)
      [.outerNext 0, .outerNext 1, .outerNext 0, .innerNext 0 (.int 1), .innerComplete 0,
       .innerNext 0 (.int 2)]).2 = [.item 0 (.int 1), .item 1 (.int 8)] := by decide

/-- a queued failing inner is silent; once started its error ends the log -/
example :
    (Fixed.run (init [.hot 0, .cold [.int 8] (.error 3)] 1)
      [.outerNext 0, .outerNext 1, .innerNext 0 (.int 1), .outerComplete]).2 = [.item 0 (.int 1)]
    ∧ runL true (init [.hot 0, .cold [.int 8] (.error 3)] 1)
      [.outerNext 0, .outerNext 1, .innerNext 0 (.int 1), .innerComplete 0, .innerNext 0 (.int 2)] =
      [.arrive ⟨0, 0⟩, .start ⟨0, 0⟩, .arrive ⟨1, 1⟩, .out (.item 0 (.int 1)), .start ⟨1, 1⟩,
       .out (.item 1 (.int 8)), .out (.error 3)] := by decide

/-- an error of a subject whose instance is still queued is not delivered;
    the instance is later subscribed to the dead subject and stays silent -/
example :
    (Fixed.run (init [.hot 0, .hot 1] 1)
      [.outerNext 0, .outerNext 1, .innerError 1 5, .innerNext 0 (.int 1), .innerComplete 0,
       .innerNext 1 (.int 2)]).2 = [.item 0 (.int 1)] := by decide

/-- cold concatenation, limit 3 -/
example :
    (run (init [.cold [.int 1, .int 2] .complete, .cold [] .complete, .cold [.int 3] .complete] 3)
      ([0, 2, 1, 0].map Ev.outerNext ++ [.outerComplete])).2.map Out.toNotif =
    [.next (.int 1), .next (.int 2), .next (.int 3), .next (.int 1), .next (.int 2), .complete] := by
  decide

end Rx
