import RxModel.Lemmas.SubjectRefine
import RxModel.Lemmas.SubjectSpecFacts
/-
  C06 — Subjects deliver each item once, in order, to exactly the current
  subscribers (sequential part; one model for Subject, SubjectThreads and the three
  MutRef variants: same macro).

  Property theorems only.  Helper lemmas: RxModel/Lemmas/Subject*.lean.
  `State`/`step`/`run` (Subject/Subject.lean) is the transcription of
  src/subject.rs + src/subscriber.rs + impl_rc_observer and is what `rxdriver`
  executes against the real types; `Abs` (Spec/SubjectSpec.lean) is the abstract
  spec `{live, done}`.  `C06_refines` ties them for every history of any length;
  the `C06_spec_*` theorems spell out what the abstract spec promises.
-/
namespace Rx.Subj

/-- Refinement, all histories of any length (subscribe with any callback script,
    unsubscribe-one, next, error, complete, retain, unsubscribe, clone): per
    operation the deliveries (who, what, in which order), the finished flag and the
    panic flag of the concrete two-stage subject are those of the abstract spec. -/
theorem C06_refines (ops : List SubjOp) : (run ops).map Output.vis = Abs.run ops :=
  runFrom_refines ops State.init Inv.init rfl

/-- The property in its plain form, for every history of any length in which the
    subscribers do nothing inside their callbacks: the real two-stage subject behaves
    as the one-list spec `Simple` — each item is delivered once, in subscription
    order, to exactly the subscribers that joined before it and have not left; a
    terminal once to each of them; nothing after a terminal or `unsubscribe()`;
    late subscribers are never called; no panic. -/
theorem C06_plain (ops : List SubjOp) (hp : ∀ op ∈ ops, op.Plain) :
    (run ops).map Output.vis = Simple.run ops := by
  rw [C06_refines]
  have hq : Abs.init.Quiet := by
    intro sc h
    simp [Abs.init] at h
  have h0 : SimRel Abs.init Simple.init := ⟨rfl, rfl, rfl, hq, rfl, fun _ => rfl⟩
  exact SimRel.runFrom ops Abs.init Simple.init h0 hp

/-- The only panic a sequential history can meet is the one the spec names (a
    subscriber unsubscribing itself inside its own callback); in particular the
    `unwrap()`s on the chamber in `load`/`len`/`is_empty` never fire
    ("observers = Some → chamber = Some"). -/
theorem C06_no_unwrap_panic (ops : List SubjOp) (o : Output) (ho : o ∈ run ops) (hp : o.panic = true) :
    ∃ a ∈ Abs.run ops, a.panic = true := by
  refine ⟨o.vis, ?_, hp⟩
  rw [← C06_refines]
  exact List.mem_map_of_mem ho

/-- `len`/`is_empty` bookkeeping (they count closed-but-not-retained entries, so they
    are not part of the abstract spec): `len = |observers| + |chamber|` while open. -/
theorem C06_len (s : State) (hI : Inv s) :
    s.len? = some (match s.observers with
      | none => 0
      | some obs => obs.length + (s.chamber.getD []).length) :=
  (len_bookkeeping s hI).1

/-- In every history: `is_closed = is_finished`, `is_empty ↔ len = 0`, and after a
    terminal or `unsubscribe()` the subject reports itself finished AND empty. -/
theorem C06_finished_empty (ops : List SubjOp) (o : Output) (ho : o ∈ run ops) :
    o.closed = o.finished ∧ o.empty = (o.len == 0) ∧ (o.finished = true → o.len = 0 ∧ o.empty = true) := by
  refine runFrom_all (fun o => o.closed = o.finished ∧ o.empty = (o.len == 0) ∧
      (o.finished = true → o.len = 0 ∧ o.empty = true)) ?_ ops State.init Inv.init rfl o ho
  intro s hI ds
  obtain ⟨_, h2, h3, h4⟩ := len_bookkeeping s hI
  refine ⟨h3, h2, fun hf => ?_⟩
  have h0 : s.len = 0 := h4 hf
  exact ⟨h0, by show s.isEmpty = true; rw [h2, h0]; rfl⟩

/-- The abstract subscriber list never holds a subscriber twice, holds only existing
    subscribers, and is empty once done. -/
theorem C06_spec_invariant (ops : List SubjOp) : AInv (Abs.init.exec ops) :=
  AInv.exec ops _ AInv.init

/-- An emission serves a sub-list of the snapshot taken when it began: every
    subscriber at most once, in subscription order, nobody else, each with exactly
    the item (so, with `C06_spec_invariant`, never the same subscriber twice). -/
theorem C06_spec_emission (a : Abs) (v : Val) (hd : a.done = false) :
    List.Sublist (a.next none v).2 (a.live.map (·, Notif.next v)) := by
  simp only [Abs.next, hd, Bool.false_eq_true, if_false]
  exact abcast_sublist v a.live a

/-- … and exactly the snapshot, everybody once, membership unchanged, when no
    callback unsubscribes or subscribes anybody. -/
theorem C06_spec_emission_exact (a : Abs) (v : Val) (hd : a.done = false) (hq : a.Quiet)
    (hp : a.panicked = false) :
    (a.next none v).2 = a.live.map (·, Notif.next v) ∧ (a.next none v).1.live = a.live := by
  simp only [Abs.next, hd, Bool.false_eq_true, if_false]
  have h := abcast_quiet none v a.live a hq hp (fun _ h => h)
  exact ⟨h.1, h.2.1⟩

/-- A subscriber added from inside a callback during an emission does not see the
    in-flight item: everything delivered by the emission goes to a subscriber that
    existed (and was current) before the emission began. -/
theorem C06_spec_in_callback_subscriber_misses (a : Abs) (hA : AInv a) (v : Val) (hd : a.done = false)
    (d : Delivery) (hm : d ∈ (a.next none v).2) :
    d.1 ∈ a.live ∧ d.1 < a.scripts.length ∧ d.2 = Notif.next v := by
  have h := (C06_spec_emission a v hd).subset hm
  obtain ⟨i, hi, e⟩ := List.mem_map.mp h
  subst e
  exact ⟨hi, hA.bound i hi, rfl⟩

/-- A terminal is delivered once to each current subscriber, after which nobody is
    current and the subject is done. -/
theorem C06_spec_terminal (a : Abs) (n : Notif) (hd : a.done = false) :
    (a.terminal n).2 = a.live.map (·, n) ∧ (a.terminal n).1.live = [] ∧ (a.terminal n).1.done = true := by
  simp [Abs.terminal, hd]

/-- After a terminal or `unsubscribe()` no operation delivers anything, ever. -/
theorem C06_spec_after_done (a : Abs) (hd : a.done = true) (op : SubjOp) :
    (a.apply op).2 = [] ∧ (a.apply op).1.done = true :=
  Abs.apply_done a hd op

-- Non-vacuity (the model on concrete histories; `#eval`-checked against the real crate by ./check):

/-- two subscribers, an item, one leaves, an item, complete, a late subscriber, an item -/
example : (run [.subscribe [], .subscribe [], .next (.int 1), .unsubOne 0, .next (.int 2), .complete,
      .subscribe [], .next (.int 3)]).map (·.deliveries) =
    [[], [], [(0, .next (.int 1)), (1, .next (.int 1))], [], [(1, .next (.int 2))], [(1, .complete)], [], []] := by
  decide

/-- a subscriber added inside the callback of item 5 misses 5 and sees 6 -/
example : (run [.subscribe [.sub], .next (.int 5), .next (.int 6)]).map (·.deliveries) =
    [[], [(0, .next (.int 5))], [(0, .next (.int 6)), (1, .next (.int 6))]] := by
  decide

/-- `len` counts the unsubscribed entry until `retain`; finished and empty after `error` -/
example : (run [.subscribe [], .subscribe [], .next (.int 1), .unsubOne 0, .retain, .error 7]).map
      (fun o => (o.len, o.empty, o.finished)) =
    [(1, false, false), (2, false, false), (2, false, false), (2, false, false), (1, false, false),
     (0, true, true)] := by
  decide

/-- the out-of-contract history: self-unsubscribe in the own callback panics -/
example : (run [.subscribe [.unsub 0], .next (.int 1), .next (.int 2)]).map (·.panic) = [false, true] := by
  decide

/-- the hypotheses of `C06_spec_emission_exact` are satisfiable with a non-empty `live` -/
example : ∃ a : Abs, a.done = false ∧ a.Quiet ∧ a.panicked = false ∧ a.live = [0, 1] := by
  refine ⟨⟨[0, 1], false, [[], []], false⟩, rfl, ?_, rfl, rfl⟩
  intro sc h x hx
  have : sc = [] := by simpa using h
  subst this
  cases hx

end Rx.Subj
