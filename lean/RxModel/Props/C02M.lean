import RxModel.Lemmas.MergeAllGrammar
import RxModel.Lemmas.GroupByQuiet
import RxModel.Lemmas.ShareLabel
/-
  C02M — nothing is delivered after `unsubscribe()` returned, for merge_all /
  concat_all / flat_map, group_by, and share / publish+connect / ref_count.

  Property theorems only; models and helper lemmas as in C01M
  (+ RxModel/Lemmas/GroupByQuiet.lean, ShareSilence.lean).  Every theorem
  quantifies over every history before the unsubscription and every
  continuation after it (hot inputs keep emitting, terminals arrive, new
  subscribers come, …).

  Unsubscribe vocabulary of the models:
    merge_all  `Ev.unsub`      the `MultiSubscription` returned by `actual_subscribe`
    group_by   `Ev.unsub`      the subscription of the source (outer stream and all groups)
               `Ev.gunsub k`   the subscription of the probe of group `k`
               (the OUTER probe has no handle of its own in this model: the
                suite's only outer handle is the source subscription)
    share      `Ev.unsub k`    the handle kept in harness slot `k`
-/
namespace Rx

/-! ## merge_all -/

/-- After `unsubscribe()` nothing reaches downstream, whatever happened before
    and whatever the outer and inner sources do afterwards; code as it is and
    repaired code. -/
theorem C02M_mergeall_silence (fixed : Bool) (inners : List MergeAll.Inner) (n : Nat)
    (pre post : List MergeAll.Ev) :
    (MergeAll.runG fixed (MergeAll.runG fixed (MergeAll.init inners n) pre).1
      (.unsub :: post)).2 = [] :=
  MergeAll.runG_unsub fixed _ post

/-- The same from any operator state. -/
theorem C02M_mergeall_silence_any_state (fixed : Bool) (s : MergeAll.St) (post : List MergeAll.Ev) :
    (MergeAll.runG fixed s (.unsub :: post)).2 = [] :=
  MergeAll.runG_unsub fixed s post

/-- Whole-history form: the downstream log of `pre ++ unsub :: post` is the log
    of `pre`. -/
theorem C02M_mergeall_silence_log (fixed : Bool) (inners : List MergeAll.Inner) (n : Nat)
    (pre post : List MergeAll.Ev) :
    (MergeAll.runG fixed (MergeAll.init inners n) (pre ++ .unsub :: post)).2 =
      (MergeAll.runG fixed (MergeAll.init inners n) pre).2 := by
  rw [MergeAll.runG_append]
  simp only [MergeAll.runG_unsub, List.append_nil]

/-! ## group_by -/

/-- After the source subscription is unsubscribed nothing is delivered any
    more: neither to the outer stream nor to any group (the groups' subjects
    are only fed through the emptied `Subscriber` slot). -/
theorem C02M_groupby_unsub_silence (key : Val → Val)
    (ord : List (Val × GroupBy.Subj) → List (Val × GroupBy.Subj))
    (outer : List St1) (skip : List Val) (pre post : List GroupBy.Ev) :
    (GroupBy.World.run key ord (GroupBy.World.run key ord (GroupBy.World.init outer skip) pre).1
      (.unsub :: post)).2 = [] := by
  simp only [GroupBy.World.run, GroupBy.World.step, List.nil_append]
  exact GroupBy.run_dead key ord post _ rfl

/-- Full-strength statement for a group: after `gunsub k` group `k` receives
    nothing, whatever the history. -/
def C02M_groupby_gunsub_statement : Prop :=
  ∀ (key : Val → Val) (ord : List (Val × GroupBy.Subj) → List (Val × GroupBy.Subj)),
    (∀ l, (ord l).Perm l) → ∀ (outer : List St1) (skip : List Val) (pre post : List GroupBy.Ev)
      (k : Val),
      GroupBy.grpLog k
        (GroupBy.World.run key ord (GroupBy.World.run key ord (GroupBy.World.init outer skip) pre).1
          (.gunsub k :: post)).2 = []

/-- False as stated, for a reason that is not a defect: before group `k` has
    been announced there is no subscription to unsubscribe (`gunsub k` is a
    no-op in the harness too); the group created later gets a fresh probe. -/
theorem C02M_groupby_gunsub_statement_false : ¬ C02M_groupby_gunsub_statement := by
  intro h
  have := h (fun v => v) id (fun _ => List.Perm.refl _) [] [] [] [.emit (.next (.int 1))] (.int 1)
  revert this
  decide

/-- What holds: once group `k` exists (its `KeyObservable` has been handed to
    the outer observer), after `gunsub k` its subscriber receives nothing — no
    item, no terminal — for every continuation and every drain order. -/
theorem C02M_groupby_gunsub_partial (key : Val → Val)
    (ord : List (Val × GroupBy.Subj) → List (Val × GroupBy.Subj)) (hord : ∀ l, (ord l).Perm l)
    (outer : List St1) (skip : List Val) (pre post : List GroupBy.Ev) (k : Val)
    (hex : ∀ st, (GroupBy.World.run key ord (GroupBy.World.init outer skip) pre).1.slot = some st →
      (GroupBy.find k st.subjects).isSome = true) :
    GroupBy.grpLog k
      (GroupBy.World.run key ord (GroupBy.World.run key ord (GroupBy.World.init outer skip) pre).1
        (.gunsub k :: post)).2 = [] := by
  have hfi := GroupBy.run_FI key ord pre (GroupBy.World.init outer skip) (by
    intro st h
    simp only [GroupBy.World.init, Option.some.injEq] at h
    subst h
    exact GroupBy.FI_nil)
  simp only [GroupBy.World.run, GroupBy.World.step, List.nil_append]
  apply GroupBy.world_quiet key ord hord k post
  intro st h
  cases hs : (GroupBy.World.run key ord (GroupBy.World.init outer skip) pre).1.slot with
  | none => simp [hs] at h
  | some st0 =>
    simp only [hs, Option.map_some, Option.some.injEq] at h
    subst h
    exact GroupBy.unsubGroup_makes_Quiet st0 k (hfi st0 hs) (hex st0 hs)

/-- In particular: a group that has already delivered something to its
    subscriber is silent after `gunsub k`. -/
theorem C02M_groupby_gunsub_after_delivery (key : Val → Val)
    (ord : List (Val × GroupBy.Subj) → List (Val × GroupBy.Subj)) (hord : ∀ l, (ord l).Perm l)
    (outer : List St1) (skip : List Val) (pre post : List GroupBy.Ev) (k : Val)
    (hd : GroupBy.grpLog k (GroupBy.World.run key ord (GroupBy.World.init outer skip) pre).2 ≠ []) :
    GroupBy.grpLog k
      (GroupBy.World.run key ord (GroupBy.World.run key ord (GroupBy.World.init outer skip) pre).1
        (.gunsub k :: post)).2 = [] :=
  C02M_groupby_gunsub_partial key ord hord outer skip pre post k
    (fun st h => GroupBy.run_Ex key ord k pre _ st h (Or.inl hd))

/-! ## share / publish + connect / ref_count -/

open Share in
/-- Per subscription: after the handle in slot `k` (cell `id`) has been
    unsubscribed, nothing is ever delivered through that cell again — both
    transcriptions, share and publish, cold and hot, every continuation
    (including re-subscription under the same label, which makes a new cell). -/
theorem C02M_share_silence (m : Model) (kind : Kind) (cold : Option (List Val))
    (pre post : List Ev) (k id : Nat)
    (hk : (((init m kind cold).run pre).1.handles[k]?).join = some id) :
    ∀ x ∈ W.runI ((init m kind cold).run pre).1 (.unsub k :: post), x.1 ≠ id :=
  W.unsub_cell_silent m kind cold pre post k id hk

open Share in
/-- Full-strength per-LABEL statement: after `unsub k` nothing is printed under
    label `k` until `sub k` is issued again. -/
def C02M_share_label_statement : Prop :=
  ∀ (m : Model) (kind : Kind) (cold : Option (List Val)) (pre post : List Ev) (k : Nat),
    (∀ e ∈ post, e ≠ Ev.sub k) →
    ∀ d ∈ W.dlvs (((init m kind cold).run pre).1.run (.unsub k :: post)).2, d.1 ≠ k

open Share in
/-- False, by label aliasing only (not a defect of rxRust): after `sub 0; sub 0`
    the first probe's handle has been overwritten (leaked) by the harness, so
    `unsub 0` reaches the second probe only and the first one, printing under
    the same label, is still subscribed. -/
theorem C02M_share_label_statement_false : ¬ C02M_share_label_statement := by
  intro h
  have := h .code .share none [.sub 0, .sub 0] [.emit (.next (.int 5))] 0 (by decide)
    (0, .next (.int 5)) (by decide)
  exact this rfl

open Share in
/-- Per label under the generator's discipline (`sub k` only for `k < 3` while
    slot `k` is free): after `unsub k` nothing is printed under label `k` as
    long as `sub k` is not issued again. -/
theorem C02M_share_silence_label_partial (m : Model) (kind : Kind) (cold : Option (List Val))
    (pre post : List Ev) (k : Nat) (hl : W.linear [] pre = true) (hp : ∀ e ∈ post, e ≠ Ev.sub k) :
    ∀ d ∈ W.dlvs (((init m kind cold).run pre).1.run (.unsub k :: post)).2, d.1 ≠ k :=
  W.unsub_label_silent m kind cold pre post k hl hp

/-! ## Non-vacuity -/

/-- merge_all: two live hot inners and a live outer, then `unsub`; everything
    keeps emitting. -/
example : (MergeAll.run (MergeAll.init [.hot 0, .hot 1, .cold [.int 9] .complete] MergeAll.usizeMax)
      [.outerNext 0, .outerNext 1, .innerNext 0 (.int 5), .unsub, .innerNext 0 (.int 6),
       .innerNext 1 (.int 7), .outerNext 2, .innerComplete 0, .innerError 1 3, .outerComplete]).2 =
    [.item 0 (.int 5)] := by decide

/-- …and without the `unsub` the same continuation does deliver. -/
example : (MergeAll.run (MergeAll.init [.hot 0, .hot 1, .cold [.int 9] .complete] MergeAll.usizeMax)
      [.outerNext 0, .outerNext 1, .innerNext 0 (.int 5), .innerNext 0 (.int 6),
       .innerNext 1 (.int 7), .outerNext 2, .innerComplete 0, .innerError 1 3, .outerComplete]).2 =
    [.item 0 (.int 5), .item 0 (.int 6), .item 1 (.int 7), .item 2 (.int 9), .error 3] := by decide

/-- group_by: group 1 unsubscribes, group 2 goes on and gets the terminal. -/
example : (GroupBy.World.run (fun v => v) id (GroupBy.World.init [] [])
      [.emit (.next (.int 1)), .emit (.next (.int 2)), .gunsub (.int 1), .emit (.next (.int 1)),
       .emit (.next (.int 2)), .emit .complete]).2 =
    [.outer (.next (.int 1)), .grp (.int 1) (.next (.int 1)),
     .outer (.next (.int 2)), .grp (.int 2) (.next (.int 2)),
     .grp (.int 2) (.next (.int 2)), .grp (.int 2) .complete, .outer .complete] := by decide

/-- the hypothesis of `C02M_groupby_gunsub_partial` on that history. -/
example : ∀ st, (GroupBy.World.run (fun v => v) id (GroupBy.World.init [] [])
      [.emit (.next (.int 1)), .emit (.next (.int 2))]).1.slot = some st →
      (GroupBy.find (.int 1) st.subjects).isSome = true := by
  intro st h
  have : (GroupBy.World.run (fun v => v) id (GroupBy.World.init [] [])
      [.emit (.next (.int 1)), .emit (.next (.int 2))]).1.slot.map
        (fun st => (GroupBy.find (.int 1) st.subjects).isSome) = some true := by decide
  rw [h] at this
  simpa using this

/-- group_by: source unsubscribed. -/
example : (GroupBy.World.run (fun v => v) id (GroupBy.World.init [] [])
      [.emit (.next (.int 1)), .unsub, .emit (.next (.int 1)), .emit (.next (.int 2)),
       .emit .complete]).2 =
    [.outer (.next (.int 1)), .grp (.int 1) (.next (.int 1))] := by decide

open Share in
/-- share: subscriber 0 leaves, subscriber 1 stays; label 0 re-subscribes later
    through a new cell (id 2). -/
example : W.runI (init .code .share none)
      [.sub 0, .sub 1, .emit (.next (.int 5)), .unsub 0, .emit (.next (.int 6)), .sub 0,
       .emit (.next (.int 7))] =
    [(0, 0, .next (.int 5)), (1, 1, .next (.int 5)), (1, 1, .next (.int 6)),
     (1, 1, .next (.int 7)), (2, 0, .next (.int 7))] := by decide

open Share in
example : (((init .code .share none).run [.sub 0, .sub 1, .emit (.next (.int 5))]).1.handles[0]?).join
    = some 0 := by decide

end Rx
