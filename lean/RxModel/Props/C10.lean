import RxModel.Conc.FootprintGuard
import RxModel.Conc.SubjectLts
/-
  C10 — Thread-safe variants serialise delivery and cannot deadlock.

  Property theorems only.  Model and helper lemmas: RxModel/Conc/Lts.lean (the
  lock-level LTS, `Ranked`, `Guarded`, `Inv`), RxModel/Conc/Exec.lean
  (schedules, termination measure), RxModel/Conc/Footprint.lean (which programs
  the operations of the `_threads` building blocks are).

  All statements quantify over *every* schedule; nothing bounds the number of
  threads, the length of their scripts or the number of preemptions.  "Callers
  that do not re-enter the same pipeline from inside a callback" is the
  hypothesis that the programs are the footprints (`Ranked []`): a re-entrant
  caller would re-acquire a cell it holds, which is not `Ranked`.
-/
namespace Rx
open Conc

/-- Two threads are never inside critical sections of the same shared cell:
    whatever runs under one `MutArc` lock is mutually exclusive. -/
theorem C10_mutex {s0 s : State} (h0 : Init s0) (hp : ∀ t, Ranked [] (s0.prog t))
    (r : Reach s0 s) {t1 t2 : Tid} {c : Cell}
    (h1 : InSection s t1 c) (h2 : InSection s t2 c) : t1 = t2 :=
  lts_mutex h0 hp r h1 h2

/-- **No subscriber callback ever runs on two threads at once.**  If every
    callback of subscriber `u` is issued inside a section of `slot u` (true of
    every delivery path of the thread-safe flavour: `impl_rc_observer!(MutArc)`,
    src/observer.rs:110-137, calls the observer under the guard), then in no
    reachable state of any schedule are two threads inside a callback of the
    same subscriber. -/
theorem C10_serialised {slot : Nat → Cell} {s0 s : State} (h0 : Init s0)
    (hg : ∀ t, Guarded slot [] (s0.prog t)) (r : Reach s0 s) {t1 t2 : Tid} {u : Nat}
    (h1 : InCb s t1 u) (h2 : InCb s t2 u) : t1 = t2 :=
  callbacks_serialised h0 hg r h1 h2

/-- A callback of `u` never overlaps with another thread's `unsubscribe` of `u`
    (or any other section of `u`'s slot). -/
theorem C10_serialised_with_unsubscribe {slot : Nat → Cell} {s0 s : State} (h0 : Init s0)
    (hg : ∀ t, Guarded slot [] (s0.prog t)) (r : Reach s0 s) {t1 t2 : Tid} {u : Nat}
    (h1 : InCb s t1 u) (h2 : InSection s t2 (slot u)) : t1 = t2 :=
  callback_excludes_section h0 hg r h1 h2

/-- **No deadlock.**  In every reachable state in which some thread has not yet
    returned from its calls, some thread can move. -/
theorem C10_no_deadlock {s0 s : State} (h0 : Init s0) (hp : ∀ t, Ranked [] (s0.prog t))
    (r : Reach s0 s) (hu : ∃ t, s.prog t ≠ []) : ∃ t s', Step s t s' :=
  rank_deadlock_free ((Inv.init h0 hp).reach r) hu

/-- A thread that cannot move is waiting for a lock that some thread holds —
    and by `C10_no_deadlock` not all threads are in that situation. -/
theorem C10_blocked_only_on_lock {s0 s : State} (h0 : Init s0)
    (hp : ∀ t, Ranked [] (s0.prog t)) (r : Reach s0 s) {t : Tid} (hb : Blocked s t) :
    ∃ c p t1, s.prog t = .acq c :: p ∧ s.holder c = some t1 :=
  blocked_waits ((Inv.init h0 hp).reach r) hb

/-- **Every call returns (1): executions are finite.**  Every execution, under
    any schedule, has at most as many steps as the total length of the scripts;
    each step lowers the total remaining length by exactly one. -/
theorem C10_execution_bounded {n : Nat} {s0 s : State} {ts : List Tid}
    (hs : Support n s0) (r : Run s0 ts s) : size n s + ts.length = size n s0 :=
  run_size hs r

/-- There is no infinite execution. -/
theorem C10_no_infinite_execution {n : Nat} {s0 : State} (hs : Support n s0) :
    ¬ ∃ f : Nat → State, f 0 = s0 ∧ ∀ i, ∃ t, Step (f i) t (f (i + 1)) :=
  no_infinite_run hs

/-- **Every call returns (2): maximal executions end with every script finished.**
    Whatever the schedule, when no thread can move any more, every thread has
    executed its whole program — every `next`/`error`/`complete`/`subscribe`/
    `unsubscribe` call has returned. -/
theorem C10_every_call_returns {s0 s : State} {ts : List Tid} (h0 : Init s0)
    (hp : ∀ t, Ranked [] (s0.prog t)) (r : Run s0 ts s) (hmax : ∀ t s', ¬ Step s t s') :
    ∀ t, s.prog t = [] :=
  stuck_done ((Inv.init h0 hp).run r) hmax

/-- From every reachable state the execution can be continued to completion
    (and by the two theorems above *every* continuation gets there in at most
    `size` steps). -/
theorem C10_completion_reachable {n : Nat} {s0 s : State} (h0 : Init s0)
    (hp : ∀ t, Ranked [] (s0.prog t)) (hs : Support n s0) (r : Reach s0 s) :
    ∃ ts s', Run s ts s' ∧ ∀ t, s'.prog t = [] := by
  obtain ⟨ts0, r0⟩ := r.run
  exact exists_complete_run _ rfl ((Inv.init h0 hp).reach r) (hs.run r0)


/-! ## The footprints of the `_threads` building blocks satisfy the hypotheses -/

/-- For every pipeline shape — any depth, any fan-out, built from subjects,
    behaviour subjects, subscribers, merge/zip/combine_latest cells, take_until
    slots, finalizers, share, observe_on/delay stages — the lock footprint of
    every operation at every stage (`next`/`error`/`complete`/`is_finished`
    arriving anywhere, `subscribe`, `unsubscribe`, `retain`, `len`, task poll,
    task cancel, …) is properly nested and acquires in strictly increasing rank. -/
theorem C10_footprints_ranked (p : Shape) (o : Op) : Ranked [] (footprint p o) :=
  Conc.C10_ranked p o

/-- A system of threads: thread `i` performs the script `scripts[i]` (any list of
    operations) against the shared pipeline `p`. -/
def C10_system (p : Shape) (scripts : List (List Op)) : State :=
  mkState (scripts.map fun os => os.flatMap (footprint p))

theorem C10_system_inv (p : Shape) (scripts : List (List Op)) : Inv (C10_system p scripts) :=
  mkState_inv (by
    intro q hq
    obtain ⟨os, _, rfl⟩ := List.mem_map.1 hq
    exact script_ranked p os)

/-- **Any number of threads, each running any script of operations against any
    pipeline of thread-safe building blocks, under any schedule: no deadlock.** -/
theorem C10_pipeline_no_deadlock (p : Shape) (scripts : List (List Op)) {s : State}
    (r : Reach (C10_system p scripts) s) (hu : ∃ t, s.prog t ≠ []) : ∃ t s', Step s t s' :=
  rank_deadlock_free ((C10_system_inv p scripts).reach r) hu

/-- … every maximal execution is finite (at most the total script length) and
    ends with every call returned. -/
theorem C10_pipeline_every_call_returns (p : Shape) (scripts : List (List Op)) {s : State}
    {ts : List Tid} (r : Run (C10_system p scripts) ts s) :
    ts.length ≤ size scripts.length (C10_system p scripts) ∧
      ((∀ t s', ¬ Step s t s') → ∀ t, s.prog t = []) := by
  have hs : Support scripts.length (C10_system p scripts) := by
    have := mkState_support (scripts.map fun os => os.flatMap (footprint p))
    simpa [C10_system] using this
  refine ⟨?_, stuck_done ((C10_system_inv p scripts).run r)⟩
  have := run_size hs r
  omega

/-- … and no two threads are ever inside sections of the same cell. -/
theorem C10_pipeline_mutex (p : Shape) (scripts : List (List Op)) {s : State}
    (r : Reach (C10_system p scripts) s) {t1 t2 : Tid} {c : Cell}
    (h1 : InSection s t1 c) (h2 : InSection s t2 c) : t1 = t2 :=
  lts_mutex_inv ((C10_system_inv p scripts).reach r) h1 h2


/-- **Serialised delivery on real pipelines.**  Any number of threads, thread `i`
    delivering the script `scripts[i]` of `next`/`error`/`complete`/`is_finished`
    notifications into one shared pipeline `p` of thread-safe building blocks in
    which every subscriber sits behind at least one `MutArc` gate (`WL`): under
    every schedule no subscriber's callback is ever running on two threads. -/
theorem C10_pipeline_serialised (sl : Nat → Cell) (p : Shape) (hw : WL sl none 0 p)
    (scripts : List (List (Kind × Nat))) {s : State}
    (r : Reach (mkState (scripts.map (deliveries p))) s) {t1 t2 : Tid} {u : Nat}
    (h1 : InCb s t1 u) (h2 : InCb s t2 u) : t1 = t2 :=
  callbacks_serialised (slot := sl) (mkState_init _)
    (mkState_guarded (by
      intro q hq
      obtain ⟨es, _, rfl⟩ := List.mem_map.1 hq
      exact deliveries_guarded sl p hw es)) r h1 h2

/-- Non-vacuity of `WL`: `merge_threads` of two sources into a subject with two
    subscribers, the second behind `finalize_threads` — labelled by the
    subscribers' slots (cells 3 and 4). -/
example : WL (fun u => u + 3) none 0
    (.cell (.subject (.cons (.leaf 0) (.cons (.fin (.leaf 1)) .nil)))) := by
  simp [WL, WLs, cells]

/-- **Negative fact (code as it is today).**  `merge_all_threads`: an inner
    completion that starts a queued inner observable runs the queued subscribe
    while holding the `ObserverData` cell (src/ops/merge_all.rs:162-167); if that
    inner emits during `actual_subscribe` the same thread locks the same cell
    again.  That program is not `Ranked` (for any base, any downstream) … -/
theorem C10_merge_all_relock (k n : Nat) (d : Shape) (hs : List Cell) :
    ¬ Ranked hs (mergeAllInnerCompleteQueued k n d) :=
  C10_merge_all_relock_witness k n d hs

/-- … and a single thread executing it deadlocks on itself. -/
theorem C10_merge_all_self_deadlock_witness :
    ∃ s, Reach (mkState [mergeAllInnerCompleteQueued 0 1 (.leaf 0)]) s ∧ Blocked s 0 ∧
      ∀ t s', ¬ Step s t s' :=
  C10_merge_all_self_deadlock

/-- Non-vacuity: a concrete pipeline and concrete scripts.  A `SubjectThreads`
    with two subscribers, the second behind a `finalize_threads`; thread 0 emits
    and completes, thread 1 emits, thread 2 unsubscribes subscriber 0 and asks `len`. -/
example : (C10_system (.subject (.cons (.leaf 0) (.cons (.fin (.leaf 1)) .nil)))
    [[.here (.deliver .next 1), .here (.deliver (.term false) 2)],
     [.here (.deliver .next 3)],
     [.sub 0 (.here .slotUnsub), .here .size]]).prog 2 =
    [.acq 2, .rel 2, .acq 0, .acq 1, .rel 1, .rel 0] := by decide


/-! ## One common order for the subscribers of a subject -/

/-- Any number of producer threads, thread `i` performing the script `scripts[i]`
    of `next`s — each an emission label `n` with the live subscriber list at that
    moment — on one `SubjectThreads` (observers cell `obs`, chamber, one slot per
    subscriber). -/
def C10_subjectSystem (obs chamber : Cell) (slot : Nat → Cell)
    (scripts : List (List (Nat × List Nat))) : State :=
  mkState (scripts.map (subjScript obs chamber slot))

/-- **All subscribers of one subject observe concurrent emissions in one common
    order**: under every schedule, at every moment, what each subscriber has
    received is a subsequence of a single global sequence — the order in which
    the broadcasting threads acquired the observers cell. -/
theorem C10_common_order {obs chamber : Cell} {slot : Nat → Cell} (hc : chamber ≠ obs)
    (hs : ∀ u, slot u ≠ obs) (scripts : List (List (Nat × List Nat)))
    (hnd : ∀ sc ∈ scripts, ∀ e ∈ sc, e.2.Nodup) {tr : List (Tid × Act)} {s : State}
    (r : TRun (C10_subjectSystem obs chamber slot scripts) tr s) (u : Nat) :
    (logOf u tr).Sublist (gorder tr) := by
  refine common_order (obs := obs) (mkState_init _) ?_ r u
  refine getD_all (P := Bc obs .out) rfl ?_
  intro p hp
  obtain ⟨sc, hsc, rfl⟩ := List.mem_map.1 hp
  exact bc_script hc hs sc (hnd sc hsc)

/-- Consequently (emissions labelled distinctly) two subscribers never see two
    emissions in opposite orders, and nobody sees an emission twice. -/
theorem C10_no_opposite_orders {obs chamber : Cell} {slot : Nat → Cell} (hc : chamber ≠ obs)
    (hs : ∀ u, slot u ≠ obs) (scripts : List (List (Nat × List Nat)))
    (hnd : ∀ sc ∈ scripts, ∀ e ∈ sc, e.2.Nodup) {tr : List (Tid × Act)} {s : State}
    (r : TRun (C10_subjectSystem obs chamber slot scripts) tr s)
    (hlab : (gorder tr).Nodup) (u v m n : Nat) (hmn : m ≠ n)
    (hu : [m, n].Sublist (logOf u tr)) (hv : [n, m].Sublist (logOf v tr)) : False :=
  no_both_orders hmn hlab
    (hu.trans (C10_common_order hc hs scripts hnd r u))
    (hv.trans (C10_common_order hc hs scripts hnd r v))

/-- The subject system is ranked (observers < chamber < slots): it also enjoys
    `C10_no_deadlock` / `C10_every_call_returns`. -/
example : ∀ p ∈ [subjScript 0 1 (· + 2) [(1, [0, 1]), (3, [0, 1])],
    subjScript 0 1 (· + 2) [(2, [0, 1])]], Ranked [] p := by decide

/-- Non-vacuity: two producers, two subscribers; producer 1 gets in between the
    two emissions of producer 0: both subscribers see 1, 2, 3. -/
example : (texec (C10_subjectSystem 0 1 (· + 2) [[(1, [0, 1]), (3, [0, 1])], [(2, [0, 1])]])
    (List.replicate 13 0 ++ List.replicate 13 1 ++ List.replicate 13 0)).map
    (fun x => (gorder x.1, logOf 0 x.1, logOf 1 x.1)) =
    some ([1, 2, 3], [1, 2, 3], [1, 2, 3]) := by decide

/-! ## Non-vacuity: concrete systems -/

/-- Three threads against one `SubjectThreads` (observers = cell 0) with two
    subscribers (slots = cells 2, 3): two concurrent `next`s and one
    `unsubscribe` of subscriber 0. -/
def C10_demo : List (List Act) :=
  [ sect 0 (sect 2 [.cb 0 1] ++ sect 3 [.cb 1 1]),
    sect 0 (sect 2 [.cb 0 2] ++ sect 3 [.cb 1 2]),
    sect 2 [.atom 0] ]

def C10_demoSlot (u : Nat) : Cell := u + 2

example : ∀ p ∈ C10_demo, Ranked [] p := by decide
example : ∀ p ∈ C10_demo, Guarded C10_demoSlot [] p := by decide

/-- The hypotheses are satisfiable and states with a callback in progress and a
    contender blocked on the lock are reachable: after thread 0 has taken
    `observers` and the slot, it is inside the callback of subscriber 0, and
    threads 1 and 2 are blocked. -/
example : ∃ s, Reach (mkState C10_demo) s ∧ InCb s 0 0 ∧ Blocked s 1 ∧ Blocked s 2 := by
  have h : exec (mkState C10_demo) [0, 0] =
      some ((exec (mkState C10_demo) [0, 0]).getD (mkState [])) := rfl
  refine ⟨_, (exec_sound h).reach, ⟨1, _, rfl⟩, ⟨by decide, ?_⟩, ⟨by decide, ?_⟩⟩
  · intro ⟨s', st⟩; have := enabled_of_step st; revert this; decide
  · intro ⟨s', st⟩; have := enabled_of_step st; revert this; decide

/-- … and the theorems apply to it. -/
example {s : State} (r : Reach (mkState C10_demo) s) {t1 t2 : Tid}
    (h1 : InCb s t1 0) (h2 : InCb s t2 0) : t1 = t2 :=
  C10_serialised (mkState_init _) (mkState_guarded (slot := C10_demoSlot) (by decide)) r h1 h2

example {s : State} (r : Reach (mkState C10_demo) s) (hu : ∃ t, s.prog t ≠ []) :
    ∃ t s', Step s t s' :=
  C10_no_deadlock (mkState_init _) (mkState_ranked (by decide)) r hu

/-- A complete interleaved execution of the demo (8 + 8 + 3 = 19 steps). -/
example : ∃ s, Run (mkState C10_demo) [0,0,0,0,2,0,2,0,0,0,1,2,1,1,1,1,1,1,1] s ∧
    ∀ t, s.prog t = [] := by
  have h : (exec (mkState C10_demo) [0,0,0,0,2,0,2,0,0,0,1,2,1,1,1,1,1,1,1]).isSome = true := by
    decide
  obtain ⟨s, hs⟩ := Option.isSome_iff_exists.1 h
  have hr := exec_sound hs
  refine ⟨s, hr, ?_⟩
  have hb : size 3 s + 19 = 19 := C10_execution_bounded (n := 3) (mkState_support C10_demo) hr
  have hz : size 3 s = 0 := by omega
  intro t
  by_cases ht : t < 3
  · exact psize_zero hz t ht
  · exact ((mkState_support C10_demo).run hr) t (Nat.le_of_not_lt ht)

/-- The rank hypothesis is needed: two properly nested programs that take two
    cells in opposite orders reach a state where both are unfinished and
    nobody can move. -/
def C10_abba : List (List Act) :=
  [ [.acq 0, .acq 1, .rel 1, .rel 0], [.acq 1, .acq 0, .rel 0, .rel 1] ]

example : ¬ ∀ p ∈ C10_abba, Ranked [] p := by decide
example : ∀ p ∈ C10_abba, Guarded (fun _ => 0) [] p := by decide

example : ∃ s, Reach (mkState C10_abba) s ∧ (∃ t, s.prog t ≠ []) ∧ ∀ t s', ¬ Step s t s' := by
  have h : exec (mkState C10_abba) [0, 1] =
      some ((exec (mkState C10_abba) [0, 1]).getD (mkState [])) := rfl
  refine ⟨_, (exec_sound h).reach, ⟨0, by decide⟩, ?_⟩
  intro t s' st
  have := enabled_of_step st
  match t, this with
  | 0, h => revert h; decide
  | 1, h => revert h; decide
  | t + 2, h => simp [enabled, step?, exec, mkState, C10_abba, upd] at h

end Rx
