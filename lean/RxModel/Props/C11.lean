import RxModel.Subject.ShareLemmas
/-
  C11 — publish/connect and share subscribe the source once and multicast.

  Property theorems only.  Model: RxModel/Subject/Share.lean (`Model.code` = /repo as it
  is, `Model.fixed` = repaired code); helper lemmas: RxModel/Subject/ShareLemmas.lean.

  Every theorem quantifies over ALL histories `es : List Ev` of subscribe / unsubscribe
  (any labels, any number of times), source events on the hot source, `connect` and
  queries, for cold (`some xs`) and hot (`none`) sources, for both transcriptions unless
  said otherwise.  `srcSubs` counts calls of the upstream `defer` closure (subscriptions
  made on the source), `tap` the calls of the upstream `tap` closure.

  The code as it is violates the release clause (DESIGN §7 finding 14): the full statement
  `ReleaseSpec` is refuted for `.code` by a concrete witness, proved for `.fixed`, and
  `C11_release_partial` states what the code does satisfy.
-/
namespace Rx.Share
open W

/-- No source subscription, no upstream side effect and no delivery before `connect()`
    (publish) / before the first subscriber (share). -/
theorem C11_lazy_connect (m : Model) (kind : Kind) (cold : Option (List Val)) (es : List Ev)
    (h : ∀ e ∈ es, trigger kind e = false) :
    ((init m kind cold).run es).1.srcSubs = 0 ∧ ((init m kind cold).run es).1.tap = 0 ∧
      ∀ o ∈ ((init m kind cold).run es).2, dlvOf o = [] := by
  have := run_idle es (init m kind cold) (by simp [Idle, init]) (by simpa [init] using h)
  exact ⟨this.1.2.1, this.1.2.2.1, this.2⟩

/-- Whatever the history: at most one subscription is ever made on the source, and exactly
    one iff somebody subscribed (share) / `connect()` was called (publish). -/
theorem C11_once (m : Model) (kind : Kind) (cold : Option (List Val)) (es : List Ev) :
    ((init m kind cold).run es).1.srcSubs ≤ 1 ∧
      (((init m kind cold).run es).1.srcSubs = 1 ↔ ∃ e ∈ es, trigger kind e = true) := by
  obtain ⟨_, _, _, h4, h5⟩ := run_once es (init m kind cold) (by simp [init])
  have h4' : ((init m kind cold).run es).1.connected = es.any (trigger kind) := by
    rw [h4]; simp [init]
  rw [h5, h4']
  cases hany : es.any (trigger kind) with
  | true => simpa using List.any_eq_true.1 hany
  | false =>
    simp
    intro e he
    have := List.any_eq_false.1 hany e he
    simpa using this

/-- Multicast: after any history, while the hot source is wired to the inner subject, every
    subscriber present (its entry is in the subject and its cell is full) receives the item. -/
theorem C11_multicast (m : Model) (kind : Kind) (es : List Ev) (v : Val) (id k : Nat)
    (hf : Flowing ((init m kind none).run es).1)
    (hid : id ∈ ((init m kind none).run es).1.entries)
    (hc : ((init m kind none).run es).1.cell id = some k) :
    (k, Notif.next v) ∈ dlvOf (((init m kind none).run es).1.step (.emit (.next v))).2 :=
  multicast_step _ v hf id k hid hc

/-- Release, full strength: when the last present subscriber of a connected `share`
    unsubscribes, nothing is delivered any more and the upstream is not run any more
    (the `tap` counter between source and share stays frozen), whatever happens next. -/
def ReleaseSpec (m : Model) : Prop :=
  ∀ (cold : Option (List Val)) (es : List Ev) (k id : Nat) (es' : List Ev),
    ((init m .share cold).run es).1.connected = true →
    ((((init m .share cold).run es).1.handles[k]?).join = some id) →
    (∀ j ∈ ((init m .share cold).run es).1.entries, j ≠ id →
        ((init m .share cold).run es).1.cell j = none) →
    (∀ o ∈ (((((init m .share cold).run es).1.step (.unsub k)).1).run es').2, dlvOf o = []) ∧
      (((((init m .share cold).run es).1.step (.unsub k)).1).run es').1.tap =
        ((((init m .share cold).run es).1.step (.unsub k)).1).tap

/-- The repaired code releases. -/
theorem C11_release : ReleaseSpec .fixed := by
  intro cold es k id es' hc hh hlast
  obtain ⟨h1, h2, _, _, _⟩ := run_once es (init .fixed .share cold) (by simp [init])
  have hheld := run_held es (init .fixed .share cold) rfl rfl (by simp [init]) (by simp [Held, init])
  have hq := release_step _ k id (by rw [h2]; rfl) (by rw [h1]; rfl) hc hh hheld hlast
  exact run_quiet es' _ (by simpa [step] using hq)

/-- Finding 14: the code as it is never releases — after the only subscriber has left, the
    hot source still drives the upstream `tap`. -/
theorem C11_release_code_counterexample : ¬ ReleaseSpec .code := by
  intro h
  have := (h none [.sub 0] 0 0 [.emit (.next (.int 5))] (by decide) (by decide) (by decide)).2
  revert this
  decide

/-- … and a subscriber that joins afterwards is served from the never-released connection. -/
theorem C11_release_code_late_subscriber :
    ((init .code .share none).run [.sub 0, .unsub 0, .sub 1, .emit (.next (.int 5))]).2 =
      [.dlv [] 1 0, .dlv [] 1 0, .dlv [] 1 0, .dlv [(1, .next (.int 5))] 1 1] := by decide

/-- What the code as it is does satisfy: over a cold synchronous source the source has
    completed by the time `connect()` returns, so after connection nothing is delivered and
    the upstream is not run any more — in particular after the last unsubscribe. -/
theorem C11_release_partial (m : Model) (kind : Kind) (xs : List Val) (es es' : List Ev)
    (hc : ((init m kind (some xs)).run es).1.connected = true) :
    (∀ o ∈ (((init m kind (some xs)).run es).1.run es').2, dlvOf o = []) ∧
      (((init m kind (some xs)).run es).1.run es').1.tap = ((init m kind (some xs)).run es).1.tap := by
  have hcd := run_coldDone es (init m kind (some xs)) xs rfl (by simp [init]) (by simp [ColdDone, init])
  exact run_quiet es' _ ⟨hc, hcd.2 hc, by simp [hcd.1]⟩

/-! ## Non-vacuity -/
example : ((Fixed.init .share none).run [.sub 0, .sub 1, .emit (.next (.int 5)), .unsub 0, .unsub 1,
    .emit (.next (.int 6)), .sub 2, .emit (.next (.int 7))]).2 =
    [.dlv [] 1 0, .dlv [] 1 0, .dlv [(0, .next (.int 5)), (1, .next (.int 5))] 1 1, .dlv [] 1 1,
     .dlv [] 1 1, .dlv [] 1 1, .dlv [] 1 1, .dlv [] 1 1] := by decide
example : Flowing ((init .code .share none).run [.sub 0, .sub 1]).1 := by
  refine ⟨?_, ?_, ?_, ?_⟩ <;> decide
example : ((init .code .share none).run [.sub 0, .sub 1]).1.entries = [0, 1] := by decide
example : ((init .code .publish (some [.int 1, .int 2])).run [.sub 0, .sub 1, .connect]).2 =
    [.dlv [] 0 0, .dlv [] 0 0,
     .dlv [(0, .next (.int 1)), (1, .next (.int 1)), (0, .next (.int 2)), (1, .next (.int 2)),
           (0, .complete), (1, .complete)] 1 2] := by decide

end Rx.Share
