import RxModel.Lemmas.GroupBy
/-
  C20 — group_by sends every item to exactly one group, in order.

  Property theorems only; helper lemmas: RxModel/Lemmas/GroupBy.lean.  The
  machine (`GroupBy.St`, `Subj`) is the transcription of
  src/ops/group_by.rs + the per-group Subject of src/subject.rs and is what
  `rxdriver` executes against the real code (suite `groupby`).

  `key` is an arbitrary discriminator, `attach k` says whether somebody
  subscribes to group `k` while it is announced (the property's setting is
  `attach = fun _ => true`), `ord` is the order in which `HashMap::drain` hands
  out the groups (any permutation).
-/
namespace Rx
open GroupBy

/-- Meaning of `dedup`: the distinct elements, each once … -/
theorem C20_dedup_mem (l : List Val) (x : Val) : x ∈ dedup l ↔ x ∈ l := mem_dedup x l
theorem C20_dedup_nodup (l : List Val) : (dedup l).Nodup := nodup_dedup l
/-- … in order of first appearance. -/
theorem C20_dedup_first (x : Val) (l : List Val) :
    dedup (x :: l) = x :: (dedup l).filter (· ≠ x) := rfl

/-- One group per distinct key is announced on the outer stream, in order of
    first appearance — for every item list and every key function. -/
theorem C20_groups (key : Val → Val) (attach : Val → Bool) (xs : List Val) :
    announced (St.init.run key attach xs).2 = dedup (xs.map key) := by
  rw [← mkSt_nil attach, run_mk, announced_spec]
  simp

/-- The subscriber of group `k` receives exactly the items whose key is `k`, in
    source order, each once (and a group nobody subscribed to delivers nothing). -/
theorem C20_routing (key : Val → Val) (attach : Val → Bool) (xs : List Val) (k : Val) :
    groupItems k (St.init.run key attach xs).2 =
      if attach k then xs.filter (fun v => key v = k) else [] := by
  rw [← mkSt_nil attach, run_mk, groupItems_spec]

/-- …and to no other group: an item is delivered only under its own key. -/
theorem C20_routing_own (key : Val → Val) (attach : Val → Bool) (xs : List Val) (k v : Val)
    (h : v ∈ groupItems k (St.init.run key attach xs).2) : key v = k := by
  rw [C20_routing] at h
  cases ha : attach k
  · simp [ha] at h
  · simp [ha] at h; exact h.2

/-- Merging the groups in arrival order reproduces the source sequence. -/
theorem C20_flatten (key : Val → Val) (xs : List Val) :
    flat (St.init.run key (fun _ => true) xs).2 = xs := by
  rw [← mkSt_nil (fun _ => true), run_mk, flat_spec]
  simp

/-- With some groups left without subscriber: the source minus their items. -/
theorem C20_flatten_attached (key : Val → Val) (attach : Val → Bool) (xs : List Val) :
    flat (St.init.run key attach xs).2 = xs.filter (fun v => attach (key v)) := by
  rw [← mkSt_nil attach, run_mk, flat_spec]

/-- While only items arrive nobody is terminated; the source terminal `t` is then
    delivered to every subscribed group exactly once (a permutation of the
    duplicate-free key list — for EVERY drain order `ord`) and, after all of
    them, once to the outer stream; nothing else is emitted. -/
theorem C20_terminal (key : Val → Val) (attach : Val → Bool)
    (ord : List (Val × Subj) → List (Val × Subj)) (hord : ∀ l, (ord l).Perm l)
    (xs : List Val) (t : Notif) :
    (∀ o ∈ (St.init.run key attach xs).2, isTermOut o = false) ∧
    ∃ gs, ((St.init.run key attach xs).1.onTerm ord t).2 = gs ++ [Out.outer t] ∧
      gs.Perm (((dedup (xs.map key)).filter attach).map fun k => Out.grp k t) := by
  rw [← mkSt_nil attach, run_mk]
  refine ⟨outsSpec_no_term key attach [] xs, ?_⟩
  have hk : keysAfter key [] xs = dedup (xs.map key) := by
    rw [keysAfter_spec]; simp
  have h := onTerm_mk attach ord hord (keysAfter key [] xs) t
  rw [hk] at h ⊢
  exact h

/-- Counting form of "once": in the terminal step group `k` hears the terminal
    once if it exists and has a subscriber, otherwise not at all; the outer
    stream hears it once. -/
theorem C20_terminal_once (key : Val → Val) (attach : Val → Bool)
    (ord : List (Val × Subj) → List (Val × Subj)) (hord : ∀ l, (ord l).Perm l)
    (xs : List Val) (t : Notif) (k : Val) :
    List.count (Out.grp k t) ((St.init.run key attach xs).1.onTerm ord t).2 =
        (if k ∈ xs.map key ∧ attach k = true then 1 else 0) ∧
    List.count (Out.outer t) ((St.init.run key attach xs).1.onTerm ord t).2 = 1 := by
  obtain ⟨_, gs, hgs, hp⟩ := C20_terminal key attach ord hord xs t
  have hnd : ((dedup (xs.map key)).filter attach).Nodup := (nodup_dedup _).filter _
  rw [hgs]
  constructor
  · rw [List.count_append, hp.count_eq, count_grp_map t k _ hnd, count_grp_outer]
    simp only [List.mem_filter, mem_dedup, Nat.add_zero]
  · rw [List.count_append, hp.count_eq]
    have : List.count (Out.outer t)
        (((dedup (xs.map key)).filter attach).map fun k => Out.grp k t) = 0 := by
      rw [List.count_eq_zero]
      intro h
      simp at h
    rw [this]; simp

/-- Whole streams: a source `xs` then terminal `t` (any of complete / error e)
    gives the item-phase output followed by the fan-out above; a source without
    terminal gives the item-phase output only. -/
theorem C20_stream (key : Val → Val) (attach : Val → Bool)
    (ord : List (Val × Subj) → List (Val × Subj)) (xs : List Val) (t : Option Notif) :
    St.runStream key attach ord xs t =
      (St.init.run key attach xs).2 ++
        (match t with
         | some t => ((St.init.run key attach xs).1.onTerm ord t).2
         | none => []) := by
  cases t <;> simp [St.runStream]

/-- After the source subject has emitted its terminal, no event of any kind
    produces any further output or changes anything (suite world; the
    `Subscriber` slot and the subject's taken observer list swallow it). -/
theorem C20_after_terminal (key : Val → Val) (ord : List (Val × Subj) → List (Val × Subj))
    (w : GroupBy.World) (h : w.srcDone = true) (n : Notif) :
    w.step key ord (.emit n) = (w, []) := by
  cases n <;> simp [GroupBy.World.step, h]

theorem C20_terminal_marks_done (key : Val → Val) (ord : List (Val × Subj) → List (Val × Subj))
    (w : GroupBy.World) (t : Notif) (ht : t.isTerm = true) :
    (w.step key ord (.emit t)).1.srcDone = true := by
  cases t with
  | next v => cases ht
  | error e =>
    simp only [GroupBy.World.step]
    split
    · assumption
    · split <;> (try split) <;> rfl
  | complete =>
    simp only [GroupBy.World.step]
    split
    · assumption
    · split <;> (try split) <;> rfl

/-- The world `rxdriver` runs for a plain `groupby` case (no operator on the outer
    stream, probes attached to every key not in `skip`) IS the machine the
    theorems above speak about: its whole log on `xs` then `t` is `runStream`. -/
theorem C20_world (key : Val → Val) (ord : List (Val × Subj) → List (Val × Subj))
    (skip : List Val) (xs : List Val) (t : Notif) (ht : t.isTerm = true) :
    (GroupBy.World.run key ord (GroupBy.World.init [] skip)
        (xs.map (fun v => Ev.emit (.next v)) ++ [Ev.emit t])).2 =
      St.runStream key (fun k => !skip.contains k) ord xs (some t) :=
  world_stream key ord skip xs t ht

/-! Non-vacuity: concrete runs of the machine. -/
example : (St.init.run (fun v => match v with | .int i => .int (i.emod 2) | v => v)
      (fun _ => true) [.int 1, .int 2, .int 3]).2 =
    [.outer (.next (.int 1)), .grp (.int 1) (.next (.int 1)),
     .outer (.next (.int 0)), .grp (.int 0) (.next (.int 2)),
     .grp (.int 1) (.next (.int 3))] := by decide
example : St.runStream (fun v => v) (fun _ => true) List.reverse [.int 1, .int 2] (some .complete) =
    [.outer (.next (.int 1)), .grp (.int 1) (.next (.int 1)),
     .outer (.next (.int 2)), .grp (.int 2) (.next (.int 2)),
     .grp (.int 2) .complete, .grp (.int 1) .complete, .outer .complete] := by decide
example : ∀ l : List (Val × Subj), (List.reverse l).Perm l := fun l => List.reverse_perm l
example : dedup [.int 1, .int 0, .int 1, .int 2, .int 0] = [.int 1, .int 0, .int 2] := by decide

end Rx
