import RxModel.Lemmas.GroupBy
import RxModel.Lemmas.GroupByOuter
/-
  C20 — group_by sends every item to exactly one group, in order.

  Property theorems only; helper lemmas: RxModel/Lemmas/GroupBy.lean.  The
  machine (`GroupBy.St`, `Subj`) is the transcription of
  src/ops/group_by.rs + the per-group Subject of src/subject.rs and is what
  `rxdriver` executes against the real code (suite `groupby`).

  `key` is an arbitrary discriminator, `attach k` says whether somebody
  subscribes to group `k` while it is announced (the property's setting is
  `attach = fun _ => true`), `ord` is the order in which `HashMap::drain` hands
  out the groups (any permutation).

  `C20_terminal_outer`, `C20_outer_group_terminal`: `group_by(..)` followed by ANY operators on
  the stream of groups (`take n` in the suite), also when they have completed that stream long
  before the source terminates — every group subscriber still hears the source's terminal
  (since `fix: Subject::error/complete hand the terminal to every subscriber`; the last section
  records what the code did before).
-/
namespace Rx
open GroupBy

/-- Meaning of `dedup`: the distinct elements, each once … -/
theorem C20_dedup_mem (l : List Val) (x : Val) : x ∈ dedup l ↔ x ∈ l := mem_dedup x l
theorem C20_dedup_nodup (l : List Val) : (dedup l).Nodup := nodup_dedup l
/-- … in order of first appearance. -/
theorem C20_dedup_first (x : Val) (l : List Val) :
    dedup (x :: l) = x :: (dedup l).filter (· ≠ x) := rfl

/-- One group per distinct key is announced on the outer stream, in order of
    first appearance — for every item list and every key function. -/
theorem C20_groups (key : Val → Val) (attach : Val → Bool) (xs : List Val) :
    announced (St.init.run key attach xs).2 = dedup (xs.map key) := by
  rw [← mkSt_nil attach, run_mk, announced_spec]
  simp

/-- The subscriber of group `k` receives exactly the items whose key is `k`, in
    source order, each once (and a group nobody subscribed to delivers nothing). -/
theorem C20_routing (key : Val → Val) (attach : Val → Bool) (xs : List Val) (k : Val) :
    groupItems k (St.init.run key attach xs).2 =
      if attach k then xs.filter (fun v => key v = k) else [] := by
  rw [← mkSt_nil attach, run_mk, groupItems_spec]

/-- …and to no other group: an item is delivered only under its own key. -/
theorem C20_routing_own (key : Val → Val) (attach : Val → Bool) (xs : List Val) (k v : Val)
    (h : v ∈ groupItems k (St.init.run key attach xs).2) : key v = k := by
  rw [C20_routing] at h
  cases ha : attach k
  · simp [ha] at h
  · simp [ha] at h; exact h.2

/-- Merging the groups in arrival order reproduces the source sequence. -/
theorem C20_flatten (key : Val → Val) (xs : List Val) :
    flat (St.init.run key (fun _ => true) xs).2 = xs := by
  rw [← mkSt_nil (fun _ => true), run_mk, flat_spec]
  simp

/-- With some groups left without subscriber: the source minus their items. -/
theorem C20_flatten_attached (key : Val → Val) (attach : Val → Bool) (xs : List Val) :
    flat (St.init.run key attach xs).2 = xs.filter (fun v => attach (key v)) := by
  rw [← mkSt_nil attach, run_mk, flat_spec]

/-- While only items arrive nobody is terminated; the source terminal `t` is then
    delivered to every subscribed group exactly once (a permutation of the
    duplicate-free key list — for EVERY drain order `ord`) and, after all of
    them, once to the outer stream; nothing else is emitted. -/
theorem C20_terminal (key : Val → Val) (attach : Val → Bool)
    (ord : List (Val × Subj) → List (Val × Subj)) (hord : ∀ l, (ord l).Perm l)
    (xs : List Val) (t : Notif) :
    (∀ o ∈ (St.init.run key attach xs).2, isTermOut o = false) ∧
    ∃ gs, ((St.init.run key attach xs).1.onTerm ord t).2 = gs ++ [Out.outer t] ∧
      gs.Perm (((dedup (xs.map key)).filter attach).map fun k => Out.grp k t) := by
  rw [← mkSt_nil attach, run_mk]
  refine ⟨outsSpec_no_term key attach [] xs, ?_⟩
  have hk : keysAfter key [] xs = dedup (xs.map key) := by
    rw [keysAfter_spec]; simp
  have h := onTerm_mk attach ord hord (keysAfter key [] xs) t
  rw [hk] at h ⊢
  exact h

/-- Counting form of "once": in the terminal step group `k` hears the terminal
    once if it exists and has a subscriber, otherwise not at all; the outer
    stream hears it once. -/
theorem C20_terminal_once (key : Val → Val) (attach : Val → Bool)
    (ord : List (Val × Subj) → List (Val × Subj)) (hord : ∀ l, (ord l).Perm l)
    (xs : List Val) (t : Notif) (k : Val) :
    List.count (Out.grp k t) ((St.init.run key attach xs).1.onTerm ord t).2 =
        (if k ∈ xs.map key ∧ attach k = true then 1 else 0) ∧
    List.count (Out.outer t) ((St.init.run key attach xs).1.onTerm ord t).2 = 1 := by
  obtain ⟨_, gs, hgs, hp⟩ := C20_terminal key attach ord hord xs t
  have hnd : ((dedup (xs.map key)).filter attach).Nodup := (nodup_dedup _).filter _
  rw [hgs]
  constructor
  · rw [List.count_append, hp.count_eq, count_grp_map t k _ hnd, count_grp_outer]
    simp only [List.mem_filter, mem_dedup, Nat.add_zero]
  · rw [List.count_append, hp.count_eq]
    have : List.count (Out.outer t)
        (((dedup (xs.map key)).filter attach).map fun k => Out.grp k t) = 0 := by
      rw [List.count_eq_zero]
      intro h
      simp at h
    rw [this]; simp

/-- Whole streams: a source `xs` then terminal `t` (any of complete / error e)
    gives the item-phase output followed by the fan-out above; a source without
    terminal gives the item-phase output only. -/
theorem C20_stream (key : Val → Val) (attach : Val → Bool)
    (ord : List (Val × Subj) → List (Val × Subj)) (xs : List Val) (t : Option Notif) :
    St.runStream key attach ord xs t =
      (St.init.run key attach xs).2 ++
        (match t with
         | some t => ((St.init.run key attach xs).1.onTerm ord t).2
         | none => []) := by
  cases t <;> simp [St.runStream]

/-- After the source subject has emitted its terminal, no event of any kind
    produces any further output or changes anything (suite world; the
    `Subscriber` slot and the subject's taken observer list swallow it). -/
theorem C20_after_terminal (key : Val → Val) (ord : List (Val × Subj) → List (Val × Subj))
    (w : GroupBy.World) (h : w.srcDone = true) (n : Notif) :
    w.step key ord (.emit n) = (w, []) := by
  cases n <;> simp [GroupBy.World.step, h]

theorem C20_terminal_marks_done (key : Val → Val) (ord : List (Val × Subj) → List (Val × Subj))
    (w : GroupBy.World) (t : Notif) (ht : t.isTerm = true) :
    (w.step key ord (.emit t)).1.srcDone = true := by
  cases t with
  | next v => cases ht
  | error e =>
    simp only [GroupBy.World.step]
    split
    · assumption
    · split <;> (try split) <;> rfl
  | complete =>
    simp only [GroupBy.World.step]
    split
    · assumption
    · split <;> (try split) <;> rfl

/-- The world `rxdriver` runs for a plain `groupby` case (no operator on the outer
    stream, probes attached to every key not in `skip`) IS the machine the
    theorems above speak about: its whole log on `xs` then `t` is `runStream`. -/
theorem C20_world (key : Val → Val) (ord : List (Val × Subj) → List (Val × Subj))
    (skip : List Val) (xs : List Val) (t : Notif) (ht : t.isTerm = true) :
    (GroupBy.World.run key ord (GroupBy.World.init [] skip)
        (xs.map (fun v => Ev.emit (.next v)) ++ [Ev.emit t])).2 =
      St.runStream key (fun k => !skip.contains k) ord xs (some t) :=
  world_stream key ord skip xs t ht

/-! ### operators on the stream of groups (`group_by(..).take(n)` …) -/

/-- The terminal step, for EVERY chain of operators on the outer stream and every state of it —
    in particular a `take n` that has completed the stream of groups already —, every state `st`
    of the GroupByObserver and every drain order: every live subscriber of every group `k` hears
    the source terminal exactly once (`total k` = the live subscribers registered under `k`), the
    outer stream gets what its operators make of the terminal, and the source is retired. -/
theorem C20_terminal_outer (key : Val → Val) (ord : List (Val × Subj) → List (Val × Subj))
    (hord : ∀ l, (ord l).Perm l) (w : GroupBy.World) (st : St) (t : Notif) (ht : t.isTerm = true)
    (hd : w.srcDone = false) (hs : w.slot = some st) (k : Val) :
    grpLog k (w.step key ord (.emit t)).2 = List.replicate (total k st.subjects) t ∧
    outerLog (w.step key ord (.emit t)).2 = (runChain w.outer [t]).2 ∧
    (w.step key ord (.emit t)).1.srcDone = true ∧ (w.step key ord (.emit t)).1.slot = none :=
  step_term_outer key ord hord w st t ht hd hs k

/-- Whole histories of the suite world with ANY operators `outer` on the stream of groups and any
    set of groups the outer probe does not subscribe to: items `xs`, the source terminal `t`, then
    anything (`post`: further items and terminals through cloned handles, unsubscriptions).  A
    group subscriber that has received something during the items hears `t` exactly once, right
    after its last item, and nothing afterwards — whether or not `take n` had completed the outer
    stream before. -/
theorem C20_outer_group_terminal (key : Val → Val) (ord : List (Val × Subj) → List (Val × Subj))
    (hord : ∀ l, (ord l).Perm l) (outer : List St1) (skip : List Val) (xs : List Val) (t : Notif)
    (ht : t.isTerm = true) (post : List GroupBy.Ev) (k : Val)
    (hd : grpLog k (GroupBy.World.run key ord (GroupBy.World.init outer skip)
      (xs.map fun v => Ev.emit (.next v))).2 ≠ []) :
    grpLog k (GroupBy.World.run key ord (GroupBy.World.init outer skip)
        (xs.map (fun v => Ev.emit (.next v)) ++ Ev.emit t :: post)).2 =
      grpLog k (GroupBy.World.run key ord (GroupBy.World.init outer skip)
        (xs.map fun v => Ev.emit (.next v))).2 ++ [t] := by
  obtain ⟨h1, st', h2, h3, h4⟩ := world_items_live key ord k xs (GroupBy.World.init outer skip) rfl
    St.init rfl
  have hone : total k st'.subjects = 1 :=
    Nat.le_antisymm (h4 GI_init k) (h3 (Or.inr hd))
  obtain ⟨g1, _, _, g4⟩ := step_term_outer key ord hord _ st' t ht h1 h2 k
  rw [GroupBy.World.run_append]
  simp only [GroupBy.World.run, grpLog_append, g1, hone, run_dead key ord post _ g4, grpLog,
    List.append_nil, List.replicate_one]

/-- … and for EVERY history (group unsubscriptions, source unsubscription, events after the
    terminal included) and every `outer` the log of every group is well formed: items, at most
    one terminal, then nothing — the terminal is never delivered twice. -/
theorem C20_outer_group_grammar (key : Val → Val) (ord : List (Val × Subj) → List (Val × Subj))
    (hord : ∀ l, (ord l).Perm l) (outer : List St1) (skip : List Val) (evs : List GroupBy.Ev)
    (k : Val) :
    WF (grpLog k (GroupBy.World.run key ord (GroupBy.World.init outer skip) evs).2) :=
  world_grp_wf key ord hord k evs _ (by
    intro st h
    simp only [GroupBy.World.init, Option.some.injEq] at h
    subst h
    exact GI_init)

/-! Non-vacuity: concrete runs of the machine. -/
example : (St.init.run (fun v => match v with | .int i => .int (i.emod 2) | v => v)
      (fun _ => true) [.int 1, .int 2, .int 3]).2 =
    [.outer (.next (.int 1)), .grp (.int 1) (.next (.int 1)),
     .outer (.next (.int 0)), .grp (.int 0) (.next (.int 2)),
     .grp (.int 1) (.next (.int 3))] := by decide
example : St.runStream (fun v => v) (fun _ => true) List.reverse [.int 1, .int 2] (some .complete) =
    [.outer (.next (.int 1)), .grp (.int 1) (.next (.int 1)),
     .outer (.next (.int 2)), .grp (.int 2) (.next (.int 2)),
     .grp (.int 2) .complete, .grp (.int 1) .complete, .outer .complete] := by decide
example : ∀ l : List (Val × Subj), (List.reverse l).Perm l := fun l => List.reverse_perm l
example : dedup [.int 1, .int 0, .int 1, .int 2, .int 0] = [.int 1, .int 0, .int 2] := by decide
-- `group_by(id).take(1)`: group 1 is announced and subscribed, `take` completes the outer stream,
-- group 2 is announced to nobody; the source goes on and completes: group 1 hears it
example : (GroupBy.World.run (fun v => v) id (GroupBy.World.init [.take 1 0 true] [])
      [.emit (.next (.int 1)), .emit (.next (.int 2)), .emit (.next (.int 1)), .emit .complete]).2 =
    [.outer (.next (.int 1)), .outer .complete, .grp (.int 1) (.next (.int 1)),
     .grp (.int 1) (.next (.int 1)), .grp (.int 1) .complete] := by decide
example : chainFinished (GroupBy.World.run (fun v => v) id (GroupBy.World.init [.take 1 0 true] [])
      [.emit (.next (.int 1))]).1.outer = true := by decide

/-! The code BEFORE `fix: Subject::error/complete hand the terminal to every subscriber`
    (`World.termBefore`): once `take 1` had completed the outer stream, `GroupByObserver::
    is_finished()` (= the outer observer's) was true, the source subject filtered the observer out
    of its terminal fan-out and the announced group, which had kept receiving items, never heard
    the terminal.  The terminal step of both versions from the same state: -/
example :
    let w := (GroupBy.World.run (fun v => v) id (GroupBy.World.init [.take 1 0 true] [])
      [.emit (.next (.int 1)), .emit (.next (.int 1))]).1
    (w.termBefore id .complete).2 = [] ∧
      (w.step (fun v => v) id (.emit .complete)).2 = [.grp (.int 1) .complete] := by decide

end Rx
