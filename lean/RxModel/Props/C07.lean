import RxModel.Sched.Chain
/-
  C07 — Scheduler-moving operators preserve the source's sequence.
  (theorems are added below as they are proved; see DESIGN §6 C07)
-/
namespace Rx.T

/-- A timer is never fired by a legal executor before it is due: `fire i` only
    picks from `dueTimers`. -/
theorem C07_fire_only_due (s : Sched) (tm : TimerId) (h : tm ∈ s.dueTimers) :
    ∃ t, s.timers[tm]? = some t ∧ t.due ≤ s.now := by
  simp only [Sched.dueTimers, List.mem_filter, List.mem_range] at h
  obtain ⟨_, h2⟩ := h
  cases ht : s.timers[tm]? with
  | none => simp [ht] at h2
  | some t => simp [ht] at h2; exact ⟨t, rfl, h2.2⟩

end Rx.T
