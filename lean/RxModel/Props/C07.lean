import RxModel.Lemmas.ChainFifoObs
import RxModel.Lemmas.ChainFifoDelayMain
/-
  C07 — Scheduler-moving operators preserve the source's sequence.

  Proved here, over the chain model of Sched/Chain.lean (validated against the
  crate by the `time` suite), for ALL event histories of the FIFO-only executor:
  * `C07_fire_only_due`           a legal executor never fires a timer early;
  * `C07_observeOn_fifo`          FIFO clause for `observe_on` over a hot source;
  * `C07_delay_fifo`              `delay d`: the log is EXACTLY the closed form `Del.Ghost.log`
                                   (stamped gated script, delivered = armed-at + d ≤ clock of the
                                   latest `run`, an error is forwarded at once and cuts off the rest);
  * `C07_delay_order`             … hence a prefix of the gated script (then the error if it failed);
  * `C07_delay_after_run`         … and right after a `run` everything whose delay is over;
  * `C07_delay_prompt_fifo`       … for a prompt executor (`run` after every emission): exactly the
                                   notifications with emission clock + d ≤ clock;
  * `C07_delay0_fifo`             `delay 0` = `observe_on` on unfailed scripts;
  * `C07_delay_never_early`       nothing is delivered earlier than `d` after its emission;
  * `C07_reorder_counterexample`  the clause FAILS for an executor that runs ready tasks in
                                   another order (known finding, replayed on the real code).
  Vocabulary (Lemmas/ChainFifoBase.lean): `FifoEv` = emit (any subject, any notification, also
  after a terminal) / adv / run (= `TW.runLoop`, fuel 10000: proved never to be exhausted, two
  passes suffice); `script evs` = the notifications emitted on subject 0 in `evs`; `gate`
  (Core/Notif.lean) = everything up to and including the first terminal.
  No `fire` / `poll` / `unsub` events; one stage; hot source.
-/
namespace Rx.T

/-- A timer is never fired by a legal executor before it is due: `fire i` only
    picks from `dueTimers`. -/
theorem C07_fire_only_due (s : Sched) (tm : TimerId) (h : tm ∈ s.dueTimers) :
    ∃ t, s.timers[tm]? = some t ∧ t.due ≤ s.now := by
  simp only [Sched.dueTimers, List.mem_filter, List.mem_range] at h
  obtain ⟨_, h2⟩ := h
  cases ht : s.timers[tm]? with
  | none => simp [ht] at h2
  | some t => simp [ht] at h2; exact ⟨t, rfl, h2.2⟩

/-! ### observe_on -/

/-- `observe_on` over the hot subject 0, nothing subscribed yet. -/
def C07_observeOn_world : TW := { src := .hot 0, stages := [.observeOn true (some [])] }

/-- FIFO clause for `observe_on` under the FIFO executor: after `sub` and ANY list of
    emissions (any notifications, also after a terminal), clock advances and `run`s, the probe
    has received a prefix of the gated script (the source's items in the source's order, then
    its terminal, nothing after it); and right after a `run` it has received ALL of it. -/
theorem C07_observeOn_fifo (evs : List TW.Ev) (h : ∀ e ∈ evs, FifoEv e) :
    (evs.foldl TW.step (C07_observeOn_world.step .sub)).log <+: gate (script evs) ∧
    (∀ evs', evs = evs' ++ [TW.Ev.run] →
      (evs.foldl TW.step (C07_observeOn_world.step .sub)).log = gate (script evs)) := by
  refine ⟨Obs.fifo_prefix evs h, ?_⟩
  rintro evs' rfl
  exact Obs.fifo_all evs' (fun e he => h e (List.mem_append_left _ he))

/-- Non-vacuity: two items and the completion, time advances, `run`. -/
example :
    ([TW.Ev.sub, .emit 0 (.next (.int 1)), .emit 0 (.next (.int 2)), .adv 3, .emit 0 .complete,
      .emit 0 (.next (.int 9)), .run].foldl TW.step C07_observeOn_world).log
      = [.next (.int 1), .next (.int 2), .complete] := by decide

/-- Nothing is delivered before the executor runs. -/
example :
    ([TW.Ev.sub, .emit 0 (.next (.int 1)), .emit 0 (.next (.int 2)), .adv 3].foldl TW.step
      C07_observeOn_world).log = [] := by decide

/-- NEGATIVE result for arbitrary executors (the property's last sentence): if the executor
    polls the second task first (`poll 1`), the items arrive in the opposite order.  Order is
    NOT preserved under a non-FIFO run order. -/
theorem C07_reorder_counterexample :
    ([TW.Ev.sub, .emit 0 (.next (.int 1)), .emit 0 (.next (.int 2)), .poll 1, .run].foldl TW.step
      C07_observeOn_world).log = [.next (.int 2), .next (.int 1)] := by decide

/-! ### delay -/

/-- `delay d` over the hot subject 0, nothing subscribed yet. -/
def C07_delay_world (d : Nat) : TW := { src := .hot 0, stages := [.delay d true (some [])] }

/-- What the model does, exactly.  `Del.ghost evs` stamps the gated script with clock values
    (`te` = clock at emission, `ta` = clock at the first `run` after the emission: the task's
    first poll, when the delay timer is created, due at `ta + d`; `horizon` = clock at the
    latest `run`, frozen once the source has failed).  After ANY history the log is: the stamps
    with `ta + d ≤ horizon`, in script order, then the error if the source failed (`delay`
    forwards an error at once and closes its slot: the items still pending are cut off); the
    stamped notifications plus that error are the gated script; the model clock is the ghost clock. -/
theorem C07_delay_fifo (d : Nat) (evs : List TW.Ev) (h : ∀ e ∈ evs, FifoEv e) :
    (evs.foldl TW.step ((C07_delay_world d).step .sub)).log =
        ((Del.ghost evs).q.filter (Del.Stamp.delivered d (Del.ghost evs).horizon)).map (·.n)
          ++ (Del.ghost evs).errPart ∧
    (Del.ghost evs).q.map (·.n) ++ (Del.ghost evs).errPart = gate (script evs) ∧
    (evs.foldl TW.step ((C07_delay_world d).step .sub)).sched.now = (Del.ghost evs).clock :=
  ⟨(Del.delay_log d evs h).1, (Del.GI_ghost evs h).gate, (Del.delay_log d evs h).2⟩

/-- Order: the log is a prefix of the gated script — or, when the source has failed, such a
    prefix followed by the script's error. -/
theorem C07_delay_order (d : Nat) (evs : List TW.Ev) (h : ∀ e ∈ evs, FifoEv e) :
    ∃ pre, pre <+: gate (script evs) ∧
      ((evs.foldl TW.step ((C07_delay_world d).step .sub)).log = pre ∨
       ∃ e, (gate (script evs)).getLast? = some (.error e) ∧
         (evs.foldl TW.step ((C07_delay_world d).step .sub)).log = pre ++ [.error e]) :=
  Del.delay_order d evs h

/-- Right after a `run`, source not failed: every notification of the gated script has its
    timer armed (`ta = some _`) and exactly those with `ta + d ≤ clock` have been delivered. -/
theorem C07_delay_after_run (d : Nat) (evs : List TW.Ev) (h : ∀ e ∈ evs, FifoEv e)
    (he : (Del.ghost (evs ++ [TW.Ev.run])).err = none) :
    ((evs ++ [TW.Ev.run]).foldl TW.step ((C07_delay_world d).step .sub)).log =
      ((Del.ghost (evs ++ [TW.Ev.run])).q.filter
        (Del.Stamp.delivered d (Del.ghost (evs ++ [TW.Ev.run])).clock)).map (·.n) ∧
    (Del.ghost (evs ++ [TW.Ev.run])).q.map (·.n) = gate (script (evs ++ [TW.Ev.run])) ∧
    ∀ st ∈ (Del.ghost (evs ++ [TW.Ev.run])).q, st.ta ≠ none := by
  have hall : ∀ e ∈ evs ++ [TW.Ev.run], FifoEv e := by
    intro e h'
    rcases List.mem_append.mp h' with h' | h'
    · exact h e h'
    · simp only [List.mem_singleton] at h'; subst h'; exact .run
  obtain ⟨h1, h2, _⟩ := C07_delay_fifo d _ hall
  obtain ⟨h3, h4⟩ := Del.after_run evs he
  refine ⟨?_, ?_, h4⟩
  · rw [h1, h3]; simp [Del.Ghost.errPart, he]
  · rw [← h2]; simp [Del.Ghost.errPart, he]

/-- The clause as the property words it ("never earlier than the configured delay after it was
    produced", and everything whose delay is over has arrived), for a PROMPT executor (`run` right
    after every emission, so each timer is armed at the emission clock): right after a `run`,
    source not failed, the log is exactly the notifications of the gated script whose emission
    clock `te` satisfies `te + d ≤ clock`, in script order.  (Without promptness the delay counts
    from the first poll: see the `example`s below.) -/
theorem C07_delay_prompt_fifo (d : Nat) (evs : List TW.Ev) (hp : Del.Prompt (evs ++ [TW.Ev.run]))
    (he : (Del.ghost (evs ++ [TW.Ev.run])).err = none) :
    ((evs ++ [TW.Ev.run]).foldl TW.step ((C07_delay_world d).step .sub)).log =
      ((Del.ghost (evs ++ [TW.Ev.run])).q.filter
        (fun st => decide (st.te + d ≤ (Del.ghost (evs ++ [TW.Ev.run])).clock))).map (·.n) ∧
    (Del.ghost (evs ++ [TW.Ev.run])).q.map (·.n) = gate (script (evs ++ [TW.Ev.run])) := by
  have hall : ∀ e ∈ evs, FifoEv e := fun e h => hp.fifo e (List.mem_append_left _ h)
  obtain ⟨h1, h2, _⟩ := C07_delay_after_run d evs hall he
  refine ⟨?_, h2⟩
  rw [h1]
  congr 1
  apply List.filter_congr
  intro st hst
  simp [Del.Stamp.delivered, Del.prompt_stamps _ hp st hst]

/-- `delay 0` right after a `run`, source not failed: everything has been delivered (as for `observe_on`). -/
theorem C07_delay0_fifo (evs : List TW.Ev) (h : ∀ e ∈ evs, FifoEv e)
    (he : (Del.ghost (evs ++ [TW.Ev.run])).err = none) :
    ((evs ++ [TW.Ev.run]).foldl TW.step ((C07_delay_world 0).step .sub)).log
      = gate (script (evs ++ [TW.Ev.run])) :=
  Del.delay0_all evs h he

/-- Never early: every delivered notification (by `C07_delay_fifo` the log consists of the
    delivered stamps) was emitted at least `d` before the current clock.  Since this holds
    after every history, it holds at the moment of delivery. -/
theorem C07_delay_never_early (d : Nat) (evs : List TW.Ev) (h : ∀ e ∈ evs, FifoEv e) :
    ∀ st ∈ (Del.ghost evs).q, st.delivered d (Del.ghost evs).horizon = true →
      st.te + d ≤ (evs.foldl TW.step ((C07_delay_world d).step .sub)).sched.now := by
  have hc : (evs.foldl TW.step ((C07_delay_world d).step .sub)).sched.now = (Del.ghost evs).clock :=
    (Del.delay_log d evs h).2
  rw [hc]
  exact Del.never_early d evs h

/-- Non-vacuity: two items, `run` (timers armed at 0), time advances to the delay, `run`. -/
example :
    ([TW.Ev.sub, .emit 0 (.next (.int 1)), .emit 0 (.next (.int 2)), .run, .adv 5, .run].foldl TW.step
      (C07_delay_world 5)).log = [.next (.int 1), .next (.int 2)] := by decide

/-- … one tick less: nothing yet. -/
example :
    ([TW.Ev.sub, .emit 0 (.next (.int 1)), .emit 0 (.next (.int 2)), .run, .adv 4, .run].foldl TW.step
      (C07_delay_world 5)).log = [] := by decide

/-- The delay counts from the task's first poll, not from the emission: emitted at 0, first
    polled at 5, so at clock 10 = emission + d the item has NOT been delivered; at 15 it has. -/
example :
    ([TW.Ev.sub, .emit 0 (.next (.int 1)), .adv 5, .run, .adv 5, .run].foldl TW.step
      (C07_delay_world 10)).log = [] := by decide
example :
    ([TW.Ev.sub, .emit 0 (.next (.int 1)), .adv 5, .run, .adv 5, .run, .adv 5, .run].foldl TW.step
      (C07_delay_world 10)).log = [.next (.int 1)] := by decide

/-- Prompt executor: delivered exactly at emission clock + d. -/
example :
    ([TW.Ev.sub, .emit 0 (.next (.int 1)), .run, .adv 2, .emit 0 (.next (.int 2)), .run, .adv 3, .run].foldl
      TW.step (C07_delay_world 5)).log = [.next (.int 1)] := by decide

/-- An error overtakes and cuts off the pending items. -/
example :
    ([TW.Ev.sub, .emit 0 (.next (.int 1)), .run, .emit 0 (.error 7), .adv 9, .run].foldl TW.step
      (C07_delay_world 5)).log = [.error 7] := by decide

end Rx.T
