import RxModel.Props.C07
import RxModel.Lemmas.ChainCompSpec
import RxModel.Lemmas.SingleChain
/-
  C07C — scheduler-moving operators preserve the sequence, IN COMPOSITIONS.

  C07 (Props/C07.lean) is about ONE `observe_on` / ONE `delay d` stage directly over the hot
  subject 0.  Here the stage sits between arbitrary synchronous single-input operators:

      hot subject 0 → pre₁ → … → preₖ → observe_on | delay d → post₁ → … → postₘ → probe

  `pre post : List Spec.Op1` are ANY operators of the synchronous catalogue with ANY parameters
  and closures (map, filter, take, skip, scan, take_while, last, contains, buffer_with_count …),
  in their initial per-subscription state; histories are ALL lists of FIFO-executor events
  (`FifoEv`: emissions of any subject / any notification also after a terminal, clock advances,
  `run`), no bound.

  * `C07C_observeOn_sim`, `C07C_delay_sim` — the SIMULATION theorem: the probe log is what `post`
    makes (synchronously, `runChain`) of the probe log of the ONE-STAGE world of C07 driven by
    `feedEvs pre evs` = the history in which every effective emission of subject 0 is replaced by
    the emissions of what `pre` outputs for it (clock advances and `run`s stay where they are).
    Early termination is handled, not excluded: when `post` has finished (`take 1` behind
    `observe_on` …) the subject still hands its terminal to `pre` (since `fix: Subject::error/
    complete hand the terminal to every subscriber`; before it the subject withheld it), the stage
    schedules it like any other notification, and for the finished `post` the later tasks are
    no-ops — the equation still holds.
  * `C07C_observeOn_fifo` — hence: the log is `post` applied to a PREFIX of what `pre` outputs for
    the gated source script, and right after a `run` the log is EXACTLY what the synchronous chain
    `pre ++ post` (observe_on removed) delivers: `observe_on` is transparent under FIFO.
  * `C07C_observeOn_order` — order preservation / nothing invented / the terminal only after all
    items: the log is always a prefix of the synchronous chain's output.
  * `C07C_observeOn_terminal_last` — once a terminal is at the probe, everything has arrived.
  * `C07C_observeOn_spec` — … which is the DOCUMENTED list semantics (`Spec.applyChain`, C03).
  * `C07C_delay_fifo` — `delay d`: the log is `post` applied to the closed form of C07
    (`Del.Ghost.log`: the stamps of the fed script whose timer was armed at a `run` and whose
    delay was over at the latest `run`, then the error if `pre` output one — `delay` forwards
    an error at once and cuts off what is pending).
  * `C07C_delay_order`, `C07C_delay_order_noerr`, `C07C_delay_terminal_last`, `C07C_delay_after_run`,
    `C07C_delay_never_early`.

  Hypothesis `Op1.calm`: every `take_last n` in `pre`/`post` has `n ≤ 500`.  This is an artefact
  of the MODEL, not of rxRust: the cascade of Sched/Chain.lean carries fuel (≥ 1576 per push) and
  silently drops notifications when it runs out; `take_last n` releases `n + 1` notifications for
  one `complete`, every other operator at most 2 per notification.  (All-chains statements that
  need no fuel assumption — sublists instead of equalities — are in C01C / C09C.)
-/
namespace Rx.T
open Rx Rx.Spec

/-! ### observe_on -/

/-- Simulation: `pre ++ [observe_on] ++ post` driven by `evs` = `post` applied to the log of the
    one-stage world of C07 driven by the feed. -/
theorem C07C_observeOn_sim (pre post : List Op1) (hcalm : ∀ o ∈ pre ++ post, o.calm = true)
    (evs : List TW.Ev) (h : ∀ e ∈ evs, FifoEv e) :
    (evs.foldl TW.step ((obsChain pre post).step .sub)).log =
      (runChain (post.map Op1.init)
        ((feedEvs (pre.map Op1.init) evs).foldl TW.step (C07_observeOn_world.step .sub)).log).2 :=
  obs_sim pre post hcalm evs h

/-- The feed is a FIFO history again and its script is what `pre` outputs for the gated source
    script (so the C07 theorems apply to the one-stage world of the simulation). -/
theorem C07C_feed (pre : List Op1) (evs : List TW.Ev) (h : ∀ e ∈ evs, FifoEv e) :
    (∀ e ∈ feedEvs (pre.map Op1.init) evs, FifoEv e) ∧
    script (feedEvs (pre.map Op1.init) evs) = preOut pre evs ∧
    WF (preOut pre evs) ∧
    clockOf (feedEvs (pre.map Op1.init) evs) = clockOf evs :=
  ⟨fifo_feedEvs _ evs h, script_feedEvs _ evs h, WF_preOut pre evs, clockOf_feedEvs _ evs⟩

/-- FIFO clause.  After ANY FIFO history the probe has received `post` applied to a prefix of
    what `pre` outputs for the gated source script; right after a `run` it has received EXACTLY
    what the synchronous chain `pre ++ post` delivers for the gated source script. -/
theorem C07C_observeOn_fifo (pre post : List Op1) (hcalm : ∀ o ∈ pre ++ post, o.calm = true)
    (evs : List TW.Ev) (h : ∀ e ∈ evs, FifoEv e) :
    (∃ L, L <+: preOut pre evs ∧
      (evs.foldl TW.step ((obsChain pre post).step .sub)).log = (runChain (post.map Op1.init) L).2) ∧
    (∀ evs', evs = evs' ++ [TW.Ev.run] →
      (evs.foldl TW.step ((obsChain pre post).step .sub)).log = syncOut pre post evs) :=
  obs_fifo pre post hcalm evs h

/-- Order: the log is a prefix of what the synchronous chain delivers — the items are, in order,
    the images of the source items under the composed synchronous semantics, nothing is
    invented, duplicated or reordered, and the terminal comes only after all of them. -/
theorem C07C_observeOn_order (pre post : List Op1) (hcalm : ∀ o ∈ pre ++ post, o.calm = true)
    (evs : List TW.Ev) (h : ∀ e ∈ evs, FifoEv e) :
    (evs.foldl TW.step ((obsChain pre post).step .sub)).log <+: syncOut pre post evs :=
  obs_order pre post hcalm evs h

/-- The terminal comes last: once a terminal is at the probe, the probe has received everything
    the synchronous chain delivers (the completion never overtakes an item). -/
theorem C07C_observeOn_terminal_last (pre post : List Op1) (hcalm : ∀ o ∈ pre ++ post, o.calm = true)
    (evs : List TW.Ev) (h : ∀ e ∈ evs, FifoEv e) (t : Notif) (ht : t.isTerm = true)
    (hm : t ∈ (evs.foldl TW.step ((obsChain pre post).step .sub)).log) :
    (evs.foldl TW.step ((obsChain pre post).step .sub)).log = syncOut pre post evs :=
  prefix_eq_of_terminal (C07C_observeOn_order pre post hcalm evs h) (WF_syncOut pre post evs) ht hm

/-- … and that is the documented list semantics: if the gated source script is the finite
    stream `s`, then right after a `run` the probe log is `applyChain (pre ++ post) s`. -/
theorem C07C_observeOn_spec (pre post : List Op1) (hcalm : ∀ o ∈ pre ++ post, o.calm = true)
    (evs : List TW.Ev) (h : ∀ e ∈ evs ++ [TW.Ev.run], FifoEv e) (s : Stream) (hv : s.Valid)
    (hs : gate (script evs) = s.toNotifs) :
    ((evs ++ [TW.Ev.run]).foldl TW.step ((obsChain pre post).step .sub)).log
      = (applyChain (pre ++ post) s).toNotifs := by
  rw [(C07C_observeOn_fifo pre post hcalm _ h).2 evs rfl, syncOut]
  have : script (evs ++ [TW.Ev.run]) = script evs := by simp [script, scriptOf]
  rw [this, hs]
  exact runChain_spec (pre ++ post) s hv

/-- With nothing around it this is C07. -/
theorem C07C_observeOn_nil : obsChain [] [] = C07_observeOn_world := rfl

/-! ### delay -/

theorem C07C_delay_sim (d : Nat) (pre post : List Op1) (hcalm : ∀ o ∈ pre ++ post, o.calm = true)
    (evs : List TW.Ev) (h : ∀ e ∈ evs, FifoEv e) :
    (evs.foldl TW.step ((delayChain d pre post).step .sub)).log =
      (runChain (post.map Op1.init)
        ((feedEvs (pre.map Op1.init) evs).foldl TW.step ((C07_delay_world d).step .sub)).log).2 :=
  del_sim d pre post hcalm evs h

/-- What the model does, exactly: `post` applied to the closed form of C07 over the feed. With
    `g := Del.ghost (feedEvs pre evs)` (the fed script stamped with `te` = clock at emission,
    `ta` = clock at the first `run` after it; `horizon` = clock at the latest `run`, frozen once
    `pre` has output an error): the log is `post` applied to the stamps with `ta + d ≤ horizon`,
    in order, then the error if there is one; the stamped notifications plus that error are what
    `pre` outputs for the gated source script; the ghost clock is the total clock advance. -/
theorem C07C_delay_fifo (d : Nat) (pre post : List Op1) (hcalm : ∀ o ∈ pre ++ post, o.calm = true)
    (evs : List TW.Ev) (h : ∀ e ∈ evs, FifoEv e) :
    (evs.foldl TW.step ((delayChain d pre post).step .sub)).log =
      (runChain (post.map Op1.init)
        (((Del.ghost (feedEvs (pre.map Op1.init) evs)).q.filter
            (Del.Stamp.delivered d (Del.ghost (feedEvs (pre.map Op1.init) evs)).horizon)).map (·.n)
          ++ (Del.ghost (feedEvs (pre.map Op1.init) evs)).errPart)).2 ∧
    (Del.ghost (feedEvs (pre.map Op1.init) evs)).q.map (·.n)
        ++ (Del.ghost (feedEvs (pre.map Op1.init) evs)).errPart = preOut pre evs ∧
    (Del.ghost (feedEvs (pre.map Op1.init) evs)).clock = clockOf evs := by
  obtain ⟨hf, hs, hw, hc⟩ := C07C_feed pre evs h
  obtain ⟨h1, h2, _⟩ := C07_delay_fifo d _ hf
  refine ⟨?_, ?_, ?_⟩
  · rw [C07C_delay_sim d pre post hcalm evs h, h1]
  · rw [h2, hs, gate_of_WF hw]
  · rw [ghost_clock, hc]

/-- Order: `post` applied to a prefix of what `pre` outputs — or, when `pre` has output an
    error, to such a prefix followed by that error. -/
theorem C07C_delay_order (d : Nat) (pre post : List Op1) (hcalm : ∀ o ∈ pre ++ post, o.calm = true)
    (evs : List TW.Ev) (h : ∀ e ∈ evs, FifoEv e) :
    ∃ p, p <+: preOut pre evs ∧
      ((evs.foldl TW.step ((delayChain d pre post).step .sub)).log = (runChain (post.map Op1.init) p).2 ∨
       ∃ e, (preOut pre evs).getLast? = some (.error e) ∧
         (evs.foldl TW.step ((delayChain d pre post).step .sub)).log
           = (runChain (post.map Op1.init) (p ++ [.error e])).2) :=
  del_order d pre post hcalm evs h

/-- No error: the log is a prefix of what the synchronous chain delivers. -/
theorem C07C_delay_order_noerr (d : Nat) (pre post : List Op1) (hcalm : ∀ o ∈ pre ++ post, o.calm = true)
    (evs : List TW.Ev) (h : ∀ e ∈ evs, FifoEv e) (hne : ∀ e, (preOut pre evs).getLast? ≠ some (.error e)) :
    (evs.foldl TW.step ((delayChain d pre post).step .sub)).log <+: syncOut pre post evs := by
  obtain ⟨p, hp, h1 | ⟨e, h2, _⟩⟩ := C07C_delay_order d pre post hcalm evs h
  · rw [h1, syncOut_eq]; exact runChain_prefix _ hp
  · exact absurd h2 (hne e)

/-- No error: the terminal comes last also behind `delay`. -/
theorem C07C_delay_terminal_last (d : Nat) (pre post : List Op1) (hcalm : ∀ o ∈ pre ++ post, o.calm = true)
    (evs : List TW.Ev) (h : ∀ e ∈ evs, FifoEv e) (hne : ∀ e, (preOut pre evs).getLast? ≠ some (.error e))
    (t : Notif) (ht : t.isTerm = true)
    (hm : t ∈ (evs.foldl TW.step ((delayChain d pre post).step .sub)).log) :
    (evs.foldl TW.step ((delayChain d pre post).step .sub)).log = syncOut pre post evs :=
  prefix_eq_of_terminal (C07C_delay_order_noerr d pre post hcalm evs h hne) (WF_syncOut pre post evs) ht hm

/-- Right after a `run`, `pre` has not output an error: every fed notification has its timer
    armed and `post` has received exactly those with `ta + d ≤ clock`. -/
theorem C07C_delay_after_run (d : Nat) (pre post : List Op1) (hcalm : ∀ o ∈ pre ++ post, o.calm = true)
    (evs : List TW.Ev) (h : ∀ e ∈ evs, FifoEv e)
    (he : (Del.ghost (feedEvs (pre.map Op1.init) (evs ++ [TW.Ev.run]))).err = none) :
    ((evs ++ [TW.Ev.run]).foldl TW.step ((delayChain d pre post).step .sub)).log =
      (runChain (post.map Op1.init)
        (((Del.ghost (feedEvs (pre.map Op1.init) (evs ++ [TW.Ev.run]))).q.filter
          (Del.Stamp.delivered d (clockOf evs))).map (·.n))).2 ∧
    ∀ st ∈ (Del.ghost (feedEvs (pre.map Op1.init) (evs ++ [TW.Ev.run]))).q, st.ta ≠ none := by
  have hall : ∀ e ∈ evs ++ [TW.Ev.run], FifoEv e := fifo_append h (fifo_single .run)
  rw [feedEvs_snoc_run] at he ⊢
  obtain ⟨h1, _, h3⟩ := C07_delay_after_run d _ (fifo_feedEvs (pre.map Op1.init) evs h) he
  refine ⟨?_, h3⟩
  rw [C07C_delay_sim d pre post hcalm _ hall, feedEvs_snoc_run, h1, ghost_clock, ← feedEvs_snoc_run,
    clockOf_feedEvs]
  simp [clockOf_append, clockOf]

/-- Never early: every notification `post` has received left `pre` at least `d` before the
    current clock (= total clock advance). -/
theorem C07C_delay_never_early (d : Nat) (pre : List Op1) (evs : List TW.Ev) (h : ∀ e ∈ evs, FifoEv e) :
    ∀ st ∈ (Del.ghost (feedEvs (pre.map Op1.init) evs)).q,
      st.delivered d (Del.ghost (feedEvs (pre.map Op1.init) evs)).horizon = true →
      st.te + d ≤ clockOf evs := by
  intro st hst hd
  have := Del.never_early d _ (fifo_feedEvs (pre.map Op1.init) evs h) st hst hd
  rwa [ghost_clock, clockOf_feedEvs] at this

theorem C07C_delay_nil (d : Nat) : delayChain d [] [] = C07_delay_world d := rfl

/-! ### non-vacuity -/

/-- `[map add1, observe_on, take 2]`: three items and the completion are emitted; after `run`
    the probe has the first two images and `take`'s completion. -/
example :
    ([TW.Ev.sub, .emit 0 (.next (.int 1)), .emit 0 (.next (.int 2)), .adv 3, .emit 0 (.next (.int 3)),
      .emit 0 .complete, .run].foldl TW.step (obsChain [.map exAdd1] [.take 2])).log
      = [.next (.int 2), .next (.int 3), .complete] := by decide

/-- … the same value computed by the right-hand side of `C07C_observeOn_fifo`. -/
example :
    syncOut [.map exAdd1] [.take 2]
      [.emit 0 (.next (.int 1)), .emit 0 (.next (.int 2)), .adv 3, .emit 0 (.next (.int 3)),
       .emit 0 .complete, .run]
      = [.next (.int 2), .next (.int 3), .complete] := by decide

/-- `take 1` behind `observe_on` has finished when the source completes: the completion is still
    handed to `scan` in front and scheduled by `observe_on` (before `fix: Subject::error/complete hand
    the terminal to every subscriber` the subject withheld it); the finished `take 1` ignores the
    task — the log is still the synchronous chain's. -/
example :
    ([TW.Ev.sub, .emit 0 (.next (.int 1)), .run, .emit 0 (.next (.int 2)), .emit 0 .complete, .run].foldl
      TW.step (obsChain [.scan exAdd (.int 0)] [.take 1])).log
      = [.next (.int 1), .complete] := by decide

/-- … `buffer_with_count 2` in front: the remainder `[3]` it releases on completion is scheduled
    like everything else (the feed of the simulation contains it); `take 1` ignores it. -/
example :
    ([TW.Ev.sub, .emit 0 (.next (.int 1)), .emit 0 (.next (.int 2)), .run, .emit 0 (.next (.int 3)),
      .emit 0 .complete, .run].foldl TW.step (obsChain [.bufferCount 2] [.take 1])).log
      = [.next (Val.ofList [.int 1, .int 2]), .complete] := by decide

example :
    script (feedEvs ([Op1.bufferCount 2].map Op1.init)
      [.emit 0 (.next (.int 1)), .emit 0 (.next (.int 2)), .run, .emit 0 (.next (.int 3)),
       .emit 0 .complete, .run])
      = [.next (Val.ofList [.int 1, .int 2]), .next (Val.ofList [.int 3]), .complete] := by decide

/-- The feed: `filter even` drops 1 and 3, `last` turns the completion into item + completion. -/
example :
    script (feedEvs ([Op1.filter exEven, .last].map Op1.init)
      [.emit 0 (.next (.int 1)), .emit 0 (.next (.int 2)), .adv 3, .emit 7 (.next (.int 9)), .run,
       .emit 0 (.next (.int 3)), .emit 0 .complete, .emit 0 (.next (.int 4))])
      = [.next (.int 2), .complete] := by decide

/-- `[filter even, delay 5, skip 1]`. -/
example :
    ([TW.Ev.sub, .emit 0 (.next (.int 2)), .emit 0 (.next (.int 3)), .emit 0 (.next (.int 4)), .run, .adv 5,
      .emit 0 (.next (.int 6)), .run].foldl TW.step (delayChain 5 [.filter exEven] [.skip 1])).log
      = [.next (.int 4)] := by decide

/-- An error output by `pre` overtakes the pending items also behind operators. -/
example :
    ([TW.Ev.sub, .emit 0 (.next (.int 2)), .run, .emit 0 (.error 7), .adv 9, .run].foldl TW.step
      (delayChain 5 [.map exAdd1] [.onErrorMap (fun e => e + 1)])).log = [.error 8] := by decide

/-- The hypotheses are satisfiable. -/
example : ∀ o ∈ [Op1.map exAdd1] ++ [Op1.take 2], o.calm = true := by
  intro o ho
  simp at ho
  rcases ho with rfl | rfl <;> rfl

end Rx.T
