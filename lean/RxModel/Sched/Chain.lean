import RxModel.Sched.Core
import RxModel.Ops.Init
import RxModel.Ops.Source
import RxModel.Ops.Multi
/-
  Linear pipelines with scheduler-using operators on the virtual clock:
  a source, then stages (source side first), then the probe.

  Transcription of src/ops/{delay,observe_on,subscribe_on,debounce,throttle,
  buffer}.rs and src/observable/{interval,timer}.rs.
-/
namespace Rx.T
open Rx Rx.Spec

inductive Edge where
  | leading | trailing | all
  deriving Repr, DecidableEq

def Edge.hasLeading : Edge → Bool
  | .trailing => false
  | _ => true
def Edge.hasTrailing : Edge → Bool
  | .leading => false
  | _ => true

/-- Sources of a chain. -/
inductive TSrc where
  | hot (i : Nat)
  | cold (s : Src)
  | interval (delay : Option Nat) (period : Nat)   -- interval / interval_at
  | timer (v : Val) (dur : Nat)
  | iterc (n : Nat)                                  -- from_iter over a counting iterator 0..n
  /-- from_future (`res = false`) / from_future_result (`res = true`) over a scripted future. -/
  | future (res : Bool) (script : List AStep)
  /-- from_stream / from_stream_result over a scripted stream; `cyc`: the script
      starts over when it runs out (an unbounded stream). -/
  | stream (res : Bool) (script : List AStep) (cyc : Bool)

/-- One operator of the chain with its per-subscription state. -/
inductive Stage where
  | op1 (st : St1)
  /-- delay(d): slot + MultiSubscription (None once unsubscribed). -/
  | delay (d : Nat) (alive : Bool) (multi : Option (List TaskId))
  | observeOn (alive : Bool) (multi : Option (List TaskId))
  /-- subscribe_on / delay_subscription(d): the handle of the subscribing task. -/
  | subscribeOn (delay : Option Nat) (task : Option TaskId)
  /-- debounce(d): slot, trailing value, handler cell (None: empty or taken). -/
  | debounce (d : Nat) (alive : Bool) (trailing : Option Val) (handler : Option TaskId)
  /-- throttle: slot, trailing value, task handle (none = the initial finished handle). -/
  | throttle (d : Nat) (edge : Edge) (alive : Bool) (trailing : Option Val) (handler : Option TaskId)
  /-- throttle in the middle of `next`: the leading item is being delivered, the
      window task has not been scheduled yet. -/
  | throttleW (d : Nat) (edge : Edge) (alive : Bool) (trailing : Option Val)
  /-- buffer_with_time / buffer_with_count_and_time: the shared buffer cell and the flush task. -/
  | bufTime (d : Nat) (count : Option Nat) (alive : Bool) (data : List Val) (task : Option TaskId)
  /-- a two-input operator whose second input (other / from / notifier / sampler)
      is its own source: the shared cell, that source, its Subscriber slot / task handle. -/
  | op2n (st : St2) (nsrc : TSrc) (nAlive : Bool) (nTask : Option TaskId)

/-- `is_finished` of the observer facing the head of `stages`. -/
def fin : List Stage → Bool
  | [] => false
  | .op1 st :: r => st.finished (fin r)
  | .delay _ alive _ :: r => !alive || fin r
  | .observeOn alive _ :: r => !alive || fin r
  | .subscribeOn _ _ :: r => fin r
  | .debounce _ alive _ _ :: r => !alive || fin r
  | .throttle _ _ alive _ _ :: r => !alive || fin r
  | .throttleW _ _ alive _ :: r => !alive || fin r
  | .bufTime _ _ alive _ _ :: r => !alive || fin r
  | .op2n st _ _ _ :: r => st.finished .a (fin r)

def flushBuf (data : List Val) : List Notif :=
  if data.isEmpty then [] else [.next (Val.ofList data)]

/-- One notification arriving at a stage (index `j`): new stage state, what it
    passes downstream right now, scheduler effects. -/
def Stage.onNotif (st : Stage) (j : Nat) (n : Notif) (s : Sched) : Stage × List Notif × Sched :=
  match st, n with
  | .op1 o, n => let (o', out) := o.step n; (.op1 o', out, s)
  -- delay ---------------------------------------------------------------------
  | .delay d alive multi, .error e => (.delay d false multi, if alive then [.error e] else [], s)
  | .delay d alive multi, n =>
      let (s1, h) := s.scheduleOnce (.emit j n) (some d)
      (.delay d alive (multi.map (· ++ [h])), [], s1)
  -- observe_on -----------------------------------------------------------------
  | .observeOn alive multi, n =>
      let (s1, h) := s.scheduleOnce (.emit j n) none
      (.observeOn alive (multi.map (· ++ [h])), [], s1)
  | .subscribeOn d t, n => (.subscribeOn d t, [n], s)
  -- debounce -------------------------------------------------------------------
  | .debounce d alive _ handler, .next v =>
      let s1 := match handler with | some h => s.cancel h | none => s
      let (s2, h) := s1.scheduleOnce (.debounce j) (some d)
      (.debounce d alive (some v) (some h), [], s2)
  | .debounce d alive tr handler, .error e =>
      (.debounce d false tr handler, if alive then [.error e] else [], s)
  | .debounce d alive tr handler, .complete =>
      (.debounce d false none handler,
        if alive then (match tr with | some v => [.next v] | none => []) ++ [.complete] else [], s)
  -- throttle -------------------------------------------------------------------
  | .throttle d edge alive tr handler, .next v =>
      let tr1 := if edge.hasTrailing then some v else tr
      let closed := match handler with | some h => s.handleClosed h | none => true
      if closed then
        let out := if edge.hasLeading && alive then [.next v] else []
        -- after `fix: throttle … lone item twice`: the item just emitted on the
        -- leading edge is not also the trailing candidate
        let tr2 := if edge.hasLeading then none else tr1
        -- the window task is scheduled AFTER the leading emission has gone
        -- downstream: see `Stage.afterEmit` (handler `none` + `windowDue`)
        (.throttleW d edge alive tr2, out, s)
      else (.throttle d edge alive tr1 handler, [], s)
  | .throttle d edge alive tr handler, .error e =>
      (.throttle d edge false tr none, if alive then [.error e] else [],
        match handler with | some h => s.cancel h | none => s)
  | .throttle d edge alive tr handler, .complete =>
      (.throttle d edge false none none,
        if alive then (match tr with | some v => [.next v] | none => []) ++ [.complete] else [],
        match handler with | some h => s.cancel h | none => s)
  | .throttleW d edge alive tr, _ => (.throttleW d edge alive tr, [], s)   -- unreachable (no re-entrancy)
  -- two-input cell: what arrives through the chain is its first input -----------------
  | .op2n st ns na nt, n => let (st', out) := st.step .a n; (.op2n st' ns na nt, out, s)
  -- buffer_with_time / buffer_with_count_and_time -----------------------------------
  | .bufTime d cnt alive data task, .next v =>
      if alive then
        let data1 := data ++ [v]
        match cnt with
        | some c =>
          if data1.length ≥ c then (.bufTime d cnt alive [] task, flushBuf data1, s)
          else (.bufTime d cnt alive data1 task, [], s)
        | none => (.bufTime d cnt alive data1 task, [], s)
      else (.bufTime d cnt alive data task, [], s)
  | .bufTime d cnt alive data task, .error e =>
      (.bufTime d cnt false data task, if alive then [.error e] else [], s)
  | .bufTime d cnt alive data task, .complete =>
      (.bufTime d cnt false [] task, if alive then flushBuf data ++ [.complete] else [], s)

/-- What a stage still has to do once the notification it passed on has been
    fully processed downstream. -/
def Stage.afterEmit (st : Stage) (j : Nat) (s : Sched) : Stage × Sched :=
  match st with
  | .throttleW d edge alive tr =>
      let (s1, h) := s.scheduleOnce (.throttle j) (some d)
      (.throttle d edge alive tr (some h), s1)
  | st => (st, s)

/-- Push notifications through the stages starting at index `j` (the head of
    `stages`), one notification at a time and depth first, exactly like the
    nested synchronous calls; returns what reaches the probe.  (`fuel` bounds the
    recursion depth; callers pass more than stages × notifications.) -/
def cascadeF : Nat → List Stage → Nat → List Notif → Sched → List Stage × List Notif × Sched
  | 0, stages, _, _, s => (stages, [], s)
  | _ + 1, [], _, ns, s => ([], ns, s)
  | _ + 1, st :: rest, _, [], s => (st :: rest, [], s)
  | f + 1, st :: rest, j, n :: ns, s =>
    let (st1, outs, s1) := st.onNotif j n s
    let (rest1, out1, s2) := cascadeF f rest (j + 1) outs s1
    let (st2, s3) := st1.afterEmit j s2
    let (stages2, out2, s4) := cascadeF f (st2 :: rest1) j ns s3
    (stages2, out1 ++ out2, s4)

def cascade (stages : List Stage) (j : Nat) (ns : List Notif) (s : Sched) :
    List Stage × List Notif × Sched :=
  cascadeF ((stages.length + 1) * (ns.length + 8) * 64 + 1000) stages j ns s

/-- The world of one `time` case. -/
structure TW where
  sched : Sched := {}
  src : TSrc
  stages : List Stage
  srcAlive : Bool := false          -- hot: the Subscriber slot held by the subject
  srcSubscribed : Bool := false     -- the source's actual_subscribe has run
  srcTask : Option TaskId := none   -- interval / timer: their task handle
  terminated : List Nat := []       -- subjects whose observer list was taken
  subscribed : Bool := false        -- the case's `sub` has happened
  unsubscribed : Bool := false      -- … and its `unsub`
  pulls : Nat := 0                  -- items pulled from the counting iterator (`iterc`) / yielded by the scripted stream
  srcRest : List AStep := []        -- future / stream source: the steps its script has not played yet
  log : List Notif := []

namespace TW

/-- Deliver `ns` to stage `j` and everything downstream, logging what reaches the probe. -/
def push (w : TW) (j : Nat) (ns : List Notif) : TW :=
  let pre := w.stages.take j
  let (post, out, s) := cascade (w.stages.drop j) j ns w.sched
  { w with stages := pre ++ post, sched := s, log := w.log ++ out }

def setStage (w : TW) (j : Nat) (st : Stage) : TW := { w with stages := w.stages.set j st }

/-- Subscribe the source (the innermost `actual_subscribe`). -/
def subscribeSource (w : TW) : TW :=
  let w := { w with srcSubscribed := true }
  match w.src with
  | .hot _ => { w with srcAlive := true }
  | .cold s =>
      let w1 := w.push 0 s.emit
      (match s with
       | .create _ => { w1 with srcAlive := !Rx.terminated s.emit }
       | _ => w1)
  | .interval delay period =>
      -- after `fix: interval_at first tick`: first tick after `delay`, no outer delay
      let (s1, h) := w.sched.scheduleRepeat .tick period none (delay.getD period)
      { w with sched := s1, srcTask := some h }
  | .timer v dur =>
      let (s1, h) := w.sched.scheduleOnce (.timerSrc v) (some dur)
      { w with sched := s1, srcTask := some h }
  | .iterc n =>
      -- after `fix: from_iter … is_finished`: pull while the observer is not finished
      let rec loop (fuel k : Nat) (w : TW) : TW :=
        match fuel with
        | 0 => w
        | fuel + 1 =>
          if fin w.stages then w
          else if k < n then loop fuel (k + 1) ({ w with pulls := w.pulls + 1 }.push 0 [.next (.int k)])
          else w.push 0 [.complete]
      loop (n + 1) 0 w
  | .future _ script =>
      -- `scheduler.schedule(FutureTask::new(future, item_task / result_task, observer), None)`
      let (s1, h) := w.sched.scheduleOnce .futureSrc none
      { w with sched := s1, srcTask := some h, srcRest := script }
  | .stream _ script _ =>
      -- `scheduler.schedule((Try)StreamObserverFuture { stream, observer }, None)`
      let (s1, h) := w.sched.scheduleOnce .streamSrc none
      { w with sched := s1, srcTask := some h, srcRest := script }

/-- Deliver notifications to the second input of the two-input cell at stage `j`. -/
def pushB (w : TW) (j : Nat) (ns : List Notif) : TW :=
  match w.stages[j]? with
  | some (.op2n st nsrc na nt) =>
      let (st', out) := st.run .b ns
      (w.setStage j (.op2n st' nsrc na nt)).push (j + 1) out
  | _ => w

/-- Subscribe the second input of the two-input cell at stage `j`. -/
def subscribeNotifier (w : TW) (j : Nat) : TW :=
  match w.stages[j]? with
  | some (.op2n st nsrc _ nt) =>
      match nsrc with
      | .hot _ => w.setStage j (.op2n st nsrc true nt)
      | .cold s => w.pushB j s.emit
      | .interval delay period =>
          let (s1, h) := w.sched.scheduleRepeat (.tickN j) period none (delay.getD period)
          { w with sched := s1 }.setStage j (.op2n st nsrc false (some h))
      | .timer v dur =>
          let (s1, h) := w.sched.scheduleOnce (.emit j (.next v)) (some dur)   -- not generated
          { w with sched := s1 }.setStage j (.op2n st nsrc false (some h))
      | .iterc n =>
          -- from_iter as second input: pull while the B-side observer is not finished
          let rec loopB (fuel k : Nat) (w : TW) : TW :=
            match fuel with
            | 0 => w
            | fuel + 1 =>
              match w.stages[j]? with
              | some (.op2n st' _ _ _) =>
                if st'.finished .b (fin (w.stages.drop (j + 1))) then w
                else if k < n then
                  loopB fuel (k + 1) ({ w with pulls := w.pulls + 1 }.pushB j [.next (.int k)])
                else w.pushB j [.complete]
              | _ => w
          loopB (n + 1) 0 w
      | .future _ _ => w        -- async sources in notifier position: not generated
      | .stream _ _ _ => w
  | _ => w

/-- `actual_subscribe` of the stages below index `j` (stage j-1 first, then j-2 …),
    then of the source.  A subscribe_on / delay_subscription stage schedules the
    rest as a task and stops. -/
def subscribeFrom (w : TW) : Nat → TW
  | 0 => w.subscribeSource
  | j + 1 =>
    match w.stages[j]? with
    | some (.bufTime d cnt alive data _) =>
        let (s1, h) := w.sched.scheduleRepeat (.bufTick j) d none
        subscribeFrom ({ w with sched := s1 }.setStage j (.bufTime d cnt alive data (some h))) j
    | some (.subscribeOn delay _) =>
        let (s1, h) := w.sched.scheduleOnce (.subscribe j) delay
        { w with sched := s1 }.setStage j (.subscribeOn delay (some h))
    | some (.op2n st _ _ _) =>
        match st.firstSide with
        | .a => (subscribeFrom w j).subscribeNotifier j
        | .b => subscribeFrom (w.subscribeNotifier j) j
    | _ => subscribeFrom w j

/-- The user body of a task. `k` is the task running it. -/
def runBody (w : TW) (b : Body) : TW :=
  match b with
  | .emit j n =>
      -- `observer.next(v)` / `.complete()` / `.error(e)` on the slot of stage j
      match w.stages[j]? with
      | some (.delay d alive multi) =>
          if alive then
            (if n.isTerm then w.setStage j (.delay d false multi) else w).push (j + 1) [n]
          else w
      | some (.observeOn alive multi) =>
          if alive then
            (if n.isTerm then w.setStage j (.observeOn false multi) else w).push (j + 1) [n]
          else w
      | _ => w
  | .debounce j =>
      match w.stages[j]? with
      | some (.debounce d alive (some v) h) =>
          let w1 := w.setStage j (.debounce d alive none h)
          if alive then w1.push (j + 1) [.next v] else w1
      | _ => w
  | .throttle j =>
      match w.stages[j]? with
      | some (.throttle d e alive (some v) h) =>
          let w1 := w.setStage j (.throttle d e alive none h)
          if alive then w1.push (j + 1) [.next v] else w1
      | _ => w
  | .subscribe j => w.subscribeFrom j
  | .timerSrc v => w.push 0 [.next v, .complete]
  | .tick => w   -- handled by `runTick`
  | .bufTick _ => w
  | .tickN _ => w
  | .futureSrc => w   -- handled by `runAsync`
  | .streamSrc => w

/-- `FutureTask::poll` of the from_future / from_future_result source: poll the
    future; `Ready(v)` runs `item_task` (`next v; complete`) resp. `result_task`
    (`Ok v` the same, `Err e` → `error e`); `Pending` is handed on. -/
def pollFuture (w : TW) (res : Bool) : TW × AOut :=
  match w.srcRest with
  | [] => (w, .pending false)
  | .hang :: _ => (w, .pending false)
  | .pending :: r => ({ w with srcRest := r }, .pending true)
  | .ready v :: r => ({ w with srcRest := r }.push 0 [.next v, .complete], .done)
  | .err e :: r =>
      let w1 := { w with srcRest := r }
      (if res then w1.push 0 [.error e] else w1.push 0 [.next (.int e), .complete], .done)

/-- The driver loop of from_stream.rs / from_stream_result.rs over the steps the
    script still holds: `loop { poll_next; Some(v) → next v; Some(Err e) → error e,
    Ready; None → complete, Ready; Pending → return Pending }`.  The `None` case is
    reported as `.exhausted` (the caller decides whether the script starts over).

    FIXED behaviour (DESIGN §7 finding 18; like `from_iter`): at the top of every
    iteration the driver asks `observer.is_finished()` and retires (drops the
    observer, returns Ready) when nobody listens any more.  The code as it stands
    in /repo never asks, keeps draining the stream and never retires on an
    unbounded one: see `vlib/props/c16.py`. -/
def streamLap (res : Bool) : List AStep → TW → TW × AOut
  | [], w => ({ w with srcRest := [] }, if fin w.stages then .done else .exhausted)
  | st :: r, w =>
    if fin w.stages then ({ w with srcRest := st :: r }, .done)
    else
      match st with
      | .ready v => streamLap res r ({ w with pulls := w.pulls + 1 }.push 0 [.next v])
      | .err e =>
          if res then ({ w with pulls := w.pulls + 1, srcRest := r }.push 0 [.error e], .done)
          else streamLap res r ({ w with pulls := w.pulls + 1 }.push 0 [.next (.int e)])
      | .pending => ({ w with srcRest := r }, .pending true)
      | .hang => ({ w with srcRest := st :: r }, .pending false)

/-- One `poll` of the stream driver: laps over the script (`fuel` bounds the laps
    of a cyclic script; a non-cyclic one needs a single lap). -/
def pollStream (res : Bool) (script : List AStep) (cyc : Bool) : Nat → TW → TW × AOut
  | 0, w => (w, .pending false)
  | f + 1, w =>
    match streamLap res w.srcRest w with
    | (w1, .exhausted) =>
        if cyc && !script.isEmpty then pollStream res script cyc f { w1 with srcRest := script }
        else (w1.push 0 [.complete], .done)
    | r => r

/-- The `poll` of an async task body (the ones that may answer `Pending` themselves). -/
def runAsync (w : TW) (b : Body) : TW × AOut :=
  match b, w.src with
  | .futureSrc, .future res _ => w.pollFuture res
  | .streamSrc, .stream res script cyc => pollStream res script cyc 10000 w
  | _, _ => (w, .done)

/-- A RepeatTask tick: returns the new world and whether the task continues. -/
def runTick (w : TW) (b : Body) (seq : Nat) : TW × Bool :=
  match b with
  | .tick =>
      if fin w.stages then (w, false) else (w.push 0 [.next (.int seq)], true)
  | .tickN j =>
      match w.stages[j]? with
      | some (.op2n st _ _ _) =>
          if st.finished .b (fin (w.stages.drop (j + 1))) then (w, false)
          else (w.pushB j [.next (.int seq)], true)
      | _ => (w, false)
  | .bufTick j =>
      match w.stages[j]? with
      | some (.bufTime d cnt alive data t) =>
          if !alive || fin (w.stages.drop (j + 1)) then (w, false)
          else ((w.setStage j (.bufTime d cnt alive [] t)).push (j + 1) (flushBuf data), true)
      | _ => (w, false)
  | _ => (w, false)

/-- Poll task `k` once. -/
def pollTask (w : TW) (k : TaskId) : TW :=
  let (s1, p) := w.sched.pollPre k
  let w := { w with sched := s1 }
  match p with
  | .none => w
  | .runOnce b =>
      if b.isAsync then
        -- FutureTask / stream driver: `Ready` stores the value in the handle, `Pending`
        -- leaves the task in the queue (ready again iff it woke itself)
        match w.runAsync b with
        | (w1, .pending wk) => { w1 with sched := w1.sched.stayPending k wk }
        | (w1, _) => { w1 with sched := w1.sched.finishOnce k }
      else
        let w1 := w.runBody b
        { w1 with sched := w1.sched.finishOnce k }
  | .runTick b seq =>
      let (w1, cont) := w.runTick b seq
      if cont then { w1 with sched := w1.sched.continueRepeat k }
      else { w1 with sched := w1.sched.finishOnce k }

def pollAll (w : TW) : List TaskId → TW
  | [] => w
  | k :: r =>
    let live := match w.sched.tasks[k]? with | some t => !t.done | none => false
    pollAll (if live then w.pollTask k else w) r

/-- The harness' prompt FIFO schedule, with fuel (each pass either fires a timer
    or polls a task; the generators keep runs finite). -/
def runLoop : Nat → TW → TW
  | 0, w => w
  | fuel + 1, w =>
    let due := w.sched.dueTimers
    let w1 := { w with sched := due.foldl Sched.fire w.sched }
    let ready := w1.sched.liveTasks.filter fun k =>
      match w1.sched.tasks[k]? with | some t => t.woken | none => false
    if due.isEmpty && ready.isEmpty then w1
    else runLoop fuel (w1.pollAll ready)

/-- `unsubscribe()` of the subscription returned for stages `0..j` and the source
    (walking the Unsub algebra from stage j-1 down). -/
def unsubFrom (w : TW) : Nat → TW
  | 0 =>
      -- source: Subscriber slot / TaskHandle / ()
      let w1 := { w with srcAlive := false }
      match w.srcTask with
      | some h => { w1 with sched := w1.sched.cancel h }
      | none => w1
  | j + 1 =>
    match w.stages[j]? with
    | some (.delay d alive multi) =>
        -- ZipSubscription(source, multi): source first, then the tasks
        let w1 := unsubFrom w j
        let s := (multi.getD []).foldl Sched.cancel w1.sched
        { w1 with sched := s }.setStage j (.delay d alive none)
    | some (.observeOn alive multi) =>
        let w1 := unsubFrom w j
        let s := (multi.getD []).foldl Sched.cancel w1.sched
        { w1 with sched := s }.setStage j (.observeOn alive none)
    | some (.subscribeOn delay (some h)) =>
        -- TaskHandle<SubscribeReturn<U>>: cancel; unsubscribe the stored U if the task has run
        let ran := w.sched.handleClosed h
        let w1 := { w with sched := w.sched.cancel h }
        if ran then unsubFrom w1 j else w1
    | some (.debounce d alive tr handler) =>
        let w1 := unsubFrom w j
        let s := match handler with | some h => w1.sched.cancel h | none => w1.sched
        { w1 with sched := s }.setStage j (.debounce d alive tr none)
    | some (.throttle d e alive tr handler) =>
        -- after `fix: throttle … unsubscribe`: ZipSubscription(source, handler cell)
        let w1 := unsubFrom w j
        let s := match handler with | some h => w1.sched.cancel h | none => w1.sched
        { w1 with sched := s }.setStage j (.throttle d e alive tr none)
    | some (.bufTime _ _ _ _ (some h)) =>
        -- ZipSubscription(handle, source): the flush task first
        unsubFrom { w with sched := w.sched.cancel h } j
    | some (.op2n st nsrc _ nt) =>
        -- ZipSubscription(first input, second input)
        let w1 := unsubFrom w j
        let s := match nt with | some h => w1.sched.cancel h | none => w1.sched
        { w1 with sched := s }.setStage j (.op2n st nsrc false nt)
    | _ => unsubFrom w j       -- op1, throttle: the source's subscription

/-- `is_closed()` of the subscription returned for stages `0..j` and the source. -/
def isClosedFrom (w : TW) : Nat → Bool
  | 0 =>
      match w.src, w.srcTask with
      | .hot _, _ => !w.srcAlive
      | .cold (.create _), _ => !w.srcAlive
      | .cold _, _ => true
      | _, some h => w.sched.handleClosed h       -- TaskHandle<NormalReturn>: the task has produced its value
      | _, none => false
  | j + 1 =>
    match w.stages[j]? with
    | some (.delay _ _ multi) =>
        -- ZipSubscription(source, MultiSubscription): None, or every handle closed (vacuously when empty)
        isClosedFrom w j && (multi.getD []).all w.sched.handleClosed
    | some (.observeOn _ multi) =>
        isClosedFrom w j && (multi.getD []).all w.sched.handleClosed
    | some (.subscribeOn _ (some h)) =>
        -- TaskHandle<SubscribeReturn<U>>: the stored subscription's answer, false while there is none
        if w.sched.handleClosed h then isClosedFrom w j else false
    | some (.subscribeOn _ none) => false
    | some (.debounce _ _ _ handler) => isClosedFrom w j && handler.isNone
    | some (.throttle _ _ _ _ handler) => isClosedFrom w j && handler.isNone
    | some (.bufTime _ _ _ _ (some h)) => w.sched.handleClosed h && isClosedFrom w j
    | some (.op2n _ nsrc na nt) =>
        isClosedFrom w j &&
          (match nsrc, nt with
           | .hot _, _ => !na
           | .cold (.create _), _ => !na
           | .cold _, _ => true
           | _, some h => w.sched.handleClosed h
           | _, none => false)
    | _ => isClosedFrom w j

/-- What the case's handle answers (it is consumed by `unsub`). -/
def isClosed (w : TW) : Bool :=
  if !w.subscribed || w.unsubscribed then true else isClosedFrom w w.stages.length

/-- A subject emission reaching the notifier inputs (stage index below `k`) fed by subject `i`. -/
def deliverNotifiers (w : TW) (i : Nat) (n : Notif) : Nat → TW
  | 0 => w
  | k + 1 =>
    let w1 := deliverNotifiers w i n k
    match w1.stages[k]? with
    | some (.op2n st (.hot j) na nt) =>
        if i = j && na then
          match n with
          | .next _ => w1.pushB k [n]
          | _ =>
            -- the subject hands the terminal to every entry (no `p_is_closed()` filter since `fix:
            -- Subject::error/complete hand the terminal to every subscriber`); the slot is taken
            (w1.setStage k (.op2n st (.hot j) false nt)).pushB k [n]
        else w1
    | _ => w1

inductive Ev where
  | sub
  | emit (i : Nat) (n : Notif)
  | unsub
  | adv (d : Nat)
  | fire (i : Nat)        -- the i-th due timer
  | poll (i : Nat)        -- the i-th live task
  | run

def step (w : TW) : Ev → TW
  | .sub =>
      if w.subscribed then w
      else subscribeFrom { w with subscribed := true } w.stages.length
  | .emit i n =>
      if w.terminated.contains i then w
      else
        let w1 := if n.isTerm then { w with terminated := i :: w.terminated } else w
        -- the subscribers of subject i in subscription order: the chain's source is subscribed
        -- before the notifier of an a-first cell and after the notifier of a b-first cell; the
        -- generators never put the same subject in both positions
        let w2 := match w.src with
          | .hot j =>
            if i = j && w.srcSubscribed && w.srcAlive then
              match n with
              | .next _ => w1.push 0 [n]
              | _ =>
                -- every entry is handed the terminal (no `p_is_closed()` filter since `fix:
                -- Subject::error/complete hand the terminal to every subscriber`); the slot is taken
                { w1 with srcAlive := false }.push 0 [n]
            else w1
          | _ => w1
        deliverNotifiers w2 i n w2.stages.length
  | .unsub =>
      if w.subscribed && !w.unsubscribed then { unsubFrom w w.stages.length with unsubscribed := true }
      else w
  | .adv d => { w with sched := { w.sched with now := w.sched.now + d } }
  | .fire i =>
      match w.sched.dueTimers[i]? with
      | some tm => { w with sched := w.sched.fire tm }
      | none => w
  | .poll i =>
      match w.sched.liveTasks[i]? with
      | some k => w.pollTask k
      | none => w
  | .run => runLoop 10000 w

end TW
end Rx.T
