import RxModel.Sched.Core
/-
  The scheduler alone, as a transition system with opaque task bodies (C19).

  An action list is ANY history of a legal executor: tasks are handed to the
  scheduler at any moment, handles are cancelled at any moment, the virtual
  clock advances by any amount, timers are fired in any order (but only when
  due: an early `fire` is ignored, exactly like `TW.step (.fire i)` which picks
  from `dueTimers`), tasks are polled in any order and as often as the executor
  likes (spurious polls of pending or finished tasks included).

  `poll k c` is `TW.pollTask k` minus the stage effects of the body: `pollPre k`,
  then for `.runOnce` the body runs and `finishOnce k`; for `.runTick` the tick
  runs and returns `c` (an opaque body may decline at any tick): `continueRepeat k`
  if `c`, else `finishOnce k`.  Every body execution is logged with the value of
  the clock.
-/
namespace Rx.T

/-- The actions of the scheduler's environment (users of handles + the executor). -/
inductive SAct where
  | scheduleOnce (body : Body) (delay : Option Nat)
  | scheduleRepeat (body : Body) (dur : Nat) (delay : Option Nat)
  | cancel (k : TaskId)
  | adv (d : Nat)
  | fire (tm : TimerId)
  | poll (k : TaskId) (cont : Bool)
  deriving Repr, DecidableEq

/-- One execution of a task body: which task, the sequence number handed to a
    RepeatTask tick (`none` for a OnceTask), the clock value. -/
structure Run where
  task : TaskId
  seq : Option Nat
  time : Nat
  deriving Repr, DecidableEq

namespace Sched

/-- `TW.pollTask` without the stage effects; `c` = what a tick returns. -/
def poll (s : Sched) (k : TaskId) (c : Bool) : Sched × List Run :=
  match s.pollPre k with
  | (s1, .none) => (s1, [])
  | (s1, .runOnce _) => (s1.finishOnce k, [{ task := k, seq := none, time := s1.now }])
  | (s1, .runTick _ seq) =>
      (if c then s1.continueRepeat k else s1.finishOnce k,
       [{ task := k, seq := some seq, time := s1.now }])

/-- One action. -/
def exec (s : Sched) : SAct → Sched × List Run
  | .scheduleOnce b d => ((s.scheduleOnce b d).1, [])
  | .scheduleRepeat b p d => ((s.scheduleRepeat b p d).1, [])
  | .cancel k => (s.cancel k, [])
  | .adv d => ({ s with now := s.now + d }, [])
  | .fire tm => (if s.dueTimers.contains tm then s.fire tm else s, [])
  | .poll k c => s.poll k c

/-- A list of actions from `s`: final state and the run log. -/
def execFrom (s : Sched) : List SAct → Sched × List Run
  | [] => (s, [])
  | a :: as =>
    let r1 := s.exec a
    let r2 := execFrom r1.1 as
    (r2.1, r1.2 ++ r2.2)

end Sched

/-- A history from the empty scheduler. -/
def execAll (as : List SAct) : Sched × List Run := Sched.execFrom {} as

/-- The state reached by a history. -/
def stateAfter (as : List SAct) : Sched := (execAll as).1
/-- The run log of a history. -/
def runLog (as : List SAct) : List Run := (execAll as).2
/-- The clock value after a history. -/
def clockAfter (as : List SAct) : Nat := (stateAfter as).now
/-- The id the next scheduled task gets after a history (ids are spawn order). -/
def nextTask (as : List SAct) : TaskId := (stateAfter as).tasks.length

/-- The runs of task `k` in a log, in order. -/
def runsOf (k : TaskId) (log : List Run) : List Run := log.filter (fun r => r.task == k)

end Rx.T
