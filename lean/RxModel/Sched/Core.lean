import RxModel.Ops.Single
/-
  The scheduler of rxRust on a virtual clock: timers, spawned tasks
  (`Remote` wrapping `async { if let Some(d) = delay { new_timer(d).await }; task.await }`),
  task handles.  Transcription of src/scheduler.rs.

  Time is a natural number (virtual milliseconds).  Timers fire only when the
  executor fires them and only when due ("a timer never completes early" is the
  contract of the pluggable timer function, see DESIGN §8).
-/
namespace Rx.T

abbrev TaskId := Nat
abbrev TimerId := Nat

structure Timer where
  dur : Nat := 0                -- the duration that was requested
  due : Nat
  fired : Bool := false
  owner : TaskId                -- the task whose future awaits it
  registered : Bool := false    -- polled while unfired: the task's waker is stored in it
  deriving Repr, DecidableEq

/-- What a task does when its body finally runs.  `stage` = index (source side
    first) of the operator that scheduled it. -/
inductive Body where
  | emit (stage : Nat) (n : Notif)      -- delay / observe_on: call the slot of `stage`
  | debounce (stage : Nat)              -- debounce_task
  | throttle (stage : Nat)              -- throttle_task
  | subscribe (stage : Nat)             -- subscribe_task of subscribe_on / delay_subscription
  | timerSrc (v : Val)                  -- timer_task of the `timer` source
  | tick                                 -- interval_task (RepeatTask) of the `interval` source
  | bufTick (stage : Nat)               -- emit_buffer (RepeatTask) of buffer_with_time
  | tickN (stage : Nat)                 -- interval_task of an `interval` in notifier position of `stage`
  | futureSrc                            -- FutureTask of the `from_future` / `from_future_result` source
  | streamSrc                            -- (Try)StreamObserverFuture of `from_stream` / `from_stream_result`
  deriving Repr, DecidableEq

/-- The two task bodies that may return `Poll::Pending` from their own `poll`
    (every other body is a `OnceTask` / `RepeatTask` closure). -/
def Body.isAsync : Body → Bool
  | .futureSrc => true
  | .streamSrc => true
  | _ => false

/-- One step of a scripted future / stream (harness/src/ascript.rs): what one
    `poll` / `poll_next` answers. -/
inductive AStep where
  | ready (v : Val)     -- `Poll::Ready(v)` / `Ready(Some(v))`  (`Ok(v)` for the `_result` forms)
  | err (e : Err)       -- `Ready(Err(e))` / `Ready(Some(Err(e)))` for the `_result` forms
  | pending             -- `Poll::Pending` once, after `cx.waker().wake_by_ref()`
  | hang                -- `Poll::Pending` for ever, nobody is woken
  deriving Repr, DecidableEq

/-- How a poll of an async task body ends. -/
inductive AOut where
  | done                       -- `Poll::Ready`: the task is finished
  | pending (woken : Bool)     -- `Poll::Pending`; `woken`: the waker was called during the poll
  | exhausted                  -- (stream lap only) the script ran out: `poll_next` would answer `None`
  deriving Repr, DecidableEq

/-- One spawned future together with its `HandleInfo`. -/
structure Task where
  body : Body
  keepRunning : Bool := true            -- HandleInfo.keep_running
  hasValue : Bool := false              -- HandleInfo.value.is_some()
  done : Bool := false                  -- the spawned future returned Ready
  woken : Bool := true                  -- a fresh task has to be polled once
  outerDelay : Option Nat := none       -- `delay` of schedule(): timer not created yet
  outerTimer : Option TimerId := none   -- the armed delay timer being awaited
  rep : Option (TimerId × Nat × Nat) := none  -- RepeatTask: (fur, interval, seq)
  deriving Repr, DecidableEq

structure Sched where
  now : Nat := 0
  timers : List Timer := []
  tasks : List Task := []
  deriving Repr

namespace Sched

def newTimer (s : Sched) (dur : Nat) (owner : TaskId) : Sched × TimerId :=
  ({ s with timers := s.timers ++ [{ dur := dur, due := s.now + dur, owner := owner }] }, s.timers.length)

/-- `scheduler.schedule(OnceTask::new(..), delay)`. -/
def scheduleOnce (s : Sched) (body : Body) (delay : Option Nat) : Sched × TaskId :=
  ({ s with tasks := s.tasks ++ [{ body := body, outerDelay := delay }] }, s.tasks.length)

/-- `scheduler.schedule(RepeatTask::new(dur, ..), delay)`: the period timer is
    armed by `RepeatTask::new`, i.e. before the task is even spawned. -/
def scheduleRepeat (s : Sched) (body : Body) (dur : Nat) (delay : Option Nat)
    (first : Nat := dur) : Sched × TaskId :=
  let id := s.tasks.length
  -- `RepeatTask::with_first_delay(first, dur, ..)`; `RepeatTask::new(dur, ..)` has first = dur
  let (s1, tm) := s.newTimer first id
  ({ s1 with tasks := s1.tasks ++ [{ body := body, outerDelay := delay, rep := some (tm, dur, 0) }] }, id)

def setTask (s : Sched) (k : TaskId) (t : Task) : Sched :=
  { s with tasks := s.tasks.set k t }

def setTimer (s : Sched) (k : TimerId) (t : Timer) : Sched :=
  { s with timers := s.timers.set k t }

/-- `TaskHandle::unsubscribe` (both return kinds clear the flag and the value). -/
def cancel (s : Sched) (k : TaskId) : Sched :=
  match s.tasks[k]? with
  | some t => s.setTask k { t with keepRunning := false, hasValue := false }
  | none => s

/-- `TaskHandle<NormalReturn<_>>::is_closed`. -/
def handleClosed (s : Sched) (k : TaskId) : Bool :=
  match s.tasks[k]? with
  | some t => t.hasValue
  | none => false

def timerFired (s : Sched) (tm : TimerId) : Bool :=
  match s.timers[tm]? with
  | some t => t.fired
  | none => false

/-- Polling an unfired timer stores the waker. -/
def registerTimer (s : Sched) (tm : TimerId) : Sched :=
  match s.timers[tm]? with
  | some t => s.setTimer tm { t with registered := true }
  | none => s

/-- Timers that are due and not yet fired, in creation order. -/
def dueTimers (s : Sched) : List TimerId :=
  (List.range s.timers.length).filter fun i =>
    match s.timers[i]? with
    | some t => !t.fired && t.due ≤ s.now
    | none => false

/-- Tasks whose future has not returned, in spawn order. -/
def liveTasks (s : Sched) : List TaskId :=
  (List.range s.tasks.length).filter fun i =>
    match s.tasks[i]? with
    | some t => !t.done
    | none => false

/-- The executor fires a due timer: its future becomes ready and the stored waker
    (if the owner has polled it) marks the owner ready. -/
def fire (s : Sched) (tm : TimerId) : Sched :=
  match s.timers[tm]? with
  | none => s
  | some t =>
    let s1 := s.setTimer tm { t with fired := true }
    if t.registered then
      match s1.tasks[t.owner]? with
      | some tk => s1.setTask t.owner { tk with woken := true }
      | none => s1
    else s1

/-- Outcome of the scheduler-only part of polling task `k` once. -/
inductive Poll where
  | none                       -- nothing to do (no such task / already finished / still pending)
  | runOnce (b : Body)         -- the OnceTask body runs now; afterwards the task is finished
  | runTick (b : Body) (seq : Nat)   -- a RepeatTask tick runs now; it then decides to continue or stop
  deriving Repr, DecidableEq

/-- `Remote::poll` down to the point where the user body runs. -/
def pollPre (s : Sched) (k : TaskId) : Sched × Poll :=
  match s.tasks[k]? with
  | none => (s, .none)
  | some t =>
    if t.done then (s, .none)
    else
      let t := { t with woken := false }
      if !t.keepRunning then (s.setTask k { t with done := true }, .none)
      else
        -- the outer `if let Some(dur) = delay { new_timer(dur).await }`
        match t.outerDelay with
        | some d =>
          let (s1, tm) := s.newTimer d k
          let s2 := s1.registerTimer tm
          (s2.setTask k { t with outerDelay := none, outerTimer := some tm }, .none)
        | none =>
          let waitingOuter : Bool := match t.outerTimer with
            | some tm => !s.timerFired tm
            | none => false
          if waitingOuter then
            ((match t.outerTimer with | some tm => s.registerTimer tm | none => s).setTask k t, .none)
          else
            let t := { t with outerTimer := none }
            match t.rep with
            | none => (s.setTask k t, .runOnce t.body)
            | some (fur, _, seq) =>
              if s.timerFired fur then (s.setTask k t, .runTick t.body seq)
              else ((s.registerTimer fur).setTask k t, .none)

/-- After a OnceTask body: `info.value = Some(..)`, the future is finished. -/
def finishOnce (s : Sched) (k : TaskId) : Sched :=
  match s.tasks[k]? with
  | some t => s.setTask k { t with done := true, hasValue := true }
  | none => s

/-- After a poll of an async body (FutureTask, stream driver) that returned
    `Poll::Pending`: the task stays; it is ready again iff its waker was called
    during the poll (`pollPre` had cleared the flag). -/
def stayPending (s : Sched) (k : TaskId) (woken : Bool) : Sched :=
  match s.tasks[k]? with
  | some t => s.setTask k { t with woken := woken }
  | none => s

/-- After a RepeatTask tick that returned `true`: next sequence number, fresh
    period timer (polled at once, hence registered), still pending. -/
def continueRepeat (s : Sched) (k : TaskId) : Sched :=
  match s.tasks[k]? with
  | some t =>
    match t.rep with
    | some (_, iv, seq) =>
      let (s1, tm) := s.newTimer iv k
      let s2 := s1.registerTimer tm
      s2.setTask k { t with rep := some (tm, iv, seq + 1) }
    | none => s
  | none => s

end Sched
end Rx.T
