import RxModel.Core.Notif
/-
  Two-input cells: one shared state fed by two tagged observers.
  Transcription of src/ops/{merge,zip,combine_latest,with_latest_from,
  take_until,skip_until,sample,buffer}.rs.  Side `a` is the receiver of the
  method call (`self`), side `b` the argument (other / from / notifier / sampler).
-/
namespace Rx

inductive Side where
  | a | b
  deriving DecidableEq, Repr, Inhabited

inductive St2 where
  | merge (alive completedOne : Bool)
  | zip (alive : Bool) (qa qb : List Val) (completedOne : Bool)
  | combine (alive : Bool) (a b : Option Val) (completedOne : Bool)
  | withLatest (alive : Bool) (value : Option Val)
  | takeUntil (alive : Bool)
  | skipUntil (alive skip : Bool)
  | sample (alive : Bool) (value : Option Val)
  | buffer (alive : Bool) (data : List Val)
  deriving DecidableEq, Repr

namespace St2

def alive : St2 → Bool
  | merge al _ => al
  | zip al _ _ _ => al
  | combine al _ _ _ => al
  | withLatest al _ => al
  | takeUntil al => al
  | skipUntil al _ => al
  | sample al _ => al
  | buffer al _ => al

/-- Emit `out` only while the downstream slot is full. -/
def guard (al : Bool) (out : List Notif) : List Notif := if al then out else []

def flush (data : List Val) : List Notif :=
  if data.isEmpty then [] else [.next (Val.ofList data)]

def step : St2 → Side → Notif → St2 × List Notif
  -- merge ------------------------------------------------------------------
  | merge al c, _, .next v => (merge al c, guard al [.next v])
  | merge al c, _, .error e => (merge false c, guard al [.error e])
  | merge al c, _, .complete =>
      if !c then (merge al true, []) else (merge false c, guard al [.complete])
  -- zip: pairing happens even when dead, emission only when alive ---------
  | zip al qa qb c, .a, .next v =>
      match qb with
      | w :: qb' => (zip al qa qb' c, guard al [.next (.pair v w)])
      | [] => (zip al (qa ++ [v]) qb c, [])
  | zip al qa qb c, .b, .next v =>
      match qa with
      | w :: qa' => (zip al qa' qb c, guard al [.next (.pair w v)])
      | [] => (zip al qa (qb ++ [v]) c, [])
  | zip al qa qb c, _, .error e => (zip false qa qb c, guard al [.error e])
  | zip al qa qb c, _, .complete =>
      if c then (zip false qa qb c, guard al [.complete]) else (zip al qa qb true, [])
  -- combine_latest ---------------------------------------------------------
  | combine al _ b c, .a, .next v =>
      (combine al (some v) b c,
        match b with | some w => guard al [.next (.pair v w)] | none => [])
  | combine al a _ c, .b, .next v =>
      (combine al a (some v) c,
        match a with | some w => guard al [.next (.pair w v)] | none => [])
  | combine al a b c, _, .error e => (combine false a b c, guard al [.error e])
  | combine al a b c, _, .complete =>
      if c then (combine false a b c, guard al [.complete]) else (combine al a b true, [])
  -- with_latest_from: a = source, b = from ---------------------------------
  | withLatest al val, .a, .next v =>
      (withLatest al val, match val with | some w => guard al [.next (.pair v w)] | none => [])
  | withLatest al val, .a, .error e => (withLatest false val, guard al [.error e])
  | withLatest al val, .a, .complete => (withLatest false val, guard al [.complete])
  | withLatest al _, .b, .next v => (withLatest al (some v), [])
  | withLatest al val, .b, .error e => (withLatest false val, guard al [.error e])
  | withLatest al val, .b, .complete => (withLatest al val, [])
  -- take_until: a = source (feeds the slot directly), b = notifier ---------
  | takeUntil al, .a, .next v => (takeUntil al, guard al [.next v])
  | takeUntil al, .a, .error e => (takeUntil false, guard al [.error e])
  | takeUntil al, .a, .complete => (takeUntil false, guard al [.complete])
  | takeUntil al, .b, .next _ => (takeUntil false, guard al [.complete])
  | takeUntil al, .b, _ => (takeUntil al, [])
  -- skip_until: a = source, b = notifier ------------------------------------
  | skipUntil al sk, .a, .next v => (skipUntil al sk, if sk then [] else guard al [.next v])
  | skipUntil al sk, .a, .error e => (skipUntil false sk, guard al [.error e])
  | skipUntil al sk, .a, .complete => (skipUntil false sk, guard al [.complete])
  | skipUntil al _, .b, .next _ => (skipUntil al false, [])
  | skipUntil al sk, .b, .error _ => (skipUntil al sk, [])
  | skipUntil al sk, .b, .complete => (skipUntil al sk, [])   -- after `fix: skip_until … notifier completion`
  -- sample: a = source, b = sampler ------------------------------------------
  | sample al _, .a, .next v => (sample al (some v), [])
  | sample al val, .a, .error e => (sample false val, guard al [.error e])
  | sample al val, .a, .complete => (sample false val, guard al [.complete])
  | sample al val, .b, .next _ =>
      (sample al none, match val with | some w => guard al [.next w] | none => [])
  | sample al val, .b, .error e => (sample false val, guard al [.error e])
  | sample al val, .b, .complete =>
      (sample al none, match val with | some w => guard al [.next w] | none => [])
  -- buffer(notifier): the whole BufferObserver sits in the slot --------------
  | buffer al data, .a, .next v => (if al then buffer al (data ++ [v]) else buffer al data, [])
  | buffer al data, .b, .next _ => (if al then buffer al [] else buffer al data, guard al (flush data))
  | buffer al data, _, .error e => (buffer false data, guard al [.error e])
  | buffer al data, _, .complete => (buffer false data, guard al (flush data ++ [.complete]))

/-- `is_finished` of the observer handed to the given input. -/
def finished : St2 → Side → Bool → Bool
  -- after `fix: skip_until's notifier observer reports finished …`: done once it has fired,
  -- not needed once the main stream has ended (slot empty); the downstream's answer is not consulted
  | skipUntil al sk, .b, _ => !sk || !al
  | s, _, down => !s.alive || down

/-- Which input `actual_subscribe` subscribes first. -/
def firstSide : St2 → Side
  | withLatest _ _ => .b
  | skipUntil _ _ => .b
  | _ => .a

def run (s : St2) (side : Side) : List Notif → St2 × List Notif
  | [] => (s, [])
  | n :: r =>
    let (s1, o1) := s.step side n
    let (s2, o2) := run s1 side r
    (s2, o1 ++ o2)

end St2

/-- Descriptors of the two-input operators. -/
inductive Kind2 where
  | merge | zip | combine | withLatest | takeUntil | skipUntil | sample | buffer
  deriving DecidableEq, Repr

def Kind2.init : Kind2 → St2
  | .merge => .merge true false
  | .zip => .zip true [] [] false
  | .combine => .combine true none none false
  | .withLatest => .withLatest true none
  | .takeUntil => .takeUntil true
  | .skipUntil => .skipUntil true true
  | .sample => .sample true none
  | .buffer => .buffer true []

end Rx

namespace Rx

/-- A timeline: the merged sequence of the notifications of the two inputs. -/
abbrev Timeline := List (Side × Notif)

/-- Feed a whole timeline to a two-input cell. -/
def St2.runT (s : St2) : Timeline → St2 × List Notif
  | [] => (s, [])
  | (sd, n) :: r =>
    let (s1, o1) := s.step sd n
    let (s2, o2) := St2.runT s1 r
    (s2, o1 ++ o2)

/-- The notifications of one input, in order. -/
def Timeline.proj (sd : Side) (tl : Timeline) : List Notif :=
  (tl.filter (fun p => p.1 == sd)).map (·.2)

end Rx
