import RxModel.Ops.Single
import RxModel.Spec.ListSem
/-
  `actual_subscribe` of each single-input operator: the initial observer state.
  Also the compositions by which the library defines its derived operators
  (src/observable.rs: first, first_or, last_or, element_at, ignore_elements,
  all, reduce(_initial), sum, count, min, max, average).
-/
namespace Rx
open Spec

def Spec.Op1.init : Op1 → St1
  | .map f => .map f
  | .mapTo v => .mapTo v
  | .filter p => .filter p
  | .filterMap f => .filterMap f
  | .tap => .tap 0
  | .onErrorMap f => .onErrorMap f
  | .take n => .take n 0 true
  | .takeWhile p incl => .takeWhile p incl true
  | .skip n => .skip n 0
  | .skipWhile p => .skipWhile p false
  | .takeLast n => .takeLast n []
  | .skipLast n => .skipLast n []
  | .last => .last none
  | .defaultIfEmpty d => .defaultIfEmpty true d
  | .scan op init => .scan op init
  | .distinct => .distinct []
  | .distinctKey key => .distinctKey key []
  | .distinctUntilChanged => .distinctUntilChanged none
  | .distinctUntilKeyChanged key => .distinctUntilKeyChanged key none
  | .pairwise => .pairwise none none
  | .bufferCount n => .bufferCount n []
  | .contains target => .contains target true
  | .collect => .collect []

namespace Derived
/-! The chains the library builds (source side first). -/
def first : List Op1 := [.take 1]
def firstOr (d : Val) : List Op1 := [.take 1, .defaultIfEmpty d]
def lastOr (d : Val) : List Op1 := [.last, .defaultIfEmpty d]
def elementAt (n : Nat) : List Op1 := [.skip n, .take 1]
def ignoreElements : List Op1 := [.filter (fun _ => false)]
def isFalse : Val → Bool
  | .bool b => !b
  | _ => false
def all (p : Val → Bool) : List Op1 :=
  [.map (fun v => .bool (p v)), .filter isFalse, .take 1, .defaultIfEmpty (.bool true)]
def reduceInitial (op : Val → Val → Val) (init : Val) : List Op1 :=
  [.scan op init, .last, .defaultIfEmpty init]
/-- `scan_initial(init, op).last().map(fin)` — min, max, average. -/
def aggregate (op : Val → Val → Val) (init : Val) (fin : Val → Val) : List Op1 :=
  [.scan op init, .last, .map fin]
end Derived

end Rx
