import RxModel.Ops.Single
/-
  group_by (src/ops/group_by.rs) and the per-group `Subject` (src/subject.rs).

  `GroupByObserver { observer, discr, subjects : HashMap<Key, Subject> }`
    next v      key := discr(&v); `subjects.entry(key).or_insert_with(..)`:
                a new key creates `Subject::default()`, wraps a clone in a
                `KeyObservable` and calls `observer.next(wrapper)` FIRST (the
                downstream may subscribe to the group during that call: the
                subscriber lands in the group's chamber), then
                `subject.next(v)` (load, deliver) — so the first item of a
                group reaches whoever subscribed at the announcement.
    error e     `for (_, s) in subjects.drain() { s.error(e.clone()) }`, then
                `observer.error(e)`.  `drain()` of a HashMap: unspecified
                order = the parameter `ord` (any permutation).
    complete    same with complete.
    is_finished `observer.is_finished()` — nothing in `next` asks it.

  The suite `groupby` puts the observer behind the `Subscriber` slot of a hot
  source subject (`World`); `attach` says whether the outer probe subscribes a
  probe to the announced group.
-/
namespace Rx
namespace GroupBy

/-- `Subscriber<GroupProbe>` = `MutRc<Option<GroupProbe>>`: one boxed clone in
    the group's subject, one returned to the subscriber. -/
structure Slot where
  alive : Bool
  deriving DecidableEq, Repr

/-- The per-group `Subject { observers, chamber }`.  Nobody can call
    `unsubscribe` on a group subject (the `KeyObservable` keeps it private), so
    the chamber is always `Some`. -/
structure Subj where
  observers : Option (List Slot)
  chamber : List Slot
  deriving DecidableEq, Repr

namespace Subj

/-- `Subject::default()`. -/
def new : Subj := { observers := some [], chamber := [] }

/-- `load`: move the chamber behind the observers (iff observers is `Some`). -/
def load (s : Subj) : Subj :=
  match s.observers with
  | some os => { observers := some (os ++ s.chamber), chamber := [] }
  | none => s

/-- `actual_subscribe`: push a fresh subscriber into the chamber. -/
def subscribe (s : Subj) : Subj := { s with chamber := s.chamber ++ [⟨true⟩] }

/-- What the slots pass on for one item: a taken slot is silent. -/
def deliver (v : Val) : List Slot → List Notif
  | [] => []
  | sl :: r => (if sl.alive then [.next v] else []) ++ deliver v r

/-- `Observer::next`: load, then every observer in order. -/
def next (s : Subj) (v : Val) : Subj × List Notif :=
  let s := s.load
  match s.observers with
  | some os => (s, deliver v os)
  | none => (s, [])

/-- Terminal deliveries: every entry is called; a taken slot is silent. -/
def deliverTerm (t : Notif) : List Slot → List Notif
  | [] => []
  | sl :: r => (if sl.alive then [t] else []) ++ deliverTerm t r

/-- `Observer::error / complete`: load, `take()` the observers, deliver. -/
def term (s : Subj) (t : Notif) : Subj × List Notif :=
  let s := s.load
  match s.observers with
  | some os => ({ s with observers := none }, deliverTerm t os)
  | none => (s, [])

/-- A subscriber of this group calls `unsubscribe()` on what `subscribe`
    returned: every slot is emptied (the suite attaches at most one). -/
def unsubAll (s : Subj) : Subj :=
  { observers := s.observers.map (·.map fun _ => ⟨false⟩),
    chamber := s.chamber.map fun _ => ⟨false⟩ }

end Subj

/-- What leaves the observer: calls on the outer observer (`next k` stands for
    `next(KeyObservable{key:=k,..})`) and deliveries to the subscribers of group `k`. -/
inductive Out where
  | outer (n : Notif)
  | grp (k : Val) (n : Notif)
  deriving DecidableEq, Repr

def find (k : Val) : List (Val × Subj) → Option Subj
  | [] => none
  | (k', s) :: r => if k' = k then some s else find k r

def replace (k : Val) (s : Subj) : List (Val × Subj) → List (Val × Subj)
  | [] => []
  | (k', s') :: r => if k' = k then (k', s) :: r else (k', s') :: replace k s r

/-- `GroupByObserver` (the `observer` field is the consumer of `Out.outer`). -/
structure St where
  subjects : List (Val × Subj)      -- insertion order; the HashMap has none
  deriving Repr

def St.init : St := { subjects := [] }

def St.keys (st : St) : List Val := st.subjects.map (·.1)

/-- `Observer::next`.  `attach`: does the outer observer subscribe to the new
    group while it is being announced (only consulted for a new key). -/
def St.onNext (key : Val → Val) (attach : Bool) (st : St) (v : Val) : St × List Out :=
  let k := key v
  match find k st.subjects with
  | some subj =>
    let (subj', o) := subj.next v
    ({ subjects := replace k subj' st.subjects }, o.map (Out.grp k))
  | none =>
    let subj := if attach then Subj.new.subscribe else Subj.new
    let (subj', o) := subj.next v
    ({ subjects := st.subjects ++ [(k, subj')] }, Out.outer (.next k) :: o.map (Out.grp k))

/-- The terminal fan-out over the drained map. -/
def drainOut (t : Notif) (l : List (Val × Subj)) : List Out :=
  l.flatMap fun ks => (ks.2.term t).2.map (Out.grp ks.1)

/-- `Observer::error / complete` (`t` is the terminal).  `ord` is the order in
    which `HashMap::drain` hands out the entries. -/
def St.onTerm (ord : List (Val × Subj) → List (Val × Subj)) (st : St) (t : Notif) :
    St × List Out :=
  ({ subjects := [] }, drainOut t (ord st.subjects) ++ [Out.outer t])

/-- Items only, every new group treated by `attach (key)`. -/
def St.run (key : Val → Val) (attach : Val → Bool) (st : St) : List Val → St × List Out
  | [] => (st, [])
  | v :: r =>
    let (s1, o1) := st.onNext key (attach (key v)) v
    let (s2, o2) := St.run key attach s1 r
    (s2, o1 ++ o2)

/-- A whole source stream `mk xs t`. -/
def St.runStream (key : Val → Val) (attach : Val → Bool)
    (ord : List (Val × Subj) → List (Val × Subj)) (xs : List Val) (t : Option Notif) : List Out :=
  let (s, o) := St.init.run key attach xs
  match t with
  | some t => o ++ (s.onTerm ord t).2
  | none => o

/-- The subscriber of group `k` unsubscribes. -/
def St.unsubGroup (st : St) (k : Val) : St :=
  match find k st.subjects with
  | some s => { subjects := replace k s.unsubAll st.subjects }
  | none => st

/-! ### Projections of an output log -/

/-- Keys announced on the outer stream, in order. -/
def announced : List Out → List Val
  | [] => []
  | .outer (.next k) :: r => k :: announced r
  | _ :: r => announced r

/-- Items delivered to the subscriber of group `k`, in order. -/
def groupItems (k : Val) : List Out → List Val
  | [] => []
  | .grp k' (.next v) :: r => if k' = k then v :: groupItems k r else groupItems k r
  | _ :: r => groupItems k r

/-- Everything delivered to any group subscriber, in arrival order (`merge_all`
    of the groups under synchronous delivery). -/
def flat : List Out → List Val
  | [] => []
  | .grp _ (.next v) :: r => v :: flat r
  | _ :: r => flat r

/-- First-occurrence de-duplication. -/
def dedup : List Val → List Val
  | [] => []
  | x :: r => x :: (dedup r).filter (· ≠ x)

/-! ### The suite `groupby` -/

/-- `is_finished` of a chain of single-input observers ending in a probe. -/
def chainFinished : List St1 → Bool
  | [] => false
  | o :: os => o.finished (chainFinished os)

/-- hot source subject → `Subscriber` slot → GroupByObserver → `outer` ops → outer probe. -/
structure World where
  srcDone : Bool              -- the source subject's observer list was taken
  slot : Option St            -- the `Subscriber` slot the source subject holds
  outer : List St1            -- operators between group_by and the outer probe (suite: `take n` or none)
  skip : List Val             -- keys whose group the outer probe does not subscribe to

def World.init (outer : List St1) (skip : List Val) : World :=
  { srcDone := false, slot := some St.init, outer := outer, skip := skip }

/-- Pass the calls on the outer observer through the outer operators. -/
def pushOuter : List St1 → List Out → List St1 × List Out
  | ch, [] => (ch, [])
  | ch, .outer n :: r =>
    let (ch1, o1) := runChain ch [n]
    let (ch2, o2) := pushOuter ch1 r
    (ch2, o1.map Out.outer ++ o2)
  | ch, g :: r =>
    let (ch1, o) := pushOuter ch r
    (ch1, g :: o)

inductive Ev where
  | emit (n : Notif)
  | unsub
  | gunsub (k : Val)

def World.step (key : Val → Val) (ord : List (Val × Subj) → List (Val × Subj)) (w : World) :
    Ev → World × List Out
  | .emit (.next v) =>
    if w.srcDone then (w, []) else
    match w.slot with
    | none => (w, [])
    | some st =>
      -- does the outer probe see the announcement (and so subscribe)?
      let seen := (runChain w.outer [.next (key v)]).2.contains (.next (key v))
      let (st', o) := st.onNext key (seen && !w.skip.contains (key v)) v
      let (ch, o') := pushOuter w.outer o
      ({ w with slot := some st', outer := ch }, o')
  | .emit t =>
    if w.srcDone then (w, []) else
    match w.slot with
    | none => ({ w with srcDone := true }, [])
    | some st =>
      -- the source subject hands its terminal to every entry, whether the outer chain
      -- (`take n`) has finished or not; the slot is taken
      let (_, o) := st.onTerm ord t
      let (ch, o') := pushOuter w.outer o
      ({ w with srcDone := true, slot := none, outer := ch }, o')
  | .unsub => ({ w with slot := none }, [])
  | .gunsub k => ({ w with slot := w.slot.map (·.unsubGroup k) }, [])

/-- The terminal step of the code BEFORE `fix: Subject::error/complete hand the terminal to every
    subscriber`: the source subject skipped an entry with `p_is_closed()` — here: the outer chain's
    `is_finished()` — so the groups announced before `take n` completed never heard the terminal.
    Not part of `step`; kept for the record of the defect (Props/C20.lean, last section). -/
def World.termBefore (ord : List (Val × Subj) → List (Val × Subj)) (w : World) (t : Notif) :
    World × List Out :=
  if w.srcDone then (w, []) else
  match w.slot with
  | none => ({ w with srcDone := true }, [])
  | some st =>
    if chainFinished w.outer then ({ w with srcDone := true }, [])
    else
      let (_, o) := st.onTerm ord t
      let (ch, o') := pushOuter w.outer o
      ({ w with srcDone := true, slot := none, outer := ch }, o')

end GroupBy
end Rx
