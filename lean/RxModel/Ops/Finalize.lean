import RxModel.Ops.Single
/-
  finalize / finalize_threads (src/ops/finalize.rs; one macro, `MutRc` / `MutArc`).

  `actual_subscribe` creates `func = Rc::own(Some(f))`, subscribes the source with
  `FinalizerObserver { observer, func: func.clone() }` and returns
  `FinalizerSubscription { subscription, func }`.

    FinalizerObserver::next          forward
    FinalizerObserver::error/complete  `self.observer.error/complete(..)` FIRST, then
                                     `if let Some(f) = self.func.rc_deref_mut().take() { f() }`
    FinalizerObserver::is_finished   downstream's
    FinalizerSubscription::unsubscribe  `self.subscription.unsubscribe()` FIRST, then take() and call
    FinalizerSubscription::is_closed   inner subscription's

  The shared `Option<F>` is `armed`; `calls` counts the runs of the callback;
  the run itself is the marker `FOut.f id`, whose POSITION in the output is the
  moment of the call relative to the deliveries.

  Streams between observers carry markers as well as notifications: a marker
  written by a finalizer closer to the source passes the observers below it
  unchanged, i.e. it keeps its position relative to what those observers make of
  the notifications before and after it — exactly the order of the nested
  synchronous calls (`observer.complete()` returns, then `f()` runs).
-/
namespace Rx
namespace Finalize

/-- What the log of a case shows: probe deliveries and finalizer runs. -/
inductive FOut where
  | n (x : Notif)
  | f (id : Nat)
  deriving DecidableEq, Repr

/-- The cell shared by `FinalizerObserver` and `FinalizerSubscription`. -/
structure Fin where
  id : Nat
  armed : Bool          -- `func` is `Some`
  calls : Nat           -- how often the callback has run
  deriving DecidableEq, Repr

def Fin.new (id : Nat) : Fin := { id := id, armed := true, calls := 0 }

/-- `if let Some(f) = func.take() { f() }`. -/
def Fin.fire (c : Fin) : Fin × List FOut :=
  if c.armed then ({ c with armed := false, calls := c.calls + 1 }, [.f c.id]) else (c, [])

/-- `FinalizerObserver::{next, error, complete}`: what is passed downstream, then
    (terminal only) the callback. -/
def Fin.onNotif (c : Fin) : Notif → Fin × List FOut
  | .next v => (c, [.n (.next v)])
  | t =>
    let (c', m) := c.fire
    (c', .n t :: m)

/-- One observer of the chain. -/
inductive Elem where
  | op (st : St1)
  | fin (c : Fin)

namespace Elem

def step : Elem → FOut → Elem × List FOut
  | e, .f id => (e, [.f id])
  | .op st, .n x =>
    let (st', o) := st.step x
    (.op st', o.map .n)
  | .fin c, .n x =>
    let (c', o) := c.onNotif x
    (.fin c', o)

def run (e : Elem) : List FOut → Elem × List FOut
  | [] => (e, [])
  | x :: r =>
    let (e1, o1) := e.step x
    let (e2, o2) := run e1 r
    (e2, o1 ++ o2)

end Elem

/-- The chain, source side first; what leaves the last element reaches the probe. -/
def runElems : List Elem → List FOut → List Elem × List FOut
  | [], s => ([], s)
  | e :: es, s =>
    let (e', o) := e.run s
    let (es', o') := runElems es o
    (e' :: es', o')

/-- `is_finished` of the head of the chain (the probe answers `false`). -/
def finished : List Elem → Bool
  | [] => false
  | .op st :: r => st.finished (finished r)
  | .fin _ :: r => finished r

/-- `unsubscribe()` of the nested `FinalizerSubscription`s: each unsubscribes what
    it wraps first — so the callbacks run source side first. -/
def unsubFire : List Elem → List Elem × List FOut
  | [] => ([], [])
  | .op st :: r =>
    let (r', o) := unsubFire r
    (.op st :: r', o)
  | .fin c :: r =>
    let (c', m) := c.fire
    let (r', o) := unsubFire r
    (.fin c' :: r', m ++ o)

/-- How often the callbacks of the chain have run, per finalizer, source side first. -/
def calls : List Elem → List Nat
  | [] => []
  | .op _ :: r => calls r
  | .fin c :: r => c.calls :: calls r

/-- hot subject → `Subscriber` slot → chain → probe; the case holds the subscription. -/
structure World where
  srcDone : Bool          -- the source subject's observer list was taken (terminal emitted)
  slot : Bool             -- the `Subscriber` slot still holds the chain
  held : Bool             -- the subscription value has not been consumed by `unsubscribe(self)`
  chain : List Elem

def World.init (chain : List Elem) : World :=
  { srcDone := false, slot := true, held := true, chain := chain }

inductive Ev where
  | emit (n : Notif)
  | unsub
  deriving DecidableEq, Repr

def World.step (w : World) : Ev → World × List FOut
  | .emit (.next v) =>
    if w.srcDone || !w.slot then (w, [])
    else
      let (ch, o) := runElems w.chain [.n (.next v)]
      ({ w with chain := ch }, o)
  | .emit t =>
    if w.srcDone then (w, [])
    else if w.slot then
      -- the subject hands a terminal to every entry, whether the chain reports `is_finished()`
      -- or not; the slot's `error/complete` takes the chain out (an emptied slot does nothing)
      let (ch, o) := runElems w.chain [.n t]
      ({ w with srcDone := true, slot := false, chain := ch }, o)
    else ({ w with srcDone := true }, [])
  | .unsub =>
    if w.held then
      let (ch, o) := unsubFire w.chain
      ({ w with slot := false, held := false, chain := ch }, o)
    else (w, [])

/-- All events of a case; the concatenated log. -/
def World.run (w : World) : List Ev → World × List FOut
  | [] => (w, [])
  | e :: r =>
    let (w1, o1) := w.step e
    let (w2, o2) := World.run w1 r
    (w2, o1 ++ o2)

/-- The code BEFORE `fix: Subject::error/complete hand the terminal to every subscriber`: the subject
    delivered a terminal only to entries with `!p_is_closed()`, i.e. not to a chain that reported
    `is_finished()` (an operator below `finalize` had completed by itself) — that entry was dropped
    without being told.  Not part of `step`; kept for the record of the defect (Props/C15.lean, end). -/
def World.stepBefore (w : World) : Ev → World × List FOut
  | .emit t@(.error _) | .emit t@(.complete) =>
    if w.srcDone then (w, [])
    else if w.slot && !finished w.chain then
      let (ch, o) := runElems w.chain [.n t]
      ({ w with srcDone := true, slot := false, chain := ch }, o)
    else ({ w with srcDone := true }, [])
  | e => w.step e

def World.runBefore (w : World) : List Ev → World × List FOut
  | [] => (w, [])
  | e :: r =>
    let (w1, o1) := w.stepBefore e
    let (w2, o2) := World.runBefore w1 r
    (w2, o1 ++ o2)

/-- The events after which the callback has to have run. -/
def Ev.isTrigger : Ev → Bool
  | .emit (.next _) => false
  | _ => true

/-- Number of runs of finalizer `id` visible in a log. -/
def countF (id : Nat) : List FOut → Nat
  | [] => 0
  | .f j :: r => (if j = id then 1 else 0) + countF id r
  | _ :: r => countF id r

end Finalize
end Rx
