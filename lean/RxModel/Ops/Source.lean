import RxModel.Core.Notif
import RxModel.Spec.ListSem
/-
  Cold sources: what `actual_subscribe` calls on its observer, in order.
  src/observable/{of,from_iter,trivial,from_fn,start}.rs
-/
namespace Rx

inductive Src where
  | of (v : Val)
  | ofOption (o : Option Val)
  | ofResult (r : Except Err Val)
  | ofFn (v : Val)            -- of_fn / start: the closure's result
  | iter (xs : List Val)
  | repeat_ (v : Val) (n : Nat)
  | empty
  | never
  | throw (e : Err)
  | create (script : List Notif)   -- the closure's calls on the Subscriber it is handed

namespace Src
/-- Transcription of each `actual_subscribe`. -/
def emit : Src → List Notif
  | of v => [.next v, .complete]
  | ofOption (some v) => [.next v, .complete]
  | ofOption none => [.complete]
  | ofResult (.ok v) => [.next v, .complete]
  | ofResult (.error e) => [.error e]
  | ofFn v => [.next v, .complete]
  | iter xs => xs.map .next ++ [.complete]
  | repeat_ v n => (List.replicate n v).map .next ++ [.complete]
  | empty => [.complete]
  | never => []                      -- after `fix: never() must not complete`
  | throw e => [.error e]
  | create script => gate script     -- `Subscriber` = Option slot in front of the observer
end Src

namespace Spec
/-- First terminal of a script, if any. -/
def firstTerm : List Notif → Option Notif
  | [] => none
  | .next _ :: r => firstTerm r
  | t :: _ => some t

/-- Items before the first terminal. -/
def itemsBefore : List Notif → List Val
  | [] => []
  | .next v :: r => v :: itemsBefore r
  | _ :: _ => []

/-- Documented sequences of the sources. -/
def src : Src → Stream
  | .of v => ⟨[v], some .complete⟩
  | .ofOption o => ⟨o.toList, some .complete⟩
  | .ofResult (.ok v) => ⟨[v], some .complete⟩
  | .ofResult (.error e) => ⟨[], some (.error e)⟩
  | .ofFn v => ⟨[v], some .complete⟩
  | .iter xs => ⟨xs, some .complete⟩
  | .repeat_ v n => ⟨List.replicate n v, some .complete⟩
  | .empty => ⟨[], some .complete⟩
  | .never => ⟨[], none⟩               -- "never emits and never terminates"
  | .throw e => ⟨[], some (.error e)⟩
  | .create script => ⟨itemsBefore script, firstTerm script⟩
end Spec

end Rx
