import RxModel.Core.Notif
/-
  One constructor of `St1` per single-input `XObserver` of rxRust, carrying the
  observer's fields (parameters included, exactly like the Rust struct does).
  `St1.step` is the transcription of `next / error / complete`; the returned list
  is what the observer passes to its downstream observer, in call order.
  `St1.finished` is `is_finished(&self)` given the downstream's answer.

  Source files: src/ops/{map,map_to,filter,filter_map,tap,on_error_map,take,
  take_while,skip,skip_while,take_last,skip_last,last,default_if_empty,scan,
  distinct,pairwise,buffer,contains,collect,on_complete,on_error}.rs
-/
namespace Rx

/-- The last `n` elements (a `VecDeque` trimmed from the front). -/
def lastN (n : Nat) (l : List Val) : List Val := l.drop (l.length - n)

inductive St1 where
  | map (f : Val → Val)
  | mapTo (v : Val)
  | filter (p : Val → Bool)
  | filterMap (f : Val → Option Val)
  | tap (calls : Nat)
  | onErrorMap (f : Err → Err)
  | onComplete (calls : Nat)
  | onError (calls : Nat)
  | take (count hits : Nat) (alive : Bool)
  | takeWhile (p : Val → Bool) (inclusive alive : Bool)
  | skip (count hits : Nat)
  | skipWhile (p : Val → Bool) (done : Bool)
  | takeLast (count : Nat) (queue : List Val)
  | skipLast (countDown : Nat) (queue : List Val)
  | last (last : Option Val)
  | defaultIfEmpty (isEmpty : Bool) (dflt : Val)
  | scan (op : Val → Val → Val) (acc : Val)
  | distinct (seen : List Val)
  | distinctKey (key : Val → Val) (seen : List Val)
  | distinctUntilChanged (last : Option Val)
  | distinctUntilKeyChanged (key : Val → Val) (last : Option Val)
  | pairwise (x y : Option Val)
  | bufferCount (count : Nat) (data : List Val)
  | contains (target : Val) (alive : Bool)
  | collect (coll : List Val)

namespace St1

/-- `Observer::next`. -/
def onNext : St1 → Val → St1 × List Notif
  | map f, v => (map f, [.next (f v)])
  | mapTo c, _ => (mapTo c, [.next c])
  | filter p, v => (filter p, if p v then [.next v] else [])
  | filterMap f, v => (filterMap f, match f v with | some w => [.next w] | none => [])
  | tap c, v => (tap (c + 1), [.next v])
  | onErrorMap f, v => (onErrorMap f, [.next v])
  | onComplete c, v => (onComplete c, [.next v])
  | onError c, v => (onError c, [.next v])
  | take count hits alive, v =>
      if hits < count then
        if alive then
          if hits + 1 = count then (take count (hits + 1) false, [.next v, .complete])
          else (take count (hits + 1) true, [.next v])
        else (take count hits alive, [])
      else (take count hits alive, [])
  | takeWhile p incl alive, v =>
      if alive then
        if p v then (takeWhile p incl true, [.next v])
        else (takeWhile p incl false, (if incl then [.next v] else []) ++ [.complete])
      else (takeWhile p incl alive, [])
  | skip count hits, v =>
      (skip count (hits + 1), if hits + 1 > count then [.next v] else [])
  | skipWhile p done, v =>
      if done then (skipWhile p true, [.next v])
      else if !p v then (skipWhile p true, [.next v])
      else (skipWhile p false, [])
  | takeLast count q, v =>
      (takeLast count (lastN count (q ++ [v])), [])
  | skipLast cd q, v =>
      let q' := q ++ [v]
      if cd = 0 then
        match q' with
        | h :: t => (skipLast 0 t, [.next h])
        | [] => (skipLast 0 [], [])
      else (skipLast (cd - 1) q', [])
  | last _, v => (last (some v), [])
  | defaultIfEmpty _ d, v => (defaultIfEmpty false d, [.next v])
  | scan op acc, v => (scan op (op acc v), [.next (op acc v)])
  | distinct seen, v =>
      if seen.contains v then (distinct seen, []) else (distinct (v :: seen), [.next v])
  | distinctKey key seen, v =>
      if seen.contains (key v) then (distinctKey key seen, [])
      else (distinctKey key (key v :: seen), [.next v])
  | distinctUntilChanged l, v =>
      if l = some v then (distinctUntilChanged l, [])
      else (distinctUntilChanged (some v), [.next v])
  | distinctUntilKeyChanged key l, v =>
      match l with
      | some w =>
        if key w = key v then (distinctUntilKeyChanged key l, [])
        else (distinctUntilKeyChanged key (some v), [.next v])
      | none => (distinctUntilKeyChanged key (some v), [.next v])
  | pairwise _ y, v =>
      (pairwise y (some v), match y with | some a => [.next (.pair a v)] | none => [])
  | bufferCount count data, v =>
      let d := data ++ [v]
      if d.length ≥ count then (bufferCount count [], [.next (Val.ofList d)])
      else (bufferCount count d, [])
  | contains target alive, v =>
      if target = v then
        if alive then (contains target false, [.next (.bool true), .complete])
        else (contains target alive, [])
      else (contains target alive, [])
  | collect coll, v => (collect (coll ++ [v]), [])

/-- `Observer::error`.  Observers that own an `Option` slot empty it. -/
def onError' : St1 → Err → St1 × List Notif
  | onErrorMap f, e => (onErrorMap f, [.error (f e)])
  | onError c, _ => (onError (c + 1), [])
  | take count hits alive, e => (take count hits false, if alive then [.error e] else [])
  | takeWhile p incl alive, e => (takeWhile p incl false, if alive then [.error e] else [])
  | contains target alive, e => (contains target false, if alive then [.error e] else [])
  | s, e => (s, [.error e])

/-- `Observer::complete`. -/
def onComplete' : St1 → St1 × List Notif
  | onComplete c => (onComplete (c + 1), [.complete])
  | take count hits alive => (take count hits false, if alive then [.complete] else [])
  | takeWhile p incl alive => (takeWhile p incl false, if alive then [.complete] else [])
  | takeLast count q => (takeLast count [], q.map .next ++ [.complete])
  | last l =>
      (last none, (match l with | some v => [.next v] | none => []) ++ [.complete])
  | defaultIfEmpty isEmpty d =>
      (defaultIfEmpty isEmpty d, (if isEmpty then [.next d] else []) ++ [.complete])
  | bufferCount count data =>
      (bufferCount count [],
        (if data.isEmpty then [] else [.next (Val.ofList data)]) ++ [.complete])
  | contains target alive =>
      (contains target false, if alive then [.next (.bool false), .complete] else [])
  | collect coll => (collect coll, [.next (Val.ofList coll), .complete])
  | s => (s, [.complete])

def step (s : St1) : Notif → St1 × List Notif
  | .next v => s.onNext v
  | .error e => s.onError' e
  | .complete => s.onComplete'

/-- `is_finished(&self)`; `down` is the downstream observer's answer. -/
def finished : St1 → Bool → Bool
  | take _ _ alive, down => !alive || down
  | takeWhile _ _ alive, down => !alive || down
  | contains _ alive, down => !alive || down
  | _, down => down

/-- Observers that keep their downstream in an `Option` slot: `some alive`. -/
def slot : St1 → Option Bool
  | take _ _ alive => some alive
  | takeWhile _ _ alive => some alive
  | contains _ alive => some alive
  | _ => none

/-- Feed a whole notification sequence, collecting the downstream calls. -/
def run (s : St1) : List Notif → St1 × List Notif
  | [] => (s, [])
  | n :: r =>
    let (s1, o1) := s.step n
    let (s2, o2) := run s1 r
    (s2, o1 ++ o2)

theorem run_append (s : St1) (a b : List Notif) :
    run s (a ++ b) = ((run (run s a).1 b).1, (run s a).2 ++ (run (run s a).1 b).2) := by
  induction a generalizing s with
  | nil => simp [run]
  | cons n r ih => simp [run, ih, List.append_assoc]

end St1

/-- A chain of single-input observers, source side first: the output of each is
    the input of the next (`Machine.cascade` of the design). -/
def runChain : List St1 → List Notif → List St1 × List Notif
  | [], s => ([], s)
  | o :: os, s =>
    let (o', out) := o.run s
    let (os', out') := runChain os out
    (o' :: os', out')

end Rx
