import RxModel.Core.Notif
/-
  merge_all(n) / concat_all / flatten / flat_map / concat_map.
  Transcription of src/ops/merge_all.rs (one macro, two flavours: `MutRc` =
  `Rc<RefCell<_>>`, `MutArc` = `Arc<Mutex<_>>`).

    concat_all  = merge_all(1)                 (src/observable.rs:471)
    flatten     = merge_all(usize::MAX)        (src/observable.rs:266)
    flat_map f  = map f · merge_all(usize::MAX)    (src/observable.rs:293)
    concat_map f = map f · concat_all              (src/observable.rs:303)

  The cell `Rc<RefCell<Option<ObserverData>>>` is shared by the outer observer
  and every inner observer.  `ObserverData{observer, subscribe_tasks,
  outside_completed, subscribed, concurrent}` ↦ the fields `alive` (Option is
  Some), `queue`, `outsideCompleted`, `subscribed`, `concurrent`; `borrowed`
  says whether a `RefMut` / `MutexGuard` of the cell is held.  Any access to
  the cell while `borrowed` is `RefCell already borrowed` (local flavour,
  printed PANIC) or a re-lock of a std `Mutex` by its holder (threads flavour,
  printed RELOCK): the model records it as `stuck`.

  The parameter `fixed` selects between the code as it is (`false`: the inner
  observer's `complete` runs the deferred subscription while its `RefMut` is
  still in scope, merge_all.rs:159-171) and the repaired code (`true`: the
  borrow is released before the deferred subscription runs).
-/
namespace Rx.MergeAll

/-- Terminal of a cold inner observable: none, `complete()` or `error(e)`. -/
inductive Fin where
  | open_
  | complete
  | error (e : Err)
  deriving DecidableEq, Repr, Inhabited

/-- An inner observable of the case.  `cold`: emits everything synchronously
    inside `actual_subscribe`; `hot j`: the `Subject` number j, driven later. -/
inductive Inner where
  | cold (items : List Val) (fin : Fin)
  | hot (j : Nat)
  deriving DecidableEq, Repr, Inhabited

/-- Does `actual_subscribe` of this inner call into the `InnerObserver` (and
    hence into the shared cell) before it returns? -/
def Inner.touches : Inner → Bool
  | .cold [] .open_ => false
  | .cold _ _ => true
  | .hot _ => false

/-- What the downstream observer receives.  `tag` is ghost: the arrival number
    of the inner observable (0-based position in the outer stream) that
    produced the item. -/
inductive Out where
  | item (tag : Nat) (v : Val)
  | error (e : Err)
  | complete
  deriving DecidableEq, Repr, Inhabited

def Out.toNotif : Out → Notif
  | .item _ v => .next v
  | .error e => .error e
  | .complete => .complete

/-- One inner observable delivered by the outer stream: arrival number and
    index into the table of the case. -/
structure Inst where
  tag : Nat
  k : Nat
  deriving DecidableEq, Repr, Inhabited

structure St where
  inners : List Inner            -- table of the case (static); `Val.obs k` = `inners[k]`
  concurrent : Nat               -- ObserverData.concurrent
  alive : Bool := true           -- the Option in the cell is Some
  subscribed : Nat := 0          -- ObserverData.subscribed
  queue : List Inst := []        -- ObserverData.subscribe_tasks (FIFO of closures)
  outsideCompleted : Bool := false
  borrowed : Bool := false       -- a RefMut / MutexGuard of the cell is held
  stuck : Bool := false          -- PANIC (local) / RELOCK (threads) happened
  -- environment of the operator
  outerOpen : Bool := true       -- the outer Subject still holds the OutsideObserver's slot
  subs : List (Nat × Nat) := []  -- (subject j, tag): InnerObservers held by hot subject j, subscription order
  dead : List Nat := []          -- hot subjects whose observer list was taken by error/complete
  -- ghost
  arrivals : Nat := 0            -- inner observables delivered by the outer stream so far
  started : Nat := 0             -- `actual_subscribe` calls on inner observables
  completed : Nat := 0           -- `InnerObserver::complete` calls that found the data
  deriving Repr

def init (inners : List Inner) (n : Nat) : St := { inners := inners, concurrent := n }

def St.inner (s : St) (k : Nat) : Inner := s.inners.getD k (.cold [] .open_)

/-- `InnerObserver::complete` once it found `Some(data)` (merge_all.rs:161-169), `q` = the
    task queue at that moment.  Recursion: a cold inner started from the queue
    completes inside its `actual_subscribe` and thereby runs this again.

    * `[]`: `subscribed -= 1`, and if `0 ∧ outside_completed` take the data and
      complete downstream.
    * `i :: rest`: `pop_front`, `task()`.  Code as is (`fixed = false`): the
      `RefMut` taken at line 160 is still in scope, so an inner that touches the
      cell inside `actual_subscribe` is stuck.  Repaired (`fixed = true`): the
      borrow is dropped before `task()`.
    The result's `queue` is what is left of `q`. -/
def drain (fixed : Bool) (s : St) : List Inst → St × List Out
  | [] =>
      let n := s.subscribed - 1
      if n = 0 ∧ s.outsideCompleted = true then
        ({ s with subscribed := n, queue := [], completed := s.completed + 1, alive := false },
          [.complete])
      else ({ s with subscribed := n, queue := [], completed := s.completed + 1 }, [])
  | i :: rest =>
      match s.inner i.k with
      | .hot j =>
          ({ s with queue := rest, completed := s.completed + 1, started := s.started + 1,
                    subs := s.subs ++ [(j, i.tag)] }, [])
      | .cold xs fin =>
          if !fixed && (Inner.cold xs fin).touches then
            -- `InnerObserver::next/error/complete` → `rc_deref_mut()` on the held cell
            ({ s with queue := rest, completed := s.completed + 1, started := s.started + 1,
                      borrowed := true, stuck := true }, [])
          else
            let out := xs.map (Out.item i.tag)
            match fin with
            | .open_ =>
                ({ s with queue := rest, completed := s.completed + 1, started := s.started + 1 },
                  out)
            | .error e =>
                ({ s with queue := rest, completed := s.completed + 1, started := s.started + 1,
                          alive := false }, out ++ [.error e])
            | .complete =>
                let (s', o) :=
                  drain fixed { s with completed := s.completed + 1, started := s.started + 1 } rest
                (s', out ++ o)

/-- `InnerObserver::complete` (merge_all.rs:159-171). -/
def innerComplete (fixed : Bool) (s : St) : St × List Out :=
  if s.alive then drain fixed s s.queue else (s, [])

/-- `InnerObserver::error` (merge_all.rs:153-157). -/
def innerError (s : St) (e : Err) : St × List Out :=
  if s.alive then ({ s with alive := false }, [.error e]) else (s, [])

/-- `value.actual_subscribe(InnerObserver::new(cell))` from the outer `next`
    (merge_all.rs:199-203): the borrow has been dropped, the data is there. -/
def startTop (fixed : Bool) (s : St) (i : Inst) : St × List Out :=
  let s := { s with started := s.started + 1 }
  match s.inner i.k with
  | .hot j => ({ s with subs := s.subs ++ [(j, i.tag)] }, [])
  | .cold xs fin =>
      let out := xs.map (Out.item i.tag)
      match fin with
      | .open_ => (s, out)
      | .error e => ({ s with alive := false }, out ++ [.error e])
      | .complete =>
          let (s', o) := drain fixed s s.queue
          (s', out ++ o)

/-- `OutsideObserver::next` (merge_all.rs:194-214), reached through the outer
    Subject's `Subscriber` slot. -/
def outerNext (fixed : Bool) (s : St) (k : Nat) : St × List Out :=
  if !s.outerOpen then (s, []) else
  let i : Inst := ⟨s.arrivals, k⟩
  let s := { s with arrivals := s.arrivals + 1 }
  if !s.alive then (s, []) else
  if s.subscribed < s.concurrent then
    startTop fixed { s with subscribed := s.subscribed + 1 } i
  else ({ s with queue := s.queue ++ [i] }, [])

/-- `OutsideObserver::error` (merge_all.rs:216-220). -/
def outerError (s : St) (e : Err) : St × List Out :=
  if !s.outerOpen then (s, []) else
  let s := { s with outerOpen := false }
  if s.alive then ({ s with alive := false }, [.error e]) else (s, [])

/-- `OutsideObserver::complete` (merge_all.rs:222-230). -/
def outerComplete (s : St) : St × List Out :=
  if !s.outerOpen then (s, []) else
  let s := { s with outerOpen := false }
  if s.alive then
    let s := { s with outsideCompleted := true }
    if s.subscribed = 0 ∧ s.queue = [] then ({ s with alive := false }, [.complete]) else (s, [])
  else (s, [])

/-- InnerObservers subject `j` holds, in subscription order. -/
def targets (s : St) (j : Nat) : List (Nat × Nat) := s.subs.filter (fun p => p.1 == j)

/-- `Subject::next` of hot inner `j`: every `InnerObserver::next` (merge_all.rs:147-151). -/
def hotNext (s : St) (j : Nat) (v : Val) : St × List Out :=
  if s.dead.contains j then (s, []) else
  (s, if s.alive then (targets s j).map (fun p => Out.item p.2 v) else [])

/-- The taken observer list of a subject is completed one by one. -/
def completeAll (fixed : Bool) (s : St) : List (Nat × Nat) → St × List Out
  | [] => (s, [])
  | _ :: r =>
      let (s1, o1) := innerComplete fixed s
      if s1.stuck then (s1, o1) else
      let (s2, o2) := completeAll fixed s1 r
      (s2, o1 ++ o2)

def errorAll (s : St) (e : Err) : List (Nat × Nat) → St × List Out
  | [] => (s, [])
  | _ :: r =>
      let (s1, o1) := innerError s e
      let (s2, o2) := errorAll s1 e r
      (s2, o1 ++ o2)

/-- `Subject::complete` of hot inner `j`: takes its observer list, then calls them. -/
def hotComplete (fixed : Bool) (s : St) (j : Nat) : St × List Out :=
  if s.dead.contains j then (s, []) else
  completeAll fixed { s with dead := j :: s.dead, subs := s.subs.filter (fun p => !(p.1 == j)) }
    (targets s j)

def hotError (s : St) (j : Nat) (e : Err) : St × List Out :=
  if s.dead.contains j then (s, []) else
  errorAll { s with dead := j :: s.dead, subs := s.subs.filter (fun p => !(p.1 == j)) } e
    (targets s j)

/-- `unsubscribe()` of the returned `MultiSubscription`: the outer slot and the
    slot of every inner subscription are emptied; nothing reaches the cell any more. -/
def unsub (s : St) : St × List Out := ({ s with outerOpen := false, subs := [] }, [])

/-- External events of a `flatten` case. -/
inductive Ev where
  | outerNext (k : Nat)
  | outerError (e : Err)
  | outerComplete
  | innerNext (j : Nat) (v : Val)
  | innerError (j : Nat) (e : Err)
  | innerComplete (j : Nat)
  | unsub
  deriving DecidableEq, Repr, Inhabited

def stepG (fixed : Bool) (s : St) (ev : Ev) : St × List Out :=
  if s.stuck then (s, []) else
  match ev with
  | .outerNext k => outerNext fixed s k
  | .outerError e => outerError s e
  | .outerComplete => outerComplete s
  | .innerNext j v => hotNext s j v
  | .innerError j e => hotError s j e
  | .innerComplete j => hotComplete fixed s j
  | .unsub => unsub s

/-- Run a list of events; the output is the concatenation of what each event produced. -/
def runG (fixed : Bool) (s : St) : List Ev → St × List Out
  | [] => (s, [])
  | ev :: r =>
      let (s1, o1) := stepG fixed s ev
      let (s2, o2) := runG fixed s1 r
      (s2, o1 ++ o2)

/-- The code as it is. -/
def step : St → Ev → St × List Out := stepG false
def run : St → List Ev → St × List Out := runG false

/- The repaired code: the borrow is released before the deferred subscription runs. -/
namespace Fixed
def step : St → Ev → St × List Out := stepG true
def run : St → List Ev → St × List Out := runG true
end Fixed

/-- `usize::MAX` on the 64-bit target the harness runs on. -/
def usizeMax : Nat := 18446744073709551615

end Rx.MergeAll
