import RxModel.Ops.Multi
/-
  Reference semantics of the two-input combinators along an interleaving
  (timeline) of their inputs, written as plain list functions.
-/
namespace Rx
namespace Spec

/-- Remove the first `complete` (the completion of whichever input finishes first). -/
def eraseFirstComplete : List Notif → List Notif
  | [] => []
  | .complete :: r => r
  | n :: r => n :: eraseFirstComplete r

/-- merge: every notification in arrival order, except that the first completion
    is swallowed; the first terminal that remains ends the stream. -/
def merge (tl : Timeline) : List Notif := gate (eraseFirstComplete (tl.map (·.2)))

/-- take_until: the source's notifications until the notifier's first item, which
    completes the output; the notifier's own terminal is ignored. -/
def takeUntil (tl : Timeline) : List Notif :=
  gate (tl.filterMap fun
    | (.a, n) => some n
    | (.b, .next _) => some .complete
    | (.b, _) => none)

/-- skip_until as documented: source items are dropped until the notifier has
    emitted an ITEM; source terminals always pass. -/
def skipUntilFrom : Bool → Timeline → List Notif
  | _, [] => []
  | opened, (.a, .next v) :: r => (if opened then [.next v] else []) ++ skipUntilFrom opened r
  | opened, (.a, t) :: r => t :: skipUntilFrom opened r
  | _, (.b, .next _) :: r => skipUntilFrom true r
  | opened, (.b, _) :: r => skipUntilFrom opened r

def skipUntil (tl : Timeline) : List Notif := gate (skipUntilFrom false tl)

/-- combine_latest: at each arrival, pair the latest values once both exist. -/
def combineFrom : Option Val → Option Val → List (Side × Val) → List Val
  | _, _, [] => []
  | _, b, (.a, v) :: r =>
      (match b with | some w => [Val.pair v w] | none => []) ++ combineFrom (some v) b r
  | a, _, (.b, v) :: r =>
      (match a with | some w => [Val.pair w v] | none => []) ++ combineFrom a (some v) r

/-- with_latest_from: each source item is paired with the latest `from` item, if any. -/
def withLatestFrom : Option Val → List (Side × Val) → List Val
  | _, [] => []
  | l, (.a, v) :: r => (match l with | some w => [Val.pair v w] | none => []) ++ withLatestFrom l r
  | _, (.b, v) :: r => withLatestFrom (some v) r

/-- sample: a tick releases the latest source item gathered since the previous tick. -/
def sampleFrom : Option Val → List (Side × Option Val) → List Val
  | _, [] => []
  | _, (.a, some v) :: r => sampleFrom (some v) r
  | l, (.a, none) :: r => sampleFrom l r
  | l, (.b, _) :: r => l.toList ++ sampleFrom none r

/-- merge / zip / combine_latest share one termination rule: the first error, or
    the second completion.  `cut2 c tl` = (the items before that point, tagged;
    the terminal at that point), `c` = one input has already completed. -/
def cut2 : Bool → Timeline → List (Side × Val) × Option Notif
  | _, [] => ([], none)
  | c, (sd, .next v) :: r => ((sd, v) :: (cut2 c r).1, (cut2 c r).2)
  | _, (_, .error e) :: _ => ([], some (.error e))
  | false, (_, .complete) :: r => cut2 true r
  | true, (_, .complete) :: _ => ([], some .complete)

/-- with_latest_from ends with the source's terminal or the `from` input's error. -/
def cutW : Timeline → List (Side × Val) × Option Notif
  | [] => ([], none)
  | (sd, .next v) :: r => ((sd, v) :: (cutW r).1, (cutW r).2)
  | (.a, t) :: _ => ([], some t)
  | (.b, .error e) :: _ => ([], some (.error e))
  | (.b, .complete) :: r => cutW r

/-- sample ends with the source's terminal or the sampler's error; the sampler's
    completion counts as one more tick. -/
def cutS : Timeline → List (Side × Option Val) × Option Notif
  | [] => ([], none)
  | (.a, .next v) :: r => ((.a, some v) :: (cutS r).1, (cutS r).2)
  | (.a, t) :: _ => ([], some t)
  | (.b, .next _) :: r => ((.b, none) :: (cutS r).1, (cutS r).2)
  | (.b, .complete) :: r => ((.b, none) :: (cutS r).1, (cutS r).2)
  | (.b, .error e) :: _ => ([], some (.error e))

def tagged (sd : Side) (l : List (Side × Val)) : List Val :=
  (l.filter (fun p => p.1 == sd)).map (·.2)

def pairUp : List Val → List Val → List Val
  | a :: as, b :: bs => Val.pair a b :: pairUp as bs
  | _, _ => []

/-- Decode a cons-list value. -/
def valToList : Val → List Val
  | .cons h t => h :: valToList t
  | _ => []

/-- buffer(notifier) along a timeline, `d` = items gathered since the last release:
    a tick releases them (never an empty buffer), completion of either input
    releases them and completes, an error discards them. -/
def bufferFrom : List Val → Timeline → List Notif
  | _, [] => []
  | d, (.a, .next v) :: r => bufferFrom (d ++ [v]) r
  | d, (.b, .next _) :: r => (if d.isEmpty then [] else [.next (Val.ofList d)]) ++ bufferFrom [] r
  | _, (_, .error e) :: _ => [.error e]
  | d, (_, .complete) :: _ => (if d.isEmpty then [] else [.next (Val.ofList d)]) ++ [.complete]

/-- Source items of a timeline up to the first terminal of either input. -/
def gathered : Timeline → List Val
  | [] => []
  | (.a, .next v) :: r => v :: gathered r
  | (.b, .next _) :: r => gathered r
  | (_, _) :: _ => []

/-- The first terminal of either input. -/
def firstTerminal : Timeline → Option Notif
  | [] => none
  | (_, .next _) :: r => firstTerminal r
  | (_, t) :: _ => some t

/-- Items of one input of a timeline prefix. -/
def itemsOf (sd : Side) (tl : Timeline) : List Val := items (tl.proj sd)

end Spec
end Rx
