import RxModel.Spec.SubjectSpec
import RxModel.Subject.Behavior
/-
  Abstract specification of a BehaviorSubject (C12): the abstract subject plus the
  latest value.  A subscription first delivers the latest value to the newcomer
  (always, even after a terminal), then admits it like a subject does.
-/
namespace Rx.Subj

structure BAbs where
  abs : Abs
  value : Val
  deriving DecidableEq, Repr

def BAbs.init (v : Val) : BAbs := ⟨Abs.init, v⟩

def BAbs.next (b : BAbs) (v : Val) : BAbs × List Delivery :=
  let r := b.abs.next (some v) v
  (⟨r.1, v⟩, r.2)

def BAbs.apply (b : BAbs) : BOp → BAbs × List Delivery
  | .subscribe script => (⟨b.abs.subscribe script, b.value⟩, [(b.abs.scripts.length, .next b.value)])
  | .unsubOne i => (⟨b.abs.unsubOne i, b.value⟩, [])
  | .next v => b.next v
  | .nextBy f => b.next (f b.value)
  | .error e => let r := b.abs.terminal (.error e); (⟨r.1, b.value⟩, r.2)
  | .complete => let r := b.abs.terminal .complete; (⟨r.1, b.value⟩, r.2)
  | .unsubscribe => (⟨b.abs.unsubscribe, b.value⟩, [])
  | .clone => (b, [])
  | .peek => (b, [])

structure BAOut where
  out : AOut
  peek : Val
  deriving DecidableEq, Repr

def BAbs.step (b : BAbs) (op : BOp) : BAbs × BAOut :=
  let r := b.apply op
  (r.1, ⟨⟨r.2, r.1.abs.done, r.1.abs.panicked⟩, r.1.value⟩)

def BAbs.runFrom : BAbs → List BOp → List BAOut
  | _, [] => []
  | b, op :: r =>
    let x := b.step op
    if x.2.out.panic then [x.2] else x.2 :: BAbs.runFrom x.1 r

def BAbs.run (v0 : Val) (ops : List BOp) : List BAOut := BAbs.runFrom (BAbs.init v0) ops

def BOutput.vis (o : BOutput) : BAOut := ⟨o.out.vis, o.peek⟩

/-- the latest value of a history, computed from the operations alone -/
def latest : Val → List BOp → Val
  | v, [] => v
  | _, .next w :: r => latest w r
  | v, .nextBy f :: r => latest (f v) r
  | v, _ :: r => latest v r

end Rx.Subj
