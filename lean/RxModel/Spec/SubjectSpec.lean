import RxModel.Subject.Subject
/-
  Abstract specification of a subject (C06): the set of CURRENT subscribers (in
  subscription order), a done flag, and the probes' remaining scripts.  No
  observers/chamber, no slots, no closed-but-not-retained entries.

    next v        : every subscriber that was current when the emission began and is
                    still current when its turn comes receives `v` once; a subscriber
                    created by a callback joins `live` but is not in the snapshot;
                    one unsubscribed by a callback before its turn is skipped
    error/complete: every current subscriber gets the terminal once; then nobody is current
    unsubscribe   : nobody is current, done
    after done    : nothing is ever delivered, subscribers are not admitted
  Unsubscribing YOURSELF through the handle inside your own callback is outside the
  contract (`panicked`): the code panics on the slot's double borrow.
-/
namespace Rx.Subj

structure Abs where
  live : List SlotId
  done : Bool
  scripts : List (List Act)
  panicked : Bool
  deriving DecidableEq, Repr

def Abs.init : Abs := ⟨[], false, [], false⟩

/-- consume one script action of subscriber `i` -/
def modTail : List (List Act) → Nat → List (List Act)
  | [], _ => []
  | x :: r, 0 => x.tail :: r
  | x :: r, n + 1 => x :: modTail r n

def Abs.subscribe (a : Abs) (script : List Act) : Abs :=
  { a with live := if a.done then a.live else a.live ++ [a.scripts.length],
           scripts := a.scripts ++ [script] }

def Abs.unsubOne (a : Abs) (t : SlotId) : Abs := { a with live := a.live.filter (· ≠ t) }

def Abs.act (a : Abs) (greet : Option Val) (i : SlotId) : Act → Abs × List Delivery
  | .nop => (a, [])
  | .sub =>
    match greet with
    | none => (a.subscribe [], [])
    | some v => (a.subscribe [], [(a.scripts.length, .next v)])
  | .unsub t => if t = i then ({ a with panicked := true }, []) else (a.unsubOne t, [])

def Abs.callNext (a : Abs) (greet : Option Val) (i : SlotId) (v : Val) : Abs × List Delivery :=
  if i ∈ a.live then
    let a1 := { a with scripts := modTail a.scripts i }
    let r := a1.act greet i (match a.scripts[i]? with | some sc => sc.headD .nop | none => .nop)
    (r.1, (i, Notif.next v) :: r.2)
  else (a, [])

/-- serve the snapshot `xs` in order -/
def abcast (greet : Option Val) (v : Val) : Abs → List SlotId → Abs × List Delivery
  | a, [] => (a, [])
  | a, i :: r =>
    let r1 := a.callNext greet i v
    if r1.1.panicked then r1
    else
      let r2 := abcast greet v r1.1 r
      (r2.1, r1.2 ++ r2.2)

def Abs.next (a : Abs) (greet : Option Val) (v : Val) : Abs × List Delivery :=
  if a.done then (a, []) else abcast greet v a a.live

def Abs.terminal (a : Abs) (n : Notif) : Abs × List Delivery :=
  if a.done then (a, []) else ({ a with live := [], done := true }, a.live.map (·, n))

def Abs.unsubscribe (a : Abs) : Abs := { a with live := [], done := true }

def Abs.apply (a : Abs) : SubjOp → Abs × List Delivery
  | .subscribe script => (a.subscribe script, [])
  | .unsubOne i => (a.unsubOne i, [])
  | .next v => a.next none v
  | .error e => a.terminal (.error e)
  | .complete => a.terminal .complete
  | .retain => (a, [])
  | .unsubscribe => (a.unsubscribe, [])
  | .clone => (a, [])

/-- what the abstract spec fixes of an operation's output -/
structure AOut where
  deliveries : List Delivery
  done : Bool
  panic : Bool
  deriving DecidableEq, Repr

def Abs.step (a : Abs) (op : SubjOp) : Abs × AOut :=
  let r := a.apply op
  (r.1, ⟨r.2, r.1.done, r.1.panicked⟩)

def Abs.runFrom : Abs → List SubjOp → List AOut
  | _, [] => []
  | a, op :: r =>
    let x := a.step op
    if x.2.panic then [x.2] else x.2 :: Abs.runFrom x.1 r

def Abs.run (ops : List SubjOp) : List AOut := Abs.runFrom Abs.init ops

/-- The spec of a subject whose subscribers do nothing inside their callbacks:
    the list of current subscribers (`n` = next subscriber id) and a done flag. -/
structure Simple where
  live : List SlotId
  done : Bool
  n : Nat
  deriving DecidableEq, Repr

def Simple.init : Simple := ⟨[], false, 0⟩

def Simple.apply (s : Simple) : SubjOp → Simple × List Delivery
  | .subscribe _ => (⟨if s.done then s.live else s.live ++ [s.n], s.done, s.n + 1⟩, [])
  | .unsubOne i => (⟨s.live.filter (· ≠ i), s.done, s.n⟩, [])
  | .next v => (s, if s.done then [] else s.live.map (·, Notif.next v))
  | .error e => (⟨[], true, s.n⟩, if s.done then [] else s.live.map (·, Notif.error e))
  | .complete => (⟨[], true, s.n⟩, if s.done then [] else s.live.map (·, Notif.complete))
  | .retain => (s, [])
  | .unsubscribe => (⟨[], true, s.n⟩, [])
  | .clone => (s, [])

def Simple.runFrom : Simple → List SubjOp → List AOut
  | _, [] => []
  | s, op :: r => ⟨(s.apply op).2, (s.apply op).1.done, false⟩ :: Simple.runFrom (s.apply op).1 r

def Simple.run (ops : List SubjOp) : List AOut := Simple.runFrom Simple.init ops

/-- an operation whose subscriber (if any) does nothing in its callbacks -/
def SubjOp.Plain : SubjOp → Prop
  | .subscribe sc => ∀ x ∈ sc, x = Act.nop
  | _ => True

/-- the part of a concrete output the abstract spec speaks about -/
def Output.vis (o : Output) : AOut := ⟨o.deliveries, o.finished, o.panic⟩

end Rx.Subj
