import RxModel.Core.Notif
/-
  Reference ("documented") list semantics of the single-input operators.
  Written from the doc comments in src/observable.rs, *not* from the observer
  state machines: each operator is a function on a finite stream
  `(items, terminal)` using ordinary list functions.

  Decisions where the documentation is silent are marked `DECISION`.
-/
namespace Rx

/-- A finite stream in canonical form.  `term = none`: the source has not
    terminated (a hot source that is still open). -/
structure Stream where
  items : List Val
  term : Option Notif
  deriving DecidableEq, Repr

def Stream.toNotifs (s : Stream) : List Notif := Rx.mk s.items s.term

/-- The terminal is `error _` or `complete` (never `next`). -/
def Stream.Valid (s : Stream) : Prop := ∀ n, s.term = some n → n.isTerm = true

namespace Spec

/-- Running accumulation: `scan op a [x,y] = [op a x, op (op a x) y]`. -/
def scanFrom (op : Val → Val → Val) : Val → List Val → List Val
  | _, [] => []
  | a, x :: xs => op a x :: scanFrom op (op a x) xs

/-- Keep the first item of every key, in order (what `distinct` documents). -/
def dedupBy (key : Val → Val) : List Val → List Val → List Val
  | _, [] => []
  | seen, x :: xs =>
    if seen.contains (key x) then dedupBy key seen xs
    else x :: dedupBy key (key x :: seen) xs

/-- Drop items whose key equals the key of the item just before them. -/
def dedupAdj (key : Val → Val) : Option Val → List Val → List Val
  | _, [] => []
  | none, x :: xs => x :: dedupAdj key (some x) xs
  | some p, x :: xs =>
    if key p = key x then dedupAdj key (some p) xs else x :: dedupAdj key (some x) xs

/-- Consecutive pairs `(x₀,x₁), (x₁,x₂), …`. -/
def pairs : List Val → List Val
  | a :: b :: r => Val.pair a b :: pairs (b :: r)
  | _ => []

/-- Full chunks of `n` items (n ≥ 1) and the remainder. -/
def chunks (n : Nat) : List Val → List Val → List Val × List Val
  | cur, [] => ([], cur)
  | cur, x :: xs =>
    let cur' := cur ++ [x]
    if cur'.length ≥ n then
      let (cs, rem) := chunks n [] xs
      (Val.ofList cur' :: cs, rem)
    else chunks n cur' xs

def isComplete (t : Option Notif) : Bool := t == some .complete

/-- Descriptors of the single-input operators (closures are parameters). -/
inductive Op1 where
  | map (f : Val → Val)
  | mapTo (v : Val)
  | filter (p : Val → Bool)
  | filterMap (f : Val → Option Val)
  | tap
  | onErrorMap (f : Err → Err)
  | take (n : Nat)
  | takeWhile (p : Val → Bool) (inclusive : Bool)
  | skip (n : Nat)
  | skipWhile (p : Val → Bool)
  | takeLast (n : Nat)
  | skipLast (n : Nat)
  | last
  | defaultIfEmpty (d : Val)
  | scan (op : Val → Val → Val) (init : Val)
  | distinct
  | distinctKey (key : Val → Val)
  | distinctUntilChanged
  | distinctUntilKeyChanged (key : Val → Val)
  | pairwise
  | bufferCount (n : Nat)
  | contains (target : Val)
  | collect

/-- Items emitted only when the source completes (aggregates, defaults,
    buffered remainders): present iff the terminal is `complete`. -/
def onlyOnComplete (t : Option Notif) (xs : List Val) : List Val :=
  if isComplete t then xs else []

/-- Documented behaviour of each operator on a finite stream. -/
def apply : Op1 → Stream → Stream
  | .map f, ⟨xs, t⟩ => ⟨xs.map f, t⟩
  | .mapTo v, ⟨xs, t⟩ => ⟨xs.map (fun _ => v), t⟩
  | .filter p, ⟨xs, t⟩ => ⟨xs.filter p, t⟩
  | .filterMap f, ⟨xs, t⟩ => ⟨xs.filterMap f, t⟩
  | .tap, s => s
  | .onErrorMap f, ⟨xs, t⟩ =>
      ⟨xs, match t with | some (.error e) => some (.error (f e)) | t => t⟩
  -- "emits only the first n values …; after that, it completes, regardless if
  -- the source completes".  DECISION: for n = 0 the code never completes by
  -- itself (it mirrors the source terminal); the spec follows the code here and
  -- the deviation from the doc sentence is recorded in DESIGN §7 (finding 19).
  | .take n, ⟨xs, t⟩ =>
      if 0 < n ∧ n ≤ xs.length then ⟨xs.take n, some .complete⟩
      else if n = 0 then ⟨[], t⟩ else ⟨xs, t⟩
  | .takeWhile p incl, ⟨xs, t⟩ =>
      if xs.all p then ⟨xs, t⟩
      else ⟨xs.takeWhile p ++ (if incl then (xs.dropWhile p).take 1 else []), some .complete⟩
  | .skip n, ⟨xs, t⟩ => ⟨xs.drop n, t⟩
  | .skipWhile p, ⟨xs, t⟩ => ⟨xs.dropWhile p, t⟩
  | .takeLast n, ⟨xs, t⟩ => ⟨onlyOnComplete t (xs.drop (xs.length - n)), t⟩
  -- DECISION: skip_last streams eagerly (item i is released when item i+n arrives).
  | .skipLast n, ⟨xs, t⟩ => ⟨xs.take (xs.length - n), t⟩
  | .last, ⟨xs, t⟩ => ⟨onlyOnComplete t xs.getLast?.toList, t⟩
  | .defaultIfEmpty d, ⟨xs, t⟩ => ⟨if xs.isEmpty then onlyOnComplete t [d] else xs, t⟩
  | .scan op init, ⟨xs, t⟩ => ⟨scanFrom op init xs, t⟩
  | .distinct, ⟨xs, t⟩ => ⟨dedupBy id [] xs, t⟩
  | .distinctKey key, ⟨xs, t⟩ => ⟨dedupBy key [] xs, t⟩
  | .distinctUntilChanged, ⟨xs, t⟩ => ⟨dedupAdj id none xs, t⟩
  | .distinctUntilKeyChanged key, ⟨xs, t⟩ => ⟨dedupAdj key none xs, t⟩
  | .pairwise, ⟨xs, t⟩ => ⟨pairs xs, t⟩
  -- DECISION: count 0 behaves like count 1 (every item is its own buffer).
  | .bufferCount n, ⟨xs, t⟩ =>
      let (cs, rem) := chunks n [] xs
      ⟨cs ++ onlyOnComplete t (if rem.isEmpty then [] else [Val.ofList rem]), t⟩
  | .contains target, ⟨xs, t⟩ =>
      if xs.contains target then ⟨[.bool true], some .complete⟩
      else ⟨onlyOnComplete t [.bool false], t⟩
  | .collect, ⟨xs, t⟩ => ⟨onlyOnComplete t [Val.ofList xs], t⟩

/-- A chain of operators, source side first. -/
def applyChain (ops : List Op1) (s : Stream) : Stream := ops.foldl (fun s o => apply o s) s

/-! Documented behaviour of the derived operators (stated directly, to be
    compared with the compositions the library builds). -/

def first : Stream → Stream
  | ⟨x :: _, _⟩ => ⟨[x], some .complete⟩
  | ⟨[], t⟩ => ⟨[], t⟩

def firstOr (d : Val) : Stream → Stream
  | ⟨x :: _, _⟩ => ⟨[x], some .complete⟩
  | ⟨[], t⟩ => ⟨onlyOnComplete t [d], t⟩

def lastOr (d : Val) : Stream → Stream
  | ⟨xs, t⟩ => ⟨onlyOnComplete t [xs.getLast?.getD d], t⟩

def elementAt (n : Nat) : Stream → Stream
  | ⟨xs, t⟩ => match xs[n]? with
    | some x => ⟨[x], some .complete⟩
    | none => ⟨[], t⟩

def ignoreElements : Stream → Stream
  | ⟨_, t⟩ => ⟨[], t⟩

/-- `all p`: `false` as soon as an item fails, `true` on completion otherwise. -/
def all (p : Val → Bool) : Stream → Stream
  | ⟨xs, t⟩ =>
    if xs.all p then ⟨onlyOnComplete t [.bool true], t⟩ else ⟨[.bool false], some .complete⟩

/-- `reduce_initial init op`: the fold, emitted on completion (the initial value
    for an empty source). -/
def reduceInitial (op : Val → Val → Val) (init : Val) : Stream → Stream
  | ⟨xs, t⟩ => ⟨onlyOnComplete t [xs.foldl op init], t⟩

/-- `min`/`max`/`average`-style aggregates: a fold emitted on completion,
    nothing for an empty source. -/
def aggregate (op : Val → Val → Val) (init : Val) (fin : Val → Val) : Stream → Stream
  | ⟨xs, t⟩ => ⟨onlyOnComplete t (if xs.isEmpty then [] else [fin (xs.foldl op init)]), t⟩

end Spec
end Rx
