"""Suite `composite` (C17, composite part): histories of append / unsubscribe / is_closed on the real
MultiSubscription(Threads), ZipSubscription, BoxSubscription(Threads), SubscriptionGuard, Subscriber(Threads)
and TaskHandle values; generators, the oracle on the implementation's own output, shrinking.

terms   u | (l i) | (m j) | (zip a b) | (box t)
events  append j t | appendtask j tag | unsub t | closed t | retain j | size j | clone j | guard t |
        dropguard k | emit v | run
"""
import itertools

from . import sx
from .case import Case

U = "u"


def L(i):
    return ["l", str(i)]


def M(j):
    return ["m", str(j)]


def Z(a, b):
    return ["zip", a, b]


def B(t):
    return ["box", t]


def mk_case(flavor, events, meta, model):
    return Case("composite", flavor, [("leaves", ["3"]), ("model", [model])], [list(e) for e in events], meta)


# ------------------------------------------------------------------ generators
# Family A: every history of length <= n over one composite and two leaves (the alphabet of the
# property text: append / unsubscribe / is_closed, plus the emission that makes "alive" visible).
ALPHA_A = [
    ["append", "0", L(0)],
    ["append", "0", L(1)],
    ["unsub", M(0)],
    ["unsub", L(0)],
    ["closed", M(0)],
    ["emit", "5"],
]

# Family B: every sequence of <= n state-changing operations over the whole universe (two composites,
# nesting 1-in-0, a zip, a guard, clones, task handles), each followed by a fixed block of observations.
ALPHA_B = [
    ["append", "0", L(0)],
    ["append", "1", L(1)],
    ["append", "0", M(1)],
    ["append", "0", Z(L(2), M(1))],
    ["unsub", M(0)],
    ["unsub", M(1)],
    ["unsub", Z(M(0), L(2))],
    ["unsub", L(1)],
    ["unsubreapp", "0", L(2)],
    ["unsubreapp", "1", Z(L(0), L(1))],
    ["appendtask", "0", "7"],
    ["appendtask", "1", "8"],
    ["run"],
    ["guard", B(M(0))],
    ["dropguard", "0"],
    ["clone", "0"],
    ["retain", "0"],
]
SAMPLE_B = [["closed", M(0)], ["closed", M(1)], ["closed", Z(M(0), L(2))], ["size", "0"], ["emit", "1"]]


def retag(events):
    """task tags unique per case (the oracle identifies a task by its tag)"""
    out, n = [], 0
    for e in events:
        if e[0] == "appendtask":
            out.append(["appendtask", e[1], str(10 + n)])
            n += 1
        else:
            out.append(list(e))
    return out


def exhaustive_a(n, model):
    out = []
    for k in range(1, n + 1):
        for seq in itertools.product(ALPHA_A, repeat=k):
            # a history without a question or an emission observes nothing
            if not any(e[0] in ("closed", "emit") for e in seq):
                continue
            for fl in ("local", "threads"):
                out.append(mk_case(fl, seq, {"kind": f"composite-exhaustive-A{k}"}, model))
    return out


def exhaustive_b(n, model):
    out = []
    for k in range(1, n + 1):
        for i, seq in enumerate(itertools.product(ALPHA_B, repeat=k)):
            evs = []
            for e in seq:
                evs.append(e)
                evs += SAMPLE_B
            evs.append(["run"])
            out.append(mk_case("threads" if i % 2 else "local", retag(evs),
                               {"kind": f"composite-exhaustive-B{k}"}, model))
    return out


def rand_term(rng, depth, allow_m0, allow_m1):
    r = rng.random()
    if depth > 0 and r < 0.25:
        return Z(rand_term(rng, depth - 1, allow_m0, allow_m1), rand_term(rng, depth - 1, allow_m0, allow_m1))
    if depth > 0 and r < 0.32:
        return B(rand_term(rng, depth - 1, allow_m0, allow_m1))
    if r < 0.40:
        return U
    ms = [j for j, ok in ((0, allow_m0), (1, allow_m1)) if ok]
    if ms and r < 0.62:
        return M(rng.choice(ms))
    return L(rng.randint(0, 2))


def random_case(rng, model):
    n = rng.randint(7, 22)
    evs, guards = [], 0
    for _ in range(n):
        r = rng.random()
        if r < 0.22:
            j = rng.randint(0, 1)
            # no cycles: only composite 1 may be put into composite 0
            evs.append(["append", str(j), rand_term(rng, 2, False, j == 0)])
        elif r < 0.30:
            evs.append(["appendtask", str(rng.randint(0, 1)), "0"])
        elif r < 0.33:
            # (no composite as payload: no cycles)
            evs.append(["unsubreapp", str(rng.randint(0, 1)), rand_term(rng, 1, False, False)])
        elif r < 0.44:
            evs.append(["unsub", rand_term(rng, 1, True, True)])
        elif r < 0.64:
            evs.append(["closed", rand_term(rng, 1, True, True)])
        elif r < 0.78:
            evs.append(["emit", str(rng.randint(1, 9))])
        elif r < 0.84:
            evs.append(["run"])
        elif r < 0.88:
            evs.append(["guard", rand_term(rng, 1, True, True)])
            guards += 1
        elif r < 0.92 and guards:
            evs.append(["dropguard", str(rng.randint(0, guards - 1))])
        elif r < 0.95:
            evs.append(["clone", str(rng.randint(0, 1))])
        elif r < 0.975:
            evs.append(["retain", str(rng.randint(0, 1))])
        else:
            evs.append(["size", str(rng.randint(0, 1))])
    evs += [["closed", M(0)], ["closed", M(1)], ["emit", "9"], ["run"]]
    return mk_case(rng.choice(["local", "threads"]), retag(evs), {"kind": "composite-random"}, model)


def cases(rng, tier, model):
    quick = tier == "quick"
    out = exhaustive_a(5 if quick else 6, model)
    out += exhaustive_b(3 if quick else 4, model)
    out += [random_case(rng, model) for _ in range(6000 if quick else 60000)]
    return out


# ---------------------------------------------------------------------- oracle
def atoms(t):
    if not isinstance(t, list):
        return
    h = t[0]
    if h == "l":
        yield ("l", int(t[1]))
    elif h == "m":
        yield ("m", int(t[1]))
    elif h == "zip":
        yield from atoms(t[1])
        yield from atoms(t[2])
    elif h == "box":
        yield from atoms(t[1])


def closure(t, members):
    """leaves, composites and task tags reachable from a term through what was appended (and accepted)"""
    leaves, cells, tasks = set(), set(), set()
    stack = [t]
    while stack:
        x = stack.pop()
        for a in atoms(x):
            if a[0] == "l":
                leaves.add(a[1])
            elif a[1] not in cells:
                cells.add(a[1])
                for kind, v in members.get(a[1], []):
                    if kind == "task":
                        tasks.add(v)
                    else:
                        stack.append(v)
    return leaves, cells, tasks


def parse_deliveries(body):
    """`d=0:N5;2:N5` -> [0, 2];  `t=T7;T8` -> [7, 8]"""
    toks = [x for x in body[2:].split(";") if x]
    if body.startswith("d="):
        return [int(x.split(":")[0]) for x in toks]
    return [int(x[1:]) for x in toks]


# kinds
LATE = "late-append-alive"                  # (d) a leaf appended to an unsubscribed composite still receives / is open
LATE_TASK = "late-append-task-alive"        # (d) a task handle appended to an unsubscribed composite still runs
AFTER_UNSUB = "delivery-after-unsubscribe"  # (c) a child appended before unsubscribe() still receives
TASK_AFTER_UNSUB = "task-ran-after-unsubscribe"
OPEN_AFTER_UNSUB = "open-after-unsubscribe"  # (c) a remaining clone reports open
AFTER_CLOSED = "delivery-after-closed"      # (a) is_closed() = true, then a leaf reachable AT THAT MOMENT receives
NOT_MONO = "closed-not-monotone"            # (b) true then false, nothing appended in between
VACUOUS = "delivery-after-vacuous-closed"   # (a, literal) true (all CURRENT children closed, cell still open),
#                                             then something is appended and receives
VACUOUS_MONO = "closed-not-monotone-after-append"  # (b, literal) same cause
SPLIT = "clones-disagree"


def oracle(case, lines):
    members = {0: [], 1: []}
    gone = {}            # composite -> "unsub" | "late"
    must_dead = {}       # leaf -> kind to report if it receives
    dead_tasks = {}      # tag -> kind to report if it runs
    ran = set()
    vac, vac_tasks = set(), set()
    answered = set()     # composites that were reachable from a term that answered closed=1 while still open
    closed_true = {}     # term text -> event of the first `true`
    open_appends = []    # (event, composite) appends accepted by an open composite
    guards = []

    def do_unsub(t):
        leaves, cells, tasks = closure(t, members)
        for i in leaves:
            must_dead.setdefault(i, AFTER_UNSUB)
        for tag in tasks:
            if tag not in ran:
                dead_tasks.setdefault(tag, TASK_AFTER_UNSUB)
        for c in cells:
            gone.setdefault(c, "unsub")
            members[c] = []

    for k, e in enumerate(case.events):
        b = lines.get(k)
        if b is None:
            continue
        if b == "PANIC":
            return {"kind": "panic", "event": k, "detail": "implementation panicked"}
        op = e[0]
        if op == "append":
            j, t = int(e[1]), e[2]
            if j in gone:
                leaves, cells, tasks = closure(t, members)
                for i in leaves:
                    must_dead.setdefault(i, LATE)
                for tag in tasks:
                    if tag not in ran:
                        dead_tasks.setdefault(tag, LATE_TASK)
                for c in cells:
                    gone.setdefault(c, "late")
                    members[c] = []
            else:
                members[j].append(("sub", t))
                open_appends.append((k, j))
                if j in answered:
                    leaves, _, tasks = closure(t, members)
                    vac.update(i for i in leaves if i not in must_dead)
                    vac_tasks.update(x for x in tasks if x not in ran)
        elif op == "appendtask":
            j, tag = int(e[1]), int(e[2])
            if j in gone:
                dead_tasks.setdefault(tag, LATE_TASK)
            else:
                members[j].append(("task", tag))
                open_appends.append((k, j))
                if j in answered:
                    vac_tasks.add(tag)
        elif op == "unsub":
            do_unsub(e[1])
        elif op == "unsubreapp":
            # the composite is unsubscribed; the entry appended first re-appends <term> during the teardown:
            # a late addition, to be torn down like any other (property: "composites tear down late additions")
            do_unsub(M(int(e[1])))
            leaves, cells, tasks = closure(e[2], members)
            for i in leaves:
                must_dead.setdefault(i, LATE)
            for tag in tasks:
                if tag not in ran:
                    dead_tasks.setdefault(tag, LATE_TASK)
            for c in cells:
                gone.setdefault(c, "late")
                members[c] = []
        elif op == "guard":
            guards.append(e[1])
        elif op == "dropguard":
            g = int(e[1])
            if g < len(guards) and guards[g] is not None:
                do_unsub(guards[g])
                guards[g] = None
        elif op == "closed":
            t = e[1]
            text = sx.show(t)
            if b == "closed=split":
                return {"kind": SPLIT, "event": k, "detail": "the clones of one composite give different answers"}
            v = b == "closed=1"
            direct = list(atoms(t))
            reasons = []
            must = True
            for a in direct:
                if a[0] == "l":
                    if must_dead.get(a[1]) in (AFTER_UNSUB, LATE):
                        reasons.append(must_dead[a[1]])
                    else:
                        must = False
                elif a[1] in gone:
                    reasons.append(LATE if gone[a[1]] == "late" else AFTER_UNSUB)
                else:
                    must = False
            if must and not v:
                kind = LATE if LATE in reasons else OPEN_AFTER_UNSUB
                return {"kind": kind, "event": k,
                        "detail": f"{text} answers open although everything in it has been unsubscribed"
                                  + (" (one part by being appended to an unsubscribed composite)" if kind == LATE else "")}
            if v:
                leaves, cells, tasks = closure(t, members)
                for i in leaves:
                    must_dead.setdefault(i, AFTER_CLOSED)
                for tag in tasks:
                    if tag not in ran:
                        dead_tasks.setdefault(tag, AFTER_CLOSED)
                answered.update(c for c in cells if c not in gone)
                closed_true.setdefault(text, k)
            elif text in closed_true:
                k0 = closed_true[text]
                _, cells, _ = closure(t, members)
                kind = VACUOUS_MONO if any(k1 > k0 and c in cells for k1, c in open_appends) else NOT_MONO
                return {"kind": kind, "event": k,
                        "detail": f"{text} answered closed at event {k0} and open at event {k}"}
        elif op in ("emit", "run") and (b.startswith("d=") or b.startswith("t=")):
            table, vset = (must_dead, vac) if op == "emit" else (dead_tasks, vac_tasks)
            for x in parse_deliveries(b):
                if x in table:
                    return {"kind": table[x], "event": k,
                            "detail": f"{'leaf' if op == 'emit' else 'task'} {x} "
                                      f"{'received' if op == 'emit' else 'ran'}: {b}"}
                if x in vset:
                    return {"kind": VACUOUS, "event": k,
                            "detail": f"{'leaf' if op == 'emit' else 'task'} {x} was appended to a composite after "
                                      f"that composite had answered is_closed() = true, and "
                                      f"{'received' if op == 'emit' else 'ran'}: {b}"}
            if op == "run":
                ran.update(parse_deliveries(b))
    return None


def nontrivial(case, lines):
    vals = set(lines.values())
    return ("closed=0" in vals and "closed=1" in vals) or any(
        (b.startswith("d=") or b.startswith("t=")) and len(b) > 2 for b in vals)


# -------------------------------------------------------------------- shrinking
def subterms(t):
    if isinstance(t, list) and t[0] in ("zip", "box"):
        for x in t[1:]:
            yield x
            yield from subterms(x)


def shrink_candidates(case):
    cands = []
    for i in range(len(case.events) - 1, -1, -1):
        c = case.copy()
        del c.events[i]
        # guard slots are positional: dropping a `guard` renumbers the later ones
        if case.events[i][0] == "guard":
            g = sum(1 for e in case.events[:i] if e[0] == "guard")
            evs = []
            for e in c.events:
                if e[0] == "dropguard" and int(e[1]) == g:
                    continue
                if e[0] == "dropguard" and int(e[1]) > g:
                    e = ["dropguard", str(int(e[1]) - 1)]
                evs.append(e)
            c.events = evs
        cands.append(c)
    for i, e in enumerate(case.events):
        if e[0] in ("append", "unsub", "closed", "guard", "unsubreapp"):
            pos = 2 if e[0] in ("append", "unsubreapp") else 1
            for s in subterms(e[pos]):
                # keep the structure acyclic: composite 0 never goes into a composite
                if e[0] in ("append", "unsubreapp") and any(a == ("m", 0) or (a == ("m", 1) and e[1] == "1") for a in atoms(s)):
                    continue
                c = case.copy()
                c.events[i][pos] = s
                cands.append(c)
    if case.flavor == "threads":
        c = case.copy()
        c.flavor = "local"
        cands.append(c)
    return cands
