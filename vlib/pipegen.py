"""Generators for the `pipe` suite: sources, single-input operators (with every
parameter from small ranges), two-input operators, event scripts."""
import itertools
import random

from . import sx
from .case import Case

ALPHA = [0, 1, 2, -1]
PREDS = ["even", "lt1", "gt0", "eq2", "ne0", "true", "false"]
FN1 = ["add1", "mul2", "mod2", "neg", "const5", "id"]
KEYS = ["mod2", "id", "const0", "neg"]
FNOPT = ["evenhalf", "gtadd1", "some", "none"]
FN2 = ["add", "mul", "max", "min", "left", "right", "count", "pair"]
FNE = ["add1", "neg", "const9", "id"]


def single_variants(maxn=4):
    """All (head, params...) prefixes of the single-input catalogue."""
    v = []
    v += [["map", f] for f in FN1]
    v += [["mapto", "7"]]
    v += [["filter", p] for p in PREDS]
    v += [["filtermap", f] for f in FNOPT]
    v += [["tap"]]
    v += [["onerrmap", f] for f in FNE]
    for n in range(maxn + 1):
        v += [["take", str(n)], ["skip", str(n)], ["takelast", str(n)], ["skiplast", str(n)],
              ["bufcount", str(n)], ["elementat", str(n)]]
    v += [["takewhile", p] for p in PREDS]
    v += [["takewhilei", p] for p in PREDS]
    v += [["skipwhile", p] for p in PREDS]
    v += [["last"], ["dflt", "9"], ["distinct"], ["duc"], ["pairwise"], ["collect"]]
    v += [["scan", f, "0"] for f in FN2] + [["scan", "add", "10"]]
    v += [["reduce", f, "0"] for f in FN2] + [["reduce", "mul", "1"]]
    v += [["distinctkey", k] for k in KEYS]
    v += [["dukc", k] for k in KEYS]
    v += [["contains", str(a)] for a in ALPHA]
    v += [["startwith", []], ["startwith", ["5"]], ["startwith", ["5", "6"]]]
    v += [["first"], ["firstor", "9"], ["lastor", "9"], ["ignore"]]
    v += [["all", p] for p in PREDS]
    v += [["sum"], ["count"], ["min"], ["max"], ["average"]]
    return v


# operators the harness can apply without a box in between (harness/src/pipe.rs MONO_OPS)
MONO_OPS = ["map", "mapto", "filter", "filtermap", "tap", "onerrmap", "take", "takewhile", "takewhilei", "skip",
            "skipwhile", "takelast", "skiplast", "last", "dflt", "scan", "distinct", "duc", "pairwise", "bufcount",
            "contains", "startwith", "first", "elementat", "ignore"]


def mono_variants():
    """two representative parameterisations per MONO operator (for the all-pairs enumeration)"""
    pick = {"map": [["map", "add1"], ["map", "mul2"]], "filter": [["filter", "even"], ["filter", "lt2"]],
            "filtermap": [["filtermap", "evenhalf"]], "onerrmap": [["onerrmap", "add1"]],
            "take": [["take", "1"], ["take", "2"]], "skip": [["skip", "1"], ["skip", "2"]],
            "takelast": [["takelast", "1"], ["takelast", "2"]], "skiplast": [["skiplast", "1"]],
            "takewhile": [["takewhile", "lt2"]], "takewhilei": [["takewhilei", "lt2"]],
            "skipwhile": [["skipwhile", "lt2"]], "scan": [["scan", "add", "0"]],
            "bufcount": [["bufcount", "2"]], "contains": [["contains", "2"]],
            "startwith": [["startwith", ["5"]], ["startwith", ["6", "7"]]],
            "elementat": [["elementat", "1"]], "mapto": [["mapto", "7"]], "dflt": [["dflt", "9"]]}
    out = []
    for h in MONO_OPS:
        out += pick.get(h, [[h]])
    return out


TWO = ["merge", "zip", "combine", "withlatest", "takeuntil", "skipuntil", "sample", "buffer"]


def scripts(maxlen, alpha=ALPHA):
    for n in range(maxlen + 1):
        for xs in itertools.product(alpha, repeat=n):
            yield list(xs)


TERMS = [None, "c", ["e", "7"]]


def hot_events(i, xs, term, tail=()):
    evs = [["emit", str(i), sx.N(x)] for x in xs]
    if term is not None:
        evs.append(["emit", str(i), term])
    evs += [["emit", str(i), t] for t in tail]
    return evs


def case_hot(opv, xs, term, flavor="local", tail=()):
    pipe = opv + [["hot", "0"]]
    return Case("pipe", flavor, [("pipe", [pipe])], [["sub"]] + hot_events(0, xs, term, tail),
                {"kind": "depth1-hot", "op": opv[0]})


def case_cold(opv, xs, term, flavor="local"):
    """Cold source: iter (completes), or create with an arbitrary script."""
    if term == "c":
        src = ["iter"] + [str(x) for x in xs]
    else:
        src = ["create"] + [sx.N(x) for x in xs] + ([term] if term is not None else [])
    return Case("pipe", flavor, [("pipe", [opv + [src]])], [["sub"]],
                {"kind": "depth1-cold", "op": opv[0]})


def cold_sources(rng):
    v = rng.choice(ALPHA)
    return rng.choice([
        ["of", str(v)], ["ofsome", str(v)], ["ofnone"], ["ofok", str(v)], ["oferr", "3"],
        ["offn", str(v)], ["start", str(v)], ["iter"] + [str(rng.choice(ALPHA)) for _ in range(rng.randint(0, 4))],
        ["repeat", str(v), str(rng.randint(0, 3))], ["empty"], ["never"], ["throw", "4"],
        ["create"] + rand_script(rng, rng.randint(0, 4), malformed=rng.random() < 0.3),
    ])


def rand_script(rng, n, malformed=False):
    s = [sx.N(rng.choice(ALPHA)) for _ in range(n)]
    r = rng.random()
    if r < 0.4:
        s.append("c")
    elif r < 0.65:
        s.append(["e", str(rng.randint(1, 9))])
    if malformed:
        for _ in range(rng.randint(1, 3)):
            s.append(rng.choice([sx.N(rng.choice(ALPHA)), "c", ["e", "8"]]))
    return s


NUMERIC_HEADS = ("take", "skip", "takelast", "skiplast", "bufcount", "elementat")


def wide_variant(rng, variants, focus=None):
    """An operator variant with parameters from a WIDE range (thresholds, capacities and other magic numbers
    of an implementation lie outside the small exhaustive ranges)."""
    # no products over long scripts: the model's integers are unbounded, the harness' are i64 (documented
    # assumption "no overflow")
    variants = [v for v in variants if not (v[0] in ("scan", "reduce") and "mul" in v[1:])]
    pool = [v for v in variants if not focus or v[0] in focus] or variants
    v = list(rng.choice(pool))
    if v[0] in NUMERIC_HEADS:
        v[1] = str(rng.choice([0, 1, 2, 3, 5, 7, 8, 9, 12, 16, 17, 33]))
    elif v[0] == "contains":
        v[1] = str(rng.randint(-2, 13))
    return v


def wide_script(rng, n, alpha_hi=13):
    """Long scripts over a wide alphabet: many distinct values, runs of repeats, late repeats of early values."""
    xs = []
    for _ in range(n):
        r = rng.random()
        if xs and r < 0.2:
            xs.append(xs[-1])
        elif xs and r < 0.4:
            xs.append(rng.choice(xs))
        else:
            xs.append(rng.randint(-2, alpha_hi))
    return xs


def wide_cases(rng, variants, n, focus=None):
    """Depth-1 and depth-2 cases with wide parameters, long scripts (10..48 items) and a wide alphabet."""
    out = []
    for _ in range(n):
        opv = wide_variant(rng, variants, focus)
        xs = wide_script(rng, rng.choice([10, 14, 20, 33, 48]))
        term = rng.choice(TERMS)
        inner = None
        if rng.random() < 0.3:
            inner = wide_variant(rng, variants, None)
        flavor = "threads" if rng.random() < 0.25 else "local"
        if rng.random() < 0.5:
            src = ["hot", "0"]
            pipe = opv + [inner + [src] if inner else src]
            c = Case("pipe", flavor, [("pipe", [pipe])], [["sub"]] + hot_events(0, xs, term),
                     {"kind": "wide", "op": opv[0]})
        else:
            if term == "c":
                src = ["iter"] + [str(x) for x in xs]
            else:
                src = ["create"] + [sx.N(x) for x in xs] + ([term] if term is not None else [])
            pipe = opv + [inner + [src] if inner else src]
            c = Case("pipe", flavor, [("pipe", [pipe])], [["sub"]], {"kind": "wide", "op": opv[0]})
        out.append(c)
    return out


def rand_chain(rng, variants, depth, src):
    p = src
    for _ in range(depth):
        p = rng.choice(variants) + [p]
    return p


def rand_tree(rng, variants, depth, nhot, two=TWO, p_two=0.35, p_cold=0.25):
    """Random pipeline over hot inputs 0..nhot-1 and cold sources."""
    if depth <= 0 or rng.random() < 0.12:
        if rng.random() < p_cold:
            return cold_sources(rng)
        return ["hot", str(rng.randrange(nhot))]
    if rng.random() < p_two:
        k = rng.choice(two)
        d1 = rng.randint(0, depth - 1)
        d2 = rng.randint(0, depth - 1)
        return [k, rand_tree(rng, variants, d1, nhot, two, p_two, p_cold),
                rand_tree(rng, variants, d2, nhot, two, p_two, p_cold)]
    return rng.choice(variants) + [rand_tree(rng, variants, depth - 1, nhot, two, p_two, p_cold)]


def rand_events(rng, nhot, n, malformed=0.3, alpha=None, term_p=0.28):
    """Mostly valid multi-input timeline, with terminals anywhere; some malformed."""
    alpha = alpha or ALPHA
    evs = []
    done = set()
    for _ in range(n):
        i = rng.randrange(nhot)
        if i in done and rng.random() > malformed:
            live = [j for j in range(nhot) if j not in done]
            if not live:
                break
            i = rng.choice(live)
        r = rng.random()
        if r < 1 - term_p:
            evs.append(["emit", str(i), sx.N(rng.choice(alpha))])
        elif r < 1 - term_p * 3 / 7:
            evs.append(["emit", str(i), "c"]); done.add(i)
        else:
            evs.append(["emit", str(i), ["e", str(rng.randint(1, 9))]]); done.add(i)
    return evs


def heads(e, acc=None):
    """Operator heads occurring in a pipe expression."""
    acc = set() if acc is None else acc
    if isinstance(e, list) and e and isinstance(e[0], str):
        acc.add(e[0])
        for x in e[1:]:
            if isinstance(x, list):
                heads(x, acc)
    return acc


PIPE_HEADS = None


def pipe_heads(e):
    """Only heads that are pipeline nodes (not value/notification constructors)."""
    hs = heads(e)
    return {h for h in hs if h not in ("n", "e", "p", "l", "s", "o")}


# -------------------------------------------------------------- shrinking moves
SOURCES = {"hot", "of", "ofsome", "ofnone", "ofok", "oferr", "offn", "start", "iter", "iterl", "repeat",
           "empty", "never", "throw", "create"}


def child_indices(e):
    """Indices of the sub-pipelines of a node."""
    if not isinstance(e, list) or not e or e[0] in SOURCES:
        return []
    if e[0] in TWO:
        return [1, 2]
    if e[0] == "defer":
        return [1]
    return [len(e) - 1]


def sub_pipes(e):
    return [e[i] for i in child_indices(e)]


def replace_sub(e, path, new):
    if not path:
        return new
    e = list(e)
    e[path[0]] = replace_sub(e[path[0]], path[1:], new)
    return e


def pipe_positions(e, path=()):
    """All (path, node) of pipeline nodes."""
    out = [(path, e)]
    for i in child_indices(e):
        out += pipe_positions(e[i], path + (i,))
    return out


def shrink_candidates(case):
    """Smaller variants of a pipe case: drop an event, hoist a sub-pipeline."""
    cands = []
    # drop events (never the first `sub`)
    for i in range(len(case.events) - 1, -1, -1):
        if case.events[i] and case.events[i][0] == "sub":
            continue
        c = case.copy()
        del c.events[i]
        cands.append(c)
    pipe = case.field("pipe")[0]
    for path, node in pipe_positions(pipe):
        for sp in sub_pipes(node):
            c = case.copy()
            c.set_field("pipe", [replace_sub(pipe, list(path), sp)])
            cands.append(c)
    # cold sources / scripts: drop elements
    for path, node in pipe_positions(pipe):
        if isinstance(node, list) and node and node[0] in ("iter", "iterl", "create") and len(node) > 1:
            for j in range(len(node) - 1, 0, -1):
                c = case.copy()
                c.set_field("pipe", [replace_sub(pipe, list(path), node[:j] + node[j + 1:])])
                cands.append(c)
    return cands
