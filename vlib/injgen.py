"""Generator and oracle of suite `inject` (C06 / C10, SubjectThreads): one-preemption interleavings
`inj k A B` = "the first k critical sections of A, all of B, the rest of A", replayed on the real code
through hook H2 (harness/src/suites/inject_suite.rs) and on the step model
(lean/RxModel/Conc/SubjectSteps.lean, driver Driver/SuiteInject.lean).

The oracle is evaluated on the implementation's lines only and knows nothing of observers / chamber /
slots: it tracks who subscribed, who left and whether the subject is done, from the script."""
import itertools
import random
import re

from .case import Case

# critical sections per operation as read from the lock traces (the generator only needs "how many")
SECTIONS = {"next": 2, "error": 2, "complete": 2, "unsuball": 2, "size": 2, "sub": 1, "unsub": 1, "retain": 1}
PREEMPTIBLE = [op for op, n in SECTIONS.items() if n > 1]


def ops_b(nsubs):
    """the second operation of a pair; `unsub u` for every existing subscriber (at least u = 0)"""
    out = [["next"], ["error", "7"], ["complete"], ["unsuball"], ["sub"], ["retain"], ["size"]]
    out += [["unsub", str(u)] for u in range(max(1, nsubs))]
    return out


def ops_a():
    return [["next"], ["error", "8"], ["complete"], ["unsuball"], ["size"]]


PREFIX_ALPHA = [["next"], ["unsub", "0"], ["unsub", "1"], ["retain"], ["sub"], ["size"], ["error", "9"],
                ["complete"], ["unsuball"]]
TAILS = [[["size"], ["next"]], [["next"], ["size"]]]


def number(events):
    """give every `next` a distinct value: plain = 10*(index+1); inside `inj`: A = …+1, B = …+2"""
    out = []
    for k, ev in enumerate(events):
        ev = list(ev)
        if ev[0] == "next" and len(ev) == 1:
            ev.append(str(10 * (k + 1)))
        elif ev[0] == "inj":
            a, b = list(ev[2]), list(ev[3])
            if a[0] == "next" and len(a) == 1:
                a.append(str(10 * (k + 1) + 1))
            if b[0] == "next" and len(b) == 1:
                b.append(str(10 * (k + 1) + 2))
            ev = ["inj", ev[1], a, b]
        out.append(ev)
    return out


def mk(events, kind):
    return Case("inject", "threads", [], number(events), {"kind": kind})


def nsub_of(events):
    return sum(1 for e in events if e[0] == "sub")


def exhaustive(maxprefix):
    """0–3 subscribers, a prefix of 0..maxprefix plain operations (at most 3 subscribers in all), one
    `inj k A B` for every preemptible A, every k in 1..sections(A)-1 and every B, then an aftermath."""
    out = []
    for n0 in range(4):
        base = [["sub"]] * n0
        for L in range(maxprefix + 1):
            for pre in itertools.product(PREFIX_ALPHA, repeat=L):
                ev0 = base + [list(p) for p in pre]
                ns = nsub_of(ev0)
                if ns > 3:
                    continue
                if any(p[0] == "unsub" and int(p[1]) >= max(1, ns) for p in pre):
                    continue
                for a in ops_a():
                    for k in range(1, SECTIONS[a[0]]):
                        for b in ops_b(ns):
                            for tail in TAILS:
                                out.append(mk(ev0 + [["inj", str(k), a, b]] + tail, "inject-exhaustive"))
    return out


def rand_op(rng, nsubs, preemptible=False):
    if preemptible:
        return list(rng.choice(ops_a()))
    r = rng.random()
    if r < 0.30:
        return ["next"]
    if r < 0.45:
        return ["sub"]
    if r < 0.60:
        return ["unsub", str(rng.randint(0, max(0, nsubs)))]
    if r < 0.70:
        return ["retain"]
    if r < 0.82:
        return ["size"]
    if r < 0.88:
        return ["error", str(rng.randint(1, 9))]
    if r < 0.94:
        return ["complete"]
    return ["unsuball"]


def rand_case(rng):
    evs, ns = [], 0
    late_done = rng.random() < 0.7      # keep most histories alive for a while
    for _ in range(rng.randint(6, 20)):
        if rng.random() < 0.4:
            a = rand_op(rng, ns, preemptible=rng.random() < 0.85)
            b = rand_op(rng, ns)
            if late_done and len(evs) < 8:
                if a[0] in ("error", "complete", "unsuball"):
                    a = ["next"]
                if b[0] in ("error", "complete", "unsuball"):
                    b = ["retain"]
            k = rng.choice([1, 1, 1, 1, 2])
            evs.append(["inj", str(k), a, b])
            ns += (a[0] == "sub") + (b[0] == "sub")
        else:
            op = rand_op(rng, ns)
            if late_done and len(evs) < 8 and op[0] in ("error", "complete", "unsuball"):
                op = ["next"]
            evs.append(op)
            ns += op[0] == "sub"
    return mk(evs, "inject-random")


def cases(tier, seed):
    rng = random.Random(seed + 606)
    out = exhaustive(2 if tier == "quick" else 3)
    for _ in range(3000 if tier == "quick" else 30000):
        out.append(rand_case(rng))
    return out


# ---- output parsing ------------------------------------------------------------
LINE = re.compile(r"^o=(\S*)((?: (?:len|empty)=\d+)*)(?: inj=([01]))?$")


def parse_line(body):
    """-> None | 'PANIC' | 'HANG' | {"bad": …} | {"o": [(u, notif)], "sizes": [("len", n) | ("empty", b)], "inj": 0|1|None}"""
    if body is None:
        return None
    if body.startswith("PANIC"):
        return "PANIC"
    if body.startswith("HANG"):
        return "HANG"
    m = LINE.match(body)
    if not m:
        return {"bad": body}
    ds = []
    if m.group(1):
        for part in m.group(1).split(";"):
            u, _, n = part.partition(":")
            ds.append((int(u), n))
    sizes = []
    for tok in m.group(2).split():
        k, _, v = tok.partition("=")
        sizes.append((k, int(v)))
    return {"o": ds, "sizes": sizes, "inj": None if m.group(3) is None else int(m.group(3))}


def item_of(op):
    return f"N{op[1]}" if op[0] == "next" else None


def term_of(op):
    return "C" if op[0] == "complete" else (f"E{op[1]}" if op[0] == "error" else None)


def oracle(case, lines):
    """Property C06 (+ no panic / no hang: C10) on the implementation's own output.

    Clauses (only what the statement of C06 certainly implies):
      1  no PANIC, no HANG
      2  only existing subscribers are called; per subscriber: items, then at most one terminal, then nothing
      3  no (subscriber, item) pair twice (every `next` of a case carries its own value)
      4  nothing to u in events after the one in which `unsub u` ran; nothing to anybody in events after one
         in which a terminal or `unsuball` ran; a subscriber created after that is never called
      5  a plain `next` / terminal reaches exactly the current subscribers, in subscription order
      6  an item of `inj k A B` (A or B = next): receivers ⊆ subscribers current before the event ∪ the one
         subscribed by the event; ⊇ the current ones when neither A nor B is a terminal / unsuball / unsub
         (with `unsub u`: all current ones but u); each receiver once
      7  a terminal in `inj` with no `unsuball` in the pair: every current subscriber (but an `unsub u` of the
         pair) gets exactly one terminal — one of the pair's
      8  plain `size`: empty = (len = 0); len >= number of current subscribers; after done: len = 0
    Left out on purpose: which of two racing items comes first; whether an item racing with a terminal /
    `unsuball` / `unsub u` / `sub` of the same event is still delivered to the subscriber concerned; the
    `len` / `is_empty` answers of a `size` that is half of an `inj` (they are two separate reads)."""
    live, done, created = [], False, 0
    got_term, seen, left = set(), set(), set()
    for k, ev in enumerate(case.events):
        got = parse_line(lines.get(k))
        if got is None:
            return {"kind": "missing-line", "event": k, "detail": "no output for the event"}
        if got in ("PANIC", "HANG"):
            return {"kind": "panic" if got == "PANIC" else "hang", "event": k, "detail": f"{got} at {ev}"}
        if "bad" in got:
            return {"kind": "bad-line", "event": k, "detail": got["bad"]}
        ds = got["o"]
        if ev[0] == "inj":
            ran_b = got["inj"] == 1
            pair = [ev[2]] + ([ev[3]] if ran_b else [])
        else:
            pair = [ev]
        new_subs = sum(1 for op in pair if op[0] == "sub")
        # 2, 3, 4 ----------------------------------------------------------------
        for u, n in ds:
            if u >= created + new_subs:
                return {"kind": "unknown-subscriber", "event": k, "detail": f"{u} called with {n}, {created + new_subs} exist"}
            if u in got_term:
                return {"kind": "after-terminal", "event": k, "detail": f"{u} got {n} after its terminal"}
            if (u, n) in seen:
                return {"kind": "duplicate-delivery", "event": k, "detail": f"{u} got {n} twice"}
            seen.add((u, n))
            if n[0] in "EC":
                got_term.add(u)
            if u in left:
                return {"kind": "after-unsubscribe", "event": k, "detail": f"{u} got {n} after unsub {u} had returned"}
            if done:
                return {"kind": "after-done", "event": k, "detail": f"{u} got {n} after a terminal / unsubscribe()"}
            if u < created and u not in live:
                return {"kind": "not-current", "event": k, "detail": f"{u} got {n} but is not a current subscriber"}
        unsubs = {int(op[1]) for op in pair if op[0] == "unsub"}
        terms = [term_of(op) for op in pair if term_of(op)]
        kills = any(op[0] == "unsuball" for op in pair)
        items = [item_of(op) for op in pair if item_of(op)]
        if not done:
            steady = [u for u in live if u not in unsubs]
            if len(pair) == 1:
                # 5 ----------------------------------------------------------------
                exp = [(u, items[0]) for u in live] if items else ([(u, terms[0]) for u in live] if terms else [])
                if ds != exp:
                    return {"kind": "wrong-receivers", "event": k, "detail": f"got={ds} expected={exp}"}
            else:
                # 6 ----------------------------------------------------------------
                if not terms and not kills:
                    for it in items:
                        rec = [u for u, n in ds if n == it]
                        miss = [u for u in steady if u not in rec]
                        if miss:
                            return {"kind": "item-lost", "event": k,
                                    "detail": f"{it} not delivered to current subscribers {miss}: {ds}"}
                # 7 ----------------------------------------------------------------
                if terms and not kills:
                    for u in steady:
                        t = [n for v, n in ds if v == u and n[0] in "EC"]
                        if len(t) != 1 or t[0] not in terms:
                            return {"kind": "terminal-lost", "event": k,
                                    "detail": f"subscriber {u} got terminals {t}, the pair emits {terms}: {ds}"}
        # 8 ------------------------------------------------------------------------
        if len(pair) == 1 and ev[0] == "size":
            sz = dict(got["sizes"])
            if "len" not in sz or "empty" not in sz:
                return {"kind": "bad-line", "event": k, "detail": lines.get(k)}
            if (sz["empty"] == 1) != (sz["len"] == 0):
                return {"kind": "size-bookkeeping", "event": k, "detail": f"len={sz['len']} empty={sz['empty']}"}
            if done and sz["len"] != 0:
                return {"kind": "not-empty-after-done", "event": k, "detail": f"len={sz['len']}"}
            if not done and sz["len"] < len(live):
                return {"kind": "size-bookkeeping", "event": k, "detail": f"len={sz['len']} live={live}"}
        # the state after the event ---------------------------------------------------
        for op in pair:
            if op[0] == "sub":
                # subscribed to a finished subject, or racing with its end: never current afterwards
                if not done and not terms and not kills:
                    live.append(created)
                created += 1
        for u in unsubs:
            if u < created:
                left.add(u)
                if u in live:
                    live.remove(u)
        if terms or kills:
            done, live = True, []
    return None


def nontrivial(case, lines):
    return any(b.startswith("o=") and len(b.split(" ")[0]) > 2 for b in lines.values())


def signature(case, failure):
    return f"{failure['kind']}|inject|threads"


def shrink_candidates(case):
    out = []
    n = len(case.events)
    for cut in (n // 2, n - 1):
        if 0 < cut < n:
            c = case.copy()
            c.events = c.events[:cut]
            out.append(c)
    for i in range(n - 1, -1, -1):
        c = case.copy()
        del c.events[i]
        out.append(c)
    for i, ev in enumerate(case.events):
        if ev[0] == "inj":
            for op in (ev[2], ev[3]):       # the pair replaced by one of its halves
                c = case.copy()
                c.events[i] = list(op)
                out.append(c)
    return out
