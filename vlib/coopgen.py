"""Generator and oracle of suite `coop` (C02, offered to C10 / C19): deterministic two-thread executions of
the real thread-safe pipelines at lock granularity (harness/src/suites/coop_suite.rs) against the step model
lean/RxModel/Conc/TimeSteps.lean (driver Driver/SuiteCoop.lean).

    ev par <k> (<eventA…>) (<eventB…>)
        A and B on two OS threads; A has priority until it ARRIVES at its (k+1)-th lock acquisition, then B
        has; whoever is blocked (its cell is held by the other) lets the other run.

The oracle reads the implementation's lines only: nothing is delivered after the marker `R` (= the moment
`unsubscribe()` returned), neither later in the same event nor in any later event; no PANIC / DEADLOCK / HANG."""
import random
import re

from .case import Case

# operator configurations: (pipe description, characteristic duration used by the prefixes)
OPS = [
    (["debounce", "3"], 3),
    (["debounce", "0"], 0),
    (["throttle", "3", "l"], 3),
    (["throttle", "3", "t"], 3),
    (["throttle", "3", "a"], 3),
    (["throttle", "0", "a"], 0),
    (["delay", "2"], 2),
    (["delay", "0"], 0),
    (["observeon"], 0),
    (["buftime", "3"], 3),
    (["bufcounttime", "2", "3"], 3),
]

# the pipelines the Lean step model covers (everything else: implementation + oracle only)
MODELLED_HEADS = ("debounce", "throttle", "delay", "observeon")


def modelled(case):
    pipe = case.field("pipe")[0]
    return (isinstance(pipe, list) and pipe[0] in MODELLED_HEADS and pipe[-1] == ["hot", "0"]
            and case.field("unit") is None and case.field("pyield") is None)


def E(v):
    return ["emit", "0", ["n", str(v)]]


def prefixes(d):
    D = str(max(d, 1))
    return [
        [],
        [E(1)],
        [E(1), E(2)],
        [E(1), ["run"]],                                    # timer armed, task pending
        [E(1), ["run"], ["adv", D], ["fire", "0"]],         # timer fired, the task would deliver when polled
        [E(1), ["run"], ["adv", D], ["run"]],               # delivered, window over
        [E(1), ["run"], ["adv", D], ["fire", "0"], E(2)],   # a ready task and a fresh one
        [E(1), E(2), ["run"], ["adv", D], ["fire", "0"], ["fire", "0"]],
    ]


# (operation of thread A, an upper bound of the number of its yield points)
OPS_A = [(E(7), 12), (["emit", "0", "c"], 14), (["emit", "0", ["e", "5"]], 12), (["poll", "0"], 5), (["run"], 8),
         (["poll", "1"], 5)]
OPS_B = [["unsub"], E(8)]
# the unsubscribing thread preempted by an emitter / the executor
OPS_A2 = [(["unsub"], 6)]
OPS_B2 = [E(8), ["poll", "0"], ["run"], ["emit", "0", "c"]]

TAIL = [["adv", "20"], ["run"], E(99), ["adv", "20"], ["run"]]


def mk(pipe, events, kind):
    return Case("coop", "threads", [("pipe", [pipe])], [["sub"]] + events, {"kind": kind})


def exhaustive(tier):
    out = []
    for opv, d in OPS:
        pipe = opv + [["hot", "0"]]
        for pre in prefixes(d):
            for pairs_a, pairs_b in ((OPS_A, OPS_B), (OPS_A2, OPS_B2)):
                for a, kmax in pairs_a:
                    for b in pairs_b:
                        for k in range(kmax + 1):
                            out.append(mk(pipe, pre + [["par", str(k), a, b]] + TAIL, "coop-exhaustive"))
    return out


def rand_case(rng):
    opv, d = rng.choice(OPS)
    pipe = opv + [["hot", "0"]]
    if rng.random() < 0.3:
        # a second stage (implementation + oracle only)
        o2, _ = rng.choice(OPS)
        pipe = rng.choice([o2 + [pipe], ["map", "add1", pipe], ["take", "2", pipe]])
    evs, nxt = [], 1
    for _ in range(rng.randint(1, 8)):
        r = rng.random()
        if r < 0.3:
            evs.append(E(nxt))
            nxt += 1
        elif r < 0.45:
            evs.append(["adv", str(rng.choice([0, 1, 2, 3, 5]))])
        elif r < 0.55:
            evs.append(["fire", str(rng.randint(0, 1))])
        elif r < 0.65:
            evs.append(["poll", str(rng.randint(0, 2))])
        elif r < 0.75:
            evs.append(["run"])
        else:
            a = rng.choice([E(nxt), E(nxt), ["emit", "0", "c"], ["emit", "0", ["e", "5"]], ["poll", str(rng.randint(0, 1))],
                            ["run"], ["unsub"]])
            b = rng.choice([["unsub"], E(nxt + 1), ["poll", "0"], ["run"]])
            nxt += 2
            evs.append(["par", str(rng.randint(0, 12)), a, b])
    if not any(e[0] == "unsub" or (e[0] == "par" and (e[2][0] == "unsub" or e[3][0] == "unsub")) for e in evs):
        evs.append(["par", str(rng.randint(0, 12)), E(nxt), ["unsub"]])
    return mk(pipe, evs + TAIL, "coop-random")


# ---- synchronous thread-safe operators (implementation + oracle only: no step model) -----------------
TWO = ["merge", "zip", "combine", "withlatest", "takeuntil", "skipuntil", "sample", "buffer"]
WRAP = [[], ["take", "2"], ["map", "add1"], ["fin"], ["filter", "even"], ["scan", "add", "0"]]


def sync_cases(tier, seed):
    """Every thread-safe two-input combinator (optionally under / above take, map, finalize_threads, …) over
    two hot SubjectThreads: two emitters on the two inputs, an emitter against unsubscribe(), a terminal against
    an item / a terminal / unsubscribe() — each for EVERY preemption point of the first thread.  Oracle: no
    PANIC / DEADLOCK / HANG, nothing after unsubscribe() returned, the global delivery order is items* terminal?."""
    rng = random.Random(seed + 2010)
    out = []

    def em(i, n):
        return ["emit", str(i), n]
    items = [["n", "1"], ["n", "2"]]
    for two in TWO:
        for inner in WRAP[:4]:
            for outer in (WRAP if tier != "quick" else WRAP[:4]):
                a_src = (inner + [["hot", "0"]]) if inner else ["hot", "0"]
                pipe = [two, a_src, ["hot", "1"]]
                if outer:
                    pipe = outer + [pipe]
                pres = [[], [em(0, ["n", "5"])], [em(1, ["n", "6"])], [em(0, ["n", "5"]), em(1, ["n", "6"])]]
                pairs = [(em(0, items[0]), em(1, items[1])), (em(0, items[0]), ["unsub"]), (em(1, items[1]), ["unsub"]),
                         (em(0, "c"), em(1, items[1])), (em(0, ["e", "3"]), em(1, "c")), (em(0, "c"), ["unsub"]),
                         (em(1, ["e", "3"]), ["unsub"]), (["unsub"], em(0, items[0])), (em(1, "c"), em(0, "c")),
                         (em(0, items[0]), em(1, ["e", "3"])), (em(1, ["e", "3"]), em(0, items[0]))]
                for pre in (pres if tier != "quick" else [pres[rng.randrange(4)], pres[3]]):
                    for a, b in pairs:
                        for k in range(0, 9):
                            tail = [em(0, ["n", "8"]), em(1, ["n", "9"]), em(0, "c"), em(1, "c")]
                            out.append(mk(pipe, pre + [["par", str(k), a, b]] + tail, "coop-sync"))
    # finalize_threads alone and stacked: delivery of a terminal against unsubscribe()
    for pipe in (["fin", ["hot", "0"]], ["fin", ["fin", ["hot", "0"]]], ["fin", ["take", "1", ["fin", ["hot", "0"]]]],
                 ["take", "1", ["fin", ["hot", "0"]]]):
        for pre in ([], [em(0, ["n", "5"])]):
            for a, b in ((em(0, "c"), ["unsub"]), (em(0, ["e", "3"]), ["unsub"]), (["unsub"], em(0, "c")),
                         (em(0, ["n", "1"]), ["unsub"]), (["unsub"], em(0, ["n", "1"]))):
                for k in range(0, 9):
                    out.append(mk(pipe, pre + [["par", str(k), a, b], em(0, ["n", "8"]), em(0, "c")], "coop-sync"))
    # every other case: the subscriber's callback is itself a yield point (field `pyield`), so the second thread
    # can run while the first is INSIDE the downstream call (a cell released around that call shows here)
    for i, c in enumerate(out):
        if i % 2:
            c.fields = [("pyield", ["1"])] + c.fields
    return out


def has_time_op(case):
    hs = set()

    def walk(e):
        if isinstance(e, list) and e and isinstance(e[0], str):
            hs.add(e[0])
            for x in e[1:]:
                walk(x)
    walk(case.field("pipe")[0])
    return bool(hs & {"debounce", "throttle", "delay", "observeon", "buftime", "bufcounttime", "subscribeon",
                      "delaysub"})


FORWARD_ERR = {"merge": (0, 1), "zip": (0, 1), "combine": (0, 1), "withlatest": (0, 1), "sample": (0, 1),
               "buffer": (0, 1), "takeuntil": (0,), "skipuntil": (0,)}
TRANSPARENT = ("map", "filter", "scan", "fin")


def error_inputs(pipe):
    """hot subjects whose error must reach the subscriber at once: inputs of a two-input combinator that
    forwards errors from that side, with nothing but error-transparent operators on the way"""
    node = pipe
    while isinstance(node, list) and node and node[0] in TRANSPARENT:
        node = node[-1]
    if not (isinstance(node, list) and node and node[0] in FORWARD_ERR):
        return set()
    out = set()
    for side in FORWARD_ERR[node[0]]:
        x = node[1 + side]
        while isinstance(x, list) and x and x[0] in TRANSPARENT:
            x = x[-1]
        if isinstance(x, list) and x and x[0] == "hot":
            out.add(x[1])
    return out


def sync_oracle(case, lines):
    f = oracle(case, lines, quiet=True)
    if f:
        return f
    # an error on a live input terminates the merged stream with that error (C04's clause, here with the two
    # inputs fed from two threads): once the event in which it was emitted is over, it has been delivered —
    # unless the stream had already terminated or been unsubscribed before that event
    errs = error_inputs(case.field("pipe")[0])
    ended = False
    dead_inputs = set()
    for k, ev in enumerate(case.events):
        got = parse_line(lines.get(k))
        if not got or "o" not in got:
            continue
        ops = [ev[2], ev[3]] if ev[0] == "par" else [ev]
        want = [o for o in ops if o[0] == "emit" and isinstance(o[2], list) and o[2][0] == "e"
                and o[1] in errs and o[1] not in dead_inputs]
        unsub_here = any(o[0] == "unsub" for o in ops)
        term_ops = [o for o in ops if o[0] == "emit" and (o[2] == "c" or (isinstance(o[2], list) and o[2][0] == "e"))]
        if want and not ended and not unsub_here and len(term_ops) == 1:
            # (another terminal delivered in the same event — e.g. the other input completing the stream through a
            # `take` — may legitimately have come first)
            if not any(x and x[0] in "EC" for x in got["o"]):
                return {"kind": "error-lost", "event": k,
                        "detail": f"input {want[0][1]} failed with {want[0][2][1]} in {ev}; delivered in that event: {got['o']}"}
        for o in term_ops:
            dead_inputs.add(o[1])
        if unsub_here or any(x and x[0] in "EC" for x in got["o"]):
            ended = True
    log = ""
    for k in range(len(case.events)):
        got = parse_line(lines.get(k))
        if not got or "o" not in got:
            continue
        for it in got["o"]:
            if it and it != "R":
                log += it[0]
                if not re.fullmatch(r"N*[EC]?", log):
                    return {"kind": "grammar", "event": k, "detail": f"global delivery order = {log}"}
    return None


# ---- rate limiters: the emitter against the window task (C09) ---------------------------------------
RATE_OPS = [(["throttle", "3", "l"], 3), (["throttle", "3", "t"], 3), (["throttle", "3", "a"], 3), (["throttle", "0", "a"], 0),
            (["throttle", "0", "t"], 0), (["debounce", "3"], 3), (["debounce", "0"], 0), (["buftime", "3"], 3),
            (["bufcounttime", "2", "3"], 3)]


# every task polled (its timer is armed by its FIRST poll), a long quiet period, everything run: nothing is pending then
TAIL_RATE = [["run"], ["adv", "20"], ["run"], E(99), ["run"], ["adv", "20"], ["run"]]


def rate_cases(tier):
    """ONE emitter (items 1, 2, 7, 99 in this order) against the executor on another OS thread: the emitter preempted
    at each of its lock acquisitions while the window / flush task is polled (and the other way round); no
    unsubscription, no terminal; then a long quiet period with everything run."""
    out = []
    for opv, d in RATE_OPS:
        pipe = opv + [["hot", "0"]]
        for pre in prefixes(d):
            for a, b, kmax in ((E(7), ["poll", "0"], 12), (E(7), ["run"], 12), (["poll", "0"], E(7), 6), (["run"], E(7), 8),
                               (E(7), ["poll", "1"], 12)):
                for k in range(kmax + 1):
                    out.append(mk(pipe, pre + [["par", str(k), a, b]] + TAIL_RATE, "coop-rate"))
    return out


def flat_items(tok):
    """N7 -> ['7'];  N(l 1 2) -> ['1','2']; terminals / R -> []"""
    if tok.startswith("N(l"):
        return tok[3:-1].split()
    if tok.startswith("N"):
        return [tok[1:]]
    return []


def rate_oracle(case, lines):
    """C09 on the implementation's output of a `coop-rate` case: only source items, each at most once, in source order;
    after the quiet period the trailing edge / debounce / the buffer has handed over the LAST item."""
    f = oracle(case, lines, quiet=False)
    if f:
        return f
    emitted, delivered, quiet_at = [], [], None
    for k, ev in enumerate(case.events):
        ops = [ev[2], ev[3]] if ev[0] == "par" else [ev]
        for o in ops:
            if o[0] == "emit" and isinstance(o[2], list) and o[2][0] == "n":
                emitted.append(o[2][1])
        got = parse_line(lines.get(k))
        if not got or "o" not in got:
            continue
        for tok in got["o"]:
            for it in flat_items(tok):
                if it not in emitted:
                    return {"kind": "invented-item", "event": k, "detail": f"{it} delivered, emitted so far {emitted}"}
                if it in delivered:
                    return {"kind": "duplicate-item", "event": k, "detail": f"{it} delivered twice ({lines.get(k)})"}
                if delivered and emitted.index(it) < emitted.index(delivered[-1]):
                    return {"kind": "reordered", "event": k,
                            "detail": f"{it} delivered after {delivered[-1]}; source order {emitted}"}
                delivered.append(it)
        # the quiet period: run (arms the timers), `adv 20`, run — with no emission in between
        if k > 1 and case.events[k - 2:k + 1] == [["run"], ["adv", "20"], ["run"]] and emitted:
            head = case.field("pipe")[0]
            trailing = head[0] in ("debounce", "buftime", "bufcounttime") or (head[0] == "throttle" and head[2] in ("t", "a"))
            if trailing and emitted[-1] not in delivered:
                return {"kind": "last-item-lost", "event": k,
                        "detail": f"emitted {emitted}, delivered {delivered} after a quiet period of 20 with every task run"}
    return None


def once_oracle(case, lines):
    """Only source items, each at most as often as it was emitted (C07S / C09S on the implementation), plus no PANIC /
    DEADLOCK / HANG."""
    f = oracle(case, lines, quiet=False)
    if f:
        return f
    if "map" in chain_heads(case.field("pipe")[0]):
        return None         # values are rewritten on the way: the comparison by value does not apply
    emitted, delivered = {}, {}
    for k, ev in enumerate(case.events):
        ops = [ev[2], ev[3]] if ev[0] == "par" else [ev]
        for o in ops:
            if o[0] == "emit" and isinstance(o[2], list) and o[2][0] == "n":
                emitted[o[2][1]] = emitted.get(o[2][1], 0) + 1
        got = parse_line(lines.get(k))
        if not got or "o" not in got:
            continue
        for tok in got["o"]:
            for it in flat_items(tok):
                delivered[it] = delivered.get(it, 0) + 1
                if delivered[it] > emitted.get(it, 0):
                    kind = "duplicate-item" if it in emitted else "invented-item"
                    return {"kind": kind, "event": k,
                            "detail": f"{it} delivered {delivered[it]} time(s), emitted {emitted.get(it, 0)} time(s) ({lines.get(k)})"}
    if case.meta.get("kind") == "coop-mover-pair" or (case.field("pyield") and not has_unsub(case)
                                                       and not any("c" in str(e) or "'e'" in str(e) for e in case.events)):
        # nobody unsubscribed, the source did not terminate, every task has been run after a long quiet period
        lost = [it for it, n in emitted.items() if delivered.get(it, 0) < n]
        if lost and chain_heads(case.field("pipe")[0]) and set(chain_heads(case.field("pipe")[0])) <= {"delay", "observeon"}:
            return {"kind": "lost-item", "event": len(case.events) - 1,
                    "detail": f"emitted {emitted}, delivered {delivered}: {lost} never arrived"}
    return None


def mover_pair_cases(tier):
    """delay / observe_on: TWO deliveries of one subscription on two executor threads (the pool has more than one worker),
    the subscriber's callback being a yield point (`pyield`): while one worker is inside the downstream call the other
    polls the next task.  No unsubscription, no terminal: every item must arrive, once (seed C07-10 took the observer out
    of the shared cell for the duration of the call: the second delivery found the cell empty)."""
    out = []
    for opv, d in ((["delay", "0"], 0), (["delay", "2"], 2), (["observeon"], 0)):
        pipe = opv + [["hot", "0"]]
        D = str(max(d, 1))
        arm = [["poll", "0"], ["poll", "1"], ["adv", D], ["fire", "0"], ["fire", "0"]] if opv[0] == "delay" else []
        for third in ([], [E(3)]):
            for a, b in ((["poll", "0"], ["poll", "1"]), (["poll", "1"], ["poll", "0"]), (["poll", "0"], ["run"]),
                         (["run"], ["poll", "0"])):
                for k in range(0, 9):
                    evs = [E(1), E(2)] + arm + third + [["par", str(k), a, b]] + TAIL_RATE
                    c = mk(pipe, evs, "coop-mover-pair")
                    c.fields = [("pyield", ["1"])] + c.fields
                    out.append(c)
    return out


def mover_cases(tier, seed):
    """the cases of this suite over delay / observe_on (C07S): exhaustive pairs + the random ones"""
    return [c for c in cases(tier, seed) if chain_heads(c.field("pipe")[0]) and
            set(chain_heads(c.field("pipe")[0])) <= {"delay", "observeon", "map", "take"}
            and set(chain_heads(c.field("pipe")[0])) & {"delay", "observeon"}]


def cases(tier, seed):
    rng = random.Random(seed + 2002)
    out = exhaustive(tier)
    for _ in range(3000 if tier == "quick" else 40000):
        out.append(rand_case(rng))
    return out


# ---- output parsing ------------------------------------------------------------
KEY = re.compile(r" (?=[A-Za-z]+=)")


def parse_line(body):
    """-> None | {"fail": kind} | {"o": [items], "kv": {...}}   (items: notifications and 'R')"""
    if body is None:
        return None
    for w in ("PANIC", "DEADLOCK", "HANG", "RELOCK"):
        if body.startswith(w):
            return {"fail": w.lower()}
    if not body.startswith("o="):
        return {"fail": "bad-line"}
    m = KEY.search(body)
    head, tail = (body[:m.start()], body[m.end():]) if m else (body, "")
    items = head[2:].split(";") if len(head) > 2 else []
    kv = {}
    for part in KEY.split(tail) if tail else []:
        k, _, v = part.partition("=")
        kv[k] = v
    return {"o": items, "kv": kv}


def has_unsub(case):
    return any(e[0] == "unsub" or (e[0] == "par" and (e[2][0] == "unsub" or e[3][0] == "unsub"))
               for e in case.events)


def oracle(case, lines, quiet=True):
    """C02 on the implementation's own output: once `unsubscribe()` has returned (marker R) the probe is
    never called again; plus no panic / deadlock / hang (C10).  `quiet=False`: only the latter."""
    returned = None
    for k, ev in enumerate(case.events):
        got = parse_line(lines.get(k))
        if got is None:
            if k == 0 or lines.get(k - 1) is None:
                continue
            return {"kind": "missing-line", "event": k, "detail": "no output for the event"}
        if "fail" in got:
            return {"kind": got["fail"], "event": k, "detail": f"{lines.get(k)} at {ev}"}
        for it in got["o"]:
            if it == "R":
                returned = k
            elif returned is not None and quiet:
                return {"kind": "delivery-after-unsubscribe", "event": k,
                        "detail": f"{it} delivered in event {k} ({lines.get(k)}); unsubscribe() had returned in event {returned}"}
    return None


def nontrivial(case, lines):
    return any((parse_line(b) or {}).get("o") not in (None, [], ["R"]) for b in lines.values())


def chain_heads(pipe):
    hs, node = [], pipe
    while isinstance(node, list) and node:
        hs.append(node[0])
        node = node[-1] if isinstance(node[-1], list) else None
    return [h for h in hs if h != "hot"]


def signature(case, failure):
    return f"{failure['kind']}|coop|{','.join(sorted(set(chain_heads(case.field('pipe')[0]))))}"


def shrink_candidates(case):
    out = []
    n = len(case.events)
    # drop one event (never `sub`)
    for i in range(n - 1, 0, -1):
        c = case.copy()
        del c.events[i]
        out.append(c)
    for i, ev in enumerate(case.events):
        if ev[0] != "par":
            continue
        k = int(ev[1])
        # a smaller preemption point
        for k2 in sorted({0, k // 2, k - 1}):
            if 0 <= k2 < k:
                c = case.copy()
                c.events[i] = ["par", str(k2), ev[2], ev[3]]
                out.append(c)
        # the pair run one after the other
        for seq in ([ev[2], ev[3]], [ev[3], ev[2]]):
            c = case.copy()
            c.events[i:i + 1] = [list(x) for x in seq]
            out.append(c)
    # hoist the inner pipeline over one stage
    pipe = case.field("pipe")[0]
    if isinstance(pipe, list) and isinstance(pipe[-1], list) and pipe[-1][0] != "hot":
        c = case.copy()
        c.set_field("pipe", [pipe[-1]])
        out.append(c)
        c = case.copy()
        c.set_field("pipe", [pipe[:-1] + [pipe[-1][-1]]])
        out.append(c)
    return [c for c in out if has_unsub(c)]
