"""Generators for the `time` suite: linear pipelines with scheduler-using
operators on the virtual clock, and event scripts over emit / adv / fire / poll / run / unsub."""
import random

from . import sx
from .case import Case

DELAYS = [0, 1, 2, 5, 10]
PERIODS = [1, 3, 5, 10]

TIME_OPS = {
    "delay": lambda r: ["delay", str(r.choice(DELAYS))],
    "observeon": lambda r: ["observeon"],
    "subscribeon": lambda r: ["subscribeon"],
    "delaysub": lambda r: ["delaysub", str(r.choice(DELAYS))],
    "debounce": lambda r: ["debounce", str(r.choice([1, 3, 5]))],
    "throttle": lambda r: ["throttle", str(r.choice([1, 3, 5])), r.choice(["l", "t", "a"])],
    "buftime": lambda r: ["buftime", str(r.choice([2, 3, 5]))],
    "bufcounttime": lambda r: ["bufcounttime", str(r.randint(1, 3)), str(r.choice([2, 3, 5]))],
}

SYNC_OPS = [["map", "add1"], ["filter", "even"], ["take", "1"], ["take", "2"], ["take", "3"],
            ["skip", "1"], ["first"], ["last"], ["takewhile", "lt3"], ["bufcount", "2"], ["tap"],
            ["scan", "add", "0"], ["distinct"], ["contains", "2"], ["elementat", "1"], ["all", "lt2"]]


def chain(rng, src, ops, depth, p_sync=0.3):
    p = src
    for _ in range(depth):
        if rng.random() < p_sync:
            p = rng.choice(SYNC_OPS) + [p]
        else:
            p = TIME_OPS[rng.choice(ops)](rng) + [p]
    return p


def sources(rng, kinds):
    k = rng.choice(kinds)
    if k == "hot":
        return ["hot", "0"]
    if k == "interval":
        return ["interval", str(rng.choice(PERIODS))]
    if k == "intervalat":
        return ["intervalat", str(rng.choice([0, 2, 5, 12])), str(rng.choice(PERIODS))]
    if k == "timer":
        return ["timer", str(rng.randint(1, 9)), str(rng.choice(DELAYS))]
    if k == "timerat":
        return ["timerat", str(rng.randint(1, 9)), str(rng.choice(DELAYS))]
    if k == "iter":
        return ["iter"] + [str(i + 1) for i in range(rng.randint(0, 4))]
    if k == "create":
        n = rng.randint(0, 3)
        return ["create"] + [sx.N(i + 1) for i in range(n)] + rng.choice([[], ["c"], [["e", "4"]]])
    raise ValueError(k)


def events(rng, n, hot=True, mode="mixed", unsub_p=0.0, term_p=0.15):
    """mode: 'fifo' (every step followed by run), 'mixed' (fire/poll/run interleaved)."""
    evs = [["sub"]]
    if mode == "fifo":
        evs.append(["run"])
    nxt = 1
    done = False
    for _ in range(n):
        r = rng.random()
        if unsub_p and rng.random() < unsub_p:
            evs.append(["unsub"])
            unsub_p = 0
            continue
        if hot and r < 0.35 and not done:
            if rng.random() < term_p:
                evs.append(["emit", "0", rng.choice(["c", ["e", "7"]])])
                done = True
            else:
                evs.append(["emit", "0", sx.N(nxt)])
                nxt += 1
        elif hot and r < 0.4:
            # post-terminal / extra event
            evs.append(["emit", "0", rng.choice([sx.N(nxt), "c"])])
            nxt += 1
        elif r < 0.65:
            evs.append(["adv", str(rng.choice([0, 1, 1, 2, 3, 5, 10]))])
        elif mode == "mixed" and r < 0.78:
            evs.append(["fire", str(rng.randint(0, 2))])
        elif mode == "mixed" and r < 0.92:
            evs.append(["poll", str(rng.randint(0, 3))])
        else:
            evs.append(["run"])
        if mode == "fifo" and evs[-1][0] != "run":
            evs.append(["run"])
    return evs


def parse_suffix(body):
    """`o=N1;N(l 1 2);C live=2 tm=3 t=10` -> (['N1','N(l 1 2)','C'], {'live':2,'tm':3,'t':10})"""
    import re
    i = body.find(" L=")
    if i >= 0:
        body = body[:i]
    m = re.search(r" (?=[a-z]+=)", body)
    head, tail = (body[:m.start()], body[m.end():]) if m else (body, "")
    out = head[2:].split(";") if head.startswith("o=") and len(head) > 2 else []
    kv = {}
    for p in tail.split(" "):
        if "=" in p:
            k, v = p.split("=", 1)
            try:
                kv[k] = int(v)
            except ValueError:
                kv[k] = v
    return out, kv


def parse_head(body):
    """the `o=…` part of a line without the ` key=value` suffix"""
    import re
    m = re.search(r" (?=[a-z]+=)", body)
    return body[:m.start()] if m else body


def time_shrink(case):
    """drop events; drop stages (hoist the inner pipeline)."""
    from .pipegen import pipe_positions, replace_sub
    cands = []
    for i in range(len(case.events) - 1, -1, -1):
        if case.events[i][0] == "sub":
            continue
        c = case.copy()
        del c.events[i]
        cands.append(c)
    pipe = case.field("pipe")[0]
    # chain positions: every node whose last element is a list
    node, path = pipe, []
    while isinstance(node, list) and node and isinstance(node[-1], list) and node[0] not in (
            "iter", "create", "startwith"):
        c = case.copy()
        c.set_field("pipe", [replace_sub(pipe, path, node[-1])])
        cands.append(c)
        path = path + [len(node) - 1]
        node = node[-1]
    return cands
