"""Generators for the `time` suite: linear pipelines with scheduler-using
operators on the virtual clock, and event scripts over emit / adv / fire / poll / run / unsub."""
import random

from . import sx
from .case import Case

DELAYS = [0, 1, 2, 5, 10]
PERIODS = [1, 3, 5, 10]

TIME_OPS = {
    "delay": lambda r: ["delay", str(r.choice(DELAYS))],
    "observeon": lambda r: ["observeon"],
    "subscribeon": lambda r: ["subscribeon"],
    "delaysub": lambda r: ["delaysub", str(r.choice(DELAYS))],
    "debounce": lambda r: ["debounce", str(r.choice([1, 3, 5]))],
    "throttle": lambda r: ["throttle", str(r.choice([1, 3, 5])), r.choice(["l", "t", "a"])],
    "buftime": lambda r: ["buftime", str(r.choice([2, 3, 5]))],
    "bufcounttime": lambda r: ["bufcounttime", str(r.randint(1, 3)), str(r.choice([2, 3, 5]))],
}

SYNC_OPS = [["map", "add1"], ["filter", "even"], ["take", "1"], ["take", "2"], ["take", "3"],
            ["skip", "1"], ["first"], ["last"], ["takewhile", "lt3"], ["bufcount", "2"], ["tap"],
            ["scan", "add", "0"], ["distinct"], ["contains", "2"], ["elementat", "1"], ["all", "lt2"]]


def chain(rng, src, ops, depth, p_sync=0.3):
    p = src
    for _ in range(depth):
        if rng.random() < p_sync:
            p = rng.choice(SYNC_OPS) + [p]
        else:
            p = TIME_OPS[rng.choice(ops)](rng) + [p]
    return p


def sources(rng, kinds):
    k = rng.choice(kinds)
    if k == "hot":
        return ["hot", "0"]
    if k == "interval":
        return ["interval", str(rng.choice(PERIODS))]
    if k == "intervalat":
        return ["intervalat", str(rng.choice([0, 2, 5, 12])), str(rng.choice(PERIODS))]
    if k == "timer":
        return ["timer", str(rng.randint(1, 9)), str(rng.choice(DELAYS))]
    if k == "timerat":
        return ["timerat", str(rng.randint(1, 9)), str(rng.choice(DELAYS))]
    if k == "iter":
        return ["iter"] + [str(i + 1) for i in range(rng.randint(0, 4))]
    if k == "create":
        n = rng.randint(0, 3)
        return ["create"] + [sx.N(i + 1) for i in range(n)] + rng.choice([[], ["c"], [["e", "4"]]])
    raise ValueError(k)


ASYNC_HEADS = ("future", "futureres", "stream", "streamres")


def async_script(rng, head, maxlen=5, p_pending=0.3, p_err=0.25, p_hang=0.05):
    """A script for a scripted future / stream (harness/src/ascript.rs): steps
    (ready v) (err e) (pending) (hang); values are 1,2,3,… in order."""
    res = head.endswith("res")
    steps = []

    def pend():
        while rng.random() < p_pending:
            steps.append(["pending"])

    if head.startswith("future"):
        pend()
        r = rng.random()
        if r < p_hang:
            steps.append(["hang"])
        elif r < 2 * p_hang:
            pass                                   # never resolves
        elif res and rng.random() < p_err * 1.5:
            steps.append(["err", str(rng.randint(1, 9))])
        else:
            steps.append(["ready", str(rng.randint(1, 9))])
        return steps
    n = rng.randint(0, maxlen)
    err_at = rng.randrange(0, n + 1) if res and rng.random() < p_err * 2 else None
    for i in range(n):
        pend()
        if err_at == i:
            steps.append(["err", str(rng.randint(1, 9))])
        elif rng.random() < p_hang:
            steps.append(["hang"])
        else:
            steps.append(["ready", str(i + 1)])
    pend()
    return steps


def async_source(rng, heads=ASYNC_HEADS, **kw):
    h = rng.choice(list(heads))
    return [h] + async_script(rng, h, **kw)


def async_expected(src):
    """What the property promises for a scripted async source, read off the script alone:
    (notifications in order, complete?) — `complete` False when the script hangs before its end
    (then the list is what may be delivered before the hang)."""
    head, steps = src[0], src[1:]
    res = head.endswith("res")
    out = []
    for st in steps:
        k = st[0]
        if k == "pending":
            continue
        if k == "hang":
            return out, False
        if k == "again":
            return out, False                      # unbounded: no end
        if k == "ready":
            out.append("N" + sx.show(st[1]))
            if head.startswith("future"):
                return out + ["C"], True
        elif k == "err":
            if res:
                return out + ["E" + str(st[1])], True
            out.append("N" + str(st[1]))
            if head.startswith("future"):
                return out + ["C"], True
    if head.startswith("future"):
        return out, False                          # never resolved
    return out + ["C"], True


def hist_len(rng, lo, hi, p_wide=0.12):
    """history length: mostly short; a share of long ones (30..60 events: counters, handle lists, buffers and other
    size thresholds of an implementation lie beyond the short ranges)"""
    return rng.randint(30, 60) if rng.random() < p_wide else rng.randint(lo, hi)


def events(rng, n, hot=True, mode="mixed", unsub_p=0.0, term_p=0.15):
    """mode: 'fifo' (every step followed by run), 'mixed' (fire/poll/run interleaved)."""
    evs = [["sub"]]
    if mode == "fifo":
        evs.append(["run"])
    nxt = 1
    done = False
    for _ in range(n):
        r = rng.random()
        if unsub_p and rng.random() < unsub_p:
            evs.append(["unsub"])
            unsub_p = 0
            continue
        if hot and r < 0.35 and not done:
            if rng.random() < term_p:
                evs.append(["emit", "0", rng.choice(["c", ["e", "7"]])])
                done = True
            else:
                evs.append(["emit", "0", sx.N(nxt)])
                nxt += 1
        elif hot and r < 0.4:
            # post-terminal / extra event
            evs.append(["emit", "0", rng.choice([sx.N(nxt), "c"])])
            nxt += 1
        elif r < 0.65:
            evs.append(["adv", str(rng.choice([0, 1, 1, 2, 3, 5, 10]))])
        elif mode == "mixed" and r < 0.78:
            evs.append(["fire", str(rng.randint(0, 2))])
        elif mode == "mixed" and r < 0.92:
            evs.append(["poll", str(rng.randint(0, 3))])
        else:
            evs.append(["run"])
        if mode == "fifo" and evs[-1][0] != "run":
            evs.append(["run"])
    return evs


def parse_suffix(body):
    """`o=N1;N(l 1 2);C live=2 tm=3 t=10` -> (['N1','N(l 1 2)','C'], {'live':2,'tm':3,'t':10})"""
    import re
    i = body.find(" L=")
    if i >= 0:
        body = body[:i]
    m = re.search(r" (?=[a-z]+=)", body)
    head, tail = (body[:m.start()], body[m.end():]) if m else (body, "")
    out = head[2:].split(";") if head.startswith("o=") and len(head) > 2 else []
    kv = {}
    for p in tail.split(" "):
        if "=" in p:
            k, v = p.split("=", 1)
            try:
                kv[k] = int(v)
            except ValueError:
                kv[k] = v
    return out, kv


def parse_head(body):
    """the `o=…` part of a line without the ` key=value` suffix"""
    import re
    m = re.search(r" (?=[a-z]+=)", body)
    return body[:m.start()] if m else body


def script_shrink(case):
    """drop one step of the script of the async source at the bottom of the chain."""
    from .pipegen import replace_sub
    pipe = case.field("pipe")[0]
    node, path = pipe, []
    while isinstance(node, list) and node and node[0] not in ASYNC_HEADS and isinstance(node[-1], list):
        path = path + [len(node) - 1]
        node = node[-1]
    if not (isinstance(node, list) and node and node[0] in ASYNC_HEADS):
        return []
    cands = []
    for i in range(len(node) - 1, 0, -1):
        c = case.copy()
        new = node[:i] + node[i + 1:]
        c.set_field("pipe", [replace_sub(pipe, path, new) if path else new])
        cands.append(c)
    return cands


def time_shrink(case):
    """drop events; drop stages (hoist the inner pipeline)."""
    from .pipegen import pipe_positions, replace_sub
    cands = []
    for i in range(len(case.events) - 1, -1, -1):
        if case.events[i][0] == "sub":
            continue
        c = case.copy()
        del c.events[i]
        cands.append(c)
    pipe = case.field("pipe")[0]
    # chain positions: every node whose last element is a list
    node, path = pipe, []
    while isinstance(node, list) and node and isinstance(node[-1], list) and node[0] not in (
            "iter", "create", "startwith") + ASYNC_HEADS:
        c = case.copy()
        c.set_field("pipe", [replace_sub(pipe, path, node[-1])])
        cands.append(c)
        path = path + [len(node) - 1]
        node = node[-1]
    return cands


AT_HEADS = ("delayat", "delaysubat", "intervalat", "timerat")


def _heads_of(node, acc):
    if isinstance(node, list) and node:
        if isinstance(node[0], str):
            acc.add(node[0])
        for x in node[1:]:
            _heads_of(x, acc)
    return acc


def with_units(seed, cases, p=0.2):
    """A share of the time-suite cases runs with `unit us`: one virtual tick is a MICROsecond, so every
    duration the library is handed is a sub-millisecond one.  The model is unit-agnostic; the expected lines
    are the same.  (Not for the `_at` forms: their `Instant::now() + d` arithmetic has microsecond noise.)"""
    import random
    rng = random.Random(seed * 31 + 977)
    for c in cases:
        if c.suite != "time" or c.field("unit") is not None:
            continue
        pipe = c.field("pipe")
        if not pipe or (_heads_of(pipe[0], set()) & set(AT_HEADS)):
            continue
        if rng.random() < p:
            c.fields.insert(0, ("unit", ["us"]))
    return cases
