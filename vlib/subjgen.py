"""Generators, abstract oracle and shrinking for the suites `subject` (C06) and
`behavior` (C12).

The oracle (`Oracle`) is computed from the op history alone: it keeps the set of
current subscribers (in subscription order), a done flag, the scripts of the
probes and (behavior) the latest value; it does not know about
observers/chamber/slots, and it is not the Lean model."""
import itertools
import random
import re

from .case import Case

SUBJECT_FLAVORS = ["local", "threads", "mutrefitem", "mutreferr", "mutrefboth"]
BEHAVIOR_FLAVORS = ["local", "threads"]

# ---- alphabets ---------------------------------------------------------------
SUB_FORMS = [["sub"], ["sub", "s"], ["sub", "-", "s"], ["sub", ["u", "0"]], ["sub", ["u", "1"]],
             ["sub", ["u", "2"]]]
COMMON = [["unsub", "0"], ["unsub", "1"], ["unsub", "2"], ["next"], ["error", "7"], ["complete"],
          ["unsubject"], ["clone"]]
SUBJECT_ALPHA = SUB_FORMS + COMMON + [["retain"]]
BEHAVIOR_ALPHA = SUB_FORMS + COMMON + [["nextby", "add1"], ["nextby", "mul2"]]


def nsubs(op):
    """how many subscribers an op can create (itself + in-callback ones)"""
    if op[0] != "sub":
        return 0
    return 1 + sum(1 for a in op[1:] if a == "s")


def finalize(ops, rng=None):
    """give every `next` a distinct value (its position + 1) and route the ops that
    follow a `clone` through a clone (the latest one, or a random one)."""
    out, clones = [], 0
    for k, op in enumerate(ops):
        op = list(op)
        if op[0] == "next" and len(op) == 1:
            op.append(str(k + 1))
        h = 0
        if clones:
            h = clones if rng is None else rng.randint(0, clones)
        if op[0] == "clone":
            clones += 1
        if h:
            op = ["via", str(h)] + op
        out.append(op)
    return out


def enum_histories(alpha, maxlen, maxsubs=3):
    """all op sequences of length 1..maxlen over `alpha` creating at most `maxsubs`
    subscribers"""
    def rec(prefix, used):
        if prefix:
            yield list(prefix)
        if len(prefix) == maxlen:
            return
        for op in alpha:
            n = nsubs(op)
            if used + n > maxsubs:
                continue
            prefix.append(op)
            yield from rec(prefix, used + n)
            prefix.pop()
    yield from rec([], 0)


def rand_script(rng, maxsub):
    n = rng.choice([0, 0, 1, 1, 2, 3])
    return [rng.choice(["-", "-", "s", ["u", str(rng.randint(0, maxsub))]]) for _ in range(n)]


def rand_history(rng, n, behavior, maxsub=4, allow_self_unsub=True):
    ops, subs, done_p = [], 0, rng.choice([0.03, 0.08, 0.15])
    for _ in range(n):
        r = rng.random()
        if r < 0.22 and subs < maxsub + 2:
            sc = rand_script(rng, maxsub)
            ops.append(["sub"] + sc)
            subs += 1
        elif r < 0.32:
            ops.append(["unsub", str(rng.randint(0, maxsub))])
        elif r < 0.70:
            ops.append(["next"])
        elif r < 0.70 + done_p:
            ops.append(rng.choice([["error", str(rng.randint(1, 9))], ["complete"], ["unsubject"]]))
        elif r < 0.85:
            ops.append(["clone"])
        elif behavior:
            ops.append(rng.choice([["nextby", "add1"], ["nextby", "mul2"], ["nextby", "const5"], ["peek"],
                                   ["nextby", "neg"]]))
        else:
            ops.append(["retain"])
    return ops


def mk_case(suite, flavor, ops, kind, init=None, rng=None):
    fields = [("init", [str(init)])] if init is not None else []
    return Case(suite, flavor, fields, finalize(ops, rng), {"kind": kind})


# ---- output parsing ------------------------------------------------------------
LINE = re.compile(r"^o=(\S*) len=(\d+) empty=([01]) fin=([01]) closed=([01])(?: peek=(.*))?$")


def parse_line(body):
    """-> None (missing) | 'PANIC' | dict"""
    if body is None:
        return None
    if body.startswith("PANIC"):
        return "PANIC"
    m = LINE.match(body)
    if not m:
        return {"bad": body}
    ds = []
    if m.group(1):
        for part in m.group(1).split(";"):
            i, _, n = part.partition(":")
            ds.append((int(i), n))
    return {"o": ds, "len": int(m.group(2)), "empty": m.group(3) == "1", "fin": m.group(4) == "1",
            "closed": m.group(5) == "1", "peek": m.group(6)}


# ---- the named functions used by next_by (ints only) ------------------------------
def fn1(name, v):
    m = re.match(r"^([a-z]+)(-?\d+)?$", name)
    h, k = m.group(1), int(m.group(2) or 0)
    return {"id": v, "add": v + k, "mul": v * k, "const": k, "neg": -v}[h]


def strip_via(ev):
    return ev[2:] if ev and ev[0] == "via" else ev


class Oracle:
    """The property, as a function of the history: who must receive what."""

    def __init__(self, behavior=False, init=0):
        self.live = []          # current subscribers, subscription order
        self.done = False       # terminal or unsubscribe() happened
        self.scripts = {}       # id -> remaining actions
        self.n = 0              # subscribers created so far
        self.behavior = behavior
        self.value = init       # latest value (behavior)
        self.ever_closed = set()

    def _subscribe(self, script, exp):
        i = self.n
        self.n += 1
        self.scripts[i] = list(script)
        if self.behavior:
            exp.append((i, f"N{self.value}"))      # greeting: the latest value, always
        if not self.done:
            self.live.append(i)
        return i

    def _broadcast(self, v, exp):
        """-> True if the history leaves the contract (self-unsubscribe in own callback)"""
        if self.done:
            return False
        for i in list(self.live):               # subscribed before the emission began
            if i not in self.live:              # ... and not unsubscribed meanwhile
                continue
            exp.append((i, f"N{v}"))
            act = self.scripts[i].pop(0) if self.scripts[i] else "-"
            if act == "s":
                self._subscribe([], exp)        # joins now, misses the in-flight item
            elif isinstance(act, list) and act[0] == "u":
                t = int(act[1])
                if t == i:
                    return True
                if t in self.live:
                    self.live.remove(t)
        return False

    def step(self, ev):
        """-> (expected deliveries, out_of_contract)"""
        ev = strip_via(ev)
        exp, ooc = [], False
        h = ev[0]
        if h == "sub":
            self._subscribe(ev[1:], exp)
        elif h == "unsub":
            t = int(ev[1])
            if t in self.live:
                self.live.remove(t)
        elif h == "next":
            v = int(ev[1])
            if self.behavior:
                self.value = v
            ooc = self._broadcast(v, exp)
        elif h == "nextby":
            v = fn1(ev[1], self.value)
            self.value = v
            ooc = self._broadcast(v, exp)
        elif h in ("error", "complete"):
            if not self.done:
                t = "C" if h == "complete" else f"E{ev[1]}"
                exp.extend((i, t) for i in self.live)
                self.live, self.done = [], True
        elif h == "unsubject":
            self.live, self.done = [], True
        return exp, ooc


def check_history(case, lines, behavior):
    """Evaluate the property on the implementation's output. None or a failure dict."""
    init = int(case.field("init")[0]) if behavior and case.field("init") else 0
    o = Oracle(behavior, init)
    got_term = set()
    for k, ev in enumerate(case.events):
        exp, ooc = o.step(ev)
        got = parse_line(lines.get(k))
        if ooc:
            # self-unsubscribe inside the own callback: outside the property (the code panics)
            return None
        if got is None:
            return {"kind": "missing-line", "event": k, "detail": "no output for the event"}
        if got == "PANIC":
            return {"kind": "panic", "event": k, "detail": f"panic at {ev}"}
        if "bad" in got:
            return {"kind": "bad-line", "event": k, "detail": got["bad"]}
        ds = got["o"]
        if len(set(ds)) != len(ds):
            return {"kind": "duplicate-delivery", "event": k, "detail": f"{ds}"}
        for i, n in ds:
            if i in got_term:
                return {"kind": "after-terminal", "event": k, "detail": f"{i} got {n} after its terminal"}
        if sorted(ds) != sorted(exp):
            return {"kind": "wrong-receivers", "event": k, "detail": f"got={ds} expected={exp}"}
        # per emission the subscribers are served in subscription order (deterministic in the
        # sequential setting; pinned because the correspondence relies on it)
        if ds != exp:
            return {"kind": "delivery-order", "event": k, "detail": f"got={ds} expected={exp}"}
        for i, n in ds:
            if n[0] in "EC":
                got_term.add(i)
        if got["fin"] != o.done or got["closed"] != o.done:
            return {"kind": "finished-flag", "event": k,
                    "detail": f"fin={got['fin']} closed={got['closed']} expected={o.done}"}
        if o.done and (got["len"] != 0 or not got["empty"]):
            return {"kind": "not-empty-after-done", "event": k, "detail": f"len={got['len']} empty={got['empty']}"}
        if not o.done and (got["len"] < len(o.live) or (got["empty"] != (got["len"] == 0))):
            return {"kind": "size-bookkeeping", "event": k,
                    "detail": f"len={got['len']} empty={got['empty']} live={o.live}"}
        if behavior and got["peek"] != str(o.value):
            return {"kind": "peek", "event": k, "detail": f"peek={got['peek']} latest={o.value}"}
    return None


# ---- shrinking -------------------------------------------------------------------
def shrink_candidates(case):
    out = []
    n = len(case.events)
    # drop a suffix, then single events, then simplify scripts / routing
    for cut in (n // 2, n - 1):
        if 0 < cut < n:
            c = case.copy()
            c.events = c.events[:cut]
            out.append(c)
    for i in range(n):
        c = case.copy()
        del c.events[i]
        out.append(c)
    for i, ev in enumerate(case.events):
        if ev and ev[0] == "via":
            c = case.copy()
            c.events[i] = ev[2:]
            out.append(c)
        core = strip_via(ev)
        if core and core[0] == "sub" and len(core) > 1:
            c = case.copy()
            pre = ev[:2] if ev[0] == "via" else []
            c.events[i] = pre + core[:-1]
            out.append(c)
    return out
