"""Cases of suite `locks` (C10, re-used by C06) over the whole footprint model (`Conc/Footprint.lean`).

A case is a tree — root `(subject c*)` / `(behavior c*)` / `(share (notif*))`, subscriber chains over
plain | cell | slot | fin | oo | dl ending in a probe or a nested subject — and a script of operations
(harness/src/suites/locks_suite.rs).  The comparison of suite `locks` is token-by-token EQUALITY of the
real H2 trace with `Conc.footprint`; the footprint is the lock program of an operation with no
data-dependent early exit (an `Option` found empty, `a || b` short-circuited, a task polled after it was
cancelled, …: those only REMOVE events).  So the generator keeps the book (`Sim`) of the data the early
exits depend on and only emits an operation where the real code runs the full program:

  * a delivery into a subject needs the subject alive, every subscriber slot open, every stage the
    notification reaches on the calling thread alive; `retain` additionally asks every subscriber
    `is_finished()`, which travels through the task stages to the end of the chain;
  * `retain` only looks at the subscribers already moved out of the chamber (any delivery does that);
  * `complete` into `merge_threads` stops at the cell the first time: no `complete` through a `cell`;
  * a task is polled once, not after its stage's slot was closed by a terminal, not after it was cancelled;
    a `delay_threads` task is first polled with its timer pending (`pend`);
  * a finalizer runs once (terminal or unsubscribe, whichever comes first): no `unsub` of a chain whose
    `finalize_threads` has seen a terminal;
  * `RefCountSubscription::unsubscribe` asks `is_empty()`, which looks into the chamber only while the
    observers list is empty: `unsub` on a share only before its subject has ever delivered.
"""
import itertools
import random

from .case import Case

ELEMS = ["plain", "cell", "slot", "fin", "oo", "dl"]


# ------------------------------------------------------------------ the book
class Stage:
    def __init__(self, kind):
        self.kind = kind
        self.dead = False           # the Option behind the cell of a slot / cell / task stage was taken
        self.fired = False          # fin: the finalizer has run (its Option is empty)
        self.tasks = []             # task stages: [gid, kind, state]  state = new | armed | done | cancelled


class Chain:
    def __init__(self, stages, end):
        self.stages = stages
        self.end = end              # int (probe) or Subj
        self.closed = False         # the SubscriberThreads slot
        self.unsubbed = False


class Subj:
    def __init__(self, sid, kind, sync=None):
        self.sid = sid
        self.kind = kind            # subject | behavior | share
        self.sync = sync or []
        self.connected = False
        self.subs = []
        self.alive = True           # observers is Some
        self.chamber = True         # chamber is Some
        self.dirty = False          # a subscriber still sits in the chamber
        self.loaded = False         # the observers list has ever been filled


class Sim:
    def __init__(self, root):
        self.subjects = []
        self.probes = 0
        self.tasks = 0
        self.root = self.node(root)

    # -- construction (numbering as the harness / the driver)
    def node(self, spec):
        s = Subj(len(self.subjects), spec[0], list(spec[1]) if spec[0] == "share" and len(spec) > 1 else None)
        self.subjects.append(s)
        if spec[0] != "share":
            for ch in spec[1:]:
                c = self.chain(ch)
                if s.kind == "behavior":
                    # BehaviorSubject::actual_subscribe hands the current value to the new observer at once
                    self.deliver_chain(c, "next", 0, False)
                s.subs.append(c)
                s.dirty = True
        return s

    def chain(self, spec):
        spec = list(spec)
        if spec and isinstance(spec[-1], list):
            end = self.node(spec[-1])
            ops = spec[:-1]
        else:
            end = self.probes
            self.probes += 1
            ops = spec
        return Chain([Stage(k) for k in ops], end)

    # -- exactness of the `is_finished()` walk (retain, terminal filter): to the very end of the chain
    def fin_exact(self, ch):
        if ch.closed:
            return False
        for st in ch.stages:
            if st.kind != "plain" and st.kind != "fin" and st.dead:
                return False
        return ch.end.alive if isinstance(ch.end, Subj) else True

    # -- can `kind` (next | error | complete) be delivered into `s` with the full program?
    def can_deliver(self, s, kind):
        if not (s.alive and s.chamber):
            return False
        return all(self.can_chain(ch, kind) for ch in s.subs)

    def can_chain(self, ch, kind, start=0, from_subject=True):
        if from_subject:
            if ch.closed:
                return False
        for st in ch.stages[start:]:
            if st.kind in ("slot", "cell") and st.dead:
                return False
            if st.kind == "cell" and kind == "complete":
                return False
            if st.kind in ("oo", "dl"):
                if st.kind == "dl" and kind == "error":
                    if st.dead:
                        return False
                    continue
                return True                      # scheduled: nothing further on this thread
        return self.can_deliver(ch.end, kind) if isinstance(ch.end, Subj) else True

    def deliver(self, s, kind):
        s.dirty = False
        s.loaded = s.loaded or bool(s.subs)
        if kind != "next":
            s.alive = False
        for ch in s.subs:
            self.deliver_chain(ch, kind)

    def deliver_chain(self, ch, kind, start=0, from_subject=True):
        if from_subject and kind != "next":
            ch.closed = True
        for st in ch.stages[start:]:
            if st.kind in ("oo", "dl"):
                if st.kind == "dl" and kind == "error":
                    st.dead = True
                    continue
                st.tasks.append([self.tasks, kind, "new"])
                self.tasks += 1
                return
            if kind != "next" and st.kind in ("slot", "cell"):
                st.dead = True
            if kind != "next" and st.kind == "fin":
                st.fired = True
        if isinstance(ch.end, Subj):
            self.deliver(ch.end, kind)

    def find_task(self, g):
        for s in self.subjects:
            for ch in s.subs:
                for i, st in enumerate(ch.stages):
                    for t in st.tasks:
                        if t[0] == g:
                            return ch, i, st, t
        return None

    # -- one event: legal (exact) or not; if legal, applied
    def step(self, ev):
        ev = list(ev)
        sid = 0
        if ev[0] == "on":
            sid, ev = int(ev[1]), ev[2:]
        op = ev[0]
        if op in ("poll", "pend"):
            f = self.find_task(int(ev[1]))
            if not f:
                return False
            ch, i, st, t = f
            if op == "pend":
                if st.kind != "dl" or t[2] != "new":
                    return False
                t[2] = "armed"
                return True
            if t[2] != ("armed" if st.kind == "dl" else "new") or st.dead:
                return False
            if not self.can_chain(ch, t[1], i + 1, False):
                return False
            t[2] = "done"
            if t[1] != "next":
                st.dead = True
            self.deliver_chain(ch, t[1], i + 1, False)
            return True
        if sid >= len(self.subjects):
            return False
        s = self.subjects[sid]
        if op in ("next", "error", "complete"):
            if s.kind == "share" and not s.connected:
                return False
            if not self.can_deliver(s, op):
                return False
            self.deliver(s, op)
            return True
        if op == "fin":
            return s.kind != "share" or s.connected
        if op == "size":
            return s.alive and s.chamber and (s.kind != "share" or s.connected)
        if op == "retain":
            if s.kind == "behavior" or (s.kind == "share" and not s.connected):
                return False
            return s.alive and not s.dirty and all(self.fin_exact(ch) for ch in s.subs)
        if op == "unsuball":
            if s.kind == "share" and not s.connected:
                return False
            s.alive = False
            s.chamber = False
            return True
        if op == "subscribe":
            if not (s.alive and s.chamber):
                return False
            ch = self.chain(ev[1])
            if s.kind == "behavior":
                if not self.can_chain(ch, "next", 0, False):
                    return False
                self.deliver_chain(ch, "next", 0, False)
            s.subs.append(ch)
            s.dirty = True
            if s.kind == "share" and not s.connected:
                s.connected = True
                for n in s.sync:
                    k = "complete" if n == "c" else ("error" if n[0] == "e" else "next")
                    if not self.can_deliver(s, k):
                        return False
                    self.deliver(s, k)
            return True
        if op == "unsub":
            i = int(ev[1])
            if i >= len(s.subs) or s.subs[i].unsubbed:
                return False
            if s.kind == "share" and (s.loaded or not s.alive or not s.chamber):
                return False
            ch = s.subs[i]
            if any(st.fired for st in ch.stages):
                return False                 # (the finalizer runs once: a later unsubscribe finds its cell empty)
            ch.unsubbed = True
            ch.closed = True
            for st in ch.stages:
                for t in st.tasks:
                    if t[2] != "done":
                        t[2] = "cancelled"
            return True
        return False

    # -- what can be done now (for the random scripts)
    def pending_tasks(self):
        out = []
        for s in self.subjects:
            for ch in s.subs:
                for st in ch.stages:
                    for t in st.tasks:
                        if t[2] in ("new", "armed"):
                            out.append((t[0], st.kind, t[2]))
        return sorted(out)


def legal(root, events):
    """is every event of the script exact on the real code?"""
    sim = Sim(root)
    return all(sim.step(e) for e in events)


def has(spec, elem):
    return any((x == elem) if not isinstance(x, list) else has(x, elem) for x in spec)


def atoms(spec):
    out = set()
    for x in spec:
        if isinstance(x, list):
            out |= atoms(x)
        else:
            out.add(x)
    return out


def on(sid, ev):
    return list(ev) if sid == 0 else ["on", str(sid)] + list(ev)


def mk(root, events, kind):
    return Case("locks", "threads", [("root", [root])], [list(e) for e in events], {"kind": kind})


# ------------------------------------------------------------------ scripts
def flush(sim, evs):
    """poll everything that is pending, oldest first (a terminal task last in its stage by construction)"""
    for _ in range(64):
        p = sim.pending_tasks()
        moved = False
        for g, kind, state in p:
            e = ["pend", str(g)] if (kind == "dl" and state == "new") else ["poll", str(g)]
            c = _try(sim, e)
            if c:
                evs.append(e)
                moved = True
                break
        if not moved:
            return


def _try(sim, ev):
    """apply `ev` if it is exact (on a copy first: a refused event must leave the book untouched)"""
    if "subscribe" not in ev:
        return sim.step(ev)             # (checks first, changes the book only if exact)
    import copy
    probe = copy.deepcopy(sim)
    if probe.step(ev):
        sim.step(ev)
        return True
    return False


def add(sim, evs, ev):
    if _try(sim, ev):
        evs.append(list(ev))
        return True
    return False


def full_scripts(root, new_chains):
    """the directed scripts of one tree: warm-up, every query on every subject, a late subscriber, and then
    each way of closing down (one per case)"""
    out = []
    sim = Sim(root)
    evs = []
    nsubj = len(sim.subjects)

    def everywhere(op_list):
        for sid in range(len(sim.subjects)):
            for op in op_list:
                add(sim, evs, on(sid, op))

    add(sim, evs, ["next", "0"])
    flush(sim, evs)
    everywhere([["size"], ["retain"], ["fin"]])
    for sid in range(nsubj):
        for ch in new_chains:
            add(sim, evs, on(sid, ["subscribe", ch]))
            # a subject nobody feeds has to be fed directly
            add(sim, evs, on(sid, ["next", "1"]))
            flush(sim, evs)
    add(sim, evs, ["next", "2"])
    flush(sim, evs)
    everywhere([["retain"], ["size"]])
    base = (sim, evs)
    import copy
    term = ["error", "3"] if has(root, "cell") or any(has(c, "cell") for c in new_chains) else None
    closers = []
    for sid in range(len(sim.subjects)):
        closers.append([on(sid, term or ["complete"])])
        closers.append([on(sid, ["error", "4"])])
        closers.append([on(sid, ["unsuball"])])
        closers.append([on(sid, ["unsub", str(i)]) for i in range(len(sim.subjects[sid].subs))])
    for cl in closers:
        s2, e2 = copy.deepcopy(base)
        n0 = len(e2)
        for e in cl:
            add(s2, e2, e)
        flush(s2, e2)
        if len(e2) > n0:
            out.append(e2)
    if not out:
        out.append(evs)
    return out


def random_script(rng, root, n):
    sim = Sim(root)
    evs = []
    chains = [[], ["plain"], ["cell"], ["slot"], ["fin"], ["oo"], ["dl"], ["fin", "oo"], ["dl", "cell"],
              ["plain", ["subject", []]], [["behavior", ["fin"]]]]
    add(sim, evs, ["next", "0"])
    for _ in range(n):
        sid = rng.randrange(len(sim.subjects))
        r = rng.random()
        if r < 0.3:
            p = sim.pending_tasks()
            if p:
                g, kind, state = p[0] if rng.random() < 0.7 else rng.choice(p)
                add(sim, evs, ["pend", str(g)] if (kind == "dl" and state == "new") else ["poll", str(g)])
                continue
        if r < 0.55:
            add(sim, evs, on(sid, ["next", str(rng.randint(1, 3))]))
        elif r < 0.65:
            add(sim, evs, on(sid, ["size"]))
        elif r < 0.75:
            add(sim, evs, on(sid, ["retain"]))
        elif r < 0.8:
            add(sim, evs, on(sid, ["fin"]))
        elif r < 0.9:
            add(sim, evs, on(sid, ["subscribe", rng.choice(chains)]))
        elif r < 0.93:
            add(sim, evs, on(sid, rng.choice([["error", "5"], ["complete"]])))
        elif r < 0.97:
            s = sim.subjects[sid]
            if s.subs:
                add(sim, evs, on(sid, ["unsub", str(rng.randrange(len(s.subs)))]))
        else:
            add(sim, evs, on(sid, ["unsuball"]))
    flush(sim, evs)
    return evs


# ------------------------------------------------------------------ the population
def chains_upto(n, elems=ELEMS):
    out = [[]]
    for k in range(1, n + 1):
        out += [list(c) for c in itertools.product(elems, repeat=k)]
    return out


def cases(tier, seed):
    rng = random.Random(seed + 1010)
    out = []
    one = chains_upto(2)
    # 1. every chain of <= 2 stages alone under each kind of root (share: the chain arrives by `subscribe`)
    for c in one:
        for kind in ("subject", "behavior"):
            root = [kind, c]
            for evs in full_scripts(root, [["cell"]] if "cell" in c else [["plain"]]):
                out.append(mk(root, evs, "tree-" + kind))
    for c in one:
        for sync in ([], [["n", "1"]], [["n", "1"], ["n", "2"]]):
            root = ["share", sync]
            for evs in share_scripts(root, c):
                out.append(mk(root, evs, "tree-share"))
    # share over a source that ends inside connect(): `of(v).share()`
    for c in chains_upto(1):
        for sync in ([["n", "1"], "c"], [["e", "7"]], [["n", "1"], ["e", "7"]]):
            if "cell" in c and "c" in sync:
                continue
            root = ["share", sync]
            sim, evs = Sim(root), []
            add(sim, evs, ["subscribe", c])
            flush(sim, evs)
            if evs:
                out.append(mk(root, evs, "tree-share-cold"))
    # 2. nested subjects: a subject / behaviour subject as the observer at the end of a chain of <= 1 stage,
    #    itself with 1-2 subscribers of <= 1 stage; under a subject and under a behaviour subject
    short = chains_upto(1)
    for up in short:
        for inner_kind in ("subject", "behavior"):
            for a in short:
                for b in ([None] + ([["cell"], ["oo"]] if tier == "quick" else short)):
                    inner = [inner_kind, a] + ([b] if b is not None else [])
                    for root_kind in ("subject", "behavior"):
                        root = [root_kind, up + [inner], []]
                        cell = has(root, "cell")
                        scripts = full_scripts(root, [["cell"]] if cell else [["fin"]])
                        if tier == "quick":
                            scripts = scripts[:: max(1, len(scripts) // 3)][:3]
                        for evs in scripts:
                            out.append(mk(root, evs, "tree-nested"))
    # 3. two and three subscribers of <= 3 stages, three levels of nesting: random trees, random exact scripts
    n = 1200 if tier == "quick" else 12000
    for _ in range(n):
        root = random_tree(rng)
        evs = random_script(rng, root, rng.randint(4, 14))
        if len(evs) > 1:
            out.append(mk(root, evs, "tree-random"))
    return out


def share_scripts(root, c):
    out = []
    import copy
    sim, evs = Sim(root), []
    add(sim, evs, ["subscribe", c])
    flush(sim, evs)
    # before anything else: the RefCountSubscription of the first subscriber
    s1, e1 = copy.deepcopy((sim, evs))
    if add(s1, e1, ["unsub", "0"]):
        out.append(e1)
    add(sim, evs, ["subscribe", ["fin"] if "cell" not in c else ["cell"]])
    s1, e1 = copy.deepcopy((sim, evs))
    if add(s1, e1, ["unsub", "1"]) | add(s1, e1, ["unsub", "0"]):
        out.append(e1)
    for e in (["next", "3"], ["size"], ["retain"], ["fin"], ["next", "4"]):
        add(sim, evs, e)
        flush(sim, evs)
    for cl in (["error", "5"], ["complete"], ["unsuball"]):
        s1, e1 = copy.deepcopy((sim, evs))
        if add(s1, e1, cl):
            flush(s1, e1)
            out.append(e1)
    return out


def random_chain(rng, depth):
    ops = [rng.choice(ELEMS) for _ in range(rng.choice([0, 1, 1, 2, 2, 3]))]
    if depth > 0 and rng.random() < 0.3:
        kind = rng.choice(["subject", "subject", "behavior"])
        return ops + [[kind] + [random_chain(rng, depth - 1) for _ in range(rng.randint(0, 2))]]
    return ops


def random_tree(rng):
    r = rng.random()
    if r < 0.15:
        return ["share", rng.choice([[], [["n", "1"]], [["n", "1"], ["n", "2"]]])]
    kind = "behavior" if r < 0.4 else "subject"
    return [kind] + [random_chain(rng, 2) for _ in range(rng.randint(1, 3))]


# ------------------------------------------------------------------ shrinking
def shrink_candidates(case):
    root = case.field("root")[0]
    cands = []
    for i in range(len(case.events) - 1, -1, -1):
        evs = case.events[:i] + case.events[i + 1:]
        if evs and legal(root, evs):
            c = case.copy()
            c.events = [list(e) for e in evs]
            cands.append(c)
    return cands
