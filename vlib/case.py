"""A test case of the line protocol."""
from . import sx

class Case:
    __slots__ = ("cid", "suite", "flavor", "fields", "events", "meta")
    def __init__(self, suite, flavor="local", fields=None, events=None, meta=None):
        self.cid = None
        self.suite = suite
        self.flavor = flavor
        self.fields = fields or []      # list of (key, [sexp,...])
        self.events = events or []      # list of [sexp,...]
        self.meta = meta or {}
    def copy(self):
        c = Case(self.suite, self.flavor, [(k, list(v)) for k, v in self.fields],
                 [list(e) for e in self.events], dict(self.meta))
        c.cid = self.cid
        return c
    def text(self, cid=None):
        cid = self.cid if cid is None else cid
        lines = [f"case {cid} {self.suite} {self.flavor}"]
        for k, v in self.fields:
            lines.append(k + " " + " ".join(sx.show(x) for x in v))
        for e in self.events:
            lines.append("ev " + " ".join(sx.show(x) for x in e))
        lines.append("end")
        return "\n".join(lines) + "\n"
    def key(self):
        return (self.suite, self.flavor, sx.show([[k] + v for k, v in self.fields]),
                sx.show(self.events))
    def field(self, k):
        for kk, v in self.fields:
            if kk == k:
                return v
        return None
    def set_field(self, k, v):
        self.fields = [(kk, (v if kk == k else vv)) for kk, vv in self.fields]

def parse_cases(text):
    cases = []
    cur = None
    for line in text.splitlines():
        line = line.strip()
        if not line or line.startswith("#"):
            continue
        kw, _, rest = line.partition(" ")
        if kw == "case":
            parts = rest.split()
            cur = Case(parts[1], parts[2] if len(parts) > 2 else "local")
            cur.cid = parts[0]
        elif kw == "ev":
            cur.events.append(sx.parse_all(rest))
        elif kw == "end":
            cases.append(cur); cur = None
        else:
            cur.fields.append((kw, sx.parse_all(rest)))
    return cases
