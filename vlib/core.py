"""Shared machinery of the checks: builds, axiom audit, running both sides,
comparison, shrinking, verdicts, evidence."""
import concurrent.futures as cf
import hashlib
import json
import os
import re
import subprocess
import sys
import time
from pathlib import Path

from .case import Case

VERIF = Path(__file__).resolve().parent.parent
LEAN = VERIF / "lean"
HARNESS = VERIF / "harness"
WORK = VERIF / "work"
REPO = Path(os.environ.get("VERIF_REPO", "/repo"))
JOBS = int(os.environ.get("VERIF_JOBS", "16"))
ALLOWED_AXIOMS = {"propext", "Classical.choice", "Quot.sound"}
FORBIDDEN = re.compile(r"\b(sorry|admit|native_decide|bv_decide|implemented_by|unsafe)\b|^axiom |maxHeartbeats 0")

ENV = dict(os.environ, CARGO_NET_OFFLINE="true")


def log(*a):
    print(*a, file=sys.stderr, flush=True)


def sh(cmd, cwd=None, timeout=3600):
    p = subprocess.run(cmd, cwd=cwd, env=ENV, shell=isinstance(cmd, str),
                       stdout=subprocess.PIPE, stderr=subprocess.STDOUT, text=True, timeout=timeout)
    return p.returncode, p.stdout


# --------------------------------------------------------------------- builds
def build_lean(modules):
    """Build the property modules (all their proofs) and the driver."""
    if isinstance(modules, str):
        modules = [modules]
    t0 = time.time()
    rc, out = sh(["lake", "build"] + list(modules) + ["rxdriver"], cwd=LEAN)
    return rc == 0, out, time.time() - t0


def strip_comments(src):
    src = re.sub(r"/-.*?-/", "", src, flags=re.S)
    return "\n".join(l.split("--")[0] for l in src.splitlines())


def lean_sources():
    return sorted((LEAN / "RxModel").rglob("*.lean"))


def forbidden_hits():
    hits = []
    for f in lean_sources():
        for i, l in enumerate(strip_comments(f.read_text()).splitlines(), 1):
            if FORBIDDEN.search(l):
                hits.append(f"{f.relative_to(LEAN)}:{i}: {l.strip()}")
    return hits


def theorems_of(module):
    path = LEAN / (module.replace(".", "/") + ".lean")
    src = strip_comments(path.read_text())
    ns = re.findall(r"^namespace\s+(\S+)", src, flags=re.M)
    prefix = (ns[0] + ".") if ns else ""
    return [prefix + n for n in re.findall(r"^theorem\s+(\S+)", src, flags=re.M)]


def audit_axioms(modules, pid):
    """`#print axioms` for every theorem of the property modules (one audit file per module: helper lemma
    files of different modules may define the same auxiliary names and cannot always be imported together)."""
    if isinstance(modules, str):
        modules = [modules]
    WORK.mkdir(exist_ok=True)
    thms, res, logs, rc_all = [], {}, "", 0

    def one(m):
        ts = theorems_of(m)
        f = WORK / f"Audit_{pid}_{m.split('.')[-1]}.lean"
        f.write_text(f"import {m}\n" + "".join(f"#print axioms {t}\n" for t in ts))
        rc, out = sh(["lake", "env", "lean", str(f)], cwd=LEAN)
        return ts, rc, out

    with cf.ThreadPoolExecutor(max_workers=8) as ex:
        for ts, rc, out in ex.map(one, modules):
            thms += ts
            rc_all = rc_all or rc
            # "'Rx.C03_chain' depends on axioms: [propext, ...]" or "... does not depend on any axioms"
            for m in re.finditer(r"'([^']+)' (?:depends on axioms: \[([^\]]*)\]|does not depend on any axioms)", out, flags=re.S):
                axs = [a.strip() for a in (m.group(2) or "").replace("\n", " ").split(",") if a.strip()]
                res[m.group(1)] = axs
            if rc != 0:
                logs += out
    bad = {t: a for t, a in res.items() if not set(a) <= ALLOWED_AXIOMS}
    missing = [t for t in thms if t not in res]
    return {"theorems": thms, "axioms": res, "bad": bad, "missing": missing, "rc": rc_all,
            "log": logs if (rc_all != 0 or missing) else ""}


# ------------------------------------------------------- translator tie (rs2lean)
RS2LEAN = VERIF / "rs2lean"
GEN = LEAN / "RxModel" / "Gen"


# tie modules that need the compiler's own macro expansion of the crate (nightly `-Zunpretty=expanded`)
EXPANDED_TIES = ("RxModel.GenTie.Subject", "RxModel.GenTie.SubjectThreads", "RxModel.GenTie.Behavior",
                 "RxModel.GenTie.BehaviorThreads", "RxModel.GenTie.Subscription", "RxModel.GenTie.GroupBy", "RxModel.GenTie.MergeAll",
                 "RxModel.GenTie.MergeAllThreads") + tuple(
    f"RxModel.GenTie.{w}{m}{t}" for w in ("", "Wiring") for m in ("Delay", "ObserveOn") for t in ("", "Threads")) + (
    "RxModel.GenTie.Debounce", "RxModel.GenTie.Throttle", "RxModel.GenTie.WiringDebounce", "RxModel.GenTie.WiringThrottle",
    "RxModel.GenTie.Scheduler", "RxModel.GenTie.DelaySubscription", "RxModel.GenTie.Conversions",
    "RxModel.GenTie.TimeSourcesModel", "RxModel.GenTie.TimeOpsModel", "RxModel.GenTie.CompleteStatus", "RxModel.GenTie.Share", "RxModel.GenTie.AsyncSources",
    "RxModel.GenTie.Holds", "RxModel.GenTie.HoldsPins")


def expanded_source():
    """The crate source with every macro expanded by the compiler itself (`cargo +nightly rustc -- -Zunpretty=expanded`),
    cached under work/ by the content of /repo/src.  Returns (path or None, note)."""
    WORK.mkdir(exist_ok=True)
    h = hashlib.sha1()
    for f in sorted((REPO / "src").rglob("*.rs")) + [REPO / "Cargo.toml"]:
        h.update(str(f.relative_to(REPO)).encode())
        h.update(f.read_bytes())
    out = WORK / f"expanded_{h.hexdigest()[:16]}.rs"
    if out.exists() and out.stat().st_size > 0:
        return out, "cached"
    p = subprocess.run(["cargo", "+nightly", "--version"], env=ENV, stdout=subprocess.PIPE, stderr=subprocess.STDOUT, text=True)
    if p.returncode != 0:
        return None, "nightly toolchain unavailable: " + p.stdout.strip()[:200]
    env = dict(ENV, CARGO_TARGET_DIR=str(WORK / "expand-target"))
    p = subprocess.run(["cargo", "+nightly", "rustc", "--offline", "--lib", "--no-default-features", "--features",
                        "futures-scheduler", "--", "-Zunpretty=expanded"], cwd=REPO, env=env,
                       stdout=subprocess.PIPE, stderr=subprocess.PIPE, text=True)
    if p.returncode != 0 or not p.stdout.strip():
        return None, "expansion failed: " + p.stderr[-600:]
    for old in WORK.glob("expanded_*.rs"):
        old.unlink()
    out.write_text(p.stdout)
    return out, "expanded"


def regen_and_tie(tie_modules):
    """Regenerate lean/RxModel/Gen/*.lean from the CURRENT /repo/src with the translator, then build the
    property's tie theorems (RxModel.GenTie.*) against the regenerated definitions.
    Returns (broken: {module: message}, log, seconds).  A translator failure for an observer leaves its
    definitions out of the generated file, so the tie module of that file fails to build."""
    t0 = time.time()
    broken, logs = {}, ""
    if not tie_modules:
        return broken, logs, 0.0
    rc, out = sh(["cargo", "build", "--release", "--offline"], cwd=RS2LEAN)
    if rc != 0:
        return {m: "rs2lean does not build" for m in tie_modules}, out, time.time() - t0
    cmd = [str(RS2LEAN / "target" / "release" / "rs2lean"), str(REPO / "src"), str(GEN)]
    skipped = []
    if any(m in EXPANDED_TIES for m in tie_modules):
        exp, note = expanded_source()
        logs += f"expanded source: {note}\n"
        if exp is not None:
            cmd.append(str(exp))
        elif note.startswith("nightly toolchain unavailable"):
            # cannot be decided in this environment: these ties are skipped (the sampled tie remains), said in the log
            skipped = [m for m in tie_modules if m in EXPANDED_TIES]
            tie_modules = [m for m in tie_modules if m not in EXPANDED_TIES]
    rc, out = sh(cmd)
    logs += out
    translator_crashed = rc not in (0, 1)      # 0: everything translated, 1: some item refused; anything else: the translator died
    if translator_crashed:
        logs += f"rs2lean ended abnormally (rc={rc}): every tie of this run counts as broken\n"
    if skipped:
        logs += "skipped (no nightly toolchain): " + " ".join(skipped) + "\n"
    notes = {}
    for line in out.splitlines():
        # "ops/distinct.rs: DistinctObserver: field seen: type ... not understood"
        if ": " in line and line.split(":")[0].endswith(".rs"):
            notes.setdefault(line.split(":")[0], []).append(line)
    rc, out = sh(["lake", "build"] + list(tie_modules), cwd=LEAN)
    if rc != 0:
        logs += out
        for m in tie_modules:
            rel = m.replace(".", "/") + ".lean"
            errs = [l for l in out.splitlines() if l.startswith("error:") and rel in l]
            failed_dep = [l for l in out.splitlines() if l.startswith("error:") and
                          ("Gen/" + m.split(".")[-1] + ".lean") in l]
            if errs or failed_dep or re.search(r"^- " + re.escape(m) + r"$", out, flags=re.M):
                broken[m] = (errs or failed_dep or ["build failed"])[0][:300]
    if translator_crashed:
        for m in tie_modules:
            broken.setdefault(m, "rs2lean ended abnormally: the generated definitions are not those of the current source")
    return broken, logs, time.time() - t0


def build_harness():
    t0 = time.time()
    lock = HARNESS / "Cargo.lock"
    if not lock.exists():
        lock.write_text((REPO / "Cargo.lock").read_text())
    rc, out = sh(["cargo", "build", "--release", "--offline"], cwd=HARNESS)
    return rc == 0, out, time.time() - t0


# ------------------------------------------------------------ running both sides
def _run_bin(binary, text, timeout=900):
    """(a binary that does not come back — the model driver on a case whose model diverges, e.g. a shrunk candidate with a
    zero-period interval and no `take` — must not hang the check: it is stopped and reported as a run error)"""
    try:
        p = subprocess.run([str(binary)], input=text, stdout=subprocess.PIPE, stderr=subprocess.PIPE,
                           text=True, env=ENV, timeout=timeout)
    except subprocess.TimeoutExpired as ex:
        out = ex.stdout.decode() if isinstance(ex.stdout, bytes) else (ex.stdout or "")
        return 124, out, f"{binary} did not finish within {timeout}s"
    return p.returncode, p.stdout, p.stderr


def parse_out(text):
    """lines `<cid>.<k> body` -> {cid: {k: body}}"""
    res = {}
    for line in text.splitlines():
        head, _, body = line.partition(" ")
        cid, _, k = head.rpartition(".")
        if not cid:
            continue
        res.setdefault(cid, {})[int(k)] = body
    return res


HARNESS_BIN = HARNESS / "target" / "release" / "rxharness"
DRIVER_BIN = LEAN / ".lake" / "build" / "bin" / "rxdriver"


def _run_harness_chunk(chunk):
    """Run the harness on a chunk; if the watchdog ended it (status 17: a case blocked for ever),
    keep what was printed and re-submit the cases that had not been reached."""
    out_all, errs = "", []
    todo = list(chunk)
    for _ in range(50):
        if not todo:
            break
        text = "".join(c.text() for c in todo)
        rc, out, err = _run_bin(HARNESS_BIN, text)
        out_all += out
        if rc == 17:
            hung = None
            for line in out.splitlines():
                if line.endswith(" HANG"):
                    hung = line.split(" ")[0].rpartition(".")[0]
            ids = [c.cid for c in todo]
            if hung in ids:
                todo = todo[ids.index(hung) + 1:]
                continue
            errs.append("harness watchdog fired but no HANG line")
            break
        if rc != 0:
            errs.append(f"harness rc={rc}: {err[-2000:]}")
        break
    return out_all, errs


def run_both(cases, jobs=None):
    """Assign ids, run harness and driver on all cases, return (impl, model)."""
    jobs = jobs or JOBS
    for i, c in enumerate(cases):
        c.cid = str(i)
    # small batches (shrink candidates) are spread over the cores too: a candidate that blocks costs a
    # watchdog period, and those must not add up serially
    n = max(1, min(jobs, (len(cases) + 3) // 4))
    chunks = [cases[i::n] for i in range(n)]
    texts = ["".join(c.text() for c in ch) for ch in chunks]
    impl, model = {}, {}
    errs = []
    with cf.ThreadPoolExecutor(max_workers=jobs) as ex:
        fi = [ex.submit(_run_harness_chunk, ch) for ch in chunks]
        fm = [ex.submit(_run_bin, DRIVER_BIN, t) for t in texts]
        for f in fi:
            out, es = f.result()
            errs += es
            impl.update(parse_out(out))
        for f in fm:
            rc, out, err = f.result()
            if rc != 0:
                errs.append(f"driver rc={rc}: {err[-2000:]}")
            model.update(parse_out(out))
    return impl, model, errs


# ----------------------------------------------------------------- comparison
def compare_case(case, impl, model, project, start=0):
    """Return None if the projections agree on every event, else a description."""
    li = impl.get(case.cid, {})
    lm = model.get(case.cid, {})
    for k in range(start, len(case.events)):
        a, b = li.get(k), lm.get(k)
        if a is None and b is None:
            continue
        if a is None or b is None:
            return {"event": k, "impl": a, "model": b}
        if project(a) != project(b):
            return {"event": k, "impl": a, "model": b}
    return None


# -------------------------------------------------------------------- shrinking
def shrink(case, failing, candidates_of, max_rounds=40, max_seconds=60):
    """Greedy batch shrinking: `failing(list of cases) -> list of bool` (time-capped: the replay is then
    simply less minimal)."""
    cur = case
    t0 = time.time()
    for _ in range(max_rounds):
        if time.time() - t0 > max_seconds:
            break
        cands = candidates_of(cur)
        if not cands:
            break
        flags = failing(cands)
        nxt = None
        for c, f in zip(cands, flags):
            if f:
                nxt = c
                break
        if nxt is None:
            break
        cur = nxt
    return cur


def write_replay(pid, case, info):
    d = VERIF / "replays" / pid
    d.mkdir(parents=True, exist_ok=True)
    body = case.text(cid="r") if case is not None else ""
    h = hashlib.sha1((body + json.dumps(info, sort_keys=True)).encode()).hexdigest()[:12]
    p = d / f"{h}.case"
    hdr = "".join(f"# {k}: {v}\n" for k, v in info.items())
    p.write_text(hdr + body)
    return p


def load_known():
    p = VERIF / "known_findings.json"
    if not p.exists():
        return []
    return json.loads(p.read_text()).get("findings", [])


def write_evidence(pid, tier, seed, coverage, assumptions, wall, violations):
    d = VERIF / "evidence"
    d.mkdir(exist_ok=True)
    ev = {"property_id": pid, "tier": tier, "seed": seed, "level": "proof", "coverage": coverage,
          "assumptions": assumptions, "wall_s": round(wall, 2), "violations": violations}
    (d / f"{pid}.json").write_text(json.dumps(ev, indent=1) + "\n")
